// Package vkv holds the ordered-map reference model of a chain33 key/value backend and the
// exhaustive iterator-script comparison used by C06 (and to validate the vdb substitute).
package vkv

import (
	"bytes"
	"fmt"
	"sort"

	dbm "github.com/33cn/chain33/common/db"
	"github.com/33cn/chain33/types"
	"verif/vx"
)

// Model is a sorted map.
type Model map[string][]byte

// Keys returns the sorted keys.
func (m Model) Keys() []string {
	ks := make([]string, 0, len(m))
	for k := range m {
		ks = append(ks, k)
	}
	sort.Strings(ks)
	return ks
}

// Clone copies the model.
func (m Model) Clone() Model {
	c := Model{}
	for k, v := range m {
		c[k] = v
	}
	return c
}

// PrefixEnd is the specification of the prefix upper bound: the smallest key greater than every
// key having the prefix, nil if there is none (empty prefix or all 0xff).
func PrefixEnd(p []byte) []byte {
	for i := len(p) - 1; i >= 0; i-- {
		if p[i] < 0xff {
			e := append([]byte{}, p[:i+1]...)
			e[i]++
			return e
		}
	}
	return nil
}

// Range returns the keys of the model inside the iterator's range, ascending.
// end == nil => prefix upper bound of start; end == sentinel => unbounded; range is [start,end).
func (m Model) Range(start, end []byte) []string {
	if end == nil {
		end = PrefixEnd(start)
	} else if bytes.Equal(end, types.EmptyValue) {
		end = nil
	}
	var out []string
	for _, k := range m.Keys() {
		if start != nil && k < string(start) {
			continue
		}
		if end != nil && k >= string(end) {
			continue
		}
		out = append(out, k)
	}
	return out
}

// Step is one iterator operation: 'R' rewind, 'N' next, 'S' seek(T).
type Step struct {
	Op byte
	T  []byte
}

func (s Step) String() string {
	if s.Op == 'S' {
		return fmt.Sprintf("Seek(%q)", s.T)
	}
	if s.Op == 'R' {
		return "Rewind"
	}
	return "Next"
}

// modelStep moves the model cursor; pos == -1 means invalid.
func modelStep(l []string, rev bool, pos int, s Step) int {
	switch s.Op {
	case 'R':
		if len(l) == 0 {
			return -1
		}
		if rev {
			return len(l) - 1
		}
		return 0
	case 'N':
		if rev {
			pos--
		} else {
			pos++
		}
		if pos < 0 || pos >= len(l) {
			return -1
		}
		return pos
	default:
		t := string(s.T)
		if rev {
			p := -1
			for i, k := range l {
				if k <= t {
					p = i
				}
			}
			return p
		}
		for i, k := range l {
			if k >= t {
				return i
			}
		}
		return -1
	}
}

// Q names a byte-string parameter for messages.
func Q(b []byte) string {
	if b == nil {
		return "nil"
	}
	if bytes.Equal(b, types.EmptyValue) {
		return "UNBOUNDED"
	}
	return fmt.Sprintf("%q", b)
}

// ScriptCase is one iterator script on one content.
type ScriptCase struct {
	Backend string
	Content map[string]string
	Start   string
	End     string
	Reverse bool
	Script  []string
}

// RunScript runs one script on the real iterator and the model; returns "" or the disagreement.
func RunScript(db dbm.DB, m Model, start, end []byte, rev bool, script []Step) string {
	l := m.Range(start, end)
	it := db.Iterator(start, end, rev)
	defer it.Close()
	pos := -1
	for i, s := range script {
		var ret bool
		switch s.Op {
		case 'R':
			ret = it.Rewind()
		case 'N':
			ret = it.Next()
		default:
			ret = it.Seek(s.T)
		}
		pos = modelStep(l, rev, pos, s)
		valid := it.Valid()
		if valid != (pos >= 0) {
			return fmt.Sprintf("step %d %s: Valid()=%v, model %v (in-range keys %q)", i, s, valid, pos >= 0, l)
		}
		if s.Op != 'S' && ret != valid {
			return fmt.Sprintf("step %d %s: returned %v but Valid()=%v", i, s, ret, valid)
		}
		if pos < 0 {
			return "" // what happens after the iterator ran off is unspecified
		}
		if k := string(it.Key()); k != l[pos] {
			return fmt.Sprintf("step %d %s: at key %q, model %q (in-range keys %q)", i, s, k, l[pos], l)
		}
		if v := it.Value(); !bytes.Equal(v, m[l[pos]]) {
			return fmt.Sprintf("step %d %s: value %q, model %q", i, s, v, m[l[pos]])
		}
		if v := it.ValueCopy(); !bytes.Equal(v, m[l[pos]]) {
			return fmt.Sprintf("step %d %s: ValueCopy %q, model %q", i, s, v, m[l[pos]])
		}
	}
	return ""
}

// Scripts enumerates every script of length <= n that begins with a positioning step.
func Scripts(targets [][]byte, n int) [][]Step {
	var first, any []Step
	first = append(first, Step{Op: 'R'})
	for _, t := range targets {
		first = append(first, Step{Op: 'S', T: t})
	}
	any = append(append(any, first...), Step{Op: 'N'})
	var out [][]Step
	var rec func(cur []Step)
	rec = func(cur []Step) {
		if len(cur) > 0 {
			out = append(out, append([]Step{}, cur...))
		}
		if len(cur) == n {
			return
		}
		opts := any
		if len(cur) == 0 {
			opts = first
		}
		for _, s := range opts {
			rec(append(cur, s))
		}
	}
	rec(nil)
	return out
}

// Load makes the real database hold exactly the model's content (wipes everything else).
func Load(db dbm.DB, m Model) {
	it := db.Iterator(nil, types.EmptyValue, false)
	var ks [][]byte
	for ok := it.Rewind(); ok; ok = it.Next() {
		ks = append(ks, append([]byte{}, it.Key()...))
	}
	it.Close()
	for _, k := range ks {
		db.Delete(k)
	}
	// the empty key cannot be reached by a full scan on every backend: delete it explicitly
	db.Delete([]byte{})
	for k, v := range m {
		db.Set([]byte(k), v)
	}
}

// CheckIterators compares every iterator configuration x script on every content (each subset of
// keys, values alternate between empty and "x"). Returns the number of scripts run.
func CheckIterators(r *vx.Run, backend string, fresh func() dbm.DB, keys []string, bounds [][]byte, scriptLen int, mine func(i int) bool) {
	var tg [][]byte
	for _, k := range keys {
		tg = append(tg, []byte(k))
	}
	scripts := Scripts(tg, scriptLen)
	for mask := 0; mask < 1<<len(keys); mask++ {
		if mine != nil && !mine(mask) {
			continue
		}
		if r.Expired(backend + " iterator scripts") {
			return
		}
		m := Model{}
		for i, k := range keys {
			if mask&(1<<i) != 0 {
				if i%3 == 1 {
					m[k] = []byte{}
				} else {
					m[k] = []byte("v" + k)
				}
			}
		}
		db := fresh()
		Load(db, m)
		r.Seen("states", backend+vx.H(fmt.Sprint(m)))
		starts := append([][]byte{nil}, tg...)
		ends := append([][]byte{nil, types.EmptyValue}, bounds...)
		for _, st := range starts {
			for _, en := range ends {
				for _, rev := range []bool{false, true} {
					l := m.Range(st, en)
					for _, sc := range scripts {
						r.Count("transitions", int64(len(sc)))
						r.Count("executions", 1)
						if f := RunScript(db, m, st, en, rev, sc); f != "" {
							var names []string
							for _, s := range sc {
								names = append(names, s.String())
							}
							cm := map[string]string{}
							for k, v := range m {
								cm[k] = string(v)
							}
							kase := ScriptCase{backend, cm, Q(st), Q(en), rev, names}
							fp := fmt.Sprintf("%s:iter:rev=%v:%s", backend, rev, vx.Norm(f, 40))
							if backend == "gobadgerdb" {
								fp = BadgerClass(m, st, en, rev, f)
							}
							mm, sst, een, rrev, ssc := m.Clone(), st, en, rev, sc
							r.Violate(fp, fmt.Sprintf("%s: content %q Iterator(%s,%s,reverse=%v) %v: %s", backend, m.Keys(), Q(st), Q(en), rev, names, f), kase, func() string {
								Load(db, mm)
								return RunScript(db, mm, sst, een, rrev, ssc)
							})
							Load(db, m)
						}
					}
					r.Seen("outcomes", fmt.Sprintf("%s/n=%d/rev=%v", backend, len(l), rev))
				}
			}
		}
	}
}

// BadgerClass classifies a Badger disagreement: is the key the iterator wrongly stands on (or
// wrongly reports) exactly the exclusive end of the range?
func BadgerClass(m Model, start, end []byte, rev bool, f string) string {
	e := end
	if e == nil {
		e = PrefixEnd(start)
	} else if bytes.Equal(e, types.EmptyValue) {
		e = nil
	}
	if e != nil {
		if _, ok := m[string(e)]; ok {
			return fmt.Sprintf("gobadgerdb:iter:key-equal-to-exclusive-end-is-visited:rev=%v", rev)
		}
	}
	return fmt.Sprintf("gobadgerdb:iter:rev=%v:%s", rev, vx.Norm(f, 40))
}
