package vnode

import (
	"fmt"
	"sort"
	"strings"

	dbm "github.com/33cn/chain33/common/db"
	mavl "github.com/33cn/chain33/system/store/mavl/db"
	"github.com/33cn/chain33/types"
)

// View is the canonical form of everything a node answers about its persisted chain.
type View map[string]string

func enc(m types.Message) string { return string(types.Encode(m)) }

// encDetail encodes a block detail without the MainHash/MainHeight annotation: on a non-parachain
// node these always equal the block's own hash and height and are present only when the block was
// loaded from the database rather than from the in-memory cache.
func encDetail(d *types.BlockDetail) string {
	if d == nil || d.Block == nil {
		return "nil"
	}
	c := types.Clone(d).(*types.BlockDetail)
	c.Block.MainHash, c.Block.MainHeight = nil, 0
	// the state write set and previous state hash are attached only to details still in the cache
	c.KV, c.PrevStatusHash = nil, nil
	return enc(c)
}

// Observe asks the public query functions of the blockchain module: hash and block detail (with
// receipts) at every height, last header, total difficulty of every main-chain block, lookup of
// every given transaction, and the full key/value content of the state at the tip.
func (n *Node) Observe(txs [][]byte) View {
	v := View{}
	c := n.Chain
	h := c.GetBlockHeight()
	v["height"] = fmt.Sprint(h)
	if lh, err := c.ProcGetLastHeaderMsg(); err == nil {
		v["lastheader"] = enc(lh)
	} else {
		v["lastheader"] = "ERR " + err.Error()
	}
	for i := int64(0); i <= h; i++ {
		rh, err := c.ProcGetBlockHash(&types.ReqInt{Height: i})
		if err != nil {
			v[fmt.Sprint("hash@", i)] = "ERR " + err.Error()
			continue
		}
		v[fmt.Sprint("hash@", i)] = string(rh.Hash)
		d, err := c.GetBlock(i)
		if err != nil {
			v[fmt.Sprint("block@", i)] = "ERR " + err.Error()
		} else {
			v[fmt.Sprint("block@", i)] = encDetail(d)
		}
		td, err := c.GetStore().GetTdByBlockHash(rh.Hash)
		if err != nil {
			v[fmt.Sprint("td@", i)] = "ERR " + err.Error()
		} else {
			v[fmt.Sprint("td@", i)] = td.String()
		}
		bh, err := c.GetBlockByHashes([][]byte{rh.Hash})
		if err != nil || len(bh.Items) != 1 || bh.Items[0] == nil {
			v[fmt.Sprint("byhash@", i)] = fmt.Sprint("ERR ", err)
		} else {
			v[fmt.Sprint("byhash@", i)] = encDetail(bh.Items[0])
		}
	}
	// a height above the tip must not resolve
	if _, err := c.ProcGetBlockHash(&types.ReqInt{Height: h + 1}); err == nil {
		v["hash@tip+1"] = "resolves"
	}
	for i, tx := range txs {
		d, err := c.ProcQueryTxMsg(tx)
		if err != nil {
			v[fmt.Sprint("tx#", i)] = "absent"
		} else {
			v[fmt.Sprint("tx#", i)] = fmt.Sprintf("h=%d i=%d %s", d.Height, d.Index, enc(d.Receipt))
		}
	}
	if lh, err := c.ProcGetLastHeaderMsg(); err == nil {
		for k, val := range n.StateAt(lh.StateHash) {
			v["state:"+k] = val
		}
	}
	return v
}

// StateAt reads the full content of one committed state root from the node's store database.
func (n *Node) StateAt(root []byte) map[string]string {
	out := map[string]string{}
	db := n.DB("store")
	if db == nil {
		return out
	}
	func() {
		defer func() {
			if e := recover(); e != nil {
				out["PANIC"] = fmt.Sprint(e)
			}
		}()
		mavl.IterateRangeByStateHash(db, root, nil, nil, true, nil, func(k, v []byte) bool {
			out[string(k)] = string(v)
			return false
		})
	}()
	return out
}

// Diff lists the keys whose answers differ (sorted, at most max).
func (v View) Diff(w View, max int) []string {
	var out []string
	seen := map[string]bool{}
	for k, a := range v {
		seen[k] = true
		if b, ok := w[k]; !ok {
			out = append(out, k+": only in first")
		} else if a != b {
			out = append(out, k+": differs")
		}
	}
	for k := range w {
		if !seen[k] {
			out = append(out, k+": only in second")
		}
	}
	sort.Strings(out)
	if len(out) > max {
		out = out[:max]
	}
	return out
}

// Family names the key family of a blockchain-database key (text before the first ':' or '-',
// with digits removed).
func Family(k []byte) string {
	s := string(k)
	for i, c := range s {
		if c == ':' || c == '-' {
			return s[:i+1]
		}
		if c < 32 || c > 126 {
			return s[:i] + "…"
		}
	}
	if len(s) > 24 {
		return s[:24]
	}
	return s
}

// DumpDiff compares two database dumps and returns, per key family, how many keys are only in a,
// only in b, or differ.
func DumpDiff(a, b []dbm.VOp) map[string][3]int {
	ma := map[string]string{}
	for _, op := range a {
		ma[string(op.K)] = string(op.V)
	}
	out := map[string][3]int{}
	seen := map[string]bool{}
	for _, op := range b {
		k := string(op.K)
		seen[k] = true
		f := Family(op.K)
		c := out[f]
		if va, ok := ma[k]; !ok {
			c[1]++
		} else if va != string(op.V) {
			c[2]++
		}
		out[f] = c
	}
	for k := range ma {
		if !seen[k] {
			f := Family([]byte(k))
			c := out[f]
			c[0]++
			out[f] = c
		}
	}
	for f, c := range out {
		if c == [3]int{} {
			delete(out, f)
		}
	}
	return out
}

// FmtDiff renders a DumpDiff.
func FmtDiff(d map[string][3]int) string {
	var fs []string
	for f := range d {
		fs = append(fs, f)
	}
	sort.Strings(fs)
	var sb strings.Builder
	for _, f := range fs {
		c := d[f]
		fmt.Fprintf(&sb, "%s(-%d +%d ~%d) ", f, c[0], c[1], c[2])
	}
	return sb.String()
}

// Explain renders the first differing part of two encoded block details (for violation messages).
func Explain(a, b string) string {
	var x, y types.BlockDetail
	if types.Decode([]byte(a), &x) != nil || types.Decode([]byte(b), &y) != nil || x.Block == nil || y.Block == nil {
		return ""
	}
	var out []string
	hx, hy := types.Clone(x.Block).(*types.Block), types.Clone(y.Block).(*types.Block)
	hx.Txs, hy.Txs = nil, nil
	if enc(hx) != enc(hy) {
		out = append(out, fmt.Sprintf("header %v vs %v", hx, hy))
	}
	for i := range x.Block.Txs {
		if i < len(y.Block.Txs) && enc(x.Block.Txs[i]) != enc(y.Block.Txs[i]) {
			out = append(out, fmt.Sprintf("tx %d: %v vs %v", i, x.Block.Txs[i], y.Block.Txs[i]))
		}
	}
	if len(x.Block.Txs) != len(y.Block.Txs) {
		out = append(out, fmt.Sprintf("%d vs %d txs", len(x.Block.Txs), len(y.Block.Txs)))
	}
	if len(x.Receipts) != len(y.Receipts) {
		out = append(out, fmt.Sprintf("%d vs %d receipts", len(x.Receipts), len(y.Receipts)))
	} else {
		for i := range x.Receipts {
			if enc(x.Receipts[i]) != enc(y.Receipts[i]) {
				out = append(out, fmt.Sprintf("receipt %d: %v vs %v", i, x.Receipts[i], y.Receipts[i]))
			}
		}
	}
	if len(x.KV) != len(y.KV) {
		out = append(out, fmt.Sprintf("%d vs %d KV", len(x.KV), len(y.KV)))
	}
	if string(x.PrevStatusHash) != string(y.PrevStatusHash) {
		out = append(out, fmt.Sprintf("prevStatusHash %x vs %x", x.PrevStatusHash, y.PrevStatusHash))
	}
	return strings.Join(out, " | ")
}
