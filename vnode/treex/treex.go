// Package treex enumerates small block trees on top of a 12-block trunk, produces the blocks once on
// a producer node, and delivers them to fresh nodes in every order (C25, C26; reused by C27-C29).
package treex

import (
	"crypto/sha256"
	"fmt"
	"math/big"
	"time"

	"github.com/33cn/chain33/common/difficulty"
	"github.com/33cn/chain33/types"
	"verif/vnode"
)

// TrunkLen is the number of blocks every tree is grown on: with nothing finalised the blockchain
// module refuses to reorganise below height 12.
const TrunkLen = 12

// Bits are the two difficulty values used (work ratio about 1 : 2).
var Bits = []uint32{0x1f00ffff, 0x1f007fff}

// Receivers are valid addresses that receive the generated transfers.
var Receivers []string

func init() {
	for i := 0; i < 5; i++ {
		h := sha256.Sum256([]byte(fmt.Sprint("treex-receiver-", i)))
		Receivers = append(Receivers, vnode.Addr(vnode.Key(fmt.Sprintf("%x", h[:]))))
	}
}

// Env is a producer node with the trunk built.
type Env struct {
	P       *vnode.Node
	Cfg     *types.Chain33Config
	Trunk   []*types.Block // trunk[0] = genesis … trunk[12]
	Snap    vnode.Snapshot // databases of a node holding exactly the trunk
	nonce   int64
	CfgEdit func(string) string
	Len     int                     // trunk length (TrunkLen unless built with NewEnvLen)
	extra   map[string]*types.Block // C26: one more block on top of a tip, built once per tip
}

// NewEnv starts the producer, builds the trunk and snapshots it.
func NewEnv(cfgEdit func(string) string) (*Env, error) { return NewEnvLen(cfgEdit, TrunkLen) }

// NewEnvLen is NewEnv with a trunk of n blocks: with n = TrunkLen-1 the first level of every tree sits
// exactly on the height from which the blockchain module reorganises (finalised height + 12).
func NewEnvLen(cfgEdit func(string) string, n int) (*Env, error) {
	e := &Env{CfgEdit: cfgEdit, Len: n}
	e.P = vnode.New(vnode.Options{CfgEdit: cfgEdit})
	e.Cfg = e.P.Cfg
	if !e.P.WaitHeight(0, 10*time.Second) {
		return nil, fmt.Errorf("producer: no genesis block")
	}
	g, err := e.P.Chain.GetBlock(0)
	if err != nil {
		return nil, err
	}
	e.Trunk = []*types.Block{g.Block}
	for i := 1; i <= e.Len; i++ {
		b, err := e.Make(e.Trunk[i-1], 1, Bits[0])
		if err != nil {
			return nil, fmt.Errorf("trunk block %d: %v", i, err)
		}
		if err := e.P.Deliver(vnode.Broadcast, b, "trunk"); err != nil {
			return nil, fmt.Errorf("trunk block %d rejected: %v", i, err)
		}
		e.Trunk = append(e.Trunk, b)
	}
	if h := e.P.Chain.GetBlockHeight(); h != int64(e.Len) {
		return nil, fmt.Errorf("trunk height %d", h)
	}
	e.Snap = e.P.Snapshot()
	return e, nil
}

// Tx makes a fresh coins transfer from the genesis account.
func (e *Env) Tx() *types.Transaction {
	e.nonce++
	return vnode.CoinsTransfer(e.Cfg, vnode.Key(vnode.GenesisKeyHex), Receivers[e.nonce%int64(len(Receivers))], 1000+e.nonce, 1000000, e.nonce, 0)
}

// Make produces a child block of parent with ntx fresh transactions.
func (e *Env) Make(parent *types.Block, ntx int, bits uint32) (*types.Block, error) {
	var txs []*types.Transaction
	for i := 0; i < ntx; i++ {
		txs = append(txs, e.Tx())
	}
	return vnode.MakeBlock(e.P, parent, txs, bits, 0)
}

// MakeWith produces a child block with the given transactions.
func (e *Env) MakeWith(parent *types.Block, txs []*types.Transaction, bits uint32, blockTime int64) (*types.Block, error) {
	return vnode.MakeBlock(e.P, parent, txs, bits, blockTime)
}

// Fresh starts a node holding exactly the trunk.
func (e *Env) Fresh() *vnode.Node {
	return vnode.New(vnode.Options{Snap: e.Snap, CfgEdit: e.CfgEdit})
}

// Shape is a rooted tree above the trunk tip: Parent[i] in {-1 (trunk tip), 0..i-1}; Bits[i] indexes Bits.
type Shape struct {
	Parent []int
	W      []int
}

func (s Shape) String() string { return fmt.Sprintf("parents%v weights%v", s.Parent, s.W) }

// Shapes enumerates all shapes with exactly n blocks and all weight assignments.
func Shapes(n int) []Shape {
	var out []Shape
	par := make([]int, n)
	var rec func(i int)
	rec = func(i int) {
		if i == n {
			for m := 0; m < 1<<n; m++ {
				w := make([]int, n)
				for k := 0; k < n; k++ {
					w[k] = (m >> k) & 1
				}
				out = append(out, Shape{Parent: append([]int{}, par...), W: w})
			}
			return
		}
		for p := -1; p < i; p++ {
			par[i] = p
			rec(i + 1)
		}
	}
	rec(0)
	return out
}

// Best returns the index of the unique heaviest tip, or -1 when the heaviest total work is shared.
func (s Shape) Best() int {
	n := len(s.Parent)
	td := make([]*big.Int, n)
	best, ties := -1, 0
	for i := 0; i < n; i++ {
		w := difficulty.CalcWork(Bits[s.W[i]])
		if s.Parent[i] >= 0 {
			td[i] = new(big.Int).Add(td[s.Parent[i]], w)
		} else {
			td[i] = w
		}
	}
	for i := 0; i < n; i++ {
		switch {
		case best < 0 || td[i].Cmp(td[best]) > 0:
			best, ties = i, 0
		case td[i].Cmp(td[best]) == 0:
			ties++
		}
	}
	if ties > 0 {
		return -1
	}
	return best
}

// Branch lists the nodes from the trunk tip to node i.
func (s Shape) Branch(i int) []int {
	var rev []int
	for ; i >= 0; i = s.Parent[i] {
		rev = append(rev, i)
	}
	for l, r := 0, len(rev)-1; l < r; l, r = l+1, r-1 {
		rev[l], rev[r] = rev[r], rev[l]
	}
	return rev
}

// Build produces the blocks of a shape on the producer.
func (e *Env) Build(s Shape) ([]*types.Block, error) {
	blocks := make([]*types.Block, len(s.Parent))
	for i, p := range s.Parent {
		parent := e.Trunk[e.Len]
		if p >= 0 {
			parent = blocks[p]
		}
		b, err := e.Make(parent, 1+i%2, Bits[s.W[i]])
		if err != nil {
			return nil, fmt.Errorf("block %d of %v: %v", i, s, err)
		}
		blocks[i] = b
	}
	return blocks, nil
}

// Perms enumerates all permutations of 0..n-1 in lexicographic order.
func Perms(n int) [][]int {
	var out [][]int
	a := make([]int, n)
	for i := range a {
		a[i] = i
	}
	var rec func(k int)
	rec = func(k int) {
		if k == n {
			out = append(out, append([]int{}, a...))
			return
		}
		for i := k; i < n; i++ {
			a[k], a[i] = a[i], a[k]
			rec(k + 1)
			a[k], a[i] = a[i], a[k]
		}
	}
	rec(0)
	return out
}

// TxHashes lists the hashes of all transactions of the blocks.
func TxHashes(blocks []*types.Block) [][]byte {
	var out [][]byte
	for _, b := range blocks {
		for _, tx := range b.Txs {
			out = append(out, tx.Hash())
		}
	}
	return out
}
