package treex

import (
	"fmt"
	"strings"

	"verif/vnode"
	"verif/vx"
)

// finShape is a main branch M1..ML on the genesis block plus one side branch that leaves the main branch after
// height fork (fork = 0: at the genesis block) and reaches height tip. All blocks have the same weight, so the
// side branch is the unique heaviest one whenever tip > L.
func finShape(L, fork, tip int) Shape {
	var s Shape
	for i := 0; i < L; i++ {
		s.Parent = append(s.Parent, i-1)
		s.W = append(s.W, 0)
	}
	for h := fork + 1; h <= tip; h++ {
		p := len(s.Parent) - 1
		if h == fork+1 {
			p = fork - 1
		}
		s.Parent = append(s.Parent, p)
		s.W = append(s.W, 0)
	}
	return s
}

// runFinalised is the part of C25/C26 with a finalised height above zero (the only part in which the words
// "at least the finalisation margin above the finalised height" of the property mean more than "height 12"):
// the main branch M1..ML is delivered in order, the finaliser's verdict for M_F arrives at every position of
// the delivery of the side branch, and the side branch (forking below, at or above F; tip F+12 or F+13, so the
// property requires it to win) is delivered parents-first, children-first, and with its first block repeated.
func runFinalised(r *vx.Run, mode string, itemp *int) {
	env, err := NewEnvLen(nil, 0)
	if err != nil {
		fmt.Println("HARNESS-ERROR", err)
		r.Note("harness error: %v", err)
		return
	}
	defer env.P.Close()
	const L = 6
	Fs := []int{2, 3, 4}
	forks := []int{0, 1, 2, 3, 4, 5}
	tips := []int{12, 13} // added to F
	if r.Quick() {
		Fs = []int{3}
		forks = []int{1, 2, 3, 4}
		tips = []int{12}
	}
	item := *itemp
	defer func() { *itemp = item }()
	for _, F := range Fs {
		for _, fork := range forks {
			for _, dt := range tips {
				item++
				if !r.Mine(item) {
					continue
				}
				if r.Expired("trees with a finalised height") {
					return
				}
				sh := finShape(L, fork, F+dt)
				blocks, err := env.Build(sh)
				if err != nil {
					r.Note("build failed: %v", err)
					continue
				}
				txs := TxHashes(blocks)
				var cr convRef
				if mode == "C25" {
					cr = reference(env, r, sh, blocks, txs)
				}
				r.Seen("trees", fmt.Sprintf("fin|%s", sh))
				m := len(blocks) - L // side blocks
				var main, fwd, rev []int
				for i := 0; i < L; i++ {
					main = append(main, i)
				}
				for i := 0; i < m; i++ {
					fwd = append(fwd, L+i)
					rev = append(rev, L+m-1-i)
				}
				type ord struct {
					side []int
					ps   []int
					kind int
				}
				all := make([]int, m+1)
				for i := range all {
					all[i] = i
				}
				ps := all
				if r.Quick() {
					ps = []int{0, 1, 2, m}
				}
				orders := []ord{
					{fwd, ps, vnode.Broadcast},
					{rev, []int{0, 1, m - 1, m}, vnode.Broadcast},
					{append(append([]int{}, fwd...), L), []int{0, 1, 2, m}, vnode.Sync},
				}
				n := 0
				for _, o := range orders {
					for _, p := range o.ps {
						c := convCase{Shape: sh, Order: append(append([]int{}, main...), o.side...), Kind: o.kind, Fin: &finAt{Block: F - 1, At: L + p}}
						n++
						r.Count("executions", 1)
						r.Count("executions_with_finalised_height", 1)
						r.Count("transitions", int64(len(c.Order)+1))
						r.Seen("states", fmt.Sprintf("fin|%s|%v|%d|%d", sh, c.Order, c.Kind, c.Fin.At))
						switch {
						case fork < F:
							r.Count("hit_fork_below_finalised", 1)
						case fork == F:
							r.Count("hit_fork_at_finalised", 1)
						default:
							r.Count("hit_fork_above_finalised", 1)
						}
						if fp, what := judgeConv(env, r, mode, c, blocks, txs, cr, true, true); fp != "" {
							r.Violate(fp, what, c, func() string {
								f, _ := judgeConv(env, r, mode, c, blocks, txs, cr, true, false)
								return f
							})
						}
					}
				}
				r.Sample(map[string]interface{}{"tree": sh.String(), "finalised_height": F, "fork_height": fork, "winner_branch": sh.Branch(sh.Best()), "executions": n})
			}
		}
	}
}

// runSmallCache is the part of C25/C26 in which blocks fall out of the node's block caches between two
// reorganisations: the node keeps only the 2 most recent blocks in its caches (defCacheSize=2, a legal
// configuration; with the default of 128 the same takes trees of more than 128 blocks). Tree: a sibling A
// of the first block of branch M, branch M of length m (m = 3..5 > cache size), a heavier branch C that forks
// at the trunk tip. Orders: whether A arrives before M1 (M then takes over by a reorganisation) or after it
// (M grows in line), and C parents-first or children-first; every order ends with all of C delivered.
func runSmallCache(r *vx.Run, mode string, itemp *int) {
	edit := func(s string) string { return strings.Replace(s, "defCacheSize=128\n", "defCacheSize=2\n", 1) }
	env, err := NewEnvLen(edit, TrunkLen)
	if err != nil {
		fmt.Println("HARNESS-ERROR", err)
		r.Note("harness error: %v", err)
		return
	}
	defer env.P.Close()
	if !strings.Contains(vnode.CfgString(edit), "defCacheSize=2\n") {
		r.Note("small-cache part: the configuration has no defCacheSize line to edit; part skipped")
		return
	}
	item := *itemp
	defer func() { *itemp = item }()
	ms := []int{3, 4}
	if !r.Quick() {
		ms = []int{3, 4, 5, 6}
	}
	for _, m := range ms {
		item++
		if !r.Mine(item) || r.Expired("small-cache trees") {
			continue
		}
		// indices: 0 = A (sibling of M1), 1..m = M1..Mm, m+1.. = C1..Cc (double weight each), c = smallest with 2c > m
		var sh Shape
		sh.Parent = append(sh.Parent, -1)
		sh.W = append(sh.W, 0)
		for i := 0; i < m; i++ {
			p := i // parent index of M(i+1): M(i) = index i; M1's parent is the trunk tip
			if i == 0 {
				p = -1
			}
			sh.Parent = append(sh.Parent, p)
			sh.W = append(sh.W, 0)
		}
		c := m/2 + 1
		for i := 0; i < c; i++ {
			p := m + i
			if i == 0 {
				p = -1
			}
			sh.Parent = append(sh.Parent, p)
			sh.W = append(sh.W, 1)
		}
		if sh.Best() != m+c {
			r.Note("small-cache part: branch C is not the unique heaviest for m=%d; skipped", m)
			continue
		}
		blocks, err := env.Build(sh)
		if err != nil {
			r.Note("build failed: %v", err)
			continue
		}
		txs := TxHashes(blocks)
		var cr convRef
		if mode == "C25" {
			cr = reference(env, r, sh, blocks, txs)
		}
		r.Seen("trees", fmt.Sprintf("smallcache|%s", sh))
		var M, Cf, Cr []int
		for i := 1; i <= m; i++ {
			M = append(M, i)
		}
		for i := 0; i < c; i++ {
			Cf = append(Cf, m+1+i)
			Cr = append(Cr, m+c-i)
		}
		var orders [][]int
		for _, cs := range [][]int{Cf, Cr} {
			orders = append(orders, append(append([]int{0}, M...), cs...))           // A first: M1 ties and stays aside, M2 reorganises
			orders = append(orders, append(append([]int{1, 0}, M[1:]...), cs...))    // M in line, A a side block
			orders = append(orders, append(append(append([]int{}, M...), 0), cs...)) // A last before C
			orders = append(orders, append(append([]int{0, 2, 1}, M[2:]...), cs...)) // M2 as an orphan before M1
		}
		for _, ord := range orders {
			cse := convCase{Shape: sh, Order: ord, Kind: vnode.Broadcast, SmallCache: true}
			r.Count("executions", 1)
			r.Count("executions_with_small_block_cache", 1)
			r.Count("transitions", int64(len(ord)))
			r.Seen("states", fmt.Sprintf("smallcache|%s|%v", sh, ord))
			if fp, what := judgeConv(env, r, mode, cse, blocks, txs, cr, true, true); fp != "" {
				r.Violate(fp, "block caches of 2 entries: "+what, cse, func() string {
					f, _ := judgeConv(env, r, mode, cse, blocks, txs, cr, true, false)
					return f
				})
			}
		}
		r.Sample(map[string]interface{}{"tree": sh.String(), "block_cache_entries": 2, "winner_branch": sh.Branch(sh.Best()), "executions": len(orders)})
	}
}
