package treex

import (
	"fmt"

	"verif/vnode"
	"verif/vx"
)

// finShape is a main branch M1..ML on the genesis block plus one side branch that leaves the main branch after
// height fork (fork = 0: at the genesis block) and reaches height tip. All blocks have the same weight, so the
// side branch is the unique heaviest one whenever tip > L.
func finShape(L, fork, tip int) Shape {
	var s Shape
	for i := 0; i < L; i++ {
		s.Parent = append(s.Parent, i-1)
		s.W = append(s.W, 0)
	}
	for h := fork + 1; h <= tip; h++ {
		p := len(s.Parent) - 1
		if h == fork+1 {
			p = fork - 1
		}
		s.Parent = append(s.Parent, p)
		s.W = append(s.W, 0)
	}
	return s
}

// runFinalised is the part of C25/C26 with a finalised height above zero (the only part in which the words
// "at least the finalisation margin above the finalised height" of the property mean more than "height 12"):
// the main branch M1..ML is delivered in order, the finaliser's verdict for M_F arrives at every position of
// the delivery of the side branch, and the side branch (forking below, at or above F; tip F+12 or F+13, so the
// property requires it to win) is delivered parents-first, children-first, and with its first block repeated.
func runFinalised(r *vx.Run, mode string, itemp *int) {
	env, err := NewEnvLen(nil, 0)
	if err != nil {
		fmt.Println("HARNESS-ERROR", err)
		r.Note("harness error: %v", err)
		return
	}
	defer env.P.Close()
	const L = 6
	Fs := []int{2, 3, 4}
	forks := []int{0, 1, 2, 3, 4, 5}
	tips := []int{12, 13} // added to F
	if r.Quick() {
		Fs = []int{3}
		forks = []int{1, 2, 3, 4}
		tips = []int{12}
	}
	item := *itemp
	defer func() { *itemp = item }()
	for _, F := range Fs {
		for _, fork := range forks {
			for _, dt := range tips {
				item++
				if !r.Mine(item) {
					continue
				}
				if r.Expired("trees with a finalised height") {
					return
				}
				sh := finShape(L, fork, F+dt)
				blocks, err := env.Build(sh)
				if err != nil {
					r.Note("build failed: %v", err)
					continue
				}
				txs := TxHashes(blocks)
				var cr convRef
				if mode == "C25" {
					cr = reference(env, r, sh, blocks, txs)
				}
				r.Seen("trees", fmt.Sprintf("fin|%s", sh))
				m := len(blocks) - L // side blocks
				var main, fwd, rev []int
				for i := 0; i < L; i++ {
					main = append(main, i)
				}
				for i := 0; i < m; i++ {
					fwd = append(fwd, L+i)
					rev = append(rev, L+m-1-i)
				}
				type ord struct {
					side []int
					ps   []int
					kind int
				}
				all := make([]int, m+1)
				for i := range all {
					all[i] = i
				}
				ps := all
				if r.Quick() {
					ps = []int{0, 1, 2, m}
				}
				orders := []ord{
					{fwd, ps, vnode.Broadcast},
					{rev, []int{0, 1, m - 1, m}, vnode.Broadcast},
					{append(append([]int{}, fwd...), L), []int{0, 1, 2, m}, vnode.Sync},
				}
				n := 0
				for _, o := range orders {
					for _, p := range o.ps {
						c := convCase{Shape: sh, Order: append(append([]int{}, main...), o.side...), Kind: o.kind, Fin: &finAt{Block: F - 1, At: L + p}}
						n++
						r.Count("executions", 1)
						r.Count("executions_with_finalised_height", 1)
						r.Count("transitions", int64(len(c.Order)+1))
						r.Seen("states", fmt.Sprintf("fin|%s|%v|%d|%d", sh, c.Order, c.Kind, c.Fin.At))
						switch {
						case fork < F:
							r.Count("hit_fork_below_finalised", 1)
						case fork == F:
							r.Count("hit_fork_at_finalised", 1)
						default:
							r.Count("hit_fork_above_finalised", 1)
						}
						if fp, what := judgeConv(env, r, mode, c, blocks, txs, cr, true, true); fp != "" {
							r.Violate(fp, what, c, func() string {
								f, _ := judgeConv(env, r, mode, c, blocks, txs, cr, true, false)
								return f
							})
						}
					}
				}
				r.Sample(map[string]interface{}{"tree": sh.String(), "finalised_height": F, "fork_height": fork, "winner_branch": sh.Branch(sh.Best()), "executions": n})
			}
		}
	}
}
