package treex

import (
	"bytes"
	"encoding/json"
	"fmt"
	"math/big"
	"strings"
	"time"

	"github.com/33cn/chain33/common/address"
	dbm "github.com/33cn/chain33/common/db"
	"github.com/33cn/chain33/common/difficulty"
	"github.com/33cn/chain33/types"
	"verif/vnode"
	"verif/vx"
)

func chainOf(n *vnode.Node) []string {
	var out []string
	h := n.Chain.GetBlockHeight()
	for i := int64(0); i <= h; i++ {
		rh, err := n.Chain.ProcGetBlockHash(&types.ReqInt{Height: i})
		if err != nil {
			out = append(out, "ERR")
			continue
		}
		out = append(out, string(rh.Hash))
	}
	return out
}

func isPrefix(p, c []string) bool {
	if len(p) > len(c) {
		return false
	}
	for i := range p {
		if p[i] != c[i] {
			return false
		}
	}
	return true
}

type crashCtx struct {
	env    *Env
	byHash map[string]*types.Block
}

// consistent is the C29 oracle on a restarted node: height, last block, height->hash index, tx
// index and total difficulties agree with each other and the tip's state is fully readable.
func (cc *crashCtx) consistent(n *vnode.Node, chain []string) string {
	c := n.Chain
	h := c.GetBlockHeight()
	if int64(len(chain)) != h+1 {
		return "height index shorter than the stored height"
	}
	lh, err := c.ProcGetLastHeaderMsg()
	if err != nil {
		return "last header unreadable: " + err.Error()
	}
	if lh.Height != h || string(lh.Hash) != chain[h] {
		return fmt.Sprintf("last header (height %d) is not the block the height index names at the stored height %d", lh.Height, h)
	}
	var prevTD *big.Int
	onChain := map[string]bool{}
	for i := int64(0); i <= h; i++ {
		if chain[i] == "ERR" {
			return fmt.Sprintf("height %d (<= stored height %d) has no hash", i, h)
		}
		onChain[chain[i]] = true
		d, err := c.GetBlock(i)
		if err != nil || d == nil || d.Block == nil {
			return fmt.Sprintf("block at height %d unreadable: %v", i, err)
		}
		if string(d.Block.Hash(n.Cfg)) != chain[i] {
			return fmt.Sprintf("block stored at height %d does not have the hash the height index names", i)
		}
		if i > 0 && string(d.Block.ParentHash) != chain[i-1] {
			return fmt.Sprintf("block at height %d does not extend the block at height %d", i, i-1)
		}
		if len(d.Receipts) != len(d.Block.Txs) {
			return fmt.Sprintf("block at height %d has %d transactions and %d receipts", i, len(d.Block.Txs), len(d.Receipts))
		}
		td, err := c.GetStore().GetTdByBlockHash([]byte(chain[i]))
		if err != nil {
			return fmt.Sprintf("total difficulty of the block at height %d missing: %v", i, err)
		}
		if prevTD != nil {
			want := new(big.Int).Add(prevTD, difficulty.CalcWork(d.Block.Difficulty))
			if want.Cmp(td) != 0 {
				return fmt.Sprintf("total difficulty at height %d is not parent's plus the block's work", i)
			}
		}
		prevTD = td
		for ti, tx := range d.Block.Txs {
			r, err := c.ProcQueryTxMsg(tx.Hash())
			if err != nil {
				return fmt.Sprintf("transaction %d of the main-chain block at height %d is not in the transaction index: %v", ti, i, err)
			}
			if r.Height != i || r.Index != int64(ti) {
				return fmt.Sprintf("transaction index places tx %d of height %d at height %d index %d", ti, i, r.Height, r.Index)
			}
		}
	}
	// transactions of known blocks that are not on the chain must not be indexed
	for bh, b := range cc.byHash {
		if onChain[bh] {
			continue
		}
		for _, tx := range b.Txs {
			if r, err := c.ProcQueryTxMsg(tx.Hash()); err == nil {
				// the same tx may legitimately be on the chain in another block
				if int(r.Height) < len(chain) {
					if d, err := c.GetBlock(r.Height); err == nil && int(r.Index) < len(d.Block.Txs) && string(d.Block.Txs[r.Index].Hash()) == string(tx.Hash()) {
						continue
					}
				}
				return fmt.Sprintf("transaction index still holds a transaction of a block that is not on the chain (height %d)", b.Height)
			}
		}
	}
	st := n.StateAt(lh.StateHash)
	if p, ok := st["PANIC"]; ok {
		return "tip state not readable: " + p
	}
	if len(st) == 0 {
		return "tip state is empty or its root is missing"
	}
	return ""
}

// RunCrash is the body of C29: for every history (tree x delivery order) and every crash point
// (number of durable write units after which the process is dead), restart and judge.
func RunCrash(r *vx.Run, maxN int) {
	// -replay: only the recorded (tree, order, crash point) is run
	onlyShape, onlyOrder, onlyC := "", "", -1
	onlyBig := false
	if raw, ok := r.Replaying(); ok {
		var c struct {
			Shape Shape `json:"shape"`
			Order []int `json:"order"`
			C     int   `json:"crash_after_units"`
			Big   bool  `json:"big_block"`
		}
		if err := json.Unmarshal(raw, &c); err != nil {
			fmt.Println("REPLAY-ERROR", err)
			return
		}
		onlyShape, onlyOrder, onlyC = c.Shape.String(), fmt.Sprint(c.Order), c.C
		onlyBig = c.Big
		if n := len(c.Shape.Parent); n > maxN {
			maxN = n
		}
	}
	env, err := NewEnv(nil)
	if err != nil {
		fmt.Println("HARNESS-ERROR", err)
		r.Note("harness error: %v", err)
		return
	}
	// all blocks are produced first; the producer is then stopped so that only the node under test writes
	type hist struct {
		sh     Shape
		blocks []*types.Block
		big    bool
	}
	var hs []hist
	for n := 1; n <= maxN; n++ {
		for _, sh := range Shapes(n) {
			// one weight assignment per parent structure and per winner is enough variety for crash points:
			// keep assignments with at most one heavy block
			heavy := 0
			for _, w := range sh.W {
				heavy += w
			}
			if heavy > 1 {
				continue
			}
			if (onlyShape != "" && sh.String() != onlyShape) || onlyBig {
				continue
			}
			blocks, err := env.Build(sh)
			if err != nil {
				r.Note("build failed: %v", err)
				continue
			}
			hs = append(hs, hist{sh, blocks, false})
		}
	}
	// one history with a block near the size limits: 110 transactions of 95 KB (more than 10 MB of transaction
	// index records in the block's connect batch) followed by an ordinary block
	if onlyShape == "" || onlyBig {
		var txs []*types.Transaction
		for i := 0; i < 110; i++ {
			env.nonce++
			tx := &types.Transaction{Execer: []byte("none"), Payload: bytes.Repeat([]byte{byte(i)}, 95000), Fee: 20000000, To: address.ExecAddress("none"), Nonce: env.nonce, ChainID: env.Cfg.GetChainID()}
			tx.Sign(types.SECP256K1, vnode.Key(vnode.GenesisKeyHex))
			txs = append(txs, tx)
		}
		bigB, err := env.MakeWith(env.Trunk[env.Len], txs, Bits[0], 0)
		if err != nil {
			r.Note("big block: build failed: %v", err)
		} else if small, err := env.Make(bigB, 1, Bits[0]); err != nil {
			r.Note("big block: child build failed: %v", err)
		} else {
			hs = append(hs, hist{Shape{Parent: []int{-1, 0}, W: []int{0, 0}}, []*types.Block{bigB, small}, true})
		}
	}
	env.P.Close()
	cc := &crashCtx{env: env, byHash: map[string]*types.Block{}}
	for _, b := range env.Trunk {
		cc.byHash[string(b.Hash(env.Cfg))] = b
	}
	item := 0
	if onlyShape == "" {
		item++
		if r.Mine(item) {
			genesisCrash(r, env, cc)
		}
	}
	for _, h := range hs {
		for _, b := range h.blocks {
			cc.byHash[string(b.Hash(env.Cfg))] = b
		}
		n := len(h.blocks)
		for _, order := range Perms(n) {
			if h.big && order[0] != 0 {
				continue // the large block first, then its child
			}
			item++
			if !r.Mine(item) || (onlyOrder != "" && fmt.Sprint(order) != onlyOrder) {
				continue
			}
			if h.big {
				r.Count("hit_large_block_history", 1)
			}
			if r.Expired("histories") {
				return
			}
			txs := TxHashes(h.blocks)
			// uninterrupted run: learn the write log, the chains reached and the final answers
			u := env.Fresh()
			dbm.VDBControl(true, -1)
			reached := [][]string{chainOf(u)}
			for _, i := range order {
				_ = u.Deliver(vnode.Broadcast, h.blocks[i], "peer")
				reached = append(reached, chainOf(u))
			}
			// a peer offers refused blocks again
			for _, i := range order {
				_ = u.Deliver(vnode.Broadcast, h.blocks[i], "peer")
			}
			reached = append(reached, chainOf(u))
			final := u.Observe(txs)
			u.Close()
			log := dbm.VDBControl(false, -1)
			u.Forget()
			N := len(log)
			// chains the node passed through in the middle of a delivery (orphan processing,
			// reorganisation) are read off the write log: height->hash records and the stored height
			{
				cur := map[int64]string{}
				for i, hsh := range reached[0] {
					cur[int64(i)] = hsh
				}
				last := int64(len(reached[0]) - 1)
				for _, un := range log {
					if !strings.HasSuffix(un.DB, "/blockchain") {
						continue
					}
					touched := false
					for _, op := range un.Ops {
						k := string(op.K)
						if strings.HasPrefix(k, "Height:") {
							var hh int64
							if _, err := fmt.Sscanf(k[len("Height:"):], "%d", &hh); err == nil {
								if op.Del {
									delete(cur, hh)
								} else {
									cur[hh] = string(op.V)
								}
								touched = true
							}
						}
						if k == "blockLastHeight" && !op.Del {
							var v types.Int64
							if types.Decode(op.V, &v) == nil {
								last = v.Data
								touched = true
							}
						}
					}
					if touched {
						var ch []string
						for i := int64(0); i <= last; i++ {
							ch = append(ch, cur[i])
						}
						reached = append(reached, ch)
					}
				}
			}
			r.Seen("histories", fmt.Sprintf("%s|%v|%v", h.sh, order, h.big))
			r.Seen("distinct", fmt.Sprintf("n=%d units=%d reorg=%v", n, N, len(reached[len(reached)-1]) < TrunkLen+1+n))
			for c := 0; c <= N; c++ {
				c := c
				if onlyC >= 0 && c != onlyC {
					continue
				}
				// one crash point: run the history with the process dying after c durable writes, restart, judge
				judge := func() string {
					t := env.Fresh()
					dbm.VDBControl(true, c)
					for _, i := range order {
						_ = t.Deliver(vnode.Broadcast, h.blocks[i], "peer")
					}
					t.Close()
					snap := t.Snapshot() // the history ended before the crash point: everything was written
					if img := dbm.VDBCrashImage(); img != nil {
						snap = vnode.Snapshot{"blockchain": img[t.ID+"/blockchain"], "store": img[t.ID+"/store"]}
					}
					dbm.VDBControl(false, -1)
					t.Forget()
					var bad string
					p := vx.Catch(func() {
						n2 := vnode.New(vnode.Options{Snap: snap})
						defer func() { n2.Close(); n2.Forget() }()
						chain := chainOf(n2)
						if w := cc.consistent(n2, chain); w != "" {
							bad = "inconsistent after restart: " + w
							return
						}
						ok := false
						for _, rc := range reached {
							if isPrefix(chain, rc) {
								ok = true
							}
						}
						if !ok {
							bad = "the chain after restart is neither one the uninterrupted run reached nor a prefix of one"
							return
						}
						for round := 0; round < 2; round++ {
							for _, i := range order {
								_ = n2.Deliver(vnode.Broadcast, h.blocks[i], "peer")
							}
						}
						got := n2.Observe(txs)
						if d := got.Diff(final, 5); len(d) > 0 {
							bad = "continued processing does not reach the uninterrupted final chain: " + strings.Join(d, "; ")
						}
					})
					if p != "" {
						bad = "restart " + p
					}
					return bad
				}
				bad := judge()
				if onlyC >= 0 {
					fmt.Printf("replay: crash after %d of %d writes: %q\n", c, N, bad)
				}
				r.Count("executions", 1)
				r.Count("crash_points", 1)
				r.Count("transitions", int64(c))
				kase := map[string]interface{}{"shape": h.sh, "order": order, "crash_after_units": c, "units": N}
				desc := fmt.Sprintf("tree %s, order %v, process stops after %d of %d durable writes", h.sh, order, c, N)
				if h.big {
					kase["big_block"] = true
					desc = "first block of 110 transactions x 95 KB, " + desc
				}
				where := "before-first-write"
				if c > 0 {
					fams := map[string]bool{}
					for _, op := range log[c-1].Ops {
						fams[vnode.Family(op.K)] = true
					}
					where = "after-" + strings.TrimPrefix(log[c-1].DB[strings.Index(log[c-1].DB, "/")+1:], "/") + "-write"
					if fams["blockLastHeight"] {
						where += "(connect/disconnect batch)"
					} else if fams["CHAIN-"] {
						where += "(block pre-store)"
					}
				}
				r.Seen("states", fmt.Sprintf("%s|%v|%d|%v", h.sh, order, c, h.big))
				if bad != "" {
					// the same crash point must fail the same way every time before it is believed
					r.Violate("crash:"+where+":"+vx.Norm(bad, 50), desc+" ["+where+"]: "+bad, kase, func() string { return vx.Norm(judge(), 50) })
				}
			}
			r.SampleN(5, map[string]interface{}{"tree": h.sh.String(), "order": order, "durable_write_units": N, "crash_points": N + 1})
		}
	}
}

// genesisCrash: the history starts on EMPTY databases: the node creates the genesis block and receives
// the first two trunk blocks; the process stops after every number of durable writes (so also right
// after the genesis batch, when the stored height is 0); restart, judge, continue.
func genesisCrash(r *vx.Run, env *Env, cc *crashCtx) {
	blocks := []*types.Block{env.Trunk[1], env.Trunk[2]}
	txs := TxHashes(blocks)
	run := func(dieAfter int) (*vnode.Node, [][]string) {
		dbm.VDBControl(true, dieAfter)
		n := vnode.New(vnode.Options{CfgEdit: env.CfgEdit})
		n.WaitHeight(0, 10*time.Second)
		reached := [][]string{nil, chainOf(n)}
		for _, b := range blocks {
			_ = n.Deliver(vnode.Broadcast, b, "peer")
			reached = append(reached, chainOf(n))
		}
		return n, reached
	}
	u, reached := run(-1)
	final := u.Observe(txs)
	u.Close()
	log := dbm.VDBControl(false, -1)
	u.Forget()
	N := len(log)
	r.Seen("histories", "from-empty-databases")
	for c := 0; c <= N; c++ {
		c := c
		judge := func() string {
			t, _ := run(c)
			t.Close()
			snap := t.Snapshot()
			if img := dbm.VDBCrashImage(); img != nil {
				snap = vnode.Snapshot{"blockchain": img[t.ID+"/blockchain"], "store": img[t.ID+"/store"]}
			}
			dbm.VDBControl(false, -1)
			t.Forget()
			var bad string
			p := vx.Catch(func() {
				n2 := vnode.New(vnode.Options{Snap: snap, CfgEdit: env.CfgEdit})
				defer func() { n2.Close(); n2.Forget() }()
				if !n2.WaitHeight(0, 10*time.Second) {
					bad = "after the restart the node has no block at all (height -1) and does not create one"
					return
				}
				chain := chainOf(n2)
				if w := cc.consistent(n2, chain); w != "" {
					bad = "inconsistent after restart: " + w
					return
				}
				ok := false
				for _, rc := range reached {
					if isPrefix(chain, rc) {
						ok = true
					}
				}
				if !ok {
					bad = "the chain after restart is neither one the uninterrupted run reached nor a prefix of one"
					return
				}
				for round := 0; round < 2; round++ {
					for _, b := range blocks {
						_ = n2.Deliver(vnode.Broadcast, b, "peer")
					}
				}
				if d := n2.Observe(txs).Diff(final, 5); len(d) > 0 {
					bad = "continued processing does not reach the uninterrupted final chain: " + strings.Join(d, "; ")
				}
			})
			if p != "" {
				bad = "restart " + p
			}
			return bad
		}
		bad := judge()
		r.Count("executions", 1)
		r.Count("crash_points", 1)
		r.Count("crash_points_from_empty_databases", 1)
		r.Count("transitions", int64(c))
		r.Seen("states", fmt.Sprintf("from-empty|%d", c))
		if bad != "" {
			r.Violate("crash:from-empty-databases:"+vx.Norm(bad, 50), fmt.Sprintf("node started on empty databases (genesis + 2 blocks), process stops after %d of %d durable writes: %s", c, N, bad), map[string]interface{}{"from_empty": true, "crash_after_units": c, "units": N}, func() string { return vx.Norm(judge(), 50) })
		}
	}
}
