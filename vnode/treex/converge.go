package treex

import (
	"bytes"
	"fmt"
	"strings"

	"github.com/33cn/chain33/types"
	"verif/vnode"
	"verif/vx"
)

// deliver sends the blocks in the given order (indices into blocks; an index may repeat), then
// re-sends every block the node refused (a peer would offer it again) until nothing changes.
func deliver(n *vnode.Node, blocks []*types.Block, order []int, kind int) []string {
	var notes []string
	pending := append([]int{}, order...)
	for round := 0; round < len(blocks)+2 && len(pending) > 0; round++ {
		var again []int
		for _, i := range pending {
			if err := n.Deliver(kind, blocks[i], "peer"); err != nil {
				notes = append(notes, fmt.Sprintf("b%d:%v", i, err))
				again = append(again, i)
			}
		}
		if len(again) == len(pending) {
			break
		}
		pending = again
	}
	return notes
}

// SeqReplay is the C26 oracle: sequence numbers 0..last are all present; replaying the add/delete
// records in order on an empty height->hash map yields exactly the node's best chain; the
// hash->sequence index points at the last add record of every main-chain block.
func SeqReplay(n *vnode.Node) string {
	st := n.Chain.GetStore()
	last, err := st.LoadBlockLastSequence()
	if err != nil {
		return "LoadBlockLastSequence: " + err.Error()
	}
	chain := map[int64][]byte{}
	lastAdd := map[string]int64{}
	for s := int64(0); s <= last; s++ {
		rec, err := st.GetBlockSequence(s)
		if err != nil {
			return fmt.Sprintf("sequence %d of 0..%d is missing: %v", s, last, err)
		}
		hdr, err := st.GetBlockHeaderByHash(rec.Hash)
		if err != nil {
			return fmt.Sprintf("sequence %d names an unknown block: %v", s, err)
		}
		h := hdr.Height
		switch rec.Type {
		case types.AddBlock:
			if _, ok := chain[h]; ok {
				return fmt.Sprintf("sequence %d adds a block at height %d which is still occupied", s, h)
			}
			if h > 0 {
				if p, ok := chain[h-1]; !ok || !bytes.Equal(p, hdr.ParentHash) {
					return fmt.Sprintf("sequence %d adds a block at height %d whose parent is not the block at height %d", s, h, h-1)
				}
			}
			chain[h] = rec.Hash
			lastAdd[string(rec.Hash)] = s
		case types.DelBlock:
			if cur, ok := chain[h]; !ok || !bytes.Equal(cur, rec.Hash) {
				return fmt.Sprintf("sequence %d deletes a block at height %d that is not the current one", s, h)
			}
			if _, ok := chain[h+1]; ok {
				return fmt.Sprintf("sequence %d deletes height %d below the tip", s, h)
			}
			delete(chain, h)
		default:
			return fmt.Sprintf("sequence %d has type %d", s, rec.Type)
		}
	}
	if _, err := st.GetBlockSequence(last + 1); err == nil {
		return fmt.Sprintf("a record exists beyond the last sequence %d", last)
	}
	tip := n.Chain.GetBlockHeight()
	if int64(len(chain)) != tip+1 {
		return fmt.Sprintf("replaying the sequence log gives %d blocks, the best chain has %d", len(chain), tip+1)
	}
	for h := int64(0); h <= tip; h++ {
		rh, err := n.Chain.ProcGetBlockHash(&types.ReqInt{Height: h})
		if err != nil {
			return fmt.Sprintf("best chain has no hash at height %d", h)
		}
		if !bytes.Equal(rh.Hash, chain[h]) {
			return fmt.Sprintf("replaying the sequence log gives another block at height %d than the best chain", h)
		}
		sq, err := st.GetSequenceByHash(rh.Hash)
		if err != nil || sq != lastAdd[string(rh.Hash)] {
			return fmt.Sprintf("hash->sequence of the main-chain block at height %d is %d (%v), its last add record is %d", h, sq, err, lastAdd[string(rh.Hash)])
		}
	}
	return ""
}

// dumpVerdict is the raw-database part of the C25 oracle.
func dumpVerdict(ref, got vnode.Snapshot) string {
	dd := vnode.DumpDiff(ref["blockchain"], got["blockchain"])
	for f, c := range dd {
		switch f {
		case "CHAIN-", "TD:":
			// hash-addressed storage legitimately also holds side-branch blocks: extra entries only
			if c[0] != 0 || c[2] != 0 {
				return fmt.Sprintf("chain database family %s: %d entries of the reference missing, %d different", f, c[0], c[2])
			}
		case "Seq:", "HashToSeq:", "LastSequence":
			// the sequence log records the history, not the chain (judged by C26)
		default:
			return fmt.Sprintf("chain database family %s differs from the reference node (-%d +%d ~%d)", f, c[0], c[1], c[2])
		}
	}
	return ""
}

// RunConverge is the body of C25 (mode "C25") and C26 (mode "C26").
func RunConverge(r *vx.Run, mode string, maxN int, restartAll bool) {
	env, err := NewEnv(nil)
	if err != nil {
		fmt.Println("HARNESS-ERROR", err)
		r.Note("harness error: %v", err)
		return
	}
	defer env.P.Close()
	item := 0
	for n := 1; n <= maxN; n++ {
		for _, sh := range Shapes(n) {
			best := sh.Best()
			if best < 0 && mode == "C25" {
				r.Count("trees_with_tied_tip_not_judged", 1)
				continue
			}
			item++
			if !r.Mine(item) {
				continue
			}
			if r.Expired(fmt.Sprintf("trees of %d blocks", n)) {
				return
			}
			blocks, err := env.Build(sh)
			if err != nil {
				r.Note("build failed: %v", err)
				continue
			}
			txs := TxHashes(blocks)
			var want vnode.View
			var refDump vnode.Snapshot
			if mode == "C25" {
				ref := env.Fresh()
				for _, i := range sh.Branch(best) {
					if err := ref.Deliver(vnode.Broadcast, blocks[i], "peer"); err != nil {
						r.Note("reference refused block: %v", err)
					}
				}
				want = ref.Observe(txs)
				refDump = ref.Snapshot()
				ref.Close()
				ref.Forget()
			}
			r.Seen("trees", sh.String())
			perms := Perms(n)
			for oi, order := range perms {
				for variant := 0; variant < 2; variant++ {
					ord := append([]int{}, order...)
					kind := vnode.Broadcast
					if variant == 1 {
						ord = append(ord, order[oi%n]) // one duplicated delivery
						if oi%2 == 1 {
							kind = vnode.Sync
						}
					}
					t := env.Fresh()
					notes := deliver(t, blocks, ord, kind)
					r.Count("executions", 1)
					r.Count("transitions", int64(len(ord)))
					r.Seen("states", fmt.Sprintf("%s|%v|%d", sh, ord, kind))
					kase := map[string]interface{}{"shape": sh, "order": ord, "kind": kind}
					desc := fmt.Sprintf("tree %s, delivery order %v, kind %d (refusals %v)", sh, ord, kind, notes)
					if mode == "C26" {
						r.Seen("distinct", fmt.Sprintf("n=%d refused=%d kind=%d lastseq=%d", n, len(notes), kind, lastSeq(t)))
						if w := SeqReplay(t); w != "" {
							r.Violate("seqlog:"+vx.Norm(w, 40), desc+": "+w, kase, nil)
						}
						t.Close()
						t.Forget()
						continue
					}
					got := t.Observe(txs)
					dump := t.Snapshot()
					t.Close()
					t.Forget()
					r.Seen("distinct", fmt.Sprintf("n=%d refused=%d kind=%d winner-depth=%d", n, len(notes), kind, len(sh.Branch(best))))
					if d := got.Diff(want, 6); len(d) > 0 {
						r.Violate("converge:"+vx.Norm(d[0], 30), desc+": answers differ from a fresh node that received only the winning branch: "+strings.Join(d, "; "), kase, nil)
						continue
					}
					if w := dumpVerdict(refDump, dump); w != "" {
						r.Violate("converge-db:"+vx.Norm(w, 40), desc+": "+w, kase, nil)
						continue
					}
					if restartAll || variant == 0 {
						t2 := vnode.New(vnode.Options{Snap: dump})
						got2 := t2.Observe(txs)
						t2.Close()
						t2.Forget()
						r.Count("restarts", 1)
						if d := got2.Diff(want, 6); len(d) > 0 {
							k0 := strings.SplitN(d[0], ":", 2)[0]
							r.Violate("converge-restart:"+vx.Norm(d[0], 30), desc+": after a restart the answers differ from the reference node: "+strings.Join(d, "; ")+" ["+vnode.Explain(got2[k0], want[k0])+"]", kase, nil)
						}
					}
				}
			}
			r.Sample(map[string]interface{}{"tree": sh.String(), "winner_branch": sh.Branch(best), "executions": len(perms) * 2})
		}
	}
}

func lastSeq(n *vnode.Node) int64 {
	l, _ := n.Chain.GetStore().LoadBlockLastSequence()
	return l
}
