package treex

import (
	"bytes"
	"encoding/json"
	"fmt"
	"strings"

	"github.com/33cn/chain33/types"
	"verif/vnode"
	"verif/vx"
)

// deliver sends the blocks in the given order (indices into blocks; an index may repeat), then
// re-sends every block the node refused (a peer would offer it again) until nothing changes.
func deliver(n *vnode.Node, blocks []*types.Block, order []int, kind int) []string {
	var notes []string
	pending := append([]int{}, order...)
	for round := 0; round < len(blocks)+2 && len(pending) > 0; round++ {
		var again []int
		for _, i := range pending {
			if err := n.Deliver(kind, blocks[i], "peer"); err != nil {
				notes = append(notes, fmt.Sprintf("b%d:%v", i, err))
				again = append(again, i)
			}
		}
		if len(again) == len(pending) {
			break
		}
		pending = again
	}
	return notes
}

// SeqReplay is the C26 oracle: sequence numbers 0..last are all present; replaying the add/delete
// records in order on an empty height->hash map yields exactly the node's best chain; the
// hash->sequence index points at the last add record of every main-chain block.
func SeqReplay(n *vnode.Node) string {
	st := n.Chain.GetStore()
	last, err := st.LoadBlockLastSequence()
	if err != nil {
		return "LoadBlockLastSequence: " + err.Error()
	}
	chain := map[int64][]byte{}
	lastAdd := map[string]int64{}
	for s := int64(0); s <= last; s++ {
		rec, err := st.GetBlockSequence(s)
		if err != nil {
			return fmt.Sprintf("sequence %d of 0..%d is missing: %v", s, last, err)
		}
		hdr, err := st.GetBlockHeaderByHash(rec.Hash)
		if err != nil {
			return fmt.Sprintf("sequence %d names an unknown block: %v", s, err)
		}
		// a replaying reader fetches the block of a record through LoadBlockBySequence (the push task and
		// EventGetBlockBySeq do): it must be the block the record names, also for a block that a
		// reorganisation removed and another one replaced at its height
		bd, _, err := st.LoadBlockBySequence(s)
		if err != nil || bd == nil || bd.Block == nil {
			return fmt.Sprintf("sequence %d: the block of the record cannot be loaded by sequence: %v", s, err)
		}
		if !bytes.Equal(bd.Block.Hash(n.Cfg), rec.Hash) {
			return fmt.Sprintf("sequence %d: loading the block by sequence returns another block (height %d) than the record names (height %d)", s, bd.Block.Height, hdr.Height)
		}
		h := hdr.Height
		switch rec.Type {
		case types.AddBlock:
			if _, ok := chain[h]; ok {
				return fmt.Sprintf("sequence %d adds a block at height %d which is still occupied", s, h)
			}
			if h > 0 {
				if p, ok := chain[h-1]; !ok || !bytes.Equal(p, hdr.ParentHash) {
					return fmt.Sprintf("sequence %d adds a block at height %d whose parent is not the block at height %d", s, h, h-1)
				}
			}
			chain[h] = rec.Hash
			lastAdd[string(rec.Hash)] = s
		case types.DelBlock:
			if cur, ok := chain[h]; !ok || !bytes.Equal(cur, rec.Hash) {
				return fmt.Sprintf("sequence %d deletes a block at height %d that is not the current one", s, h)
			}
			if _, ok := chain[h+1]; ok {
				return fmt.Sprintf("sequence %d deletes height %d below the tip", s, h)
			}
			delete(chain, h)
		default:
			return fmt.Sprintf("sequence %d has type %d", s, rec.Type)
		}
	}
	if _, err := st.GetBlockSequence(last + 1); err == nil {
		return fmt.Sprintf("a record exists beyond the last sequence %d", last)
	}
	tip := n.Chain.GetBlockHeight()
	if int64(len(chain)) != tip+1 {
		return fmt.Sprintf("replaying the sequence log gives %d blocks, the best chain has %d", len(chain), tip+1)
	}
	for h := int64(0); h <= tip; h++ {
		rh, err := n.Chain.ProcGetBlockHash(&types.ReqInt{Height: h})
		if err != nil {
			return fmt.Sprintf("best chain has no hash at height %d", h)
		}
		if !bytes.Equal(rh.Hash, chain[h]) {
			return fmt.Sprintf("replaying the sequence log gives another block at height %d than the best chain", h)
		}
		sq, err := st.GetSequenceByHash(rh.Hash)
		if err != nil || sq != lastAdd[string(rh.Hash)] {
			return fmt.Sprintf("hash->sequence of the main-chain block at height %d is %d (%v), its last add record is %d", h, sq, err, lastAdd[string(rh.Hash)])
		}
	}
	return ""
}

// dumpVerdict is the raw-database part of the C25 oracle.
func dumpVerdict(ref, got vnode.Snapshot) string {
	dd := vnode.DumpDiff(ref["blockchain"], got["blockchain"])
	for f, c := range dd {
		switch f {
		case "CHAIN-", "TD:":
			// hash-addressed storage legitimately also holds side-branch blocks: extra entries only
			if c[0] != 0 || c[2] != 0 {
				return fmt.Sprintf("chain database family %s: %d entries of the reference missing, %d different", f, c[0], c[2])
			}
		case "Seq:", "HashToSeq:", "LastSequence":
			// the sequence log records the history, not the chain (judged by C26)
		case "blockchain-":
			// blockchain-snowchoice: the finaliser's own record (the reference node was never told anything is final)
		default:
			return fmt.Sprintf("chain database family %s differs from the reference node (-%d +%d ~%d)", f, c[0], c[1], c[2])
		}
	}
	return ""
}

// convCase is one execution of C25/C26: a tree, a delivery order (indices may repeat) and the
// kind of delivery.
type convCase struct {
	Shape Shape  `json:"shape"`
	Order []int  `json:"order"`
	Kind  int    `json:"kind"`
	Trunk int    `json:"trunk,omitempty"` // trunk length when it is not TrunkLen
	Fin   *finAt `json:"finalise,omitempty"`
	// SmallCache: the node keeps 2 blocks in its caches (defCacheSize=2)
	SmallCache bool `json:"small_cache,omitempty"`
}

// finAt places the finaliser's verdict in a delivery: before Order[At] is delivered, block Block (which the
// deliveries so far have put on the best chain) is declared final. The tree then grows on the genesis block.
type finAt struct {
	Block int `json:"block"`
	At    int `json:"at"`
}

type convRef struct {
	want    vnode.View
	refDump vnode.Snapshot
}

// reference runs the C25 reference node (only the winning branch, in order).
func reference(env *Env, r *vx.Run, sh Shape, blocks []*types.Block, txs [][]byte) convRef {
	ref := env.Fresh()
	for _, i := range sh.Branch(sh.Best()) {
		if err := ref.Deliver(vnode.Broadcast, blocks[i], "peer"); err != nil {
			r.Note("reference refused block: %v", err)
		}
	}
	cr := convRef{ref.Observe(txs), ref.Snapshot()}
	ref.Close()
	ref.Forget()
	return cr
}

// judgeConv runs one case on a fresh node and returns (fingerprint, description) of the failure,
// or "" "" when the property held.
func judgeConv(env *Env, r *vx.Run, mode string, c convCase, blocks []*types.Block, txs [][]byte, cr convRef, restart bool, count bool) (string, string) {
	sh := c.Shape
	n := len(blocks)
	t := env.Fresh()
	var notes []string
	desc := ""
	if c.Fin != nil {
		notes = deliver(t, blocks, c.Order[:c.Fin.At], c.Kind)
		fb := blocks[c.Fin.Block]
		took, err := t.Finalise(fb.Height, fb.Hash(env.Cfg))
		if err != nil {
			t.Close()
			t.Forget()
			r.Note("finaliser verdict not recorded (case not judged): %v", err)
			r.Count("finalise_failed_not_judged", 1)
			return "", ""
		}
		if count {
			if took {
				r.Count("hit_verdict_taken", 1)
			} else {
				r.Count("hit_verdict_for_block_off_best_chain_not_taken", 1)
			}
		}
		notes = append(notes, deliver(t, blocks, c.Order[c.Fin.At:], c.Kind)...)
		desc = fmt.Sprintf("tree on genesis %s, delivery order %v with block %d (height %d) declared final before position %d, kind %d (refusals %v)", sh, c.Order, c.Fin.Block, fb.Height, c.Fin.At, c.Kind, notes)
	} else {
		notes = deliver(t, blocks, c.Order, c.Kind)
		desc = fmt.Sprintf("tree %s, delivery order %v, kind %d (refusals %v)", sh, c.Order, c.Kind, notes)
	}
	if c.Trunk != 0 {
		desc = fmt.Sprintf("trunk of %d blocks, ", c.Trunk) + desc
	}
	if mode == "C26" {
		if count {
			r.Seen("distinct", fmt.Sprintf("n=%d refused=%d kind=%d lastseq=%d", n, len(notes), c.Kind, lastSeq(t)))
		}
		w := SeqReplay(t)
		if w != "" || !restart {
			t.Close()
			t.Forget()
			if w != "" {
				return "seqlog:" + vx.Norm(w, 40), desc + ": " + w
			}
			return "", ""
		}
		// the log must also survive a restart (start-up inspects the sequence records and may regenerate them)
		// and keep replaying to the best chain when the restarted node connects one more block
		last1 := lastSeq(t)
		var tip *types.Block
		if hd, err := t.Chain.ProcGetLastHeaderMsg(); err == nil {
			for _, b := range append(append([]*types.Block{}, env.Trunk...), blocks...) {
				if bytes.Equal(b.Hash(env.Cfg), hd.Hash) {
					tip = b
				}
			}
		}
		dump := t.Snapshot()
		t.Close()
		t.Forget()
		t2 := vnode.New(vnode.Options{Snap: dump})
		defer func() { t2.Close(); t2.Forget() }()
		if count {
			r.Count("restarts", 1)
		}
		if last2 := lastSeq(t2); last2 != last1 {
			return "seqlog-restart:last-sequence-changed", desc + fmt.Sprintf(": the last sequence number is %d before a restart and %d after it", last1, last2)
		}
		if w := SeqReplay(t2); w != "" {
			return "seqlog-restart:" + vx.Norm(w, 40), desc + ": after a restart: " + w
		}
		if tip != nil {
			key := string(tip.Hash(env.Cfg))
			nb := env.extra[key]
			if nb == nil {
				if b, err := env.Make(tip, 1, Bits[0]); err == nil {
					if env.extra == nil {
						env.extra = map[string]*types.Block{}
					}
					env.extra[key] = b
					nb = b
				}
			}
			if nb != nil {
				if err := t2.Deliver(vnode.Broadcast, nb, "peer"); err == nil {
					if count {
						r.Count("blocks_connected_after_restart", 1)
					}
					if last3 := lastSeq(t2); last3 != last1+1 {
						return "seqlog-restart:next-sequence", desc + fmt.Sprintf(": the last sequence number was %d; after a restart and one more connected block it is %d", last1, last3)
					}
					if w := SeqReplay(t2); w != "" {
						return "seqlog-restart:" + vx.Norm(w, 40), desc + ": after a restart and one more connected block: " + w
					}
				}
			}
		}
		return "", ""
	}
	got := t.Observe(txs)
	dump := t.Snapshot()
	t.Close()
	t.Forget()
	if count {
		r.Seen("distinct", fmt.Sprintf("n=%d refused=%d kind=%d winner-depth=%d", n, len(notes), c.Kind, len(sh.Branch(sh.Best()))))
	}
	if d := got.Diff(cr.want, 6); len(d) > 0 {
		return "converge:" + vx.Norm(d[0], 30), desc + ": answers differ from a fresh node that received only the winning branch: " + strings.Join(d, "; ")
	}
	if w := dumpVerdict(cr.refDump, dump); w != "" {
		return "converge-db:" + vx.Norm(w, 40), desc + ": " + w
	}
	if restart {
		t2 := vnode.New(vnode.Options{Snap: dump})
		got2 := t2.Observe(txs)
		t2.Close()
		t2.Forget()
		if count {
			r.Count("restarts", 1)
		}
		if d := got2.Diff(cr.want, 6); len(d) > 0 {
			k0 := strings.SplitN(d[0], ":", 2)[0]
			return "converge-restart:" + vx.Norm(d[0], 30), desc + ": after a restart the answers differ from the reference node: " + strings.Join(d, "; ") + " [" + vnode.Explain(got2[k0], cr.want[k0]) + "]"
		}
	}
	return "", ""
}

// RunConverge is the body of C25 (mode "C25") and C26 (mode "C26").
func RunConverge(r *vx.Run, mode string, maxN int, restartAll bool) {
	item := 0
	if _, replay := r.Replaying(); replay {
		runConverge(r, mode, 1, maxN, restartAll, TrunkLen, &item)
		return
	}
	// the parts that always complete come first; the largest tree size, which runs under the wall
	// budget, comes last so that it cannot starve them
	small := maxN
	if small > 4 {
		small = 4
	}
	runConverge(r, mode, 1, small, restartAll, TrunkLen, &item)
	// the same with a trunk one block shorter: the first level of every tree is the lowest height at which
	// the node reorganises at all (finalised height + 12), so siblings there decide by weight and order
	n := maxN
	if n > 3 {
		n = 3
	}
	runConverge(r, mode, 1, n, restartAll, TrunkLen-1, &item)
	runFinalised(r, mode, &item)
	runSmallCache(r, mode, &item)
	if maxN > small {
		runConverge(r, mode, small+1, maxN, restartAll, TrunkLen, &item)
	}
}

func runConverge(r *vx.Run, mode string, minN, maxN int, restartAll bool, trunk int, itemp *int) {
	var cfgEdit func(string) string
	if raw, ok := r.Replaying(); ok {
		var c convCase
		if json.Unmarshal(raw, &c) == nil && c.Trunk != 0 {
			trunk = c.Trunk
		}
		if c.Fin != nil {
			trunk = 0
		}
		if c.SmallCache {
			cfgEdit = func(s string) string { return strings.Replace(s, "defCacheSize=128\n", "defCacheSize=2\n", 1) }
		}
	}
	env, err := NewEnvLen(cfgEdit, trunk)
	if err != nil {
		fmt.Println("HARNESS-ERROR", err)
		r.Note("harness error: %v", err)
		return
	}
	defer env.P.Close()
	if raw, ok := r.Replaying(); ok {
		var c convCase
		if err := json.Unmarshal(raw, &c); err != nil {
			fmt.Println("REPLAY-ERROR", err)
			return
		}
		blocks, err := env.Build(c.Shape)
		if err != nil {
			fmt.Println("REPLAY-ERROR build:", err)
			return
		}
		txs := TxHashes(blocks)
		var cr convRef
		if mode == "C25" {
			cr = reference(env, r, c.Shape, blocks, txs)
		}
		for i := 0; i < 5; i++ {
			fp, what := judgeConv(env, r, mode, c, blocks, txs, cr, true, true)
			r.Count("executions", 1)
			fmt.Printf("replay %d: %q %s\n", i, fp, what)
			if fp != "" {
				cc := c
				r.Violate(fp, what, cc, func() string {
					f, _ := judgeConv(env, r, mode, cc, blocks, txs, cr, true, false)
					return f
				})
			}
		}
		return
	}
	item := *itemp
	defer func() { *itemp = item }()
	for n := minN; n <= maxN; n++ {
		for _, sh := range Shapes(n) {
			best := sh.Best()
			if best < 0 && mode == "C25" {
				r.Count("trees_with_tied_tip_not_judged", 1)
				continue
			}
			item++
			if !r.Mine(item) {
				continue
			}
			if r.Expired(fmt.Sprintf("trees of %d blocks", n)) {
				return
			}
			blocks, err := env.Build(sh)
			if err != nil {
				r.Note("build failed: %v", err)
				continue
			}
			txs := TxHashes(blocks)
			var cr convRef
			if mode == "C25" {
				cr = reference(env, r, sh, blocks, txs)
			}
			r.Seen("trees", fmt.Sprintf("%d|%s", trunk, sh))
			perms := Perms(n)
			for oi, order := range perms {
				for variant := 0; variant < 2; variant++ {
					ord := append([]int{}, order...)
					kind := vnode.Broadcast
					if variant == 1 {
						ord = append(ord, order[oi%n]) // one duplicated delivery
						if oi%2 == 1 {
							kind = vnode.Sync
						}
					}
					c := convCase{Shape: sh, Order: ord, Kind: kind}
					if trunk != TrunkLen {
						c.Trunk = trunk
					}
					restart := restartAll || variant == 0
					r.Count("executions", 1)
					r.Count("transitions", int64(len(ord)))
					r.Seen("states", fmt.Sprintf("%d|%s|%v|%d", trunk, sh, ord, kind))
					if fp, what := judgeConv(env, r, mode, c, blocks, txs, cr, restart, true); fp != "" {
						// the same case must fail the same way every time before it is believed
						r.Violate(fp, what, c, func() string {
							f, _ := judgeConv(env, r, mode, c, blocks, txs, cr, restart, false)
							return f
						})
					}
				}
			}
			r.Sample(map[string]interface{}{"tree": sh.String(), "winner_branch": sh.Branch(best), "executions": len(perms) * 2})
		}
	}
}

func lastSeq(n *vnode.Node) int64 {
	l, _ := n.Chain.GetStore().LoadBlockLastSequence()
	return l
}
