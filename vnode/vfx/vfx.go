// Package vfx provides the synthetic executors of DESIGN.md §2.4: two chain33 executor drivers, "vfx" and
// "vfy", registered through the normal plugin/driver registry (pluginmgr.Register -> drivers.Register),
// whose transaction payload is a tiny program. Blocks of generated programs exercise the rollback,
// key-permission and local-data paths of the executor module that the built-in executors never reach.
//
//	vfx  runs ExecLocal at the same time as Exec (drivers.ExecLocalSameTime): its Exec may read local data,
//	     its ExecLocal writes local data during EventExecTxList (and again during EventAddBlock).
//	vfy  has the ordinary order (ExecLocal only at EventAddBlock).
//
// Both implement IsFriend with a fixed, documented policy (see Friendly).
//
// A program has two step lists: Exec (run by Driver.Exec against the state DB / local DB) and Local (run
// by Driver.ExecLocal). Everything a read step observes is carried in a receipt log of type TyLogObs, so
// that later transactions of a block report what they saw.
//
// Importing the package is enough: init() registers the plugins, executor.New initialises them once per
// process with the first configuration.
package vfx

import (
	"bytes"
	"encoding/json"
	"errors"
	"fmt"
	"strings"

	"github.com/33cn/chain33/common/address"
	"github.com/33cn/chain33/common/crypto"
	"github.com/33cn/chain33/pluginmgr"
	drivers "github.com/33cn/chain33/system/dapp"
	"github.com/33cn/chain33/types"
)

// Executor names (>= 3 characters, listed in types.AllowUserExec, as IsAllowExecName demands).
const (
	NameX = "vfx"
	NameY = "vfy"
	// TyLogObs is the receipt log type that carries the observations (JSON []Obs) of a program.
	TyLogObs = 9901
)

// Step operations.
const (
	// Exec list
	OpSet   = "set"   // state Set(K,V) and report K,V in the receipt
	OpOmit  = "omit"  // state Set(K,V) but do NOT report it
	OpEmit  = "emit"  // report K,V in the receipt without writing it
	OpGet   = "get"   // state Get(K) -> observation
	OpGetL  = "getl"  // local Get(K) -> observation
	OpList  = "list"  // local List(prefix K) -> observation (forces the buffered local writes to be saved)
	OpSetL  = "setl"  // local Set(K,V); in the Exec list the outcome (error text) is an observation; in the Local list the pair is also returned
	OpFail  = "fail"  // return an error
	OpPanic = "panic" // panic
	// Local list only
	OpOmitL = "omitl" // local Set(K,V) but do not return it
	OpEmitL = "emitl" // return K,V without setting it
)

// Step is one instruction.
type Step struct {
	Op string `json:"op"`
	K  string `json:"k,omitempty"`
	V  string `json:"v,omitempty"`
}

// Prog is the transaction payload.
type Prog struct {
	Exec  []Step `json:"e,omitempty"`
	Local []Step `json:"l,omitempty"`
	// AnyReceipt makes ExecLocal run its steps whatever the receipt type (default: only for ExecOk)
	AnyReceipt bool   `json:"any,omitempty"`
	Tag        string `json:"tag,omitempty"`
}

// Obs is what one read step saw.
type Obs struct {
	Op  string   `json:"op"`
	K   string   `json:"k"`
	V   string   `json:"v,omitempty"`
	L   []string `json:"l,omitempty"`
	Err string   `json:"err,omitempty"`
}

// ErrProg is the error a "fail" step returns.
var ErrProg = errors.New("vfx: program failed")

// FriendMark: a key is approved by vfx/vfy.IsFriend iff it contains this text (and the asking
// transaction is not itself executed under the owner's name).
const FriendMark = ":open:"

// AllowForeignPara makes both drivers accept "user.p.<any title>.<driver>" names (set by C12 only).
var AllowForeignPara bool

// Friendly is the IsFriend policy of both drivers, usable by oracles.
func Friendly(key []byte) bool { return strings.Contains(string(key), FriendMark) }

func init() {
	for _, n := range []string{NameX, NameY} {
		types.AllowUserExec = append(types.AllowUserExec, []byte(n))
	}
	pluginmgr.Register(&pluginmgr.PluginBase{Name: "verif." + NameX, ExecName: NameX, Exec: initX})
	pluginmgr.Register(&pluginmgr.PluginBase{Name: "verif." + NameY, ExecName: NameY, Exec: initY})
}

func initX(name string, cfg *types.Chain33Config, sub []byte) {
	drivers.Register(cfg, NameX, func() drivers.Driver { return newDriver(NameX, true) }, 0)
}

func initY(name string, cfg *types.Chain33Config, sub []byte) {
	drivers.Register(cfg, NameY, func() drivers.Driver { return newDriver(NameY, false) }, 0)
}

// EnsureAllowed re-adds the names to types.AllowUserExec (a configuration with an explicit fork list
// resets that list).
func EnsureAllowed() {
	for _, n := range []string{NameX, NameY} {
		found := false
		for _, a := range types.AllowUserExec {
			found = found || string(a) == n
		}
		if !found {
			types.AllowUserExec = append(types.AllowUserExec, []byte(n))
		}
	}
}

// Driver is the synthetic executor.
type Driver struct {
	drivers.DriverBase
	name     string
	sameTime bool
}

func newDriver(name string, sameTime bool) *Driver {
	d := &Driver{name: name, sameTime: sameTime}
	d.SetChild(d)
	return d
}

// GetDriverName is the registered name.
func (d *Driver) GetDriverName() string { return d.name }

// ExecutorOrder : vfx executes ExecLocal together with Exec.
func (d *Driver) ExecutorOrder() int64 {
	if d.sameTime {
		return drivers.ExecLocalSameTime
	}
	return 0
}

// Allow accepts <name>, user.<name>.<x> and the parachain forms of both.
func (d *Driver) Allow(tx *types.Transaction, index int) error {
	if d.AllowIsSame(tx.Execer) || d.AllowIsUserDot2(tx.Execer) {
		return nil
	}
	// a driver that also runs the transactions other parachains address to it (as paracross does)
	if AllowForeignPara && bytes.HasPrefix(tx.Execer, types.ParaKey) && string(types.GetParaExecName(tx.Execer)) == d.name {
		return nil
	}
	return types.ErrNotAllow
}

// IsFriend approves keys carrying FriendMark.
func (d *Driver) IsFriend(myexec, writekey []byte, othertx *types.Transaction) bool {
	return Friendly(writekey)
}

// CheckTx accepts everything (the payload is decoded in Exec).
func (d *Driver) CheckTx(tx *types.Transaction, index int) error { return nil }

func decode(tx *types.Transaction) (*Prog, error) {
	var p Prog
	if err := json.Unmarshal(tx.Payload, &p); err != nil {
		return nil, err
	}
	return &p, nil
}

func errText(err error) string {
	if err == nil {
		return ""
	}
	return err.Error()
}

func strs(bs [][]byte) []string {
	var out []string
	for _, b := range bs {
		out = append(out, string(b))
	}
	return out
}

// Exec runs the Exec list.
func (d *Driver) Exec(tx *types.Transaction, index int) (*types.Receipt, error) {
	p, err := decode(tx)
	if err != nil {
		return nil, err
	}
	r := &types.Receipt{Ty: types.ExecOk}
	var obs []Obs
	sdb, ldb := d.GetStateDB(), d.GetLocalDB()
	for _, s := range p.Exec {
		switch s.Op {
		case OpSet:
			if err := sdb.Set([]byte(s.K), []byte(s.V)); err != nil {
				return nil, err
			}
			r.KV = append(r.KV, &types.KeyValue{Key: []byte(s.K), Value: []byte(s.V)})
		case OpOmit:
			if err := sdb.Set([]byte(s.K), []byte(s.V)); err != nil {
				return nil, err
			}
		case OpEmit:
			r.KV = append(r.KV, &types.KeyValue{Key: []byte(s.K), Value: []byte(s.V)})
		case OpGet:
			v, err := sdb.Get([]byte(s.K))
			obs = append(obs, Obs{Op: s.Op, K: s.K, V: string(v), Err: errText(err)})
		case OpGetL:
			v, err := ldb.Get([]byte(s.K))
			obs = append(obs, Obs{Op: s.Op, K: s.K, V: string(v), Err: errText(err)})
		case OpList:
			l, err := ldb.List([]byte(s.K), nil, 0, 0)
			obs = append(obs, Obs{Op: s.Op, K: s.K, L: strs(l), Err: errText(err)})
		case OpSetL:
			err := ldb.Set([]byte(s.K), []byte(s.V))
			obs = append(obs, Obs{Op: s.Op, K: s.K, Err: errText(err)})
		case OpFail:
			return nil, ErrProg
		case OpPanic:
			panic("vfx: program panics")
		default:
			return nil, fmt.Errorf("vfx: unknown exec op %q", s.Op)
		}
	}
	if len(obs) > 0 {
		b, _ := json.Marshal(obs)
		r.Logs = append(r.Logs, &types.ReceiptLog{Ty: TyLogObs, Log: b})
	}
	return r, nil
}

// ExecLocal runs the Local list (only for ExecOk receipts unless the program says otherwise).
func (d *Driver) ExecLocal(tx *types.Transaction, receipt *types.ReceiptData, index int) (*types.LocalDBSet, error) {
	p, err := decode(tx)
	if err != nil {
		return nil, err
	}
	set := &types.LocalDBSet{}
	if receipt.GetTy() != types.ExecOk && !p.AnyReceipt {
		return set, nil
	}
	ldb := d.GetLocalDB()
	for _, s := range p.Local {
		switch s.Op {
		case OpSetL:
			if err := ldb.Set([]byte(s.K), []byte(s.V)); err != nil {
				return nil, err
			}
			set.KV = append(set.KV, &types.KeyValue{Key: []byte(s.K), Value: []byte(s.V)})
		case OpOmitL:
			if err := ldb.Set([]byte(s.K), []byte(s.V)); err != nil {
				return nil, err
			}
		case OpEmitL:
			set.KV = append(set.KV, &types.KeyValue{Key: []byte(s.K), Value: []byte(s.V)})
		case OpGetL:
			_, _ = ldb.Get([]byte(s.K))
		case OpList:
			_, _ = ldb.List([]byte(s.K), nil, 0, 0)
		case OpFail:
			return nil, ErrProg
		case OpPanic:
			panic("vfx: local program panics")
		default:
			return nil, fmt.Errorf("vfx: unknown local op %q", s.Op)
		}
	}
	return set, nil
}

// ExecDelLocal deletes every key the Local list returns.
func (d *Driver) ExecDelLocal(tx *types.Transaction, receipt *types.ReceiptData, index int) (*types.LocalDBSet, error) {
	p, err := decode(tx)
	if err != nil {
		return nil, err
	}
	set := &types.LocalDBSet{}
	if receipt.GetTy() != types.ExecOk && !p.AnyReceipt {
		return set, nil
	}
	for _, s := range p.Local {
		if s.Op == OpSetL || s.Op == OpEmitL {
			set.KV = append(set.KV, &types.KeyValue{Key: []byte(s.K), Value: nil})
		}
	}
	return set, nil
}

// Query is not supported.
func (d *Driver) Query(funcName string, params []byte) (types.Message, error) {
	return nil, types.ErrActionNotSupport
}

// ---- helpers for harnesses ----

// ExecAddr is the contract address of an executor name.
func ExecAddr(name string) string { return address.ExecAddress(name) }

// StateKey builds "mavl-<exec>-<rest>".
func StateKey(exec, rest string) string { return "mavl-" + exec + "-" + rest }

// LocalKey builds "LODB-<exec>-<rest>".
func LocalKey(exec, rest string) string { return "LODB-" + exec + "-" + rest }

// DepositKey builds the key of <depositor>'s area inside the coins executor for account addr.
func DepositKey(cfg *types.Chain33Config, depositor, addr string) string {
	return "mavl-" + cfg.GetCoinExec() + "-" + cfg.GetCoinSymbol() + "-exec-" + ExecAddr(depositor) + ":" + addr
}

// NewTx builds an unsigned transaction running p under executor name exec.
func NewTx(cfg *types.Chain33Config, exec string, p *Prog, fee, nonce int64) *types.Transaction {
	b, _ := json.Marshal(p)
	tx := &types.Transaction{Execer: []byte(exec), Payload: b, Fee: fee, Nonce: nonce, To: ExecAddr(exec)}
	tx.ChainID = cfg.GetChainID()
	return tx
}

// SignedTx builds and signs.
func SignedTx(cfg *types.Chain33Config, exec string, p *Prog, fee, nonce int64, priv crypto.PrivKey) *types.Transaction {
	tx := NewTx(cfg, exec, p, fee, nonce)
	tx.Sign(types.SECP256K1, priv)
	return tx
}

// Group turns unsigned transactions into a signed transaction group (the fee of the group is carried
// by the first member).
func Group(cfg *types.Chain33Config, txs []*types.Transaction, priv crypto.PrivKey) ([]*types.Transaction, error) {
	g, err := types.CreateTxGroup(txs, cfg.GetMinTxFeeRate())
	if err != nil {
		return nil, err
	}
	for i := range g.Txs {
		if err := g.SignN(i, types.SECP256K1, priv); err != nil {
			return nil, err
		}
	}
	return g.Txs, nil
}

// ObsOf extracts the observations carried by a receipt's logs.
func ObsOf(logs []*types.ReceiptLog) []Obs {
	var out []Obs
	for _, l := range logs {
		if l.Ty == TyLogObs {
			var o []Obs
			if json.Unmarshal(l.Log, &o) == nil {
				out = append(out, o...)
			}
		}
	}
	return out
}
