// Package vnode is the "mininode" of DESIGN.md §2.4: the real queue, executor, mavl store, blockchain,
// mempool and solo consensus modules of chain33 wired together on the in-memory "vdb" backend
// (overlay/common/db), with a stub p2p responder. Node-level harnesses create fresh nodes (optionally
// from a snapshot of both databases), deliver blocks through the real queue messages and compare
// database dumps and public query answers.
package vnode

import (
	"fmt"
	"strings"
	"sync/atomic"
	"time"

	"github.com/33cn/chain33/blockchain"
	"github.com/33cn/chain33/client"
	"github.com/33cn/chain33/common/address"
	"github.com/33cn/chain33/common/crypto"
	dbm "github.com/33cn/chain33/common/db"
	"github.com/33cn/chain33/common/merkle"
	"github.com/33cn/chain33/consensus"
	"github.com/33cn/chain33/executor"
	"github.com/33cn/chain33/mempool"
	"github.com/33cn/chain33/queue"
	"github.com/33cn/chain33/store"
	_ "github.com/33cn/chain33/system" // register drivers
	"github.com/33cn/chain33/system/consensus/solo"
	cty "github.com/33cn/chain33/system/dapp/coins/types"
	"github.com/33cn/chain33/types"
	"github.com/33cn/chain33/util"
)

// Snapshot is the content of a node's databases.
type Snapshot map[string][]dbm.VOp

// Node is one running mininode.
type Node struct {
	ID     string
	Cfg    *types.Chain33Config
	Q      queue.Queue
	Chain  *blockchain.BlockChain
	Exec   *executor.Executor
	Store  queue.Module
	Mem    queue.Module
	Cons   queue.Module
	Client queue.Client
	API    client.QueueProtocolAPI
	p2p    queue.Client
	closed bool
}

var seq int64

// Options configures a node.
type Options struct {
	Snap        Snapshot // start from this content instead of empty databases
	CfgEdit     func(s string) string
	CfgMutate   func(cfg *types.Chain33Config)
	NoMempool   bool
	NoConsensus bool
}

// GenesisKeyHex is the private key of the default configuration's genesis account.
const GenesisKeyHex = "CC38546E9E659D15E6B4893F0AB32A06D103931A8230B0BDE71459D2B27D6944"

// CfgString returns the configuration text used by the mininode.
func CfgString(edit func(string) string) string {
	s := types.GetDefaultCfgstring()
	s = strings.Replace(s, `driver="leveldb"`, `driver="vdb"`, -1)
	// the node does not produce blocks of its own (transactions returned to the pool by a
	// reorganisation would otherwise be mined whenever a case stalls for a poll period); harnesses
	// that want local production switch it back on (C28)
	s = strings.Replace(s, "waitTxMs=1\n", "waitTxMs=20\n", 1)
	s = strings.Replace(s, "minerstart=true\n", "minerstart=false\n", 1)
	s = strings.Replace(s, `loglevel = "debug"`, `loglevel = "crit"`, 1)
	s = strings.Replace(s, `logConsoleLevel = "info"`, `logConsoleLevel = "crit"`, 1)
	if edit != nil {
		s = edit(s)
	}
	return s
}

// New starts a node.
func New(opt Options) *Node {
	id := fmt.Sprintf("vn%d", atomic.AddInt64(&seq, 1))
	cfg := types.NewChain33Config(CfgString(opt.CfgEdit))
	m := cfg.GetModuleConfig()
	m.BlockChain.DbPath = id + "/blockchain"
	m.Store.DbPath = id + "/store"
	m.Wallet.DbPath = id + "/wallet"
	if opt.CfgMutate != nil {
		opt.CfgMutate(cfg)
	}
	for name, kvs := range opt.Snap {
		dbm.VDBPreload(id+"/"+name, kvs)
	}
	n := &Node{ID: id, Cfg: cfg}
	n.Q = queue.New("channel")
	n.Q.SetConfig(cfg)
	address.Init(m.Address)
	n.Exec = executor.New(cfg)
	n.Exec.SetQueueClient(n.Q.Client())
	n.Store = store.New(cfg)
	n.Store.SetQueueClient(n.Q.Client())
	n.Chain = blockchain.New(cfg)
	n.Chain.SetQueueClient(n.Q.Client())
	n.p2p = n.Q.Client()
	go stubP2P(n.p2p)
	if !opt.NoMempool {
		n.Mem = mempool.New(cfg)
		n.Mem.SetQueueClient(n.Q.Client())
		n.Mem.Wait()
	}
	if !opt.NoConsensus {
		n.Cons = consensus.New(cfg)
		n.Cons.SetQueueClient(n.Q.Client())
	}
	// The blockchain module starts in its fast-download mode, in which a block fetched from a peer
	// (EventSyncBlock) is parked in a temporary table instead of being processed; a goroutine started by
	// SetQueueClient leaves that mode at once on a single-mode node. A real node receives sync blocks only
	// in answer to its own requests, i.e. after that decision; the harness waits for it likewise.
	for i := 0; i < 30000 && n.Chain.GetDownloadSyncStatus() == 1; i++ {
		time.Sleep(time.Millisecond)
	}
	n.Client = n.Q.Client()
	api, err := client.New(n.Q.Client(), nil)
	if err != nil {
		panic(err)
	}
	n.API = api
	return n
}

func stubP2P(c queue.Client) {
	c.Sub("p2p")
	for msg := range c.Recv() {
		switch msg.Ty {
		case types.EventPeerInfo:
			msg.Reply(c.NewMessage("p2p", types.EventPeerList, &types.PeerList{}))
		case types.EventGetNetInfo:
			msg.Reply(c.NewMessage("p2p", types.EventPeerList, &types.NodeNetInfo{}))
		case types.EventTxBroadcast, types.EventBlockBroadcast, types.EventAddBlock:
		default:
			msg.ReplyErr("p2p stub", types.ErrNotSupport)
		}
	}
}

// WaitHeight waits until the chain reaches height h (genesis creation is asynchronous).
func (n *Node) WaitHeight(h int64, d time.Duration) bool {
	dl := time.Now().Add(d)
	for time.Now().Before(dl) {
		if n.Chain.GetBlockHeight() >= h {
			return true
		}
		time.Sleep(200 * time.Microsecond)
	}
	return false
}

// Close stops the modules (databases keep their content: Dump/SnapshotOf still work).
func (n *Node) Close() {
	if n.closed {
		return
	}
	n.closed = true
	if n.Cons != nil {
		n.Cons.Close()
		// solo's Close only logs; the base client's Close is what ends its event loop and block producer
		if c, ok := n.Cons.(*solo.Client); ok {
			// a Close that arrives before the event loop has subscribed does nothing and leaves the loop
			// (and everything it references) behind for good: make sure the loop answers first
			msg := n.Client.NewMessage("consensus", types.EventConsensusQuery, &types.ChainExecutor{Driver: "verif-no-such-driver", FuncName: "none"})
			if err := n.Client.SendTimeout(msg, true, 5*time.Second); err == nil {
				_, _ = n.Client.WaitTimeout(msg, 5*time.Second)
			}
			c.BaseClient.Close()
		}
	}
	if n.Mem != nil {
		n.Mem.Close()
	}
	n.Chain.Close()
	n.Store.Close()
	n.Exec.Close()
	n.p2p.Close()
	n.Q.Close()
}

// Forget releases the databases of a closed node.
func (n *Node) Forget() {
	for _, name := range []string{"blockchain", "store", "wallet"} {
		dbm.VDBForget(n.ID + "/" + name)
	}
}

// DB returns one of the node's databases ("blockchain", "store").
func (n *Node) DB(name string) *dbm.VDB { return dbm.VDBInstance(n.ID + "/" + name) }

// Snapshot copies both databases.
func (n *Node) Snapshot() Snapshot {
	s := Snapshot{}
	for _, name := range []string{"blockchain", "store"} {
		if d := n.DB(name); d != nil {
			s[name] = d.Dump()
		}
	}
	return s
}

// Deliver kinds.
const (
	Broadcast = iota // EventBroadcastAddBlock (a peer broadcast a new block)
	Sync             // EventSyncBlock (a block fetched from a peer)
	Self             // EventAddBlockDetail (a block produced by this node's consensus)
)

// Deliver hands a block to the blockchain module through the real queue message and returns the
// module's verdict.
func (n *Node) Deliver(kind int, blk *types.Block, pid string) error {
	var msg *queue.Message
	b := types.Clone(blk).(*types.Block)
	switch kind {
	case Broadcast:
		msg = n.Client.NewMessage("blockchain", types.EventBroadcastAddBlock, &types.BlockPid{Pid: pid, Block: b})
	case Sync:
		msg = n.Client.NewMessage("blockchain", types.EventSyncBlock, &types.BlockPid{Pid: pid, Block: b})
	default:
		msg = n.Client.NewMessage("blockchain", types.EventAddBlockDetail, &types.BlockDetail{Block: b})
	}
	if err := n.Client.Send(msg, true); err != nil {
		return err
	}
	resp, err := n.Client.Wait(msg)
	if err != nil {
		return err
	}
	switch r := resp.GetData().(type) {
	case *types.Reply:
		if !r.IsOk {
			return fmt.Errorf("%s", r.Msg)
		}
	case error:
		return r
	}
	return nil
}

// Key loads a secp256k1 private key.
func Key(hexkey string) crypto.PrivKey {
	cr, err := crypto.Load(types.GetSignName("", types.SECP256K1), -1)
	if err != nil {
		panic(err)
	}
	b, err := fromHex(hexkey)
	if err != nil {
		panic(err)
	}
	k, err := cr.PrivKeyFromBytes(b)
	if err != nil {
		panic(err)
	}
	return k
}

func fromHex(s string) ([]byte, error) {
	var out []byte
	s = strings.TrimPrefix(s, "0x")
	for i := 0; i+1 < len(s); i += 2 {
		var b byte
		if _, err := fmt.Sscanf(s[i:i+2], "%02x", &b); err != nil {
			return nil, err
		}
		out = append(out, b)
	}
	return out, nil
}

// Addr is the default-format address of a key.
func Addr(k crypto.PrivKey) string {
	return address.PubKeyToAddr(address.DefaultID, k.PubKey().Bytes())
}

// CoinsTransfer builds a signed coins transfer.
func CoinsTransfer(cfg *types.Chain33Config, from crypto.PrivKey, to string, amount, fee, nonce int64, expire int64) *types.Transaction {
	v := &cty.CoinsAction_Transfer{Transfer: &types.AssetsTransfer{Amount: amount, To: to}}
	act := &cty.CoinsAction{Value: v, Ty: cty.CoinsActionTransfer}
	tx := &types.Transaction{Execer: []byte("coins"), Payload: types.Encode(act), Fee: fee, To: to, Nonce: nonce, Expire: expire}
	tx.ChainID = cfg.GetChainID()
	tx.Sign(types.SECP256K1, from)
	return tx
}

// MakeBlock creates a child of parent holding txs, executes it on the producer node (so that the
// state hash, tx hash and receipts are the real ones) and returns it. The producer's chain is not
// advanced; its store keeps the new state.
func MakeBlock(producer *Node, parent *types.Block, txs []*types.Transaction, difficulty uint32, blockTime int64) (*types.Block, error) {
	cfg := producer.Cfg
	b := &types.Block{}
	b.Height = parent.Height + 1
	b.BlockTime = blockTime
	if blockTime == 0 {
		b.BlockTime = parent.BlockTime + 1
	}
	b.ParentHash = parent.Hash(cfg)
	b.Txs = append(b.Txs, txs...)
	if cfg.IsFork(b.Height, "ForkRootHash") {
		b.Txs = types.TransactionSort(b.Txs)
	}
	b.Difficulty = difficulty
	b.TxHash = merkle.CalcMerkleRoot(cfg, b.Height, b.Txs)
	detail, _, err := util.ExecBlock(producer.Client, parent.StateHash, b, false, true, false)
	if err != nil {
		return nil, err
	}
	return detail.Block, nil
}

// Finalise delivers the finaliser's verdict "the block hash at this height is final" through the real queue
// message (EventSnowmanAcceptBlk, handled asynchronously). The module takes it only for a block of its best
// chain: then Finalise waits until the module reports it as its last choice and returns true. For a block
// outside the best chain the module leaves its record alone; Finalise returns false.
func (n *Node) Finalise(height int64, hash []byte) (bool, error) {
	onBest := false
	if rh, err := n.Chain.ProcGetBlockHash(&types.ReqInt{Height: height}); err == nil && string(rh.Hash) == string(hash) {
		onBest = true
	}
	msg := n.Client.NewMessage("blockchain", types.EventSnowmanAcceptBlk, &types.SnowChoice{Height: height, Hash: hash})
	if err := n.Client.Send(msg, false); err != nil {
		return false, err
	}
	var got int64 = -1
	for i := 0; i < 5000; i++ {
		lc := n.Client.NewMessage("blockchain", types.EventSnowmanLastChoice, nil)
		if err := n.Client.Send(lc, true); err != nil {
			return false, err
		}
		reply, err := n.Client.Wait(lc)
		if err != nil {
			return false, err
		}
		if c, ok := reply.GetData().(*types.SnowChoice); ok {
			got = c.Height
			if got == height && string(c.Hash) == string(hash) {
				return true, nil
			}
		}
		if !onBest && i >= 5 {
			return false, nil
		}
		time.Sleep(2 * time.Millisecond)
	}
	return false, fmt.Errorf("block %d is on the best chain but the finalised height stays %d", height, got)
}
