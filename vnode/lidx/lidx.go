// Package lidx is the shared part of the C13 and C14 harnesses: a mininode configuration with every
// local-index plugin of the executor enabled (txindex, addrindex, addrfeeindex, fee, stat, mvcc), a
// 12-block trunk that funds a few accounts, deterministic builders for the transaction/block alphabet
// (coins transfers incl. self transfer, fresh receiver, failing transfer; none; manage; group of 2),
// and the observation of every local index through raw dumps and the public query functions.
package lidx

import (
	"crypto/sha256"
	"fmt"
	"strings"
	"time"

	"github.com/33cn/chain33/common/address"
	"github.com/33cn/chain33/common/crypto"
	cty "github.com/33cn/chain33/system/dapp/coins/types"
	mty "github.com/33cn/chain33/system/dapp/manage/types"
	"github.com/33cn/chain33/types"
	"verif/vnode"
	"verif/vnode/lidx/vlx"
	"verif/vnode/treex"
)

// TrunkLen is the trunk length (the blockchain module only reorganises above height 12).
const TrunkLen = treex.TrunkLen

// Fee is the fee of every generated transaction.
const Fee = 1000000

// Account roles.
const (
	G = iota // genesis account (rich)
	A        // rich, super manager of the manage executor
	B        // poor: can pay a few fees, not a large transfer
	C        // never seen on the trunk (no index entries, no counters)
	D        // receiver with history
	E        // receiver with history, sender with history
	NAcc
)

// AccName names the roles.
var AccName = []string{"G", "A", "B", "C", "D", "E"}

// Keys and Addrs of the roles.
var (
	Keys  [NAcc]crypto.PrivKey
	Addrs [NAcc]string
)

func init() {
	Keys[G] = vnode.Key(vnode.GenesisKeyHex)
	for i := A; i < NAcc; i++ {
		h := sha256.Sum256([]byte(fmt.Sprint("lidx-account-", i)))
		Keys[i] = vnode.Key(fmt.Sprintf("%x", h[:]))
	}
	for i := range Keys {
		Addrs[i] = vnode.Addr(Keys[i])
	}
}

// CfgEdit enables every local-index plugin and makes account A a super manager.
func CfgEdit(s string) string { return cfgEdit(s, true) }

// CfgEditFor returns the configuration edit with the mvcc plugin on or off (for processes that start
// a node from a snapshot of an Env).
func CfgEditFor(mvcc bool) func(string) string {
	return func(s string) string { return cfgEdit(s, mvcc) }
}

func cfgEdit(s string, mvcc bool) string {
	s = strings.Replace(s, "[exec]\nenableStat=false\nenableMVCC=false\n", fmt.Sprintf("[exec]\nenableStat=true\nenableMVCC=%v\nenableAddrFeeIndex=true\n", mvcc), 1)
	// (the mininode's solo miner is off: vnode.CfgString)
	s = strings.Replace(s, "superManager=[\n", "superManager=[\n    \""+Addrs[A]+"\",\n", 1)
	return s
}

// CfgCheck reports what of the wanted configuration is missing.
func CfgCheck(cfg *types.Chain33Config, mvcc bool) string {
	e := cfg.GetModuleConfig().Exec
	var miss []string
	if !e.EnableStat {
		miss = append(miss, "enableStat")
	}
	if e.EnableMVCC != mvcc {
		miss = append(miss, "enableMVCC")
	}
	if !e.EnableAddrFeeIndex {
		miss = append(miss, "enableAddrFeeIndex")
	}
	if e.DisableAddrIndex || e.DisableTxIndex || e.DisableFeeIndex || e.DisableExecLocal {
		miss = append(miss, "an index is disabled")
	}
	ok := false
	for _, m := range types.ConfSub(cfg, "manage").GStrList("superManager") {
		ok = ok || m == Addrs[A]
	}
	if !ok {
		miss = append(miss, "superManager")
	}
	return strings.Join(miss, ",")
}

// Env is a producer node with the trunk built.
type Env struct {
	P       *vnode.Node
	Cfg     *types.Chain33Config
	Trunk   []*types.Block
	Snap    vnode.Snapshot
	CfgEdit func(string) string
	// MVCC reports whether the mvcc plugin ([exec] enableMVCC) is on. It is switched off when the
	// tree under test cannot execute a block at height 1 with it (see MVCCNote).
	MVCC     bool
	MVCCNote string
	nonce    int64
}

// Options of NewEnv.
type Options struct {
	Extra  func(string) string // further configuration edits (applied after CfgEdit)
	NoMVCC bool                // do not even try the mvcc plugin
}

// NewEnv starts the producer, builds the trunk (funding A, B, D, E; C stays unseen) and snapshots it.
// The mvcc plugin is enabled when the tree can execute blocks with it, otherwise the environment is
// rebuilt without it.
func NewEnv(opt Options) (*Env, error) {
	if !opt.NoMVCC {
		e, err := newEnv(opt, true)
		if err == nil {
			return e, nil
		}
		if e == nil || !strings.Contains(err.Error(), "trunk block 1: ") {
			return nil, err
		}
		note := fmt.Sprintf("[exec] enableMVCC=true: %v (stateDB cannot find version 0 of the genesis state: its record is an empty value, which the transactional local DB reads as deleted); mvcc plugin switched off", err)
		e.P.Close()
		e.P.Forget()
		e, err = newEnv(opt, false)
		if e != nil {
			e.MVCCNote = note
		}
		return e, err
	}
	return newEnv(opt, false)
}

func newEnv(opt Options, mvcc bool) (*Env, error) {
	e := &Env{nonce: 1000, MVCC: mvcc}
	e.CfgEdit = func(s string) string {
		s = cfgEdit(s, mvcc)
		if opt.Extra != nil {
			s = opt.Extra(s)
		}
		return s
	}
	vlx.EnsureAllowed()
	e.P = vnode.New(vnode.Options{CfgEdit: e.CfgEdit})
	e.Cfg = e.P.Cfg
	if m := CfgCheck(e.Cfg, mvcc); m != "" {
		return nil, fmt.Errorf("configuration edit did not take: %s", m)
	}
	if !e.P.WaitHeight(0, 10*time.Second) {
		return nil, fmt.Errorf("producer: no genesis block")
	}
	g, err := e.P.Chain.GetBlock(0)
	if err != nil {
		return nil, err
	}
	e.Trunk = []*types.Block{g.Block}
	for i := 1; i <= TrunkLen; i++ {
		var txs []*types.Transaction
		switch i {
		case 1:
			txs = []*types.Transaction{e.Transfer(G, A, 500*1e8), e.Transfer(G, E, 100*1e8)}
		case 2:
			txs = []*types.Transaction{e.Transfer(G, B, 5*Fee+500), e.Transfer(A, D, 7*1e8)}
		case 3:
			txs = []*types.Transaction{e.Transfer(E, D, 3*1e8), e.Transfer(A, A, 11), e.None(E)}
		default:
			txs = []*types.Transaction{e.Transfer(G, D+i%2, int64(1000+i))}
		}
		b, err := e.Make(e.Trunk[i-1], txs, treex.Bits[0])
		if err != nil {
			return e, fmt.Errorf("trunk block %d: %v", i, err)
		}
		if len(b.Txs) != len(txs) {
			return nil, fmt.Errorf("trunk block %d: %d of %d transactions kept", i, len(b.Txs), len(txs))
		}
		if err := e.P.Deliver(vnode.Broadcast, b, "trunk"); err != nil {
			return nil, fmt.Errorf("trunk block %d rejected: %v", i, err)
		}
		e.Trunk = append(e.Trunk, b)
	}
	if h := e.P.Chain.GetBlockHeight(); h != TrunkLen {
		return nil, fmt.Errorf("trunk height %d", h)
	}
	e.Snap = e.P.Snapshot()
	return e, nil
}

// Tip is the trunk tip.
func (e *Env) Tip() *types.Block { return e.Trunk[TrunkLen] }

// Fresh starts a node holding exactly the trunk.
func (e *Env) Fresh() *vnode.Node {
	return vnode.New(vnode.Options{Snap: e.Snap, CfgEdit: e.CfgEdit})
}

// FromSnap starts a node on the given database contents.
func (e *Env) FromSnap(s vnode.Snapshot) *vnode.Node {
	return vnode.New(vnode.Options{Snap: s, CfgEdit: e.CfgEdit})
}

// Make produces a child of parent on the producer (executed, not connected). With MVCC enabled the
// parent must be a block the producer has connected.
func (e *Env) Make(parent *types.Block, txs []*types.Transaction, bits uint32) (*types.Block, error) {
	return vnode.MakeBlock(e.P, parent, txs, bits, 0)
}

func (e *Env) next() int64 { e.nonce++; return e.nonce }

// Transfer builds a signed coins transfer between two roles (fresh nonce).
func (e *Env) Transfer(from, to int, amount int64) *types.Transaction {
	return vnode.CoinsTransfer(e.Cfg, Keys[from], Addrs[to], amount, Fee, e.next(), 0)
}

func (e *Env) finish(tx *types.Transaction, from int) *types.Transaction {
	tx.Fee = Fee
	tx.Nonce = e.next()
	tx.ChainID = e.Cfg.GetChainID()
	if from >= 0 {
		tx.Sign(types.SECP256K1, Keys[from])
	}
	return tx
}

// ToExec builds a signed coins TransferToExec: the role deposits amount into its account inside the executor.
func (e *Env) ToExec(from int, exec string, amount int64) *types.Transaction {
	act := &cty.CoinsAction{Ty: cty.CoinsActionTransferToExec, Value: &cty.CoinsAction_TransferToExec{TransferToExec: &types.AssetsTransferToExec{Amount: amount, ExecName: exec, To: address.ExecAddress(exec)}}}
	tx := &types.Transaction{Execer: []byte("coins"), Payload: types.Encode(act), To: address.ExecAddress(exec)}
	return e.finish(tx, from)
}

// Withdraw builds a signed coins Withdraw: the role takes amount back out of its account inside the executor.
func (e *Env) Withdraw(from int, exec string, amount int64) *types.Transaction {
	act := &cty.CoinsAction{Ty: cty.CoinsActionWithdraw, Value: &cty.CoinsAction_Withdraw{Withdraw: &types.AssetsWithdraw{Amount: amount, ExecName: exec, To: address.ExecAddress(exec)}}}
	tx := &types.Transaction{Execer: []byte("coins"), Payload: types.Encode(act), To: address.ExecAddress(exec)}
	return e.finish(tx, from)
}

// None builds a signed transaction for the none executor.
func (e *Env) None(from int) *types.Transaction {
	tx := &types.Transaction{Execer: []byte("none"), Payload: []byte("none"), To: address.ExecAddress("none")}
	return e.finish(tx, from)
}

// Manage builds a signed manage/Modify transaction.
func (e *Env) Manage(from int, key, op, value string) *types.Transaction {
	ety := types.LoadExecutorType("manage")
	if ety == nil {
		panic("manage executor type not registered")
	}
	tx, err := ety.Create("Modify", &types.ModifyConfig{Key: key, Op: op, Value: value})
	if err != nil {
		panic(err)
	}
	tx.Execer = []byte("manage")
	tx.To = address.ExecAddress("manage")
	return e.finish(tx, from)
}

// ManageApply builds a signed manage/Apply transaction (a configuration proposal: it creates a row of
// the manage executor's local table, removed through the executor's rollback log).
func (e *Env) ManageApply(from int, key, op, value string) *types.Transaction {
	ety := types.LoadExecutorType("manage")
	if ety == nil {
		panic("manage executor type not registered")
	}
	tx, err := ety.Create("Apply", &mty.ApplyConfig{Config: &types.ModifyConfig{Key: key, Op: op, Value: value}})
	if err != nil {
		panic(err)
	}
	tx.Execer = []byte("manage")
	tx.To = address.ExecAddress("manage")
	return e.finish(tx, from)
}

// Vlx builds a signed transaction of the synthetic order-sensitive executor (package vlx).
func (e *Env) Vlx(from int, tag string) *types.Transaction {
	tx := &types.Transaction{Execer: []byte(vlx.Name), Payload: []byte(tag), To: vlx.Addr()}
	return e.finish(tx, from)
}

// rawTransfer is an unsigned coins transfer (group member).
func (e *Env) rawTransfer(to int, amount int64) *types.Transaction {
	v := &cty.CoinsAction_Transfer{Transfer: &types.AssetsTransfer{Amount: amount, To: Addrs[to]}}
	act := &cty.CoinsAction{Value: v, Ty: cty.CoinsActionTransfer}
	tx := &types.Transaction{Execer: []byte("coins"), Payload: types.Encode(act), To: Addrs[to]}
	return e.finish(tx, -1)
}

// Group builds a signed group of transfers: member i is sent by froms[i] to tos[i].
func (e *Env) Group(froms, tos []int, amounts []int64) []*types.Transaction {
	var raw []*types.Transaction
	for i := range froms {
		raw = append(raw, e.rawTransfer(tos[i], amounts[i]))
	}
	g, err := types.CreateTxGroup(raw, e.Cfg.GetMinTxFeeRate())
	if err != nil {
		panic(err)
	}
	// CreateTxGroup moves the members' fees (Fee each) to the head
	for i := range froms {
		if err := g.SignN(i, types.SECP256K1, Keys[froms[i]]); err != nil {
			panic(err)
		}
	}
	return g.Txs
}
