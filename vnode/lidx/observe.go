package lidx

import (
	"fmt"
	"sort"
	"strings"

	dbm "github.com/33cn/chain33/common/db"
	"github.com/33cn/chain33/types"
	"verif/vnode"
)

// Excluded reports whether a blockchain-database key belongs to the hash-addressed block storage
// (bodies, headers, receipts, total difficulty: they legitimately keep side-branch blocks) or to the
// sequence log (which records the history, not the chain).
func Excluded(k []byte) bool {
	switch vnode.Family(k) {
	case "CHAIN-", "TD:", "Seq:", "HashToSeq:", "LastSequence":
		return true
	}
	return false
}

// LocalDump is the content of every other key family of the blockchain database (all local indexes,
// plugin flags, height index, chain metadata), key -> value.
func LocalDump(n *vnode.Node) map[string]string {
	out := map[string]string{}
	db := n.DB("blockchain")
	if db == nil {
		return out
	}
	for _, op := range db.Dump() {
		if !Excluded(op.K) {
			out[string(op.K)] = string(op.V)
		}
	}
	return out
}

// Residue is one key on which two local dumps differ.
type Residue struct {
	Key    string
	Family string
	Kind   string // "extra" (only in got), "missing" (only in ref), "differs"
	Ref    string
	Got    string
}

// Zero reports whether the residue is a record that exists only on one side and holds the encoding
// of a zero counter (an empty value or an explicit zero varint field).
func (r Residue) Zero() bool {
	v := r.Got
	if r.Kind == "missing" {
		v = r.Ref
	} else if r.Kind != "extra" {
		return false
	}
	if len(v) == 0 {
		return true
	}
	var c types.Int64
	return types.Decode([]byte(v), &c) == nil && c.Data == 0 && len(v) <= 2
}

func (r Residue) String() string {
	return fmt.Sprintf("%s %q (ref %d bytes %x, got %d bytes %x)", r.Kind, r.Key, len(r.Ref), clip(r.Ref), len(r.Got), clip(r.Got))
}

func clip(s string) string {
	if len(s) > 24 {
		return s[:24]
	}
	return s
}

// FamilyOf is vnode.Family with the executor name kept for executor-owned local keys
// ("LODB-coins-", "LODB-manage-", ...) and the record kind kept for mvcc keys (".-mvcc-.d.", ".-mvcc-.m.").
func FamilyOf(k string) string {
	if strings.HasPrefix(k, "LODB-") {
		if i := strings.Index(k[5:], "-"); i >= 0 {
			return k[:5+i+1]
		}
	}
	if strings.HasPrefix(k, ".-mvcc-.") && len(k) >= 10 {
		return k[:10]
	}
	return vnode.Family([]byte(k))
}

// DiffDump lists the keys on which got differs from ref, sorted by key.
func DiffDump(ref, got map[string]string) []Residue {
	var out []Residue
	for k, g := range got {
		if r, ok := ref[k]; !ok {
			out = append(out, Residue{Key: k, Family: FamilyOf(k), Kind: "extra", Got: g})
		} else if r != g {
			out = append(out, Residue{Key: k, Family: FamilyOf(k), Kind: "differs", Ref: r, Got: g})
		}
	}
	for k, r := range ref {
		if _, ok := got[k]; !ok {
			out = append(out, Residue{Key: k, Family: FamilyOf(k), Kind: "missing", Ref: r})
		}
	}
	sort.Slice(out, func(i, j int) bool { return out[i].Key < out[j].Key })
	return out
}

func enc(m types.Message) string { return string(types.Encode(m)) }

func ans(m types.Message, err error) string {
	if err != nil {
		return "ERR " + err.Error()
	}
	if m == nil {
		return "nil"
	}
	return "OK " + enc(m)
}

// Probe lists what the local queries are asked about.
type Probe struct {
	Addrs  []string // addresses (roles and anything else of interest)
	Txs    [][]byte // transaction hashes
	Blocks [][]byte // block hashes (fee totals)
	States [][]byte // state hashes (multi-version state)
	Manage []string // manage configuration keys
}

// LocalView asks every public local query: transaction lookup by hash (detail with proof, existence,
// raw index entry), per-address transaction lists in both directions and with each role filter,
// per-address overview (count, received amount), the coins executor's local data, per-address fee
// lists, fee totals per block hash, manage configuration items (read through the executor's state
// view), and - with the mvcc plugin - the version table and every account at every version.
func LocalView(n *vnode.Node, e *Env, p Probe) (v vnode.View) {
	v = vnode.View{}
	c := n.Chain
	// a query that panics is an answer of its own (the harness calls the query functions directly)
	guard := func(key string, f func()) {
		defer func() {
			if e := recover(); e != nil {
				v[key] = fmt.Sprint("PANIC ", e)
			}
		}()
		f()
	}
	for i, h := range p.Txs {
		i, h := i, h
		guard(fmt.Sprint("tx#", i), func() {
			d, err := c.ProcQueryTxMsg(h)
			if err != nil {
				v[fmt.Sprint("tx#", i)] = "ERR " + err.Error()
			} else {
				v[fmt.Sprint("tx#", i)] = "OK " + enc(d)
			}
		})
		has, err := c.HasTx(h, 0)
		v[fmt.Sprint("hastx#", i)] = fmt.Sprint(has, err)
		tr, err := c.GetTxResultFromDb(h)
		if err != nil {
			v[fmt.Sprint("txresult#", i)] = "ERR " + err.Error()
		} else {
			v[fmt.Sprint("txresult#", i)] = "OK " + enc(tr)
		}
	}
	if len(p.Txs) > 0 {
		guard("txs-by-hashes", func() {
			ds, err := c.ProcGetTransactionByHashes(p.Txs)
			v["txs-by-hashes"] = ans(ds, err)
		})
	}
	for ai, a := range p.Addrs {
		name := fmt.Sprint("addr#", ai)
		for flag := int32(0); flag <= 2; flag++ {
			for dir := int32(0); dir <= 1; dir++ {
				r, err := c.ProcGetTransactionByAddr(&types.ReqAddr{Addr: a, Flag: flag, Count: 128, Direction: dir, Height: -1})
				if err != nil {
					v[fmt.Sprintf("%s/txlist/f%d/d%d", name, flag, dir)] = "ERR " + err.Error()
				} else {
					v[fmt.Sprintf("%s/txlist/f%d/d%d", name, flag, dir)] = "OK " + enc(r)
				}
			}
		}
		ov, err := c.ProcGetAddrOverview(&types.ReqAddr{Addr: a})
		if err != nil {
			v[name+"/overview"] = "ERR " + err.Error()
		} else {
			v[name+"/overview"] = "OK " + enc(ov)
		}
		m, err := n.API.Query("coins", "GetAddrReciver", &types.ReqAddr{Addr: a})
		v[name+"/coins-local-received"] = ans(m, err)
		m, err = n.API.Query("coins", "GetAddrTxsCount", &types.ReqKey{Key: types.CalcAddrTxsCountKey(a)})
		v[name+"/txcount"] = ans(m, err)
		for dir := int32(0); dir <= 1; dir++ {
			m, err = n.API.Query("coins", "GetTxsFeeByAddr", &types.ReqAddr{Addr: a, Count: 128, Direction: dir, Height: -1})
			v[fmt.Sprintf("%s/feelist/d%d", name, dir)] = ans(m, err)
		}
	}
	for i, h := range p.Blocks {
		r, err := n.API.LocalGet(&types.LocalDBGet{Keys: [][]byte{types.TotalFeeKey(h)}})
		switch {
		case err != nil:
			v[fmt.Sprint("totalfee#", i)] = "ERR " + err.Error()
		case len(r.Values) != 1 || r.Values[0] == nil:
			v[fmt.Sprint("totalfee#", i)] = "absent"
		default:
			v[fmt.Sprint("totalfee#", i)] = "OK " + string(r.Values[0])
		}
	}
	for _, k := range p.Manage {
		m, err := n.API.Query("manage", "GetConfigItem", &types.ReqString{Data: k})
		v["manage/"+k] = ans(m, err)
	}
	if e.MVCC {
		if db := n.DB("blockchain"); db != nil {
			mv := dbm.NewMVCC(db)
			maxv, err := mv.GetMaxVersion()
			v["mvcc/maxversion"] = fmt.Sprint(maxv, err)
			for i, sh := range p.States {
				ver, err := mv.GetVersion(sh)
				v[fmt.Sprint("mvcc/version-of-state#", i)] = fmt.Sprint(ver, err)
			}
			top := n.Chain.GetBlockHeight() + 2
			for ver := int64(0); ver <= top; ver++ {
				h, err := mv.GetVersionHash(ver)
				v[fmt.Sprint("mvcc/hash-of-version@", ver)] = fmt.Sprintf("%x %v", h, err)
				for ai, a := range p.Addrs {
					val, err := mv.GetV([]byte("mavl-coins-bty-"+a), ver)
					v[fmt.Sprintf("mvcc/account#%d@%d", ai, ver)] = fmt.Sprintf("%x %v", val, err)
				}
				for _, k := range p.Manage {
					val, err := mv.GetV([]byte(types.ManageKey(k)), ver)
					v[fmt.Sprintf("mvcc/manage/%s@%d", k, ver)] = fmt.Sprintf("%x %v", val, err)
				}
			}
		}
	}
	return v
}

// QueryClass turns a view key into a digit-free class name ("addr/txlist", "tx", "totalfee", ...).
func QueryClass(k string) string {
	var sb strings.Builder
	for _, c := range k {
		if c == '#' || c == '@' {
			break
		}
		sb.WriteRune(c)
	}
	s := sb.String()
	if i := strings.Index(k, "/"); i >= 0 && strings.HasPrefix(k, "addr#") {
		rest := k[i+1:]
		if j := strings.Index(rest, "/"); j >= 0 {
			rest = rest[:j]
		}
		return "addr/" + rest
	}
	return s
}
