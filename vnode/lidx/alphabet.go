package lidx

import (
	"strings"

	"github.com/33cn/chain33/types"
)

// Spec is one block of the alphabet: a name and a builder of its transactions (fresh nonces on
// every call, so two blocks built from one spec never share a transaction).
type Spec struct {
	Name string
	Txs  func(e *Env) []*types.Transaction
}

// ManageKey is the configuration key the generated manage transactions modify.
const ManageKey = "lidx-item"

func cat(l ...[]*types.Transaction) []*types.Transaction {
	var out []*types.Transaction
	for _, x := range l {
		out = append(out, x...)
	}
	return out
}

func one(tx *types.Transaction) []*types.Transaction { return []*types.Transaction{tx} }

// Synthetic lists blocks of the synthetic order-sensitive executor vlx (outside the universe of the
// built-in executors; they make the reverse-order removal of a block's transactions observable).
func Synthetic() []Spec {
	return []Spec{
		{"vlx(A)", func(e *Env) []*types.Transaction { return one(e.Vlx(A, "1")) }},
		{"vlx(A),vlx(E)", func(e *Env) []*types.Transaction {
			return []*types.Transaction{e.Vlx(A, "1"), e.Vlx(E, "2")}
		}},
		{"vlx(A),A->D,vlx(A)", func(e *Env) []*types.Transaction {
			return []*types.Transaction{e.Vlx(A, "1"), e.Transfer(A, D, 21), e.Vlx(A, "2")}
		}},
	}
}

// Alphabet lists the generated blocks (1-3 transactions): coins transfers to a receiver with
// history, to a never-seen address, to the sender itself, several receivers, the same pair twice, an
// address that is sender and receiver, a transfer that fails for lack of balance (fee still paid), a
// none transaction, deposits into and withdrawals from an executor account (coins TransferToExec / Withdraw:
// succeeding in one block, failing for lack of a deposit), manage transactions (by the super manager and by somebody else), groups of two
// (succeeding, failing as a whole), and mixtures of them.
func Alphabet() []Spec {
	return []Spec{
		{"A->D", func(e *Env) []*types.Transaction { return one(e.Transfer(A, D, 100)) }},
		{"A->C(unseen)", func(e *Env) []*types.Transaction { return one(e.Transfer(A, C, 100)) }},
		{"A->A", func(e *Env) []*types.Transaction { return one(e.Transfer(A, A, 100)) }},
		{"B->D(fails)", func(e *Env) []*types.Transaction { return one(e.Transfer(B, D, 1e9)) }},
		{"none(A)", func(e *Env) []*types.Transaction { return one(e.None(A)) }},
		{"manage(A)", func(e *Env) []*types.Transaction { return one(e.Manage(A, ManageKey, "add", "v1")) }},
		{"manage(A),manage(A)", func(e *Env) []*types.Transaction {
			return []*types.Transaction{e.Manage(A, ManageKey, "add", "v1"), e.Manage(A, ManageKey, "add", "v2")}
		}},
		{"manage-apply(E)", func(e *Env) []*types.Transaction { return one(e.ManageApply(E, ManageKey, "add", "p1")) }},
		{"manage-apply(A),manage-apply(A),A->D", func(e *Env) []*types.Transaction {
			return []*types.Transaction{e.ManageApply(A, ManageKey, "add", "p2"), e.ManageApply(A, ManageKey, "delete", "p2"), e.Transfer(A, D, 12)}
		}},
		{"group[A->D,A->C]", func(e *Env) []*types.Transaction {
			return e.Group([]int{A, A}, []int{D, C}, []int64{5, 6})
		}},
		{"group[A->D,B->D(fails)]", func(e *Env) []*types.Transaction {
			return e.Group([]int{A, B}, []int{D, D}, []int64{5, 1e9})
		}},
		{"A->D,A->E,A->C", func(e *Env) []*types.Transaction {
			return []*types.Transaction{e.Transfer(A, D, 1), e.Transfer(A, E, 2), e.Transfer(A, C, 3)}
		}},
		{"A->D,A->D", func(e *Env) []*types.Transaction {
			return []*types.Transaction{e.Transfer(A, D, 1), e.Transfer(A, D, 2)}
		}},
		{"A->A,A->A", func(e *Env) []*types.Transaction {
			return []*types.Transaction{e.Transfer(A, A, 1), e.Transfer(A, A, 2)}
		}},
		{"A->D,D->A", func(e *Env) []*types.Transaction {
			return []*types.Transaction{e.Transfer(A, D, 1), e.Transfer(D, A, 2)}
		}},
		{"A->C,C->C", func(e *Env) []*types.Transaction {
			return []*types.Transaction{e.Transfer(A, C, 3*Fee), e.Transfer(C, C, 2)}
		}},
		{"B->D(fails),A->B", func(e *Env) []*types.Transaction {
			return []*types.Transaction{e.Transfer(B, D, 1e9), e.Transfer(A, B, 7)}
		}},
		{"none(A),A->A,B->D(fails)", func(e *Env) []*types.Transaction {
			return []*types.Transaction{e.None(A), e.Transfer(A, A, 3), e.Transfer(B, D, 1e9)}
		}},
		{"manage(A),A->C,none(E)", func(e *Env) []*types.Transaction {
			return []*types.Transaction{e.Manage(A, ManageKey, "add", "v3"), e.Transfer(A, C, 4), e.None(E)}
		}},
		{"A=>exec(none)", func(e *Env) []*types.Transaction { return one(e.ToExec(A, "none", 50)) }},
		{"A=>exec(none),A<=exec(none)", func(e *Env) []*types.Transaction {
			return []*types.Transaction{e.ToExec(A, "none", 50), e.Withdraw(A, "none", 20)}
		}},
		{"A<=exec(none)(fails)", func(e *Env) []*types.Transaction { return one(e.Withdraw(A, "none", 1e9)) }},
		{"D=>exec(none),D<=exec(none),A->D", func(e *Env) []*types.Transaction {
			return []*types.Transaction{e.ToExec(D, "none", 30), e.Withdraw(D, "none", 30), e.Transfer(A, D, 3)}
		}},
		{"group[A->A,E->C],A->D", func(e *Env) []*types.Transaction {
			return cat(e.Group([]int{A, E}, []int{A, C}, []int64{8, 9}), one(e.Transfer(A, D, 10)))
		}},
	}
}

type kind struct {
	name string
	n    int
	mk   func(e *Env) []*types.Transaction
}

func kinds() []kind {
	t := func(from, to int, amount int64) func(e *Env) []*types.Transaction {
		return func(e *Env) []*types.Transaction { return one(e.Transfer(from, to, amount)) }
	}
	return []kind{
		{"A->D", 1, t(A, D, 41)},
		{"A->C(unseen)", 1, t(A, C, 42)},
		{"A->A", 1, t(A, A, 43)},
		{"B->D(fails)", 1, t(B, D, 1e9)},
		{"D->A", 1, t(D, A, 44)},
		{"none(A)", 1, func(e *Env) []*types.Transaction { return one(e.None(A)) }},
		{"manage(A)", 1, func(e *Env) []*types.Transaction { return one(e.Manage(A, ManageKey, "add", "w")) }},
		{"manage-apply(A)", 1, func(e *Env) []*types.Transaction { return one(e.ManageApply(A, ManageKey, "add", "q")) }},
		{"group[A->D,A->C]", 2, func(e *Env) []*types.Transaction { return e.Group([]int{A, A}, []int{D, C}, []int64{5, 6}) }},
		{"group[A->D,B->D(fails)]", 2, func(e *Env) []*types.Transaction { return e.Group([]int{A, B}, []int{D, D}, []int64{5, 1e9}) }},
	}
}

// AllBlocks enumerates every multiset of transaction kinds (a known / never-seen / own receiver, a
// failing transfer, a sender with little history, none, manage Modify, manage Apply, a succeeding and
// a failing group of two) with at most maxTx transactions, the curated Alphabet first; names are unique.
func AllBlocks(maxTx int) []Spec {
	out := Alphabet()
	seen := map[string]bool{}
	for _, s := range out {
		seen[s.Name] = true
	}
	ks := kinds()
	var rec func(from int, left int, chosen []int)
	rec = func(from int, left int, chosen []int) {
		if len(chosen) > 0 {
			var names []string
			for _, i := range chosen {
				names = append(names, ks[i].name)
			}
			name := strings.Join(names, ",")
			if !seen[name] {
				seen[name] = true
				idx := append([]int{}, chosen...)
				out = append(out, Spec{name, func(e *Env) []*types.Transaction {
					var txs []*types.Transaction
					for _, i := range idx {
						txs = append(txs, ks[i].mk(e)...)
					}
					return txs
				}})
			}
		}
		for i := from; i < len(ks); i++ {
			if ks[i].n <= left {
				rec(i, left-ks[i].n, append(chosen, i))
			}
		}
	}
	rec(0, maxTx, nil)
	return out
}
