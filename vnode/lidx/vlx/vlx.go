// Package vlx provides a small synthetic executor "vlx" whose local data is ORDER SENSITIVE: every
// transaction pushes its hash on a stack kept in the local DB (top pointer + per-transaction
// "previous top" record + a counter), and the removal pops it. Removal is only exact when the
// transactions of a block are removed in reverse order, which is what the executor module promises
// (executor.go procExecDelBlock). The built-in coins/none/manage executors only keep commutative
// local data, so without it that mechanism cannot be observed. Importing the package registers it.
package vlx

import (
	"encoding/hex"
	"fmt"
	"strconv"
	"strings"

	"github.com/33cn/chain33/common/address"
	"github.com/33cn/chain33/pluginmgr"
	drivers "github.com/33cn/chain33/system/dapp"
	"github.com/33cn/chain33/types"
)

// Name of the executor.
const Name = "vlx"

// Local keys.
var (
	KeyTop   = []byte("LODB-vlx-top")
	KeyCount = []byte("LODB-vlx-count")
)

// KeyPrev is the record holding what the top was before transaction h was applied.
func KeyPrev(h []byte) []byte { return []byte("LODB-vlx-prev-" + hex.EncodeToString(h)) }

// bottom marks "the stack was empty" (an empty value reads as deleted in the local DB).
const bottom = "-"

func init() {
	types.AllowUserExec = append(types.AllowUserExec, []byte(Name))
	pluginmgr.Register(&pluginmgr.PluginBase{Name: "verif." + Name, ExecName: Name, Exec: func(name string, cfg *types.Chain33Config, sub []byte) {
		drivers.Register(cfg, Name, func() drivers.Driver {
			d := &Driver{}
			d.SetChild(d)
			return d
		}, 0)
	}})
}

// EnsureAllowed re-adds the name to types.AllowUserExec (a new configuration may reset the list).
func EnsureAllowed() {
	for _, a := range types.AllowUserExec {
		if string(a) == Name {
			return
		}
	}
	types.AllowUserExec = append(types.AllowUserExec, []byte(Name))
}

// Addr is the executor's address (the To of its transactions).
func Addr() string { return address.ExecAddress(Name) }

// Driver is the executor.
type Driver struct {
	drivers.DriverBase
}

// GetDriverName is the registered name.
func (d *Driver) GetDriverName() string { return Name }

// CheckTx accepts everything.
func (d *Driver) CheckTx(tx *types.Transaction, index int) error { return nil }

// Exec changes no state, except for a payload "bulk:<n>", which writes n distinct state keys of the
// executor's own namespace (a block with an unusually large write set).
func (d *Driver) Exec(tx *types.Transaction, index int) (*types.Receipt, error) {
	rc := &types.Receipt{Ty: types.ExecOk}
	if p := string(tx.Payload); strings.HasPrefix(p, "bulk:") {
		n, _ := strconv.Atoi(p[len("bulk:"):])
		for i := 0; i < n; i++ {
			rc.KV = append(rc.KV, &types.KeyValue{Key: []byte(fmt.Sprintf("mavl-vlx-bulk-%05d", i)), Value: []byte("x")})
		}
	}
	return rc, nil
}

func (d *Driver) count(delta int64) (*types.KeyValue, error) {
	db := d.GetLocalDB()
	var c types.Int64
	if v, err := db.Get(KeyCount); err == nil {
		if err := types.Decode(v, &c); err != nil {
			return nil, err
		}
	}
	c.Data += delta
	kv := &types.KeyValue{Key: KeyCount, Value: types.Encode(&c)}
	if c.Data == 0 {
		kv.Value = nil
	}
	return kv, db.Set(kv.Key, kv.Value)
}

// ExecLocal pushes the transaction.
func (d *Driver) ExecLocal(tx *types.Transaction, receipt *types.ReceiptData, index int) (*types.LocalDBSet, error) {
	if receipt.GetTy() != types.ExecOk {
		return &types.LocalDBSet{}, nil
	}
	db := d.GetLocalDB()
	prev := []byte(bottom)
	if v, err := db.Get(KeyTop); err == nil && len(v) > 0 {
		prev = v
	}
	h := tx.Hash()
	set := &types.LocalDBSet{}
	set.KV = append(set.KV, &types.KeyValue{Key: KeyPrev(h), Value: prev}, &types.KeyValue{Key: KeyTop, Value: h})
	for _, kv := range set.KV {
		if err := db.Set(kv.Key, kv.Value); err != nil {
			return nil, err
		}
	}
	ckv, err := d.count(1)
	if err != nil {
		return nil, err
	}
	set.KV = append(set.KV, ckv)
	return set, nil
}

// ExecDelLocal pops the transaction: the top becomes what it was before the transaction. Exact only
// if the transactions applied after this one have been removed before.
func (d *Driver) ExecDelLocal(tx *types.Transaction, receipt *types.ReceiptData, index int) (*types.LocalDBSet, error) {
	if receipt.GetTy() != types.ExecOk {
		return &types.LocalDBSet{}, nil
	}
	db := d.GetLocalDB()
	h := tx.Hash()
	prev, err := db.Get(KeyPrev(h))
	if err != nil {
		return &types.LocalDBSet{}, nil // never applied
	}
	set := &types.LocalDBSet{}
	top := &types.KeyValue{Key: KeyTop, Value: prev}
	if string(prev) == bottom {
		top.Value = nil
	}
	set.KV = append(set.KV, top, &types.KeyValue{Key: KeyPrev(h)})
	ckv, err := d.count(-1)
	if err != nil {
		return nil, err
	}
	set.KV = append(set.KV, ckv)
	return set, nil
}

// Query is not supported.
func (d *Driver) Query(funcName string, params []byte) (types.Message, error) {
	return nil, types.ErrActionNotSupport
}
