// Package bcx is the harness environment of C33/C34: the real DHT broadcast protocol object (light
// block path, peer messages) on a real queue with scripted mempool and blockchain responders, a
// real libp2p host + pubsub (no peers), and the light-block loops running under the controlled
// scheduler with virtual tickers and a virtual clock.
package bcx

import (
	"context"
	"crypto/sha256"
	"fmt"
	"strings"
	"sync"

	"bytes"
	"github.com/33cn/chain33/client"
	"github.com/33cn/chain33/p2p"
	"github.com/33cn/chain33/queue"
	"github.com/33cn/chain33/system/p2p/dht/extension"
	"github.com/33cn/chain33/system/p2p/dht/protocol"
	"github.com/33cn/chain33/system/p2p/dht/protocol/broadcast"
	p2pty "github.com/33cn/chain33/system/p2p/dht/types"
	"github.com/33cn/chain33/types"
	"github.com/libp2p/go-libp2p"
	lcrypto "github.com/libp2p/go-libp2p/core/crypto"
	"github.com/libp2p/go-libp2p/core/peer"
	"github.com/multiformats/go-multiaddr"
)

// Env is created once per process.
type Env struct {
	Cfg    *types.Chain33Config
	Q      queue.Queue
	P2P    *protocol.P2PEnv
	Peer   peer.ID // the remote peer messages come from
	mu     sync.Mutex
	pool   map[string]*types.Transaction // short hash -> pool entry
	Posted []*types.Block                // blocks handed to the blockchain module
	chain  map[int64]*types.Block        // what the fake blockchain serves by height
}

func detKey(seed string) lcrypto.PrivKey {
	h := sha256.Sum256([]byte(seed))
	priv, _, err := lcrypto.GenerateEd25519Key(bytes.NewReader(append(h[:], h[:]...)))
	if err != nil {
		panic(err)
	}
	return priv
}

// NewEnv builds the environment.
func NewEnv() *Env {
	e := &Env{pool: map[string]*types.Transaction{}, chain: map[int64]*types.Block{}}
	e.Cfg = types.NewChain33Config(strings.Replace(types.GetDefaultCfgstring(), "[p2p]\nenable=false", "[p2p]\ntypes=[\"dht\"]\nenable=false", 1))
	e.Q = queue.New("bcx")
	e.Q.SetConfig(e.Cfg)
	mgr := p2p.NewP2PMgr(e.Cfg)
	mgr.Client = e.Q.Client()
	mgr.SysAPI, _ = client.New(mgr.Client, nil)
	sub := &p2pty.P2PSubConfig{}
	if b, ok := e.Cfg.GetSubConfig().P2P[p2pty.DHTTypeName]; ok {
		types.MustDecode(b, sub)
	}
	m, _ := multiaddr.NewMultiaddr("/ip4/127.0.0.1/tcp/0")
	host, err := libp2p.New(libp2p.ListenAddrs(m), libp2p.Identity(detKey("bcx-host")))
	if err != nil {
		panic(err)
	}
	ctx := context.Background()
	ps, err := extension.NewPubSub(ctx, host, &p2pty.PubSubConfig{})
	if err != nil {
		panic(err)
	}
	api, _ := client.New(e.Q.Client(), nil)
	e.P2P = &protocol.P2PEnv{ChainCfg: e.Cfg, QueueClient: e.Q.Client(), Host: host, P2PManager: mgr, SubConfig: sub, Ctx: ctx, Pubsub: ps, API: api}
	pid, err := peer.IDFromPrivateKey(detKey("bcx-remote"))
	if err != nil {
		panic(err)
	}
	e.Peer = pid
	go e.mempool()
	go e.blockchain()
	return e
}

// Reset clears the scripted state between executions.
func (e *Env) Reset() {
	e.mu.Lock()
	e.pool = map[string]*types.Transaction{}
	e.Posted = nil
	e.chain = map[int64]*types.Block{}
	e.mu.Unlock()
}

// PoolAdd makes a transaction (or a whole group, stored as the pool stores it: under the first
// member's short hash, carrying the group in its header) available in the pool.
func (e *Env) PoolAdd(tx *types.Transaction) {
	e.mu.Lock()
	e.pool[types.CalcTxShortHash(tx.Hash())] = tx
	e.mu.Unlock()
}

// PoolSetRaw scripts the answer for one short hash.
func (e *Env) PoolSetRaw(short string, tx *types.Transaction) {
	e.mu.Lock()
	e.pool[short] = tx
	e.mu.Unlock()
}

// Serve makes the fake blockchain serve a block at its height.
func (e *Env) Serve(b *types.Block) {
	e.mu.Lock()
	e.chain[b.Height] = b
	e.mu.Unlock()
}

// PostedBlocks returns what reached the blockchain module so far.
func (e *Env) PostedBlocks() []*types.Block {
	e.mu.Lock()
	defer e.mu.Unlock()
	return append([]*types.Block{}, e.Posted...)
}

func (e *Env) mempool() {
	c := e.Q.Client()
	c.Sub("mempool")
	for msg := range c.Recv() {
		switch msg.Ty {
		case types.EventTxListByHash:
			req := msg.Data.(*types.ReqTxHashList)
			rep := &types.ReplyTxList{}
			e.mu.Lock()
			for _, h := range req.Hashes {
				rep.Txs = append(rep.Txs, e.pool[h])
			}
			e.mu.Unlock()
			msg.Reply(c.NewMessage("", types.EventReplyTxList, rep))
		case types.EventTx:
			msg.Reply(c.NewMessage("", types.EventReply, &types.Reply{IsOk: true}))
		default:
			msg.ReplyErr("bcx mempool", types.ErrNotSupport)
		}
	}
}

func (e *Env) blockchain() {
	c := e.Q.Client()
	c.Sub("blockchain")
	for msg := range c.Recv() {
		switch msg.Ty {
		case types.EventBroadcastAddBlock:
			bp := msg.Data.(*types.BlockPid)
			e.mu.Lock()
			e.Posted = append(e.Posted, bp.Block)
			e.mu.Unlock()
			msg.Reply(c.NewMessage("", types.EventReply, &types.Reply{IsOk: true}))
		case types.EventGetBlocks:
			req := msg.Data.(*types.ReqBlocks)
			e.mu.Lock()
			b := e.chain[req.Start]
			e.mu.Unlock()
			if b == nil {
				msg.Reply(c.NewMessage("", types.EventBlocks, types.ErrNotFound))
			} else {
				msg.Reply(c.NewMessage("", types.EventBlocks, &types.BlockDetails{Items: []*types.BlockDetail{{Block: b}}}))
			}
		default:
			msg.ReplyErr("bcx blockchain", types.ErrNotSupport)
		}
	}
}

// New builds a fresh protocol object (must be called from a scheduled thread: the light-block loops
// become scheduler threads).
func (e *Env) New(pendTimeoutMs int64) *broadcast.VBroadcast {
	return broadcast.VerifNew(e.P2P, pendTimeoutMs)
}

// Tx makes a distinguishable transaction.
func Tx(i int) *types.Transaction {
	return &types.Transaction{Execer: []byte("none"), Payload: []byte(fmt.Sprint("bcx-", i)), Fee: 1000000, Nonce: int64(i), To: "1Q4NhureJxKNBf71d26B9J3fBQoQcfmez2"}
}

// Group makes a transaction group of n members; returns the members as they appear in a block and
// the single pool entry the mempool keeps for the group.
func Group(cfg *types.Chain33Config, base, n int) ([]*types.Transaction, *types.Transaction) {
	var txs []*types.Transaction
	for i := 0; i < n; i++ {
		txs = append(txs, Tx(base+i))
	}
	g, err := types.CreateTxGroup(txs, cfg.GetMinTxFeeRate())
	if err != nil {
		panic(err)
	}
	return g.GetTxs(), g.Tx()
}

// SyncBlockchain returns when every message sent to the blockchain topic so far has been handled.
func (e *Env) SyncBlockchain() {
	c := e.P2P.QueueClient
	msg := c.NewMessage("blockchain", types.EventGetBlocks, &types.ReqBlocks{Start: -12345, End: -12345})
	if err := c.Send(msg, true); err == nil {
		_, _ = c.Wait(msg)
	}
}

// Published is one item the protocol published towards the network.
type Published struct {
	Topic string
	Msg   types.Message
}

type marker struct{ n int }

var markerSeq int

// Drain returns everything published since the last Drain.
func Drain(v *broadcast.VBroadcast, out chan interface{}) []Published {
	markerSeq++
	m := marker{markerSeq}
	v.Barrier(m)
	var res []Published
	for x := range out {
		if mm, ok := x.(marker); ok && mm == m {
			break
		}
		if t, msg, ok := broadcast.VerifOut(x); ok {
			res = append(res, Published{t, msg})
		}
	}
	return res
}
