#!/bin/bash
# usage: run.sh <ID> [quick|thorough] [extra args]   — builds the check from /repo's current tree and runs it.
# exit 0 held / 1 VIOLATION / 2 harness problem (build error, vacuous run) — never a VIOLATION line for 2.
set -u
cd "$(dirname "$0")"
export GOFLAGS=-mod=mod GOPROXY=off GOSUMDB=off GOTOOLCHAIN=local
ID=$1; TIER=${2:-${VERIF_TIER:-quick}}; shift; shift 2>/dev/null
id=$(echo "$ID" | tr 'A-Z' 'a-z')
REPO=/repo
mkdir -p .work/$id bin evidence
INSTR=""
if [ -f checks/$id/instr.txt ]; then
  # packages/files to instrument for the controlled scheduler (rewritten from the current tree)
  go build -o bin/vinstr ./tools/vinstr 2> .work/$id/vinstr.log || { echo "HARNESS-BUILD-ERROR vinstr"; cat .work/$id/vinstr.log; exit 2; }
  bin/vinstr -repo $REPO -out .work/$id/instr -list checks/$id/instr.txt -json .work/$id/instr.json > .work/$id/vinstr.log 2>&1 || { echo "HARNESS-BUILD-ERROR vinstr run"; cat .work/$id/vinstr.log; exit 2; }
  INSTR=.work/$id/instr.json
fi
python3 tools/mkoverlay.py $REPO $INSTR > .work/$id/overlay.json
if ! go build -tags verif -overlay .work/$id/overlay.json -o bin/$id ./checks/$id 2> .work/$id/build.log; then
  echo "HARNESS-BUILD-ERROR $ID"; tail -40 .work/$id/build.log; exit 2
fi
exec bin/$id -tier "$TIER" "$@"
