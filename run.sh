#!/bin/bash
# usage: run.sh <ID> [quick|thorough] [extra args]   — builds the check from /repo's current tree and runs it.
#        run.sh <ID> race [N]  — auxiliary pass: the check is built with -race and every controlled-scheduler scenario is run
#        N (default 200) times FREE-RUNNING (real goroutines, real primitives); data races the detector reports are
#        written to race/<ID>.json. Exit 0 when none, 3 when races were reported (never a VIOLATION line: see DESIGN §7).
# exit 0 held / 1 VIOLATION / 2 harness problem (build error, vacuous run) — never a VIOLATION line for 2.
# VERIF_REPO=<dir> (set by hand only, for mutation demonstrations) points the build at a scratch copy of the
# tree; evidence then goes to .work/<id>/mut-evidence instead of /verif/evidence.
set -u
cd "$(dirname "$0")"
export VERIF_ROOT=${VERIF_ROOT:-$PWD}
export GOFLAGS=-mod=mod GOPROXY=off GOSUMDB=off GOTOOLCHAIN=local
ID=$1; TIER=${2:-${VERIF_TIER:-quick}}; shift; shift 2>/dev/null
id=$(echo "$ID" | tr 'A-Z' 'a-z')
REPO=/repo
MODFLAG=""
BIN=bin/$id
W=.work/$id
if [ -n "${VERIF_REPO:-}" ]; then
  REPO=$(cd "$VERIF_REPO" && pwd)
  tag=$(echo "$REPO" | tr '/' '_')
  W=.work/$id/mut$tag
  mkdir -p $W
  sed "s#=> /repo\$#=> $REPO#" go.mod > $W/go.mod; cp go.sum $W/go.sum
  MODFLAG="-modfile=$W/go.mod"
  BIN=bin/$id-mut$tag
  export VERIF_EVIDENCE_DIR=$PWD/$W/mut-evidence
  mkdir -p $VERIF_EVIDENCE_DIR
fi
mkdir -p $W bin evidence
INSTR=""
if [ -f checks/$id/instr.txt ]; then
  # packages/files to instrument for the controlled scheduler (rewritten from the current tree)
  go build -trimpath -o bin/vinstr ./tools/vinstr 2> $W/vinstr.log || { echo "HARNESS-BUILD-ERROR vinstr"; cat $W/vinstr.log; exit 2; }
  bin/vinstr -repo $REPO -out $W/instr -list checks/$id/instr.txt -json $W/instr.json > $W/vinstr.log 2>&1 || { echo "HARNESS-BUILD-ERROR vinstr run"; cat $W/vinstr.log; exit 2; }
  INSTR=$W/instr.json
fi
python3 tools/mkoverlay.py $REPO $INSTR > $W/overlay.json
if [ "$TIER" = race ]; then
  N=${1:-200}
  if ! go build $MODFLAG -race -trimpath -tags verif -overlay $W/overlay.json -o $BIN-race ./checks/$id 2> $W/build.log; then
    echo "HARNESS-BUILD-ERROR $ID (race build)"; tail -40 $W/build.log; exit 2
  fi
  rm -f $W/racelog.*; mkdir -p race
  GORACE="log_path=$PWD/$W/racelog halt_on_error=0 history_size=3" $BIN-race -tier quick -free $N > $W/race.out 2>&1
  tail -3 $W/race.out
  python3 tools/racereport.py $ID $W $N > race/$ID.json; rc=$?
  cat race/$ID.json | head -40
  exit $rc
fi
if ! go build $MODFLAG -trimpath -tags verif -overlay $W/overlay.json -o $BIN ./checks/$id 2> $W/build.log; then
  echo "HARNESS-BUILD-ERROR $ID"; tail -40 $W/build.log; exit 2
fi
exec $BIN -tier "$TIER" "$@"
