// Package vx is the shared plumbing of the /verif checks: tiers, seeds, deadlines, counters,
// distinct-case sets, samples, violation confirmation, known findings, evidence and replay files,
// and process sharding. The explorers themselves live in vx/seq.go (explicit-state / operation
// sequence search) and verif/vrt (controlled scheduler).
package vx

import (
	"crypto/sha256"
	"encoding/hex"
	"encoding/json"
	"flag"
	"fmt"
	"os"
	"os/exec"
	"path/filepath"
	"runtime"
	"runtime/pprof"
	"sort"
	"strconv"
	"strings"
	"sync"
	"syscall"
	"time"
)

// Root is the directory of the verification tree.
func Root() string {
	if r := os.Getenv("VERIF_ROOT"); r != "" {
		return r
	}
	return "/verif"
}

// Violation is one failing execution.
type Violation struct {
	Fingerprint string      `json:"fingerprint"`
	What        string      `json:"what"`
	Case        interface{} `json:"case"`
}

// partial is what a shard hands to its parent.
type partial struct {
	Counters   map[string]int64               `json:"counters"`
	Sets       map[string]map[string]struct{} `json:"-"`
	SetsL      map[string][]string            `json:"sets"`
	Samples    []interface{}                  `json:"samples"`
	Violations []Violation                    `json:"violations"`
	Capped     []string                       `json:"capped"`
	Notes      []string                       `json:"notes"`
	Unstable   []string                       `json:"unstable"`
}

// Run is the state of one check run.
type Run struct {
	lastProgress time.Time
	doing        string
	ID      string
	Level   string
	Tier    string
	Seed    int64
	Rule    string
	Assume  []string
	start   time.Time
	dead    time.Time
	mu      sync.Mutex
	p       partial
	shard   int
	nshard  int
	isChild bool
	replay  string
	// DistinctSet names the set whose size is reported as distinct_nontrivial; StateSet as states.
	DistinctSet string
	StateSet    string
	// TransCounter / EvalCounter name the counters reported as transitions / evaluations.
	TransCounter string
	EvalCounter  string
	TraceCounter string
	// StateCounter, when set, names a counter reported as states (schedule-tree nodes) instead of a set.
	StateCounter string
	// Floors: minimal values for named counters/sets; below => VACUOUS (exit 2).
	Floors map[string]int64
	Extra  map[string]interface{}
}

var (
	flagTier   = flag.String("tier", "", "quick|thorough")
	flagReplay = flag.String("replay", "", "replay file")
	flagFree   = flag.Int("free", 0, "auxiliary race pass: run every scheduler scenario this many times free-running (real goroutines and primitives) instead of exploring it; meant for a -race build")
	flagShard  = flag.String("shard", "", "i/n (internal)")
	flagOut    = flag.String("shardout", "", "(internal)")
)

// Start parses flags and environment.
func Start(id, level string) *Run {
	if !flag.Parsed() {
		flag.Parse()
	}
	r := &Run{ID: id, Level: level, start: time.Now(), nshard: 1}
	r.Tier = *flagTier
	if r.Tier == "" {
		r.Tier = os.Getenv("VERIF_TIER")
	}
	if r.Tier != "thorough" {
		r.Tier = "quick"
	}
	if s := os.Getenv("VERIF_SEED"); s != "" {
		r.Seed, _ = strconv.ParseInt(s, 10, 64)
	}
	r.replay = *flagReplay
	if *flagShard != "" {
		fmt.Sscanf(*flagShard, "%d/%d", &r.shard, &r.nshard)
		r.isChild = true
	}
	r.p.Counters = map[string]int64{}
	r.p.Sets = map[string]map[string]struct{}{}
	r.DistinctSet, r.StateSet = "distinct", "states"
	r.TransCounter, r.EvalCounter, r.TraceCounter = "transitions", "evaluations", "executions"
	r.Floors = map[string]int64{}
	r.Extra = map[string]interface{}{}
	budget := 100 * time.Second
	if r.Tier == "thorough" {
		budget = 15 * time.Minute
	}
	if s := os.Getenv("VERIF_BUDGET_S"); s != "" {
		if n, err := strconv.Atoi(s); err == nil {
			budget = time.Duration(n) * time.Second
		}
	}
	r.dead = r.start.Add(budget)
	if pf := os.Getenv("VERIF_PPROF"); pf != "" && !r.isChild {
		f, _ := os.Create(pf)
		pprof.StartCPUProfile(f)
	}
	if hf := os.Getenv("VERIF_HEAPPROF"); hf != "" {
		go func() {
			for {
				time.Sleep(20 * time.Second)
				runtime.GC()
				f, _ := os.Create(hf)
				pprof.Lookup("heap").WriteTo(f, 0)
				f.Close()
				g, _ := os.Create(hf + ".goroutines")
				pprof.Lookup("goroutine").WriteTo(g, 1)
				g.Close()
			}
		}()
	}
	return r
}

// Free returns the number of free-running repetitions asked for (0 = normal exploration).
func (r *Run) Free() int { return *flagFree }

// Quick reports whether this is the quick tier.
func (r *Run) Quick() bool { return r.Tier == "quick" }

// Pick returns q in the quick tier, t in the thorough tier.
func (r *Run) Pick(q, t int) int {
	if r.Quick() {
		return q
	}
	return t
}

// SetBudget overrides the internal wall budget (an internal deadline ends the run with exit 0
// and exhaustive:false).
func (r *Run) SetBudget(d time.Duration) {
	if os.Getenv("VERIF_BUDGET_S") == "" {
		r.dead = r.start.Add(d)
	}
}

// Expired reports whether the wall budget is used up; the first time it records the cap.
func (r *Run) Expired(what string) bool {
	if time.Now().Before(r.dead) {
		return false
	}
	r.Cap("wall budget reached in " + what)
	return true
}

// Cap records that an enumeration was cut short.
func (r *Run) Cap(what string) {
	r.mu.Lock()
	defer r.mu.Unlock()
	for _, c := range r.p.Capped {
		if c == what {
			return
		}
	}
	r.p.Capped = append(r.p.Capped, what)
}

// Note adds a free-text line to the evidence.
func (r *Run) Note(f string, a ...interface{}) {
	r.mu.Lock()
	defer r.mu.Unlock()
	s := fmt.Sprintf(f, a...)
	for _, c := range r.p.Notes {
		if c == s {
			return
		}
	}
	if len(r.p.Notes) < 200 {
		r.p.Notes = append(r.p.Notes, s)
	}
}

// Count adds n to a named counter.
func (r *Run) Count(name string, n int64) {
	r.mu.Lock()
	r.p.Counters[name] += n
	r.lastProgress = time.Now()
	r.mu.Unlock()
}

// Doing records what the harness is about to execute (named in a stall report).
func (r *Run) Doing(what string) {
	r.mu.Lock()
	r.doing = what
	r.lastProgress = time.Now()
	r.mu.Unlock()
}

// StallIsViolation arms a watchdog: when no counter moves for d, the code under test has stopped
// answering (a call that never returns: a leaked lock, a loop that stopped serving). The stall is
// recorded as a violation with the given fingerprint, the goroutines are dumped to
// .work/<id>/stall-*.txt, and the run is finished at once (the stuck call cannot be interrupted).
func (r *Run) StallIsViolation(d time.Duration, fingerprint string) {
	r.mu.Lock()
	r.lastProgress = time.Now()
	r.mu.Unlock()
	go func() {
		for {
			time.Sleep(d / 4)
			r.mu.Lock()
			idle := time.Since(r.lastProgress)
			doing := r.doing
			r.mu.Unlock()
			if idle < d {
				continue
			}
			buf := make([]byte, 1<<20)
			buf = buf[:runtime.Stack(buf, true)]
			dir := filepath.Join(Root(), ".work", strings.ToLower(r.ID))
			os.MkdirAll(dir, 0o755)
			os.WriteFile(filepath.Join(dir, fmt.Sprintf("stall-%d.txt", os.Getpid())), buf, 0o644)
			r.Violate(fingerprint, fmt.Sprintf("the call did not return within %s: %s", d, doing), map[string]interface{}{"stalled": doing}, nil)
			r.Finish()
		}
	}()
}

// Counter reads a counter.
func (r *Run) Counter(name string) int64 {
	r.mu.Lock()
	defer r.mu.Unlock()
	return r.p.Counters[name]
}

// H hashes a canonical form to a short key.
func H(parts ...interface{}) string {
	h := sha256.New()
	for _, p := range parts {
		switch v := p.(type) {
		case []byte:
			fmt.Fprintf(h, "%d:", len(v))
			h.Write(v)
		case string:
			fmt.Fprintf(h, "%d:%s", len(v), v)
		default:
			fmt.Fprintf(h, "%v|", v)
		}
	}
	return hex.EncodeToString(h.Sum(nil)[:10])
}

// Seen adds key to a named set and reports whether it was already present.
func (r *Run) Seen(set, key string) bool {
	r.mu.Lock()
	defer r.mu.Unlock()
	m := r.p.Sets[set]
	if m == nil {
		m = map[string]struct{}{}
		r.p.Sets[set] = m
	}
	if _, ok := m[key]; ok {
		return true
	}
	m[key] = struct{}{}
	return false
}

// SetSize returns the size of a named set.
func (r *Run) SetSize(set string) int {
	r.mu.Lock()
	defer r.mu.Unlock()
	return len(r.p.Sets[set])
}

// Sample keeps up to 8 written-out cases.
func (r *Run) Sample(s interface{}) {
	r.mu.Lock()
	defer r.mu.Unlock()
	if len(r.p.Samples) < 8 {
		r.p.Samples = append(r.p.Samples, s)
	}
}

// SampleN keeps the case if fewer than n samples are held.
func (r *Run) SampleN(n int, s interface{}) {
	r.mu.Lock()
	defer r.mu.Unlock()
	if len(r.p.Samples) < n {
		r.p.Samples = append(r.p.Samples, s)
	}
}

// Violate records a failing case. confirm (may be nil) re-executes the case on fresh objects and
// returns a stable observation string ("" = did not fail); it is called 5 times and the violation
// is kept only if all five agree and fail. Otherwise the case is recorded as unstable.
func (r *Run) Violate(fingerprint, what string, kase interface{}, confirm func() string) {
	r.mu.Lock()
	for _, v := range r.p.Violations {
		if v.Fingerprint == fingerprint {
			r.mu.Unlock()
			r.Count("violating_cases", 1)
			return
		}
	}
	r.mu.Unlock()
	if confirm != nil {
		first := ""
		for i := 0; i < 5; i++ {
			o := confirm()
			if o != "" {
				// compare what the failure says, not incidental text (goroutine numbers and addresses of a stack trace)
				o = Norm(strings.SplitN(o, "\n", 2)[0], 160)
			}
			if o == "" || (i > 0 && o != first) {
				r.mu.Lock()
				r.p.Unstable = append(r.p.Unstable, fingerprint+": "+what)
				r.mu.Unlock()
				return
			}
			first = o
		}
	}
	r.mu.Lock()
	defer r.mu.Unlock()
	for _, v := range r.p.Violations {
		if v.Fingerprint == fingerprint {
			return
		}
	}
	r.p.Counters["violating_cases"]++
	if len(r.p.Violations) < 64 {
		r.p.Violations = append(r.p.Violations, Violation{fingerprint, what, kase})
	}
}

// Replaying returns the case of the replay file if the binary was started with -replay.
func (r *Run) Replaying() (json.RawMessage, bool) {
	if r.replay == "" {
		return nil, false
	}
	b, err := os.ReadFile(r.replay)
	if err != nil {
		fmt.Println("REPLAY-ERROR", err)
		os.Exit(2)
	}
	var f struct {
		Case json.RawMessage `json:"case"`
	}
	if err := json.Unmarshal(b, &f); err != nil {
		fmt.Println("REPLAY-ERROR", err)
		os.Exit(2)
	}
	return f.Case, true
}

// Shard reports this process' shard index and the shard count (0,1 when unsharded).
func (r *Run) Shard() (int, int) { return r.shard, r.nshard }

// Mine reports whether work item i belongs to this shard.
func (r *Run) Mine(i int) bool { return r.nshard <= 1 || i%r.nshard == r.shard }

// IsChild reports whether this process is a shard worker.
func (r *Run) IsChild() bool { return r.isChild }

// Fork re-executes this binary n times with -shard i/n (GOMAXPROCS=1 each unless procs>0), waits,
// and merges what the children found. Returns false in a child (which must then do the work and
// call Finish). A child that dies (OOM, fatal error, watchdog) is reported as a harness error.
func (r *Run) Fork(n int, extraEnv ...string) bool {
	if r.isChild || r.replay != "" || *flagFree > 0 {
		return false // a replay runs the one case in this process; so does the free-running pass
	}
	dir := filepath.Join(Root(), ".work", r.ID)
	os.MkdirAll(dir, 0o755)
	var wg sync.WaitGroup
	errs := make([]error, n)
	outs := make([]string, n)
	for i := 0; i < n; i++ {
		wg.Add(1)
		go func(i int) {
			defer wg.Done()
			out := filepath.Join(dir, fmt.Sprintf("shard-%d.json", i))
			os.Remove(out)
			outs[i] = out
			cmd := exec.Command(os.Args[0], "-tier", r.Tier, "-shard", fmt.Sprintf("%d/%d", i, n), "-shardout", out)
			cmd.Env = append(os.Environ(), "GOMAXPROCS=1")
			cmd.Env = append(cmd.Env, extraEnv...)
			lf, _ := os.Create(filepath.Join(dir, fmt.Sprintf("shard-%d.log", i)))
			cmd.Stdout, cmd.Stderr = lf, lf
			errs[i] = cmd.Run()
			lf.Close()
		}(i)
	}
	wg.Wait()
	for i := 0; i < n; i++ {
		b, err := os.ReadFile(outs[i])
		if err != nil {
			logb, _ := os.ReadFile(filepath.Join(dir, fmt.Sprintf("shard-%d.log", i)))
			tail := string(logb)
			if len(tail) > 3000 {
				tail = tail[len(tail)-3000:]
			}
			fmt.Printf("HARNESS-ERROR shard %d produced no result (%v)\n%s\n", i, errs[i], tail)
			os.Exit(2)
		}
		var p partial
		if err := json.Unmarshal(b, &p); err != nil {
			fmt.Printf("HARNESS-ERROR shard %d result unreadable: %v\n", i, err)
			os.Exit(2)
		}
		r.merge(&p)
	}
	return true
}

func (r *Run) merge(p *partial) {
	r.mu.Lock()
	defer r.mu.Unlock()
	for k, v := range p.Counters {
		r.p.Counters[k] += v
	}
	for k, l := range p.SetsL {
		m := r.p.Sets[k]
		if m == nil {
			m = map[string]struct{}{}
			r.p.Sets[k] = m
		}
		for _, e := range l {
			m[e] = struct{}{}
		}
	}
	for _, s := range p.Samples {
		if len(r.p.Samples) < 8 {
			r.p.Samples = append(r.p.Samples, s)
		}
	}
outer:
	for _, v := range p.Violations {
		for _, w := range r.p.Violations {
			if w.Fingerprint == v.Fingerprint {
				continue outer
			}
		}
		r.p.Violations = append(r.p.Violations, v)
	}
	for _, c := range p.Capped {
		dup := false
		for _, d := range r.p.Capped {
			dup = dup || d == c
		}
		if !dup {
			r.p.Capped = append(r.p.Capped, c)
		}
	}
	r.p.Notes = append(r.p.Notes, p.Notes...)
	r.p.Unstable = append(r.p.Unstable, p.Unstable...)
}

type knownFile struct {
	Findings []struct {
		Property    string `json:"property"`
		Fingerprint string `json:"fingerprint"`
		What        string `json:"what"`
	} `json:"findings"`
	Fixed []string `json:"fixed"`
}

// Finish writes the evidence (parent) or the shard result (child) and exits.
func (r *Run) Finish() {
	if r.isChild {
		r.p.SetsL = map[string][]string{}
		for k, m := range r.p.Sets {
			l := make([]string, 0, len(m))
			for e := range m {
				l = append(l, e)
			}
			r.p.SetsL[k] = l
		}
		b, _ := json.Marshal(&r.p)
		tmp := *flagOut + ".tmp"
		os.WriteFile(tmp, b, 0o644)
		os.Rename(tmp, *flagOut)
		os.Exit(0)
	}
	wall := time.Since(r.start).Seconds()
	pprof.StopCPUProfile()
	var kf knownFile
	if b, err := os.ReadFile(filepath.Join(Root(), "known_findings.json")); err == nil {
		if err := json.Unmarshal(b, &kf); err != nil {
			fmt.Println("HARNESS-ERROR known_findings.json unreadable:", err)
			os.Exit(2)
		}
	}
	known := map[string]string{}
	for _, f := range kf.Findings {
		if f.Property == r.ID {
			known[f.Fingerprint] = f.What
		}
	}
	cnt := func(name string) int64 { return r.p.Counters[name] }
	set := func(name string) int64 { return int64(len(r.p.Sets[name])) }
	cov := map[string]interface{}{}
	for k, v := range r.p.Counters {
		cov["n_"+k] = v
	}
	for k, m := range r.p.Sets {
		cov["distinct_"+k] = len(m)
	}
	evals := cnt(r.EvalCounter)
	if evals == 0 {
		evals = cnt(r.TraceCounter)
	}
	if evals == 0 {
		evals = cnt(r.TransCounter)
	}
	cov["evaluations"] = evals
	cov["distinct_nontrivial"] = set(r.DistinctSet)
	cov["rule"] = r.Rule
	if r.p.Samples == nil {
		r.p.Samples = []interface{}{}
	}
	cov["samples"] = r.p.Samples
	if r.Level == "model_checking" {
		cov["states"] = set(r.StateSet)
		if r.StateCounter != "" {
			cov["states"] = cnt(r.StateCounter)
		}
		cov["transitions"] = cnt(r.TransCounter)
		tr := cnt(r.TraceCounter)
		if tr == 0 {
			tr = cnt(r.TransCounter)
		}
		cov["traces_validated_against_impl"] = tr
	}
	cov["exhaustive"] = len(r.p.Capped) == 0
	if len(r.p.Capped) > 0 {
		cov["caps_hit"] = r.p.Capped
	}
	if len(r.p.Notes) > 0 {
		cov["notes"] = r.p.Notes
	}
	if len(r.p.Unstable) > 0 {
		cov["unstable"] = r.p.Unstable
	}
	for k, v := range r.Extra {
		cov[k] = v
	}
	var newV, knownV []Violation
	for _, v := range r.p.Violations {
		if _, ok := known[v.Fingerprint]; ok {
			knownV = append(knownV, v)
		} else {
			newV = append(newV, v)
		}
	}
	sort.Slice(newV, func(i, j int) bool { return newV[i].Fingerprint < newV[j].Fingerprint })
	if len(knownV) > 0 {
		var l []string
		for _, v := range knownV {
			l = append(l, v.Fingerprint)
		}
		cov["known_findings_reproduced"] = l
	}
	ev := map[string]interface{}{
		"property_id": r.ID, "tier": r.Tier, "seed": r.Seed, "level": r.Level,
		"coverage": cov, "assumptions": r.Assume, "wall_s": wall, "violations": len(newV),
	}
	evdir := filepath.Join(Root(), "evidence")
	rpdir := filepath.Join(Root(), "replay")
	if d := os.Getenv("VERIF_EVIDENCE_DIR"); d != "" {
		evdir, rpdir = d, filepath.Join(d, "replay")
	}
	if *flagFree > 0 {
		evdir = filepath.Join(Root(), ".work", r.ID, "free-evidence")
		rpdir = filepath.Join(evdir, "replay")
	}
	if r.replay != "" {
		// a replay is not a check run: it must not replace the evidence of one
		evdir = filepath.Join(Root(), ".work", r.ID, "replay-evidence")
		rpdir = filepath.Join(evdir, "replay")
	}
	os.MkdirAll(evdir, 0o755)
	b, _ := json.MarshalIndent(ev, "", " ")
	evp := filepath.Join(evdir, r.ID+".json")
	os.WriteFile(evp+".tmp", b, 0o644)
	os.Rename(evp+".tmp", evp)

	nstates := set(r.StateSet)
	if r.StateCounter != "" {
		nstates = cnt(r.StateCounter)
	}
	fmt.Printf("%s tier=%s evaluations=%d distinct=%d states=%d transitions=%d exhaustive=%v wall=%.1fs\n",
		r.ID, r.Tier, evals, set(r.DistinctSet), nstates, cnt(r.TransCounter), len(r.p.Capped) == 0, wall)
	var keys []string
	for k := range r.p.Counters {
		keys = append(keys, k)
	}
	sort.Strings(keys)
	var sb strings.Builder
	for _, k := range keys {
		fmt.Fprintf(&sb, " %s=%d", k, r.p.Counters[k])
	}
	keys = keys[:0]
	for k := range r.p.Sets {
		keys = append(keys, k)
	}
	sort.Strings(keys)
	for _, k := range keys {
		fmt.Fprintf(&sb, " |%s|=%d", k, len(r.p.Sets[k]))
	}
	fmt.Println("  counters:" + sb.String())
	for _, c := range r.p.Capped {
		fmt.Println("  cap:", c)
	}
	for _, u := range r.p.Unstable {
		fmt.Println("  unstable (not reported):", u)
	}
	for _, v := range knownV {
		fmt.Printf("KNOWN-FINDING: property=%s %s [%s]\n", r.ID, known[v.Fingerprint], v.Fingerprint)
	}
	// vacuity floors: a harness error, never a violation
	if len(newV) == 0 {
		for k, fl := range r.Floors {
			got := cnt(k)
			if s := set(k); s > got {
				got = s
			}
			if got < fl && len(r.p.Capped) == 0 {
				fmt.Printf("VACUOUS %s: %s=%d below floor %d\n", r.ID, k, got, fl)
				os.Exit(2)
			}
		}
	}
	if len(newV) > 0 {
		os.MkdirAll(rpdir, 0o755)
		for i, v := range newV {
			p := filepath.Join(rpdir, fmt.Sprintf("%s-%d.json", r.ID, i))
			rb, _ := json.MarshalIndent(map[string]interface{}{
				"property": r.ID, "fingerprint": v.Fingerprint, "what": v.What, "case": v.Case, "tier": r.Tier,
			}, "", " ")
			os.WriteFile(p, rb, 0o644)
			fmt.Printf("  what: %s\n", v.What)
			fmt.Printf("VIOLATION property=%s replay=%s\n", r.ID, p)
		}
		os.Exit(1)
	}
	os.Exit(0)
}

// Catch runs f and converts a panic into an error string ("" if none).
func Catch(f func()) (perr string) {
	defer func() {
		if e := recover(); e != nil {
			perr = fmt.Sprintf("panic: %v", e)
		}
	}()
	f()
	return ""
}

// J renders v as compact JSON (for samples and fingerprints).
func J(v interface{}) string {
	b, _ := json.Marshal(v)
	return string(b)
}

// Norm replaces digit runs and hex blobs by '#', to make failure classes out of failure texts.
func Norm(s string, max int) string {
	var sb strings.Builder
	prev := false
	for _, c := range s {
		if c >= '0' && c <= '9' {
			if !prev {
				sb.WriteByte('#')
			}
			prev = true
			continue
		}
		prev = false
		sb.WriteRune(c)
	}
	t := sb.String()
	if len(t) > max {
		t = t[:max]
	}
	return t
}

// QuietStderr redirects file descriptor 2 to a log file under .work/<id>/ (third-party libraries
// such as badger log to stderr unconditionally).
func (r *Run) QuietStderr() {
	dir := filepath.Join(Root(), ".work", strings.ToLower(r.ID))
	os.MkdirAll(dir, 0o755)
	f, err := os.OpenFile(filepath.Join(dir, "stderr.log"), os.O_CREATE|os.O_WRONLY|os.O_TRUNC, 0o644)
	if err == nil {
		syscall.Dup2(int(f.Fd()), 2)
	}
}
