package vx

import (
	"fmt"
	"time"

	"verif/vrt"
)

// Sched runs one controlled-scheduler exploration (vrt.Explorer) of a closed harness and feeds the
// run's counters: executions, transitions (scheduling steps), states (nodes of the schedule tree =
// distinct schedule prefixes). body builds a fresh real system and spawns the harness threads;
// check is the oracle for one finished execution ("" = ok) and may read what the body's threads
// recorded. Executions are enumerated in order of increasing preemption count.
type Sched struct {
	Run        *Run
	Name       string
	Body       func()
	Check      func(res *vrt.Result) string
	MaxPreempt int
	MaxSteps   int
	FP         func(what string) string
	Budget     time.Duration // wall budget of this exploration (0 = the run's)
}

// Explore runs it (in this process' shard when the run is forked).
func (q *Sched) Explore() *vrt.Explorer {
	sh, n := q.Run.Shard()
	return q.explore(sh, n)
}

// ExploreUnsharded explores the whole schedule space in this process even when the run is forked
// (for harnesses that distribute whole scenarios over the shards themselves).
func (q *Sched) ExploreUnsharded() *vrt.Explorer { return q.explore(0, 1) }

func (q *Sched) explore(sh, n int) *vrt.Explorer {
	r := q.Run
	if k := r.Free(); k > 0 {
		// auxiliary pass: the same body on real goroutines; the semantic oracle still runs, but its
		// failures are not replayable and are only noted — the pass exists for the race detector
		for i := 0; i < k; i++ {
			res := vrt.FreeRun(q.Body, 60*time.Second)
			r.Count("free_runs", 1)
			if res.Deadlock {
				r.Note("%s: free run %d did not finish", q.Name, i)
				break
			}
			if w := q.Check(res); w != "" {
				r.Count("free_runs_failing_the_oracle", 1)
				r.Note("%s: free run %d: %s", q.Name, i, w)
			}
		}
		return &vrt.Explorer{}
	}
	x := &vrt.Explorer{Body: q.Body, Check: q.Check, MaxPreempt: q.MaxPreempt, MaxSteps: q.MaxSteps, Shard: sh, NShard: n}
	dl := time.Now().Add(q.Budget)
	x.Stop = func() bool {
		if q.Budget > 0 && time.Now().After(dl) {
			r.Cap(q.Name + ": wall budget of this scenario reached")
			return true
		}
		return r.Expired(q.Name + " schedules")
	}
	x.OnFail = func(choices []int, res *vrt.Result, what string) {
		fp := q.Name + ":" + Norm(what, 60)
		if q.FP != nil {
			fp = q.FP(what)
		}
		ch := append([]int{}, choices...)
		r.Violate(fp, fmt.Sprintf("%s: %s (schedule of %d choices, %d preemptions)", q.Name, what, len(ch), res.Preemptions),
			map[string]interface{}{"harness": q.Name, "choices": ch, "what": what}, func() string {
				r2 := vrt.Replay(q.Body, ch, q.MaxSteps)
				if r2.Diverged != "" {
					return ""
				}
				return q.Check(r2)
			})
	}
	x.Run()
	if sh == 0 {
		tr := vrt.Replay(q.Body, nil, q.MaxSteps)
		t := tr.Trace
		if len(t) > 40 {
			t = append(append([]string{}, t[:40]...), fmt.Sprintf("… %d more steps", len(tr.Trace)-40))
		}
		r.Sample(map[string]interface{}{"harness": q.Name, "schedule": "default (0 deviations)", "steps": t})
	}
	r.Count("executions", x.Executions)
	r.Count("transitions", x.Transitions)
	r.Count("tree_nodes", x.TreeNodes)
	r.Count("unstable_replays", x.Unstable)
	r.Count("horizon_hits", x.Horizons)
	for _, w := range x.UnstableWhy {
		r.Note("%s: unstable: %s", q.Name, w)
	}
	r.Note("%s shard %d/%d: preemption bound completed=%d (max %d) executions=%d longest=%d points capped=%v", q.Name, sh, n, x.DoneBound, q.MaxPreempt, x.Executions, x.MaxPoints, x.Capped)
	return x
}

// ReplaySched re-executes one recorded schedule with tracing and returns the oracle's verdict.
func (q *Sched) ReplaySched(choices []int) (string, *vrt.Result) {
	res := vrt.Replay(q.Body, choices, q.MaxSteps)
	if res.Diverged != "" {
		return "replay diverged: " + res.Diverged, res
	}
	return q.Check(res), res
}
