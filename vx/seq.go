package vx

import (
	"fmt"
	"runtime"
	"sync"
)

// Seq is the explicit-state / operation-sequence explorer ("seqx" in DESIGN.md §2.1).
//
// A state is identified by the operation history that reaches it. Real objects rarely clone, so a
// successor is built by replaying the (shortest known) history on a fresh instance and applying one
// more operation. Search is breadth-first by history length, so the first counterexample is a
// shortest one. States are de-duplicated by Canon (a canonical form of the property-relevant real
// state); Check is the oracle evaluated after every transition (invariants + agreement of every
// query with the reference model that S carries alongside the real object).
type Seq[S any] struct {
	Run      *Run
	Name     string
	New      func() S
	NumOps   int
	OpName   func(i int) string
	Enabled  func(s S, i int) bool   // optional: op i applicable in state s
	Apply    func(s S, i int) string // applies op i to real system and model; returns "" or a failure description
	Check    func(s S) string        // oracle after the transition; "" = ok
	Canon    func(s S) string
	Close    func(s S) // optional
	MaxDepth int
	Workers  int // goroutines; 1 if the subject touches process globals
	// FP maps a failure description to a fingerprint (default: Name + ":" + first 60 bytes).
	FP func(what string, hist []int) string
}

type seqNode struct{ hist []int }

func (q *Seq[S]) names(h []int) []string {
	out := make([]string, len(h))
	for i, o := range h {
		out[i] = q.OpName(o)
	}
	return out
}

// exec replays hist on a fresh instance; returns the failure of the last step ("" if none).
func (q *Seq[S]) exec(hist []int, check bool) (s S, fail string) {
	s = q.New()
	for k, o := range hist {
		var f string
		p := Catch(func() { f = q.Apply(s, o) })
		if p != "" {
			f = p + " in " + q.OpName(o)
		}
		if k == len(hist)-1 {
			fail = f
		}
	}
	if fail == "" && check && q.Check != nil {
		p := Catch(func() { fail = q.Check(s) })
		if p != "" {
			fail = p + " in oracle queries"
		}
	}
	return s, fail
}

// Explore runs the search; returns the deepest fully completed depth.
func (q *Seq[S]) Explore() int {
	r := q.Run
	if r.Free() > 0 {
		return 0 // the auxiliary free-running pass only runs the scheduler scenarios
	}
	if q.Workers <= 0 {
		q.Workers = runtime.NumCPU()
	}
	pre := q.Name
	if pre != "" {
		pre += "/"
	}
	s0 := q.New()
	r.Seen(r.StateSet, pre+q.Canon(s0))
	if q.Close != nil {
		q.Close(s0)
	}
	frontier := []seqNode{{nil}}
	done := 0
	for depth := 1; depth <= q.MaxDepth && len(frontier) > 0; depth++ {
		var mu sync.Mutex
		var next []seqNode
		var wg sync.WaitGroup
		ch := make(chan seqNode, 64)
		capped := false
		for w := 0; w < q.Workers; w++ {
			wg.Add(1)
			go func() {
				defer wg.Done()
				for n := range ch {
					if r.Expired(fmt.Sprintf("%sdepth %d", pre, depth)) {
						mu.Lock()
						capped = true
						mu.Unlock()
						continue
					}
					for o := 0; o < q.NumOps; o++ {
						if q.Enabled != nil {
							sp, _ := q.exec(n.hist, false)
							en := q.Enabled(sp, o)
							if q.Close != nil {
								q.Close(sp)
							}
							if !en {
								continue
							}
						}
						h := append(append([]int{}, n.hist...), o)
						s, fail := q.exec(h, true)
						r.Count(r.TransCounter, 1)
						r.Count(r.TraceCounter, 1)
						if fail != "" {
							fp := ""
							if q.FP != nil {
								fp = q.FP(fail, h)
							} else {
								fp = q.Name + ":" + Norm(fail, 60)
							}
							hh := h
							r.Violate(fp, fmt.Sprintf("%s after %v", fail, q.names(h)), map[string]interface{}{"harness": q.Name, "ops": q.names(h), "hist": h}, func() string {
								s2, f2 := q.exec(hh, true)
								if q.Close != nil {
									q.Close(s2)
								}
								return f2
							})
							if q.Close != nil {
								q.Close(s)
							}
							continue // do not extend a failing history
						}
						c := pre + q.Canon(s)
						if q.Close != nil {
							q.Close(s)
						}
						if !r.Seen(r.StateSet, c) {
							mu.Lock()
							next = append(next, seqNode{h})
							mu.Unlock()
							r.SampleN(3, map[string]interface{}{"harness": q.Name, "history": q.names(h)})
						}
					}
				}
			}()
		}
		for _, n := range frontier {
			ch <- n
		}
		close(ch)
		wg.Wait()
		if capped {
			break
		}
		done = depth
		frontier = next
	}
	r.Note("%scompleted depth %d (max %d)", pre, done, q.MaxDepth)
	if done < q.MaxDepth && len(frontier) > 0 {
		r.Cap(fmt.Sprintf("%sdepth %d not completed", pre, done+1))
	}
	return done
}

// ReplayHist re-executes one recorded history and reports the failure ("" if it passes).
func (q *Seq[S]) ReplayHist(hist []int) string {
	s, f := q.exec(hist, true)
	if q.Close != nil {
		q.Close(s)
	}
	return f
}
