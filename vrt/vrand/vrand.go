// Package vrand replaces math/rand in instrumented copies: every draw is answered by a hook the
// harness controls (an explorer choice), falling back to a fixed deterministic stream.
package vrand

// IntHook, when set, answers Int().
var IntHook func() int

var ctr uint64

func next() uint64 {
	ctr += 0x9e3779b97f4a7c15
	z := ctr
	z = (z ^ (z >> 30)) * 0xbf58476d1ce4e5b9
	z = (z ^ (z >> 27)) * 0x94d049bb133111eb
	return z ^ (z >> 31)
}

// Int mirrors rand.Int.
func Int() int {
	if IntHook != nil {
		return IntHook()
	}
	return int(next() >> 1)
}

// Intn mirrors rand.Intn.
func Intn(n int) int { return Int() % n }

// Int63 mirrors rand.Int63.
func Int63() int64 { return int64(Int()) }

// Int31n mirrors rand.Int31n.
func Int31n(n int32) int32 { return int32(Int() % int(n)) }

// Seed mirrors rand.Seed.
func Seed(int64) {}
