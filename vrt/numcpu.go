// Package vrt holds the run-time side of the vinstr seams that are not import replacements:
// owned worker count (rule numcpu) and owned map iteration order (rule maprange).
package vrt

import "runtime"

// NumCPUHook, when set, answers NumCPU() (the harness enumerates worker counts through it).
var NumCPUHook func() int

// NumCPU replaces runtime.NumCPU() / runtime.GOMAXPROCS(0) in instrumented copies.
func NumCPU() int {
	if h := NumCPUHook; h != nil {
		return h()
	}
	return runtime.NumCPU()
}
