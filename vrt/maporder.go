package vrt

import (
	"fmt"
	"sort"
)

// MapOrderHook, when set, is asked for the visiting order of a map with n keys: it returns a
// permutation of 0..n-1 applied to the canonically sorted key list (nil or a slice of the wrong
// length / not a permutation = identity). The harness owns map iteration order through it.
var MapOrderHook func(n int) []int

// MapOrder returns the keys of m in canonical (sorted) order permuted by MapOrderHook. It replaces
// `for k, v := range m` in instrumented copies (rule maprange): for _, k := range vrt.MapOrder(m) { v := m[k]; ... }
func MapOrder[K comparable, V any](m map[K]V) []K {
	keys := make([]K, 0, len(m))
	for k := range m {
		keys = append(keys, k)
	}
	sort.Slice(keys, func(i, j int) bool { return less(keys[i], keys[j]) })
	h := MapOrderHook
	if h == nil {
		return keys
	}
	p := h(len(keys))
	if len(p) != len(keys) {
		return keys
	}
	seen := make([]bool, len(p))
	for _, i := range p {
		if i < 0 || i >= len(p) || seen[i] {
			return keys
		}
		seen[i] = true
	}
	out := make([]K, len(keys))
	for i, j := range p {
		out[i] = keys[j]
	}
	return out
}

func less(a, b interface{}) bool {
	switch x := a.(type) {
	case int:
		return x < b.(int)
	case int8:
		return x < b.(int8)
	case int16:
		return x < b.(int16)
	case int32:
		return x < b.(int32)
	case int64:
		return x < b.(int64)
	case uint:
		return x < b.(uint)
	case uint8:
		return x < b.(uint8)
	case uint16:
		return x < b.(uint16)
	case uint32:
		return x < b.(uint32)
	case uint64:
		return x < b.(uint64)
	case string:
		return x < b.(string)
	case float64:
		return x < b.(float64)
	}
	return fmt.Sprintf("%#v", a) < fmt.Sprintf("%#v", b)
}
