package vrt

import (
	"fmt"
	"reflect"
	"runtime"
	"sync"
)

type chanInfo struct{ closed bool }

func chanPtr(ch interface{}) uintptr {
	v := reflect.ValueOf(ch)
	if !v.IsValid() || v.IsNil() {
		return 0
	}
	return v.Pointer()
}

func (s *sched) info(p uintptr) *chanInfo {
	ci := s.chans[p]
	if ci == nil {
		ci = &chanInfo{}
		s.chans[p] = ci
	}
	return ci
}

// probeClosed detects a channel that was closed outside instrumented code (context.Done etc.).
func (s *sched) probeClosed(p uintptr, rv reflect.Value) bool {
	ci := s.info(p)
	if ci.closed {
		return true
	}
	if rv.Len() > 0 {
		return false
	}
	x, ok := rv.TryRecv()
	if x.IsValid() && !ok {
		ci.closed = true
		return true
	}
	if ok {
		panic("vrt: a value arrived on a channel from outside the scheduled threads")
	}
	return false
}

// partner finds a parked thread whose pending operation can rendez-vous on channel p.
func (s *sched) partner(me *thread, p uintptr, wantSend bool) (*thread, *SelCase) {
	for _, t := range s.threads {
		if t == me || t.done || t.p == nil || t.p.complete {
			continue
		}
		if t.p.sel != nil {
			for _, c := range t.p.sel {
				if c.ptr == p && c.send == wantSend && c.cap == 0 {
					return t, c
				}
			}
			continue
		}
		if t.p.chptr == p && ((wantSend && t.p.isSend) || (!wantSend && t.p.isRecv)) {
			return t, nil
		}
	}
	return nil, nil
}

// Send is `ch <- v`.
func Send[T any](ch chan<- T, v T) {
	t := curThread()
	if t != nil && t.abort {
		return
	}
	if t == nil {
		ch <- v
		return
	}
	s := active
	if ch == nil {
		s.yield(t, &pend{desc: "send on nil channel", enabled: func() bool { return false }})
	}
	p := chanPtr(ch)
	ci := s.info(p)
	if cap(ch) > 0 {
		s.yield(t, &pend{desc: fmt.Sprintf("send chan %x", p&0xffff), enabled: func() bool { return ci.closed || len(ch) < cap(ch) }})
		if ci.closed {
			panic(rtError("send on closed channel"))
		}
		select {
		case ch <- v:
		default:
			panic("vrt: buffered send would block")
		}
		return
	}
	pd := &pend{desc: fmt.Sprintf("send uchan %x", p&0xffff), chptr: p, isSend: true, sendVal: v}
	pd.enabled = func() bool {
		if ci.closed {
			return true
		}
		r, _ := s.partner(t, p, false)
		return r != nil
	}
	s.yield(t, pd)
	if pd.complete {
		return
	}
	if ci.closed {
		panic(rtError("send on closed channel"))
	}
	r, c := s.partner(t, p, false)
	if r == nil {
		panic("vrt: rendez-vous partner vanished")
	}
	r.gotVal, r.gotOK = v, true
	if c != nil {
		r.selIdx = c.idx
	}
	r.p.complete = true
}

func recvCommon[T any](ch <-chan T) (T, bool) {
	var zero T
	t := curThread()
	if t != nil && t.abort {
		return zero, false
	}
	if t == nil {
		v, ok := <-ch
		return v, ok
	}
	s := active
	if ch == nil {
		s.yield(t, &pend{desc: "recv on nil channel", enabled: func() bool { return false }})
	}
	p := chanPtr(ch)
	rv := reflect.ValueOf(ch)
	if cap(ch) > 0 {
		s.yield(t, &pend{desc: fmt.Sprintf("recv chan %x", p&0xffff), enabled: func() bool { return len(ch) > 0 || s.probeClosed(p, rv) }})
		if len(ch) > 0 {
			select {
			case v, ok := <-ch:
				return v, ok
			default:
				panic("vrt: buffered recv would block")
			}
		}
		return zero, false
	}
	pd := &pend{desc: fmt.Sprintf("recv uchan %x", p&0xffff), chptr: p, isRecv: true}
	pd.enabled = func() bool {
		if q, _ := s.partner(t, p, true); q != nil {
			return true
		}
		return s.probeClosed(p, rv)
	}
	s.yield(t, pd)
	if pd.complete {
		v, _ := t.gotVal.(T)
		t.gotVal = nil
		return v, t.gotOK
	}
	if q, c := s.partner(t, p, true); q != nil {
		var val interface{}
		if c != nil {
			val = c.val
			q.selIdx = c.idx
		} else {
			val = q.p.sendVal
		}
		q.p.complete = true
		v, _ := val.(T)
		return v, true
	}
	return zero, false // closed
}

// Recv is `<-ch`.
func Recv[T any](ch <-chan T) T { v, _ := recvCommon(ch); return v }

// Recv2 is `v, ok := <-ch`.
func Recv2[T any](ch <-chan T) (T, bool) { return recvCommon(ch) }

// Close is `close(ch)`.
func Close[T any](ch chan<- T) {
	t := curThread()
	if t != nil && t.abort {
		return
	}
	if t == nil {
		close(ch)
		return
	}
	s := active
	p := chanPtr(ch)
	s.yield(t, &pend{desc: fmt.Sprintf("close chan %x", p&0xffff), enabled: func() bool { return true }})
	ci := s.info(p)
	if ci.closed {
		panic(rtError("close of closed channel"))
	}
	ci.closed = true
	close(ch)
}

// SelCase is one communication clause of an instrumented select.
type SelCase struct {
	idx   int
	ptr   uintptr
	send  bool
	cap   int
	val   interface{}
	rv    reflect.Value // the channel (free-running fall-back)
	ready func(s *sched, me *thread) bool
	do    func(s *sched, me *thread)
}

// CaseRecv builds `case … <-ch:`.
func CaseRecv[T any](ch <-chan T) *SelCase {
	c := &SelCase{}
	if ch == nil {
		c.ready = func(*sched, *thread) bool { return false }
		return c
	}
	c.ptr = chanPtr(ch)
	c.cap = cap(ch)
	rv := reflect.ValueOf(ch)
	c.rv = rv
	c.ready = func(s *sched, me *thread) bool {
		if c.cap > 0 {
			return len(ch) > 0 || s.probeClosed(c.ptr, rv)
		}
		if q, _ := s.partner(me, c.ptr, true); q != nil {
			return true
		}
		return s.probeClosed(c.ptr, rv)
	}
	c.do = func(s *sched, me *thread) {
		if c.cap > 0 {
			if len(ch) > 0 {
				select {
				case v, ok := <-ch:
					me.gotVal, me.gotOK = v, ok
				default:
					panic("vrt: buffered recv would block")
				}
				return
			}
			var zero T
			me.gotVal, me.gotOK = zero, false
			return
		}
		if q, qc := s.partner(me, c.ptr, true); q != nil {
			if qc != nil {
				me.gotVal = qc.val
				q.selIdx = qc.idx
			} else {
				me.gotVal = q.p.sendVal
			}
			me.gotOK = true
			q.p.complete = true
			return
		}
		var zero T
		me.gotVal, me.gotOK = zero, false
	}
	return c
}

// CaseSend builds `case ch <- v:`.
func CaseSend[T any](ch chan<- T, v T) *SelCase {
	c := &SelCase{send: true, val: v}
	if ch == nil {
		c.ready = func(*sched, *thread) bool { return false }
		return c
	}
	c.ptr = chanPtr(ch)
	c.cap = cap(ch)
	c.rv = reflect.ValueOf(ch)
	c.ready = func(s *sched, me *thread) bool {
		if s.info(c.ptr).closed {
			return true
		}
		if c.cap > 0 {
			return len(ch) < cap(ch)
		}
		r, _ := s.partner(me, c.ptr, false)
		return r != nil
	}
	c.do = func(s *sched, me *thread) {
		if s.info(c.ptr).closed {
			panic(rtError("send on closed channel"))
		}
		if c.cap > 0 {
			select {
			case ch <- v:
			default:
				panic("vrt: buffered send would block")
			}
			return
		}
		r, rc := s.partner(me, c.ptr, false)
		if r == nil {
			panic("vrt: rendez-vous partner vanished")
		}
		r.gotVal, r.gotOK = v, true
		if rc != nil {
			r.selIdx = rc.idx
		}
		r.p.complete = true
	}
	return c
}

// Select performs an instrumented select; returns the index of the clause taken, -1 for default.
func Select(hasDefault bool, cases ...*SelCase) int {
	t := curThread()
	if t != nil && t.abort {
		return -1
	}
	if t == nil {
		return realSelect(hasDefault, cases)
	}
	s := active
	for i, c := range cases {
		c.idx = i
	}
	readyList := func() []int {
		var l []int
		for i, c := range cases {
			if c.ready(s, t) {
				l = append(l, i)
			}
		}
		return l
	}
	pd := &pend{desc: fmt.Sprintf("select/%d", len(cases)), sel: cases}
	pd.enabled = func() bool { return hasDefault || len(readyList()) > 0 }
	s.yield(t, pd)
	if pd.complete {
		return t.selIdx
	}
	l := readyList()
	if len(l) == 0 {
		if !hasDefault {
			panic("vrt: select resumed with nothing ready")
		}
		return -1
	}
	k := 0
	if len(l) > 1 {
		k = s.choice(len(l), false, true, "select tie-break")
	}
	cases[l[k]].do(s, t)
	return l[k]
}

// SelGet returns the value received by the clause just taken (ch only fixes the type).
func SelGet[T any](ch <-chan T) (T, bool) {
	t := curThread()
	if t == nil {
		g := freeGot(true)
		v, _ := g.v.(T)
		return v, g.ok
	}
	v, _ := t.gotVal.(T)
	t.gotVal = nil
	return v, t.gotOK
}

// SelGet1 is SelGet without the ok result.
func SelGet1[T any](ch <-chan T) T { v, _ := SelGet(ch); return v }

// what the last free-running select of each goroutine received (goroutine id -> value)
type gotRec struct {
	v  interface{}
	ok bool
}

var (
	freeGotMu sync.Mutex
	freeGots  = map[int64]gotRec{}
)

func goid() int64 {
	var buf [64]byte
	n := runtime.Stack(buf[:], false)
	var id int64
	for _, c := range buf[len("goroutine "):n] {
		if c < '0' || c > '9' {
			break
		}
		id = id*10 + int64(c-'0')
	}
	return id
}

func freeGot(take bool) gotRec {
	freeGotMu.Lock()
	defer freeGotMu.Unlock()
	id := goid()
	g := freeGots[id]
	if take {
		delete(freeGots, id)
	}
	return g
}

// realSelect is the fall-through used outside an exploration (reflect.Select on the real channels).
func realSelect(hasDefault bool, cases []*SelCase) int {
	rc := make([]reflect.SelectCase, 0, len(cases)+1)
	for _, c := range cases {
		switch {
		case !c.rv.IsValid(): // nil channel: never ready
			rc = append(rc, reflect.SelectCase{Dir: reflect.SelectRecv, Chan: reflect.ValueOf((chan struct{})(nil))})
		case c.send:
			sv := reflect.ValueOf(c.val)
			if !sv.IsValid() {
				sv = reflect.Zero(c.rv.Type().Elem())
			}
			rc = append(rc, reflect.SelectCase{Dir: reflect.SelectSend, Chan: c.rv, Send: sv})
		default:
			rc = append(rc, reflect.SelectCase{Dir: reflect.SelectRecv, Chan: c.rv})
		}
	}
	if hasDefault {
		rc = append(rc, reflect.SelectCase{Dir: reflect.SelectDefault})
	}
	i, v, ok := reflect.Select(rc)
	if hasDefault && i == len(cases) {
		return -1
	}
	if !cases[i].send && cases[i].rv.IsValid() {
		var val interface{}
		if v.IsValid() {
			val = v.Interface()
		}
		freeGotMu.Lock()
		freeGots[goid()] = gotRec{val, ok}
		freeGotMu.Unlock()
	}
	return i
}
