package vrt

import "fmt"

// Explorer enumerates the executions of a closed multi-threaded harness in order of increasing
// number of deviations from the default scheduler (iterative deviation bounding without
// re-execution: a priority queue of choice prefixes keyed by cost). The default scheduler is
// non-preemptive: it keeps running the current thread while it is enabled, otherwise the enabled
// thread with the lowest id, and takes the first ready clause of a select. A deviation is any other
// choice at a scheduling point: a preemption, another thread at a blocking point, another ready
// select clause (the latter two are free when PreemptOnly is set = classic preemption bounding,
// which is exponential in the number of blocking points). Every execution runs to completion.
type Explorer struct {
	Body       func()                   // builds a fresh system and spawns the harness threads (runs as thread "main")
	Check      func(res *Result) string // oracle for one finished execution; "" = ok
	MaxPreempt int
	MaxSteps   int
	Stop       func() bool // budget
	Shard      int
	NShard     int
	// statistics
	Executions   int64
	Transitions  int64
	TreeNodes    int64
	DoneBound    int // highest preemption bound completely explored (-1 = none)
	Capped       bool
	Unstable     int64
	UnstableWhy  []string // first few divergence messages
	Horizons     int64
	MaxPoints    int
	OnFail       func(choices []int, res *Result, what string)
	RecheckEvery int64
	PreemptOnly  bool // charge only preemptions (CHESS); default charges every deviation (delay bounding)
}

type item struct {
	pre  []uint8
	cost int
}

func choicesOf(res *Result) []int {
	c := make([]int, len(res.Points))
	for i, p := range res.Points {
		c[i] = p.Chosen
	}
	return c
}

func sig(res *Result) string {
	s := fmt.Sprintf("%d/%d/%v/%v/", len(res.Points), res.Steps, res.Deadlock, res.Horizon)
	for _, p := range res.Points {
		s += fmt.Sprintf("%d:%d,", p.N, p.Chosen)
	}
	return s
}

// Run explores; returns when everything up to MaxPreempt is covered or Stop() says so.
func (x *Explorer) Run() {
	if x.MaxSteps == 0 {
		x.MaxSteps = 20000
	}
	if x.NShard == 0 {
		x.NShard = 1
	}
	if x.RecheckEvery == 0 {
		x.RecheckEvery = 500
	}
	buckets := make([][]item, x.MaxPreempt+1)
	buckets[0] = []item{{nil, 0}}
	x.DoneBound = -1
	first := true
	for b := 0; b <= x.MaxPreempt; b++ {
		for len(buckets[b]) > 0 {
			if x.Stop != nil && x.Stop() {
				x.Capped = true
				return
			}
			n := len(buckets[b])
			it := buckets[b][n-1]
			buckets[b] = buckets[b][:n-1]
			pre := make([]int, len(it.pre))
			for i, c := range it.pre {
				pre[i] = int(c)
			}
			res := Execute(x.Body, pre, x.MaxSteps, false, nil)
			x.Executions++
			x.Transitions += int64(res.Steps)
			x.TreeNodes += int64(len(res.Points)-len(pre)) + 1
			if len(res.Points) > x.MaxPoints {
				x.MaxPoints = len(res.Points)
			}
			if res.Horizon {
				x.Horizons++
			}
			if res.Diverged != "" {
				x.Unstable++
				if len(x.UnstableWhy) < 3 {
					x.UnstableWhy = append(x.UnstableWhy, fmt.Sprintf("prefix %v: %s", pre, res.Diverged))
				}
				continue
			}
			if x.Executions%x.RecheckEvery == 1 {
				r2 := Execute(x.Body, choicesOf(res), x.MaxSteps, false, nil)
				if sig(r2) != sig(res) {
					x.Unstable++
					if len(x.UnstableWhy) < 3 {
						x.UnstableWhy = append(x.UnstableWhy, fmt.Sprintf("re-execution of %v observed a different run", choicesOf(res)))
					}
					continue
				}
			}
			if !first || x.Shard == 0 {
				if what := x.Check(res); what != "" && x.OnFail != nil {
					x.OnFail(choicesOf(res), res, what)
				}
			}
			// children: deviate at every point beyond the prefix
			cost := 0
			for i, p := range res.Points {
				if i >= len(pre) {
					for alt := 1; alt < p.N; alt++ {
						c := cost
						if !x.PreemptOnly || (p.RunningEnabled && !p.Free) {
							c++
						}
						if c > x.MaxPreempt {
							continue
						}
						if first && x.NShard > 1 {
							// distribute the first-level subtrees over the shards
							if (i*7+alt)%x.NShard != x.Shard {
								continue
							}
						}
						np := make([]uint8, i+1)
						for k := 0; k < i; k++ {
							np[k] = uint8(res.Points[k].Chosen)
						}
						np[i] = uint8(alt)
						buckets[c] = append(buckets[c], item{np, c})
					}
				}
				if p.Chosen != 0 && (!x.PreemptOnly || (p.RunningEnabled && !p.Free)) {
					cost++
				}
			}
			first = false
		}
		x.DoneBound = b
	}
}

// Replay re-executes one recorded choice list with tracing.
func Replay(body func(), choices []int, maxSteps int) *Result {
	if maxSteps == 0 {
		maxSteps = 20000
	}
	return Execute(body, choices, maxSteps, true, nil)
}
