package vrt

import "sort"

// Virtual clock. Time only advances when no thread is enabled: then it jumps to the earliest
// pending deadline (a timer fires or a sleeper wakes).

type vtimer struct {
	at   int64
	seq  int
	fire func()
	dead bool
}

// Clock returns the virtual time in nanoseconds since the start of the execution.
func Clock() int64 {
	if s := active; s != nil {
		return s.clock
	}
	return 0
}

// AddTimer registers fire() to run (in scheduler context, not as a thread) when the virtual clock
// reaches now+d. It returns a cancel function reporting whether the timer was still pending.
func AddTimer(d int64, fire func()) (cancel func() bool) {
	s := active
	if s == nil {
		panic("vrt.AddTimer outside an exploration")
	}
	if d < 0 {
		d = 0
	}
	s.timerSeq++
	t := &vtimer{at: s.clock + d, seq: s.timerSeq, fire: fire}
	s.timers = append(s.timers, t)
	return func() bool {
		if t.dead {
			return false
		}
		t.dead = true
		return true
	}
}

func (s *sched) fireNextTimer() bool {
	live := s.timers[:0]
	for _, t := range s.timers {
		if !t.dead {
			live = append(live, t)
		}
	}
	s.timers = live
	if len(live) == 0 {
		return false
	}
	sort.SliceStable(live, func(i, j int) bool {
		if live[i].at != live[j].at {
			return live[i].at < live[j].at
		}
		return live[i].seq < live[j].seq
	})
	t := live[0]
	t.dead = true
	if t.at > s.clock {
		s.clock = t.at
	}
	t.fire()
	return true
}

// SleepFor blocks the calling thread for d virtual nanoseconds.
func SleepFor(d int64) bool {
	t := curThread()
	if t == nil {
		return false
	}
	if t.abort {
		return true
	}
	s := active
	woke := false
	AddTimer(d, func() { woke = true })
	s.yield(t, &pend{desc: "sleep", enabled: func() bool { return woke }})
	return true
}

// SpawnDaemon starts f as a scheduled thread that is not expected to terminate (timer callbacks).
func SpawnDaemon(name string, f func()) {
	s := active
	if s == nil {
		go f()
		return
	}
	s.newThread(name, false, f)
}
