// Package vtime replaces "time" in instrumented copies: under the controlled scheduler the clock is
// virtual (it advances only when no thread is enabled, to the earliest deadline); outside an
// exploration everything is the real package.
package vtime

import (
	"time"

	"verif/vrt"
)

type (
	Duration = time.Duration
	Time     = time.Time
	Month    = time.Month
	Location = time.Location
	Weekday  = time.Weekday
)

const (
	Nanosecond  = time.Nanosecond
	Microsecond = time.Microsecond
	Millisecond = time.Millisecond
	Second      = time.Second
	Minute      = time.Minute
	Hour        = time.Hour
	RFC3339     = time.RFC3339
	RFC3339Nano = time.RFC3339Nano
)

var (
	UTC   = time.UTC
	Local = time.Local
)

// Epoch is the wall time of virtual instant 0.
var Epoch = time.Unix(1700000000, 0)

func Unix(s, ns int64) Time { return time.Unix(s, ns) }
func Date(y int, m Month, d, h, mi, s, ns int, l *Location) Time {
	return time.Date(y, m, d, h, mi, s, ns, l)
}
func ParseDuration(s string) (Duration, error) { return time.ParseDuration(s) }
func Parse(l, v string) (Time, error)          { return time.Parse(l, v) }

// Now is virtual under the scheduler.
func Now() Time {
	if vrt.Controlled() {
		return Epoch.Add(Duration(vrt.Clock()))
	}
	return time.Now()
}

func Since(t Time) Duration { return Now().Sub(t) }
func Until(t Time) Duration { return t.Sub(Now()) }

// Sleep blocks for d of virtual time.
func Sleep(d Duration) {
	if vrt.Aborting() {
		return
	}
	if !vrt.SleepFor(int64(d)) {
		time.Sleep(d)
	}
}

// Timer mirrors time.Timer.
type Timer struct {
	C      <-chan Time
	c      chan Time
	real   *time.Timer
	cancel func() bool
	f      func()
}

func (t *Timer) arm(d Duration) {
	t.cancel = vrt.AddTimer(int64(d), func() {
		if t.f != nil {
			vrt.SpawnDaemon("afterfunc", t.f)
			return
		}
		select {
		case t.c <- Epoch.Add(Duration(vrt.Clock())):
		default:
		}
	})
}

// NewTimer mirrors time.NewTimer.
func NewTimer(d Duration) *Timer {
	if !vrt.Controlled() {
		rt := time.NewTimer(d)
		return &Timer{C: rt.C, real: rt}
	}
	c := make(chan Time, 1)
	t := &Timer{C: c, c: c}
	t.arm(d)
	return t
}

// AfterFunc mirrors time.AfterFunc (f runs as a scheduled thread).
func AfterFunc(d Duration, f func()) *Timer {
	if !vrt.Controlled() {
		return &Timer{real: time.AfterFunc(d, f)}
	}
	t := &Timer{f: f}
	t.arm(d)
	return t
}

// Stop mirrors (*time.Timer).Stop.
func (t *Timer) Stop() bool {
	if t.real != nil {
		return t.real.Stop()
	}
	if vrt.Aborting() || t.cancel == nil {
		return false
	}
	return t.cancel()
}

// Reset mirrors (*time.Timer).Reset.
func (t *Timer) Reset(d Duration) bool {
	if t.real != nil {
		return t.real.Reset(d)
	}
	if vrt.Aborting() {
		return false
	}
	was := t.cancel != nil && t.cancel()
	t.arm(d)
	return was
}

// After mirrors time.After.
func After(d Duration) <-chan Time { return NewTimer(d).C }

// Ticker mirrors time.Ticker.
type Ticker struct {
	C       <-chan Time
	c       chan Time
	real    *time.Ticker
	d       Duration
	stopped bool
	cancel  func() bool
}

func (t *Ticker) arm() {
	t.cancel = vrt.AddTimer(int64(t.d), func() {
		if t.stopped {
			return
		}
		select {
		case t.c <- Epoch.Add(Duration(vrt.Clock())):
		default:
		}
		t.arm()
	})
}

// NewTicker mirrors time.NewTicker.
func NewTicker(d Duration) *Ticker {
	if !vrt.Controlled() {
		rt := time.NewTicker(d)
		return &Ticker{C: rt.C, real: rt}
	}
	c := make(chan Time, 1)
	t := &Ticker{C: c, c: c, d: d}
	t.arm()
	return t
}

// Stop mirrors (*time.Ticker).Stop.
func (t *Ticker) Stop() {
	if t.real != nil {
		t.real.Stop()
		return
	}
	t.stopped = true
	if t.cancel != nil && !vrt.Aborting() {
		t.cancel()
	}
}

// Reset mirrors (*time.Ticker).Reset.
func (t *Ticker) Reset(d Duration) {
	if t.real != nil {
		t.real.Reset(d)
		return
	}
	if t.cancel != nil {
		t.cancel()
	}
	t.d = d
	t.arm()
}

// Tick mirrors time.Tick.
func Tick(d Duration) <-chan Time { return NewTicker(d).C }
