// Package vsync replaces "sync" in instrumented copies: every acquire-type operation is a
// scheduling point of the controlled scheduler; outside an exploration the real primitives are used.
package vsync

import (
	"sync"

	"verif/vrt"
)

// Locker is sync.Locker.
type Locker = sync.Locker

// Mutex replaces sync.Mutex.
type Mutex struct {
	real  sync.Mutex
	held  bool
	owner int
}

// Lock is a scheduling point; enabled while the mutex is free.
func (m *Mutex) Lock() {
	if vrt.Aborting() {
		return
	}
	if !vrt.Wait("Mutex.Lock", func() bool { return !m.held }) {
		m.real.Lock()
		return
	}
	m.held = true
	m.owner = vrt.CurID()
}

// TryLock mirrors sync.Mutex.TryLock.
func (m *Mutex) TryLock() bool {
	if vrt.Aborting() {
		return true
	}
	if !vrt.Controlled() {
		return m.real.TryLock()
	}
	vrt.SchedPoint("Mutex.TryLock")
	if m.held {
		return false
	}
	m.held = true
	m.owner = vrt.CurID()
	return true
}

// Unlock releases the mutex.
func (m *Mutex) Unlock() {
	if vrt.Aborting() {
		return
	}
	if !vrt.Controlled() {
		m.real.Unlock()
		return
	}
	if !m.held {
		panic("sync: unlock of unlocked mutex")
	}
	m.held = false
}

// RWMutex replaces sync.RWMutex.
type RWMutex struct {
	real    sync.RWMutex
	writer  bool
	readers int
}

// Lock takes the write lock.
func (m *RWMutex) Lock() {
	if vrt.Aborting() {
		return
	}
	if !vrt.Wait("RWMutex.Lock", func() bool { return !m.writer && m.readers == 0 }) {
		m.real.Lock()
		return
	}
	m.writer = true
}

// Unlock releases the write lock.
func (m *RWMutex) Unlock() {
	if vrt.Aborting() {
		return
	}
	if !vrt.Controlled() {
		m.real.Unlock()
		return
	}
	if !m.writer {
		panic("sync: Unlock of unlocked RWMutex")
	}
	m.writer = false
}

// RLock takes a read lock.
func (m *RWMutex) RLock() {
	if vrt.Aborting() {
		return
	}
	if !vrt.Wait("RWMutex.RLock", func() bool { return !m.writer }) {
		m.real.RLock()
		return
	}
	m.readers++
}

// RUnlock releases a read lock.
func (m *RWMutex) RUnlock() {
	if vrt.Aborting() {
		return
	}
	if !vrt.Controlled() {
		m.real.RUnlock()
		return
	}
	if m.readers <= 0 {
		panic("sync: RUnlock of unlocked RWMutex")
	}
	m.readers--
}

// RLocker mirrors sync.RWMutex.RLocker.
func (m *RWMutex) RLocker() Locker { return (*rlocker)(m) }

type rlocker RWMutex

func (r *rlocker) Lock()   { (*RWMutex)(r).RLock() }
func (r *rlocker) Unlock() { (*RWMutex)(r).RUnlock() }

// WaitGroup replaces sync.WaitGroup.
type WaitGroup struct {
	real sync.WaitGroup
	n    int
}

// Add adds delta.
func (w *WaitGroup) Add(delta int) {
	if vrt.Aborting() {
		return
	}
	if !vrt.Controlled() {
		w.real.Add(delta)
		return
	}
	w.n += delta
	if w.n < 0 {
		panic("sync: negative WaitGroup counter")
	}
}

// Done decrements.
func (w *WaitGroup) Done() { w.Add(-1) }

// Wait is a scheduling point; enabled when the counter is zero.
func (w *WaitGroup) Wait() {
	if vrt.Aborting() {
		return
	}
	if !vrt.Wait("WaitGroup.Wait", func() bool { return w.n == 0 }) {
		w.real.Wait()
	}
}

// Once replaces sync.Once.
type Once struct {
	real    sync.Once
	done    bool
	running bool
}

// Do runs f once.
func (o *Once) Do(f func()) {
	if vrt.Aborting() {
		return
	}
	if !vrt.Wait("Once.Do", func() bool { return !o.running }) {
		o.real.Do(f)
		return
	}
	if o.done {
		return
	}
	o.running = true
	defer func() { o.running = false; o.done = true }()
	f()
}

// Cond replaces sync.Cond.
type Cond struct {
	L       Locker
	real    *sync.Cond
	waiters []*int
}

// NewCond mirrors sync.NewCond.
func NewCond(l Locker) *Cond { return &Cond{L: l, real: sync.NewCond(l)} }

// Wait releases L, waits for a signal, re-acquires L.
func (c *Cond) Wait() {
	if vrt.Aborting() {
		return
	}
	if !vrt.Controlled() {
		c.real.Wait()
		return
	}
	flag := new(int)
	c.waiters = append(c.waiters, flag)
	c.L.Unlock()
	vrt.Wait("Cond.Wait", func() bool { return *flag == 1 })
	c.L.Lock()
}

// Signal wakes one waiter.
func (c *Cond) Signal() {
	if vrt.Aborting() {
		return
	}
	if !vrt.Controlled() {
		c.real.Signal()
		return
	}
	if len(c.waiters) > 0 {
		*c.waiters[0] = 1
		c.waiters = c.waiters[1:]
	}
}

// Broadcast wakes all waiters.
func (c *Cond) Broadcast() {
	if vrt.Aborting() {
		return
	}
	if !vrt.Controlled() {
		c.real.Broadcast()
		return
	}
	for _, w := range c.waiters {
		*w = 1
	}
	c.waiters = nil
}

// Map replaces sync.Map (operations are scheduling points).
type Map struct{ real sync.Map }

func (m *Map) Load(k interface{}) (interface{}, bool) {
	vrt.SchedPoint("Map.Load")
	return m.real.Load(k)
}
func (m *Map) Store(k, v interface{}) { vrt.SchedPoint("Map.Store"); m.real.Store(k, v) }
func (m *Map) Delete(k interface{})   { vrt.SchedPoint("Map.Delete"); m.real.Delete(k) }
func (m *Map) LoadOrStore(k, v interface{}) (interface{}, bool) {
	vrt.SchedPoint("Map.LoadOrStore")
	return m.real.LoadOrStore(k, v)
}
func (m *Map) LoadAndDelete(k interface{}) (interface{}, bool) {
	vrt.SchedPoint("Map.LoadAndDelete")
	return m.real.LoadAndDelete(k)
}
func (m *Map) Range(f func(k, v interface{}) bool) { vrt.SchedPoint("Map.Range"); m.real.Range(f) }

// Pool replaces sync.Pool with a deterministic LIFO free list (maximal reuse: the adversarial case
// for message recycling).
type Pool struct {
	New  func() interface{}
	free []interface{}
	mu   sync.Mutex
}

// Get pops the most recently Put item.
func (p *Pool) Get() interface{} {
	vrt.SchedPoint("Pool.Get")
	p.mu.Lock()
	if n := len(p.free); n > 0 {
		x := p.free[n-1]
		p.free = p.free[:n-1]
		p.mu.Unlock()
		return x
	}
	p.mu.Unlock()
	if p.New != nil {
		return p.New()
	}
	return nil
}

// Put pushes x.
func (p *Pool) Put(x interface{}) {
	vrt.SchedPoint("Pool.Put")
	p.mu.Lock()
	p.free = append(p.free, x)
	p.mu.Unlock()
}
