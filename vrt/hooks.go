package vrt

import "fmt"

// The functions in this file are the narrow interface used by vsync / vatomic / vtime.

// Point is a scheduling point before an always-enabled visible operation (atomics, unlock-free ops).
func SchedPoint(desc string) {
	t := curThread()
	if t == nil || t.abort {
		return
	}
	active.yield(t, &pend{desc: desc, enabled: func() bool { return true }})
}

// Wait parks the thread until cond holds; returns false when no exploration is running (the caller
// must then use the real primitive).
func Wait(desc string, cond func() bool) bool {
	t := curThread()
	if t == nil {
		return false
	}
	if t.abort {
		return true
	}
	active.yield(t, &pend{desc: desc, enabled: cond})
	return true
}

// Controlled reports whether the caller runs under the scheduler.
func Controlled() bool { return curThread() != nil }

// CurName names the running thread.
func CurName() string {
	if t := curThread(); t != nil {
		return t.name
	}
	return ""
}

// CurID returns the running thread's id (-1 outside).
func CurID() int {
	if t := curThread(); t != nil {
		return t.id
	}
	return -1
}

func ptrDesc(kind string, p interface{}) string { return fmt.Sprintf("%s %p", kind, p) }

// Choose is an explicit environment choice made by the harness (a scripted peer fails or not, …).
// Alternative 0 is the default answer; any other answer is a deviation (costs 1 under deviation
// bounding).
func Choose(n int, desc string) int {
	t := curThread()
	if t == nil || t.abort || n <= 1 {
		return 0
	}
	return active.choice(n, false, false, desc)
}
