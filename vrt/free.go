package vrt

import (
	"fmt"
	"sync"
	"time"
)

// Free-running mode: the same harness bodies run on real goroutines with the real primitives (every
// shim falls back to them outside an exploration), so that a -race build sees the program's own
// happens-before edges instead of the scheduler's hand-offs. Used by the auxiliary race pass only.

var (
	freeMu     sync.Mutex
	freeWG     *sync.WaitGroup
	freePanics []string
)

func freeSpawn(name string, f func()) bool {
	freeMu.Lock()
	wg := freeWG
	freeMu.Unlock()
	if wg == nil {
		return false
	}
	wg.Add(1)
	go func() {
		defer wg.Done()
		defer func() {
			if p := recover(); p != nil {
				freeMu.Lock()
				freePanics = append(freePanics, fmt.Sprintf("thread %s: panic: %v", name, p))
				freeMu.Unlock()
			}
		}()
		f()
	}()
	return true
}

// FreeRun runs body, and the harness threads it starts with GoNamed, outside the scheduler and waits
// for them (bounded by timeout). The result only carries panics and whether everything returned.
func FreeRun(body func(), timeout time.Duration) *Result {
	if active != nil {
		panic("vrt: FreeRun inside an exploration")
	}
	wg := &sync.WaitGroup{}
	freeMu.Lock()
	freeWG, freePanics = wg, nil
	freeMu.Unlock()
	freeSpawn("main", body)
	done := make(chan struct{})
	go func() { wg.Wait(); close(done) }()
	res := &Result{}
	select {
	case <-done:
	case <-time.After(timeout):
		res.Deadlock = true
		res.Blocked = []string{"free run did not finish in " + timeout.String()}
	}
	freeMu.Lock()
	res.Panics = append(res.Panics, freePanics...)
	freeWG = nil
	freeMu.Unlock()
	return res
}

var ownMu sync.Mutex

// Own runs a piece of harness bookkeeping (appending to the observation log, filling an outcome
// map). Under the scheduler exactly one thread runs, so it is just f(); in a free run it is a real
// critical section. The bookkeeping sits between operations of the code under test, so the edges it
// adds do not order operations that overlap in time.
func Own(f func()) {
	if active != nil {
		f()
		return
	}
	ownMu.Lock()
	defer ownMu.Unlock()
	f()
}
