// Package vrt is the runtime of the controlled scheduler ("vsched" in DESIGN.md §2.2).
//
// Source-instrumented chain33 packages (tools/vinstr) call into this package before every
// synchronisation operation: mutexes, wait groups, atomics (vsync, vatomic), channel operations and
// select (chan.go), goroutine creation (Go), timers and sleeps (vtime). While an exploration is
// running, registered threads execute cooperatively, exactly one at a time; at every such point the
// scheduler computes the set of enabled threads and asks the explorer (explore.go) which one runs
// next. With no exploration running every operation falls through to the real primitive, so an
// instrumented package still behaves normally.
package vrt

import (
	"fmt"
	"runtime"
	"sort"
	"sync"
)

type pend struct {
	desc    string
	enabled func() bool
	// channel rendez-vous bookkeeping (unbuffered channels)
	chptr    uintptr
	isSend   bool
	isRecv   bool
	sendVal  interface{}
	sel      []*SelCase // pending select
	complete bool       // a partner already performed the operation for us
}

type thread struct {
	id      int
	name    string
	main    bool
	wake    chan struct{}
	p       *pend
	done    bool
	abort   bool
	started bool
	// results of a completed rendez-vous / select
	gotVal interface{}
	gotOK  bool
	selIdx int
	exited chan struct{}
}

// Point is one scheduling decision of an execution.
type Point struct {
	N              int  // number of alternatives
	Chosen         int  // index taken
	RunningEnabled bool // alternative 0 continues the running thread (others preempt it)
	Free           bool // alternatives cost nothing (select tie-break)
	Desc           string
}

// Result describes one finished execution.
type Result struct {
	Points      []Point
	Deadlock    bool     // a main thread is blocked and nothing can run
	Blocked     []string // what the unfinished main threads wait for
	Panics      []string
	Steps       int
	Horizon     bool // step horizon reached (livelock suspicion)
	Preemptions int
	Diverged    string // replay divergence (internal error)
	Trace       []string
}

type sched struct {
	mu       sync.Mutex // protects nothing logically (one thread runs); keeps the race detector quiet about hand-offs
	threads  []*thread
	cur      *thread
	prefix   []int
	npoint   int
	res      *Result
	maxSteps int
	endCh    chan struct{}
	ended    bool
	clock    int64
	timers   []*vtimer
	chans    map[uintptr]*chanInfo
	trace    bool
	choose   func(n int, runningEnabled, free bool, desc string) int
	timerSeq int
}

var active *sched

// Active reports whether an exploration is running and the caller is a scheduled thread.
func Active() bool { return active != nil && active.cur != nil && !active.cur.abort }

// Aborting reports whether the caller is a thread being unwound at the end of an execution: every
// synchronisation operation must then be a no-op.
func Aborting() bool { t := curThread(); return t != nil && t.abort }

func curThread() *thread {
	s := active
	if s == nil {
		return nil
	}
	return s.cur
}

// rtError mimics the runtime's panics for channel misuse (it must satisfy error, as instrumented code
// may recover and type-assert).
type rtError string

func (e rtError) Error() string { return string(e) }

// RuntimeError marks rtError as a runtime.Error.
func (e rtError) RuntimeError() {}

func (s *sched) newThread(name string, main bool, f func()) *thread {
	t := &thread{id: len(s.threads), name: name, main: main, wake: make(chan struct{}, 1), exited: make(chan struct{})}
	t.p = &pend{desc: "start", enabled: func() bool { return true }}
	s.threads = append(s.threads, t)
	go func() {
		defer close(t.exited)
		<-t.wake
		if t.abort {
			return
		}
		t.started = true
		t.p = nil
		defer func() {
			e := recover()
			if t.abort {
				return
			}
			if e != nil {
				buf := make([]byte, 4096)
				n := runtime.Stack(buf, false)
				s.res.Panics = append(s.res.Panics, fmt.Sprintf("thread %s: panic: %v\n%s", t.name, e, buf[:n]))
				t.done = true
				s.finish()
				return
			}
			t.done = true
			s.handoff(t)
		}()
		f()
	}()
	return t
}

// Go starts f as a scheduled thread (instrumented `go` statements end up here). Outside an
// exploration it is a plain goroutine.
func Go(f func()) {
	t := curThread()
	if t == nil || t.abort {
		go f()
		return
	}
	s := active
	s.newThread(fmt.Sprintf("g%d", len(s.threads)), false, f)
}

// GoNamed starts a harness thread that is expected to terminate ("main" thread).
func GoNamed(name string, f func()) {
	s := active
	if s == nil && freeSpawn(name, f) {
		return
	}
	if s == nil || s.cur == nil {
		panic("vrt.GoNamed outside an exploration")
	}
	s.newThread(name, true, f)
}

// enabledList returns the enabled threads in canonical order: the running thread first (if it is
// still enabled), then ascending ids.
func (s *sched) enabledList(from *thread) (l []*thread, fromEnabled bool) {
	if from != nil && !from.done && from.p != nil && (from.p.complete || from.p.enabled()) {
		l = append(l, from)
		fromEnabled = true
	}
	for _, t := range s.threads {
		if t == from || t.done || t.p == nil {
			continue
		}
		if t.p.complete || t.p.enabled() {
			l = append(l, t)
		}
	}
	return
}

// pick decides the next thread; returns nil when the execution is over.
func (s *sched) pick(from *thread) *thread {
	for {
		if s.res.Steps >= s.maxSteps {
			s.res.Horizon = true
			return nil
		}
		l, fe := s.enabledList(from)
		if len(l) == 0 {
			// background threads (tickers, receive loops) never end: once every harness thread has
			// finished there is nothing left to wait for
			alive := false
			for _, t := range s.threads {
				if t.main && !t.done {
					alive = true
				}
			}
			if alive && s.fireNextTimer() {
				continue
			}
			return nil
		}
		s.res.Steps++
		c := 0
		if len(l) > 1 {
			desc := ""
			if s.trace {
				for _, t := range l {
					desc += t.name + ":" + t.p.desc + " "
				}
			}
			c = s.choice(len(l), fe, false, desc)
		}
		if fe && c != 0 {
			s.res.Preemptions++
		}
		if s.trace {
			s.res.Trace = append(s.res.Trace, fmt.Sprintf("%s %s", l[c].name, l[c].p.desc))
		}
		return l[c]
	}
}

func (s *sched) choice(n int, runningEnabled, free bool, desc string) int {
	i := s.npoint
	s.npoint++
	c := 0
	if i < len(s.prefix) {
		c = s.prefix[i]
		if c >= n {
			s.res.Diverged = fmt.Sprintf("replay divergence at point %d: choice %d of %d (%s)", i, c, n, desc)
			c = 0
		}
	} else if s.choose != nil {
		c = s.choose(n, runningEnabled, free, desc)
	}
	s.res.Points = append(s.res.Points, Point{N: n, Chosen: c, RunningEnabled: runningEnabled, Free: free, Desc: desc})
	return c
}

// yield is called by the running thread before a visible operation.
func (s *sched) yield(t *thread, p *pend) {
	if t.abort {
		return
	}
	t.p = p
	next := s.pick(t)
	if next == t {
		t.p = nil
		return
	}
	if next == nil {
		s.finish()
		s.park(t)
		return
	}
	s.cur = next
	next.wake <- struct{}{}
	s.park(t)
}

func (s *sched) park(t *thread) {
	<-t.wake
	if t.abort {
		runtime.Goexit()
	}
	t.p = nil
}

// handoff is called by a thread that has finished.
func (s *sched) handoff(t *thread) {
	next := s.pick(nil)
	if next == nil {
		s.finish()
		return
	}
	s.cur = next
	next.wake <- struct{}{}
}

func (s *sched) finish() {
	if s.ended {
		return
	}
	s.ended = true
	s.cur = nil
	for _, t := range s.threads {
		if t.main && !t.done {
			d := "?"
			if t.p != nil {
				d = t.p.desc
			}
			s.res.Blocked = append(s.res.Blocked, t.name+" waits for "+d)
		}
	}
	if len(s.res.Blocked) > 0 && len(s.res.Panics) == 0 && !s.res.Horizon {
		s.res.Deadlock = true
	}
	close(s.endCh)
}

// Yield is an explicit scheduling point (always enabled); instrumented polling loops call it.
func Yield(desc string) {
	t := curThread()
	if t == nil {
		runtime.Gosched()
		return
	}
	active.yield(t, &pend{desc: desc, enabled: func() bool { return true }})
}

// Block parks the calling thread until cond() holds (a visible blocking operation).
func Block(desc string, cond func() bool) {
	t := curThread()
	if t == nil {
		panic("vrt.Block outside an exploration")
	}
	active.yield(t, &pend{desc: desc, enabled: cond})
}

// Execute runs body as thread "main" under the scheduler with the given choice prefix and returns
// what happened. choose decides the points beyond the prefix (nil = always alternative 0).
func Execute(body func(), prefix []int, maxSteps int, trace bool, choose func(n int, runningEnabled, free bool, desc string) int) *Result {
	if active != nil {
		panic("vrt: nested exploration")
	}
	s := &sched{prefix: prefix, res: &Result{}, maxSteps: maxSteps, endCh: make(chan struct{}), chans: map[uintptr]*chanInfo{}, trace: trace, choose: choose}
	active = s
	t0 := s.newThread("main", true, body)
	s.cur = t0
	t0.wake <- struct{}{}
	<-s.endCh
	// abort everything that is still parked, one thread at a time (its deferred calls run with
	// every vrt operation turned into a no-op)
	for _, t := range s.threads {
		t.abort = true
	}
	for _, t := range s.threads {
		s.cur = t
		select {
		case t.wake <- struct{}{}:
		default:
		}
		<-t.exited
	}
	s.cur = nil
	active = nil
	sort.Strings(s.res.Blocked)
	return s.res
}
