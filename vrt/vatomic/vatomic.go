// Package vatomic replaces "sync/atomic" in instrumented copies: every operation is a scheduling
// point followed by the real atomic operation.
package vatomic

import (
	"sync/atomic"
	"unsafe"

	"verif/vrt"
)

func pt(s string) { vrt.SchedPoint(s) }

func AddInt32(a *int32, d int32) int32     { pt("atomic.Add"); return atomic.AddInt32(a, d) }
func AddInt64(a *int64, d int64) int64     { pt("atomic.Add"); return atomic.AddInt64(a, d) }
func AddUint32(a *uint32, d uint32) uint32 { pt("atomic.Add"); return atomic.AddUint32(a, d) }
func AddUint64(a *uint64, d uint64) uint64 { pt("atomic.Add"); return atomic.AddUint64(a, d) }
func LoadInt32(a *int32) int32             { pt("atomic.Load"); return atomic.LoadInt32(a) }
func LoadInt64(a *int64) int64             { pt("atomic.Load"); return atomic.LoadInt64(a) }
func LoadUint32(a *uint32) uint32          { pt("atomic.Load"); return atomic.LoadUint32(a) }
func LoadUint64(a *uint64) uint64          { pt("atomic.Load"); return atomic.LoadUint64(a) }
func StoreInt32(a *int32, v int32)         { pt("atomic.Store"); atomic.StoreInt32(a, v) }
func StoreInt64(a *int64, v int64)         { pt("atomic.Store"); atomic.StoreInt64(a, v) }
func StoreUint32(a *uint32, v uint32)      { pt("atomic.Store"); atomic.StoreUint32(a, v) }
func StoreUint64(a *uint64, v uint64)      { pt("atomic.Store"); atomic.StoreUint64(a, v) }
func SwapInt32(a *int32, v int32) int32    { pt("atomic.Swap"); return atomic.SwapInt32(a, v) }
func SwapInt64(a *int64, v int64) int64    { pt("atomic.Swap"); return atomic.SwapInt64(a, v) }
func CompareAndSwapInt32(a *int32, o, n int32) bool {
	pt("atomic.CAS")
	return atomic.CompareAndSwapInt32(a, o, n)
}
func CompareAndSwapInt64(a *int64, o, n int64) bool {
	pt("atomic.CAS")
	return atomic.CompareAndSwapInt64(a, o, n)
}
func CompareAndSwapUint32(a *uint32, o, n uint32) bool {
	pt("atomic.CAS")
	return atomic.CompareAndSwapUint32(a, o, n)
}
func LoadPointer(a *unsafe.Pointer) unsafe.Pointer { pt("atomic.Load"); return atomic.LoadPointer(a) }
func StorePointer(a *unsafe.Pointer, v unsafe.Pointer) {
	pt("atomic.Store")
	atomic.StorePointer(a, v)
}

// Value mirrors atomic.Value.
type Value struct{ v atomic.Value }

func (x *Value) Load() interface{}   { pt("atomic.Value.Load"); return x.v.Load() }
func (x *Value) Store(v interface{}) { pt("atomic.Value.Store"); x.v.Store(v) }

// Int32 mirrors atomic.Int32.
type Int32 struct{ v atomic.Int32 }

func (x *Int32) Load() int32                    { pt("atomic.Load"); return x.v.Load() }
func (x *Int32) Store(v int32)                  { pt("atomic.Store"); x.v.Store(v) }
func (x *Int32) Add(d int32) int32              { pt("atomic.Add"); return x.v.Add(d) }
func (x *Int32) CompareAndSwap(o, n int32) bool { pt("atomic.CAS"); return x.v.CompareAndSwap(o, n) }

// Int64 mirrors atomic.Int64.
type Int64 struct{ v atomic.Int64 }

func (x *Int64) Load() int64       { pt("atomic.Load"); return x.v.Load() }
func (x *Int64) Store(v int64)     { pt("atomic.Store"); x.v.Store(v) }
func (x *Int64) Add(d int64) int64 { pt("atomic.Add"); return x.v.Add(d) }

// Bool mirrors atomic.Bool.
type Bool struct{ v atomic.Bool }

func (x *Bool) Load() bool   { pt("atomic.Load"); return x.v.Load() }
func (x *Bool) Store(v bool) { pt("atomic.Store"); x.v.Store(v) }
