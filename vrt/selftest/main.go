// Self-test of the controlled scheduler on toy programs with known answers (run by setup.sh).
package main

import (
	"fmt"
	"os"

	"verif/vrt"
	"verif/vrt/vatomic"
	"verif/vrt/vsync"
)

func count(body func(), bound int, check func(*vrt.Result) string) (execs int64, fails int) {
	x := &vrt.Explorer{Body: body, MaxPreempt: bound, Check: check, OnFail: func([]int, *vrt.Result, string) { fails++ }}
	x.Run()
	return x.Executions, fails
}

func main() {
	bad := 0
	expect := func(name string, got, want interface{}) {
		if fmt.Sprint(got) != fmt.Sprint(want) {
			fmt.Printf("SELFTEST FAIL %s: got %v want %v\n", name, got, want)
			bad++
		}
	}
	// two threads x two atomic steps: 6 interleavings unbounded, 2/4/6 at bounds 0/1/2... (main thread only spawns)
	var a int32
	two := func() {
		a = 0
		for i := 0; i < 2; i++ {
			vrt.GoNamed(fmt.Sprint("t", i), func() { vatomic.AddInt32(&a, 1); vatomic.AddInt32(&a, 1) })
		}
	}
	ok := func(*vrt.Result) string { return "" }
	n0, _ := count(two, 0, ok)
	n1, _ := count(two, 1, ok)
	n2, _ := count(two, 2, ok)
	n9, _ := count(two, 9, ok)
	fmt.Println("two threads x two steps: executions at bound 0,1,2,9:", n0, n1, n2, n9)
	expect("interleavings unbounded (3 points per thread incl. start: C(6,3))", n9, 20)
	expect("bound0 < bound1 < bound2", n0 < n1 && n1 < n2 && n2 <= n9, true)
	// unlocked read-modify-write loses an update at bound 1, not at bound 0
	var c int32
	rmw := func() {
		c = 0
		for i := 0; i < 2; i++ {
			vrt.GoNamed(fmt.Sprint("t", i), func() { v := vatomic.LoadInt32(&c); vatomic.StoreInt32(&c, v+1) })
		}
	}
	lost := func(*vrt.Result) string {
		if c != 2 {
			return "lost update"
		}
		return ""
	}
	_, f0 := count(rmw, 0, lost)
	_, f1 := count(rmw, 1, lost)
	expect("lost update at bound 0", f0, 0)
	expect("lost update at bound 1 found", f1 > 0, true)
	// with a mutex: never lost
	var mu vsync.Mutex
	locked := func() {
		c = 0
		mu = vsync.Mutex{}
		for i := 0; i < 2; i++ {
			vrt.GoNamed(fmt.Sprint("t", i), func() { mu.Lock(); v := vatomic.LoadInt32(&c); vatomic.StoreInt32(&c, v+1); mu.Unlock() })
		}
	}
	_, f2 := count(locked, 2, lost)
	expect("mutex protects", f2, 0)
	// unbuffered send without receiver: deadlock
	dl := func() {
		ch := make(chan int)
		vrt.GoNamed("s", func() { vrt.Send(ch, 1) })
	}
	dead := 0
	count(dl, 0, func(r *vrt.Result) string {
		if r.Deadlock {
			dead++
		}
		return ""
	})
	expect("deadlock detected", dead, 1)
	// rendez-vous works
	got := 0
	rv := func() {
		got = 0
		ch := make(chan int)
		vrt.GoNamed("s", func() { vrt.Send(ch, 7) })
		vrt.GoNamed("r", func() { got = vrt.Recv(ch) })
	}
	nrv, _ := count(rv, 2, func(r *vrt.Result) string {
		if r.Deadlock || got != 7 {
			return "rendez-vous broken"
		}
		return ""
	})
	expect("rendez-vous executions>=1", nrv >= 1, true)
	// select with two ready cases: both outcomes
	outs := map[int]bool{}
	sel := func() {
		c1, c2 := make(chan int, 1), make(chan int, 1)
		c1 <- 1
		c2 <- 2
		vrt.GoNamed("x", func() {
			switch vrt.Select(false, vrt.CaseRecv(c1), vrt.CaseRecv(c2)) {
			case 0:
				outs[vrt.SelGet1(c1)] = true
			case 1:
				outs[vrt.SelGet1(c2)] = true
			}
		})
	}
	nsel, _ := count(sel, 1, ok)
	expect("select tie-break executions at bound 1", nsel, 2)
	expect("select outcomes", len(outs), 2)
	// deadlock by lock order
	var m1, m2 vsync.Mutex
	lo := func() {
		m1, m2 = vsync.Mutex{}, vsync.Mutex{}
		vrt.GoNamed("a", func() { m1.Lock(); m2.Lock(); m2.Unlock(); m1.Unlock() })
		vrt.GoNamed("b", func() { m2.Lock(); m1.Lock(); m1.Unlock(); m2.Unlock() })
	}
	dead = 0
	count(lo, 1, func(r *vrt.Result) string {
		if r.Deadlock {
			dead++
		}
		return ""
	})
	expect("lock-order deadlock found at bound 1", dead > 0, true)
	if bad > 0 {
		os.Exit(1)
	}
	fmt.Println("vrt selftest ok")
}
