#!/usr/bin/env python3
"""Regenerate MANIFEST.json from checks/*/meta.json (one per claimed property)."""
import json, os, glob
root = "/verif"
props = [json.loads(l) for l in open(f"{root}/properties.jsonl")]
checks, claimed = [], set()
enabled = set(open(f"{root}/checks/ENABLED").read().split())
for p in props:
    pid = p["id"]; d = f"{root}/checks/{pid.lower()}"
    mp = f"{d}/meta.json"
    if not os.path.exists(mp):
        continue
    m = json.load(open(mp))
    if m.get("disabled") or pid not in enabled:
        continue
    claimed.add(pid)
    checks.append({
        "property_id": pid,
        "quick_cmd": f"./run.sh {pid} quick",
        "thorough_cmd": f"./run.sh {pid} thorough",
        "evidence_file": f"/verif/evidence/{pid}.json",
        "replay_cmd_template": f"./run.sh {pid} quick -replay {{path}}",
        "engine": m.get("engine", "seqx"),
        "level_claimed": {"category": m["level"], "text": m["text"], "design_ref": m.get("design_ref", f"DESIGN.md §3 {pid}")},
        "level_note": m["note"],
        "technique": m["technique"],
    })
na = []
nap = f"{root}/not_applicable.json"
reasons = json.load(open(nap)) if os.path.exists(nap) else {}
for p in props:
    if p["id"] not in claimed:
        na.append({"property_id": p["id"], "reason": reasons.get(p["id"], "check not built yet in this round; no claim is made")})
base = json.load(open("/root/.vp/BASELINE.json"))
man = {
    "version": 1,
    "setup_cmd": "./setup.sh",
    "hooks": {
        "guard": "verif (Go build tag) — hooks are never committed to /repo: add-only files under /verif/overlay/<pkg>/ are mapped into the package at build time with `go build -tags verif -overlay`, and instrumented copies for the controlled scheduler are generated from the current /repo tree into /verif/.work at check time",
        "enable": "./run.sh <ID> builds with `go build -tags verif -overlay .work/<id>/overlay.json`",
        "baseline_off_cmd": base["cmd"],
        "source_commits": [],
        "add_only": True,
    },
    "engines": [
        {"name": "vx", "path": "/verif/vx", "serves_properties": sorted(claimed), "kind_free_text": "shared plumbing: tiers, counters, distinct-state sets, confirmation (5 re-executions), known findings, evidence/replay files, process sharding; seq.go = explicit-state / operation-sequence explorer (BFS by replay on fresh real objects, canonical-state dedup)"},
        {"name": "vrt", "path": "/verif/vrt", "serves_properties": [c["property_id"] for c in checks if c["engine"] == "vsched"], "kind_free_text": "controlled cooperative scheduler (stateless DFS, iterative preemption bounding) over source-instrumented chain33 packages (sync/atomic/go/channels/select/time rewritten by tools/vinstr)"},
    ],
    "checks": checks,
    "not_applicable": na,
    "notes": "All checks: exit 0 held / exit 1 + VIOLATION line / exit 2 harness problem (build error, vacuous run). known_findings.json lists genuine defects recorded rather than repaired.",
}
json.dump(man, open(f"{root}/MANIFEST.json", "w"), indent=1)
print("claimed", len(claimed), "not_applicable", len(na))
