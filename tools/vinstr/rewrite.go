package main

import (
	"go/ast"
	"go/token"
)

// rewriter holds the statement-level rewrites (filled in by rewrite_*.go).
type rewriter struct {
	fset    *token.FileSet
	rules   map[string]string
	file    *ast.File
	changed bool
}

func (rw *rewriter) run() {
	if rw.rules["numcpu"] != "" {
		rw.rewriteNumCPU()
	}
	if rw.rules["go"] != "" || rw.rules["chan"] != "" {
		rw.rewriteConc()
	}
	if rw.rules["maprange"] != "" { rw.rewriteMapRange() }
}

func (rw *rewriter) rewriteNumCPU() {
	ast.Inspect(rw.file, func(n ast.Node) bool {
		ce, ok := n.(*ast.CallExpr)
		if !ok {
			return true
		}
		se, ok := ce.Fun.(*ast.SelectorExpr)
		if !ok {
			return true
		}
		id, ok := se.X.(*ast.Ident)
		if !ok || id.Name != "runtime" {
			return true
		}
		if se.Sel.Name == "NumCPU" || se.Sel.Name == "GOMAXPROCS" {
			id.Name = "vrt"
			se.Sel.Name = "NumCPU"
			ce.Args = nil
			rw.changed = true
		}
		return true
	})
}

