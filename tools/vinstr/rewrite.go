package main

import (
	"go/ast"
	"go/token"
)

// rewriter holds the statement-level rewrites (filled in by rewrite_*.go).
type rewriter struct {
	fset    *token.FileSet
	rules   map[string]string
	file    *ast.File
	changed bool
	extraImports [][2]string
}

func (rw *rewriter) run() {
	if rw.rules["numcpu"] != "" {
		rw.rewriteNumCPU()
	}
	if rw.rules["mutex"] != "" {
		rw.rewriteMutexOnly()
	}
	if rw.rules["go"] != "" || rw.rules["chan"] != "" {
		rw.rewriteConc()
	}
	if rw.rules["maprange"] != "" { rw.rewriteMapRange() }
	if rw.rules["maprangesel"] != "" { rw.rewriteMapRangeSel() }
}

func (rw *rewriter) rewriteNumCPU() {
	ast.Inspect(rw.file, func(n ast.Node) bool {
		ce, ok := n.(*ast.CallExpr)
		if !ok {
			return true
		}
		se, ok := ce.Fun.(*ast.SelectorExpr)
		if !ok {
			return true
		}
		id, ok := se.X.(*ast.Ident)
		if !ok || id.Name != "runtime" {
			return true
		}
		if se.Sel.Name == "NumCPU" || se.Sel.Name == "GOMAXPROCS" {
			id.Name = "vrt"
			se.Sel.Name = "NumCPU"
			ce.Args = nil
			rw.changed = true
		}
		return true
	})
}


// rewriteMutexOnly (rule "mutex") turns only sync.Mutex / sync.RWMutex type references into their
// vsync counterparts and leaves the rest of package sync alone (for packages whose exported API
// mentions *sync.WaitGroup and the like).
func (rw *rewriter) rewriteMutexOnly() {
	found := false
	ast.Inspect(rw.file, func(n ast.Node) bool {
		se, ok := n.(*ast.SelectorExpr)
		if !ok {
			return true
		}
		id, ok := se.X.(*ast.Ident)
		if ok && id.Name == "sync" && (se.Sel.Name == "Mutex" || se.Sel.Name == "RWMutex") {
			id.Name = "vsync"
			found = true
		}
		return true
	})
	if found {
		rw.changed = true
		rw.extraImports = append(rw.extraImports, [2]string{"vsync", "verif/vrt/vsync"})
	}
}
