package main

import (
	"bytes"
	"fmt"
	"go/ast"
	"go/printer"
	"go/token"
	"strings"
)

// Rule maprangesel=<expr>[+<expr>...] — owned map iteration order for ranged *selector expressions*
// (rule maprange only matches plain identifiers): every `for k, v := range x.f` (also `for k := range`,
// `for _, v := range`, `for range`; `:=` forms only) whose ranged expression prints exactly as one of
// the listed expressions (e.g. "db.data") becomes
//
//	for _, k := range vrt.MapOrder(x.f) {
//		v, ok := x.f[k]
//		if !ok { continue }      // an entry deleted by an earlier iteration is not visited, as in Go
//		...original body...
//	}
//
// The expression is evaluated again inside the loop, so only side-effect-free field selections may be
// listed. The list is syntactic (no go/types): name only expressions that are maps. Use it together
// with a maprange rule on the same line (maprange=- when no identifier is to be matched): main.go
// creates the rewriter and imports verif/vrt only when one of its own rule names is present.
func (rw *rewriter) rewriteMapRangeSel() {
	want := map[string]bool{}
	for _, n := range strings.Split(rw.rules["maprangesel"], "+") {
		if n = strings.TrimSpace(n); n != "" {
			want[n] = true
		}
	}
	render := func(e ast.Expr) string {
		var b bytes.Buffer
		if err := printer.Fprint(&b, token.NewFileSet(), e); err != nil {
			return ""
		}
		return b.String()
	}
	seq := 0
	ast.Inspect(rw.file, func(n ast.Node) bool {
		rs, ok := n.(*ast.RangeStmt)
		if !ok {
			return true
		}
		if _, ok := rs.X.(*ast.SelectorExpr); !ok {
			return true
		}
		text := render(rs.X)
		if !want[text] || (rs.Tok != token.DEFINE && rs.Tok != token.ILLEGAL) {
			return true
		}
		seq++
		pos := rs.Pos()
		mk := func(name string) *ast.Ident { return &ast.Ident{NamePos: pos, Name: name} }
		blank := func(e ast.Expr) bool {
			if e == nil {
				return true
			}
			i, ok := e.(*ast.Ident)
			return ok && i.Name == "_"
		}
		// a fresh copy of the selector for every use
		sel := func() ast.Expr {
			parts := strings.Split(text, ".")
			var e ast.Expr = mk(parts[0])
			for _, p := range parts[1:] {
				e = &ast.SelectorExpr{X: e, Sel: mk(p)}
			}
			return e
		}
		var loopKey *ast.Ident
		if !blank(rs.Key) {
			loopKey = rs.Key.(*ast.Ident)
		} else {
			loopKey = mk(fmt.Sprintf("vrtSelKey%d", seq))
		}
		okName := mk(fmt.Sprintf("vrtSelOk%d", seq))
		idx := &ast.IndexExpr{X: sel(), Lbrack: pos, Index: mk(loopKey.Name), Rbrack: pos}
		var fetch ast.Stmt
		if blank(rs.Value) {
			fetch = &ast.AssignStmt{Lhs: []ast.Expr{mk("_"), okName}, Tok: token.DEFINE, TokPos: pos, Rhs: []ast.Expr{idx}}
		} else {
			fetch = &ast.AssignStmt{Lhs: []ast.Expr{rs.Value, okName}, Tok: token.DEFINE, TokPos: pos, Rhs: []ast.Expr{idx}}
		}
		guard := &ast.IfStmt{If: pos, Cond: &ast.UnaryExpr{OpPos: pos, Op: token.NOT, X: mk(okName.Name)},
			Body: &ast.BlockStmt{Lbrace: pos, List: []ast.Stmt{&ast.BranchStmt{TokPos: pos, Tok: token.CONTINUE}}, Rbrace: pos}}
		rs.Body.List = append([]ast.Stmt{fetch, guard}, rs.Body.List...)
		rs.Key = mk("_")
		rs.Value = loopKey
		rs.Tok = token.DEFINE
		rs.X = &ast.CallExpr{Fun: &ast.SelectorExpr{X: mk("vrt"), Sel: mk("MapOrder")}, Lparen: pos, Args: []ast.Expr{sel()}, Rparen: pos}
		rw.changed = true
		return true
	})
}
