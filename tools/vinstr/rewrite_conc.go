package main

import (
	"bytes"
	"fmt"
	"go/ast"
	"go/printer"
	"go/token"
	"strings"
)

// Statement-level rewrites for the controlled scheduler (rules "go" and "chan"):
//
//	go f(x)            ->  _gfN := f; _gaN_0 := x; vrt.Go(func() { _gfN(_gaN_0) })
//	ch <- v            ->  vrt.Send(ch, v)
//	<-ch               ->  vrt.Recv(ch)          v, ok := <-ch -> v, ok := vrt.Recv2(ch)
//	close(ch)          ->  vrt.Close(ch)
//	for v := range ch  ->  _rcN := ch; for { v, _okN := vrt.Recv2(_rcN); if !_okN { break }; … }   (only for
//	                       range expressions named in the rule value chanrange=expr;expr — no type information is used)
//	select { … }       ->  _scN_i := <chan i>; switch vrt.Select(hasDefault, vrt.CaseRecv(_scN_0), vrt.CaseSend(_scN_1, v)) {
//	                       case 0: v, ok := vrt.SelGet(_scN_0); … ; default: … }
//
// Channel and value expressions are evaluated once, in source order, before the choice, as the
// language specifies. `break` inside a clause keeps its meaning (switch instead of select).
type conc struct {
	rw    *rewriter
	n     int
	doGo  bool
	doCh  bool
	hints map[string]bool
}

func (rw *rewriter) rewriteConc() {
	c := &conc{rw: rw, doGo: rw.rules["go"] != "", doCh: rw.rules["chan"] != "", hints: map[string]bool{}}
	for _, h := range strings.Split(rw.rules["chanrange"], ";") {
		if h != "" {
			c.hints[h] = true
		}
	}
	for _, d := range rw.file.Decls {
		switch fd := d.(type) {
		case *ast.FuncDecl:
			if fd.Body != nil {
				fd.Body.List = c.stmts(fd.Body.List)
				c.terminate(fd.Type, fd.Body)
			}
		case *ast.GenDecl:
			for _, sp := range fd.Specs {
				if vs, ok := sp.(*ast.ValueSpec); ok {
					for i := range vs.Values {
						vs.Values[i] = c.expr(vs.Values[i])
					}
				}
			}
		}
	}
}

func (c *conc) src(n ast.Node) string {
	var b bytes.Buffer
	printer.Fprint(&b, c.rw.fset, n)
	return b.String()
}

func id(s string) *ast.Ident { return ast.NewIdent(s) }

func vrtCall(fn string, args ...ast.Expr) *ast.CallExpr {
	return &ast.CallExpr{Fun: &ast.SelectorExpr{X: id("vrt"), Sel: id(fn)}, Args: args}
}

func define(name string, e ast.Expr) ast.Stmt {
	return &ast.AssignStmt{Lhs: []ast.Expr{id(name)}, Tok: token.DEFINE, Rhs: []ast.Expr{e}}
}

func isLiteralish(e ast.Expr) bool {
	switch x := e.(type) {
	case *ast.BasicLit:
		return true
	case *ast.Ident:
		return x.Name == "nil" || x.Name == "true" || x.Name == "false"
	case *ast.UnaryExpr:
		return x.Op == token.SUB && isLiteralish(x.X)
	}
	return false
}

func isArrow(e ast.Expr) (*ast.UnaryExpr, bool) {
	for {
		p, ok := e.(*ast.ParenExpr)
		if !ok {
			break
		}
		e = p.X
	}
	u, ok := e.(*ast.UnaryExpr)
	return u, ok && u.Op == token.ARROW
}

func (c *conc) stmts(list []ast.Stmt) []ast.Stmt {
	var out []ast.Stmt
	for _, s := range list {
		out = append(out, c.stmt(s)...)
	}
	return out
}

func (c *conc) block(b *ast.BlockStmt) {
	if b != nil {
		b.List = c.stmts(b.List)
	}
}

func (c *conc) one(s ast.Stmt) ast.Stmt {
	if s == nil {
		return nil
	}
	r := c.stmt(s)
	if len(r) == 1 {
		return r[0]
	}
	return &ast.BlockStmt{List: r}
}

func (c *conc) exprs(l []ast.Expr) {
	for i := range l {
		l[i] = c.expr(l[i])
	}
}

func (c *conc) stmt(s ast.Stmt) []ast.Stmt {
	switch x := s.(type) {
	case nil:
		return nil
	case *ast.BlockStmt:
		c.block(x)
	case *ast.IfStmt:
		x.Init = c.simple(x.Init)
		x.Cond = c.expr(x.Cond)
		c.block(x.Body)
		if x.Else != nil {
			x.Else = c.one(x.Else)
		}
	case *ast.ForStmt:
		x.Init = c.simple(x.Init)
		if x.Cond != nil {
			x.Cond = c.expr(x.Cond)
		}
		x.Post = c.simple(x.Post)
		c.block(x.Body)
	case *ast.RangeStmt:
		x.X = c.expr(x.X)
		c.block(x.Body)
		if c.doCh && c.hints[c.src(x.X)] {
			return c.rangeChan(x)
		}
	case *ast.SwitchStmt:
		x.Init = c.simple(x.Init)
		if x.Tag != nil {
			x.Tag = c.expr(x.Tag)
		}
		for _, cl := range x.Body.List {
			cc := cl.(*ast.CaseClause)
			c.exprs(cc.List)
			cc.Body = c.stmts(cc.Body)
		}
	case *ast.TypeSwitchStmt:
		x.Init = c.simple(x.Init)
		x.Assign = c.simple(x.Assign)
		for _, cl := range x.Body.List {
			cc := cl.(*ast.CaseClause)
			cc.Body = c.stmts(cc.Body)
		}
	case *ast.SelectStmt:
		if c.doCh {
			return c.selectStmt(x)
		}
		for _, cl := range x.Body.List {
			cc := cl.(*ast.CommClause)
			cc.Body = c.stmts(cc.Body)
		}
	case *ast.LabeledStmt:
		inner := c.stmt(x.Stmt)
		if len(inner) == 0 {
			x.Stmt = &ast.EmptyStmt{}
			return []ast.Stmt{x}
		}
		x.Stmt = inner[len(inner)-1]
		return append(inner[:len(inner)-1:len(inner)-1], x)
	case *ast.GoStmt:
		c.exprs(x.Call.Args)
		x.Call.Fun = c.expr(x.Call.Fun)
		if c.doGo {
			return c.goStmt(x)
		}
	case *ast.DeferStmt:
		c.exprs(x.Call.Args)
		x.Call.Fun = c.expr(x.Call.Fun)
	case *ast.SendStmt:
		x.Chan = c.expr(x.Chan)
		x.Value = c.expr(x.Value)
		if c.doCh {
			c.rw.changed = true
			return []ast.Stmt{&ast.ExprStmt{X: vrtCall("Send", x.Chan, x.Value)}}
		}
	case *ast.AssignStmt:
		if c.doCh && len(x.Lhs) == 2 && len(x.Rhs) == 1 {
			if u, ok := isArrow(x.Rhs[0]); ok {
				c.exprs(x.Lhs)
				x.Rhs[0] = vrtCall("Recv2", c.expr(u.X))
				c.rw.changed = true
				return []ast.Stmt{x}
			}
		}
		c.exprs(x.Lhs)
		c.exprs(x.Rhs)
	case *ast.DeclStmt:
		if gd, ok := x.Decl.(*ast.GenDecl); ok {
			for _, sp := range gd.Specs {
				if vs, ok := sp.(*ast.ValueSpec); ok {
					if c.doCh && len(vs.Names) == 2 && len(vs.Values) == 1 {
						if u, ok := isArrow(vs.Values[0]); ok {
							vs.Values[0] = vrtCall("Recv2", c.expr(u.X))
							c.rw.changed = true
							continue
						}
					}
					c.exprs(vs.Values)
				}
			}
		}
	case *ast.ExprStmt:
		x.X = c.expr(x.X)
	case *ast.ReturnStmt:
		c.exprs(x.Results)
	case *ast.IncDecStmt:
		x.X = c.expr(x.X)
	}
	return []ast.Stmt{s}
}

// simple rewrites a statement in a position where exactly one simple statement is allowed.
func (c *conc) simple(s ast.Stmt) ast.Stmt {
	if s == nil {
		return nil
	}
	r := c.stmt(s)
	if len(r) != 1 {
		panic(fmt.Sprintf("vinstr: statement in simple position expanded: %s", c.src(s)))
	}
	return r[0]
}

func (c *conc) expr(e ast.Expr) ast.Expr {
	switch x := e.(type) {
	case nil:
		return nil
	case *ast.UnaryExpr:
		x.X = c.expr(x.X)
		if c.doCh && x.Op == token.ARROW {
			c.rw.changed = true
			return vrtCall("Recv", x.X)
		}
	case *ast.BinaryExpr:
		x.X = c.expr(x.X)
		x.Y = c.expr(x.Y)
	case *ast.ParenExpr:
		x.X = c.expr(x.X)
	case *ast.CallExpr:
		x.Fun = c.expr(x.Fun)
		c.exprs(x.Args)
		if fn, ok := x.Fun.(*ast.Ident); ok && fn.Name == "close" && len(x.Args) == 1 && c.doCh {
			c.rw.changed = true
			return vrtCall("Close", x.Args[0])
		}
	case *ast.SelectorExpr:
		x.X = c.expr(x.X)
	case *ast.IndexExpr:
		x.X = c.expr(x.X)
		x.Index = c.expr(x.Index)
	case *ast.SliceExpr:
		x.X = c.expr(x.X)
		x.Low, x.High, x.Max = c.expr(x.Low), c.expr(x.High), c.expr(x.Max)
	case *ast.StarExpr:
		x.X = c.expr(x.X)
	case *ast.TypeAssertExpr:
		x.X = c.expr(x.X)
	case *ast.KeyValueExpr:
		x.Key = c.expr(x.Key)
		x.Value = c.expr(x.Value)
	case *ast.CompositeLit:
		c.exprs(x.Elts)
	case *ast.FuncLit:
		c.block(x.Body)
		c.terminate(x.Type, x.Body)
	}
	return e
}

// terminate keeps functions with results compilable: a select that ended the body was a terminating
// statement, the switch that replaces it is not.
func (c *conc) terminate(ft *ast.FuncType, body *ast.BlockStmt) {
	if !c.doCh || ft.Results == nil || len(ft.Results.List) == 0 || len(body.List) == 0 {
		return
	}
	if _, ok := body.List[len(body.List)-1].(*ast.ReturnStmt); ok {
		return
	}
	body.List = append(body.List, &ast.ExprStmt{X: &ast.CallExpr{Fun: id("panic"), Args: []ast.Expr{&ast.BasicLit{Kind: token.STRING, Value: `"vinstr: unreachable"`}}}})
}

func (c *conc) goStmt(g *ast.GoStmt) []ast.Stmt {
	c.rw.changed = true
	c.n++
	n := c.n
	var pre []ast.Stmt
	call := g.Call
	if fl, ok := call.Fun.(*ast.FuncLit); ok && len(call.Args) == 0 {
		return []ast.Stmt{&ast.ExprStmt{X: vrtCall("Go", fl)}}
	}
	fun := call.Fun
	if _, ok := fun.(*ast.FuncLit); !ok {
		fn := fmt.Sprintf("_gf%d", n)
		pre = append(pre, define(fn, fun))
		fun = id(fn)
	}
	args := make([]ast.Expr, len(call.Args))
	for i, a := range call.Args {
		if isLiteralish(a) {
			args[i] = a
			continue
		}
		an := fmt.Sprintf("_ga%d_%d", n, i)
		pre = append(pre, define(an, a))
		args[i] = id(an)
	}
	inner := &ast.CallExpr{Fun: fun, Args: args, Ellipsis: call.Ellipsis}
	lit := &ast.FuncLit{Type: &ast.FuncType{Params: &ast.FieldList{}}, Body: &ast.BlockStmt{List: []ast.Stmt{&ast.ExprStmt{X: inner}}}}
	return append(pre, &ast.ExprStmt{X: vrtCall("Go", lit)})
}

func (c *conc) rangeChan(r *ast.RangeStmt) []ast.Stmt {
	c.rw.changed = true
	c.n++
	rc := fmt.Sprintf("_rc%d", c.n)
	okn := fmt.Sprintf("_ok%d", c.n)
	var recv ast.Stmt
	key := r.Key
	if key == nil {
		key = id("_")
	}
	if r.Tok == token.ASSIGN {
		recv = &ast.BlockStmt{} // replaced below
		decl := &ast.DeclStmt{Decl: &ast.GenDecl{Tok: token.VAR, Specs: []ast.Spec{&ast.ValueSpec{Names: []*ast.Ident{id(okn)}, Type: id("bool")}}}}
		asg := &ast.AssignStmt{Lhs: []ast.Expr{key, id(okn)}, Tok: token.ASSIGN, Rhs: []ast.Expr{vrtCall("Recv2", id(rc))}}
		body := append([]ast.Stmt{decl, asg, &ast.IfStmt{Cond: &ast.UnaryExpr{Op: token.NOT, X: id(okn)}, Body: &ast.BlockStmt{List: []ast.Stmt{&ast.BranchStmt{Tok: token.BREAK}}}}}, r.Body.List...)
		return []ast.Stmt{define(rc, r.X), &ast.ForStmt{Body: &ast.BlockStmt{List: body}}}
	}
	recv = &ast.AssignStmt{Lhs: []ast.Expr{key, id(okn)}, Tok: token.DEFINE, Rhs: []ast.Expr{vrtCall("Recv2", id(rc))}}
	body := append([]ast.Stmt{recv, &ast.IfStmt{Cond: &ast.UnaryExpr{Op: token.NOT, X: id(okn)}, Body: &ast.BlockStmt{List: []ast.Stmt{&ast.BranchStmt{Tok: token.BREAK}}}}}, r.Body.List...)
	return []ast.Stmt{define(rc, r.X), &ast.ForStmt{Body: &ast.BlockStmt{List: body}}}
}

func (c *conc) selectStmt(s *ast.SelectStmt) []ast.Stmt {
	c.rw.changed = true
	c.n++
	n := c.n
	var pre []ast.Stmt
	var cases []ast.Expr
	sw := &ast.SwitchStmt{Body: &ast.BlockStmt{}}
	hasDefault := false
	idx := 0
	for _, cl := range s.Body.List {
		cc := cl.(*ast.CommClause)
		body := c.stmts(cc.Body)
		if cc.Comm == nil {
			hasDefault = true
			sw.Body.List = append(sw.Body.List, &ast.CaseClause{List: nil, Body: body})
			continue
		}
		cn := fmt.Sprintf("_sc%d_%d", n, idx)
		var head []ast.Stmt
		switch cm := cc.Comm.(type) {
		case *ast.SendStmt:
			pre = append(pre, define(cn, c.expr(cm.Chan)))
			val := c.expr(cm.Value)
			if !isLiteralish(val) {
				vn := fmt.Sprintf("_sv%d_%d", n, idx)
				pre = append(pre, define(vn, val))
				val = id(vn)
			}
			cases = append(cases, vrtCall("CaseSend", id(cn), val))
		case *ast.ExprStmt:
			u, ok := isArrow(cm.X)
			if !ok {
				panic("vinstr: select clause is not a receive: " + c.src(cm))
			}
			pre = append(pre, define(cn, c.expr(u.X)))
			cases = append(cases, vrtCall("CaseRecv", id(cn)))
		case *ast.AssignStmt:
			u, ok := isArrow(cm.Rhs[0])
			if !ok {
				panic("vinstr: select clause is not a receive: " + c.src(cm))
			}
			pre = append(pre, define(cn, c.expr(u.X)))
			cases = append(cases, vrtCall("CaseRecv", id(cn)))
			get := "SelGet1"
			if len(cm.Lhs) == 2 {
				get = "SelGet"
			}
			allBlank := true
			for _, l := range cm.Lhs {
				if li, ok := l.(*ast.Ident); !ok || li.Name != "_" {
					allBlank = false
				}
			}
			if !allBlank {
				head = append(head, &ast.AssignStmt{Lhs: cm.Lhs, Tok: cm.Tok, Rhs: []ast.Expr{vrtCall(get, id(cn))}})
			}
		default:
			panic("vinstr: unknown select clause " + c.src(cm))
		}
		sw.Body.List = append(sw.Body.List, &ast.CaseClause{
			List: []ast.Expr{&ast.BasicLit{Kind: token.INT, Value: fmt.Sprint(idx)}},
			Body: append(head, body...),
		})
		idx++
	}
	hd := "false"
	if hasDefault {
		hd = "true"
	}
	sw.Tag = vrtCall("Select", append([]ast.Expr{id(hd)}, cases...)...)
	return append(pre, sw)
}
