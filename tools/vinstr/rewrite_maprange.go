package main

import (
	"fmt"
	"go/ast"
	"go/token"
	"strconv"
	"strings"
)

// Rule maprange=<ident>[+<ident>...] — owned map iteration order.
//
// Every `for k, v := range <ident>` (also `k, v = range`, `for k := range`, `for _, v := range`,
// `for range`) whose ranged expression is exactly one of the named identifiers becomes
//
//	for _, k := range vrt.MapOrder(<ident>) {
//		v, ok := <ident>[k]
//		if !ok { continue }      // an entry deleted by an earlier iteration is not visited, as in Go
//		...original body...
//	}
//
// vrt.MapOrder returns the keys sorted canonically and permuted by vrt.MapOrderHook (identity by
// default), so the iteration order is a harness choice instead of the runtime's. The list of
// identifiers is syntactic (no go/types): name only package-level or local map variables.
// main.go splits the rule list on ",", so identifiers are separated by "+"; a bare word in the
// rule list that is not a rule name is taken as a further identifier ("maprange=a,b" works too).
//
// The pass finally drops standard-library imports that the rewrites of this run left without any
// reference (e.g. "runtime" after rule numcpu), because an unused import does not compile.
var ruleNames = map[string]bool{"rand": true, "sync": true, "atomic": true, "time": true, "go": true, "chan": true, "maprange": true, "numcpu": true}

func (rw *rewriter) rewriteMapRange() {
	names := map[string]bool{}
	for _, n := range strings.FieldsFunc(rw.rules["maprange"], func(r rune) bool { return r == '+' || r == ':' || r == '|' }) {
		names[n] = true
	}
	for k, v := range rw.rules {
		if v == "1" && !ruleNames[k] && token.IsIdentifier(k) {
			names[k] = true
		}
	}
	seq := 0
	ast.Inspect(rw.file, func(n ast.Node) bool {
		rs, ok := n.(*ast.RangeStmt)
		if !ok {
			return true
		}
		id, ok := rs.X.(*ast.Ident)
		if !ok || !names[id.Name] {
			return true
		}
		seq++
		pos := rs.Pos()
		mk := func(name string) *ast.Ident { return &ast.Ident{NamePos: pos, Name: name} }
		blank := func(e ast.Expr) bool {
			if e == nil {
				return true
			}
			i, ok := e.(*ast.Ident)
			return ok && i.Name == "_"
		}
		m := id.Name
		define := rs.Tok == token.DEFINE || rs.Tok == token.ILLEGAL
		var keyAsg, valAsg []ast.Stmt
		// the key the new loop declares
		var loopKey *ast.Ident
		if define && !blank(rs.Key) {
			loopKey = rs.Key.(*ast.Ident)
		} else {
			loopKey = mk(fmt.Sprintf("vrtKey%d", seq))
			if !define && !blank(rs.Key) {
				keyAsg = append(keyAsg, &ast.AssignStmt{Lhs: []ast.Expr{rs.Key}, Tok: token.ASSIGN, TokPos: pos, Rhs: []ast.Expr{mk(loopKey.Name)}})
			}
		}
		okName := mk(fmt.Sprintf("vrtOk%d", seq))
		idx := &ast.IndexExpr{X: mk(m), Lbrack: pos, Index: mk(loopKey.Name), Rbrack: pos}
		var fetch ast.Stmt
		switch {
		case blank(rs.Value):
			fetch = &ast.AssignStmt{Lhs: []ast.Expr{mk("_"), okName}, Tok: token.DEFINE, TokPos: pos, Rhs: []ast.Expr{idx}}
		case define:
			fetch = &ast.AssignStmt{Lhs: []ast.Expr{rs.Value, okName}, Tok: token.DEFINE, TokPos: pos, Rhs: []ast.Expr{idx}}
		default:
			// v already exists: fetch into a temporary, assign after the presence test
			tmp := mk(fmt.Sprintf("vrtVal%d", seq))
			fetch = &ast.AssignStmt{Lhs: []ast.Expr{tmp, okName}, Tok: token.DEFINE, TokPos: pos, Rhs: []ast.Expr{idx}}
			valAsg = append(valAsg, &ast.AssignStmt{Lhs: []ast.Expr{rs.Value}, Tok: token.ASSIGN, TokPos: pos, Rhs: []ast.Expr{mk(tmp.Name)}})
		}
		guard := &ast.IfStmt{If: pos, Cond: &ast.UnaryExpr{OpPos: pos, Op: token.NOT, X: mk(okName.Name)},
			Body: &ast.BlockStmt{Lbrace: pos, List: []ast.Stmt{&ast.BranchStmt{TokPos: pos, Tok: token.CONTINUE}}, Rbrace: pos}}
		// order: key assignment, fetch, presence guard, value assignment
		head := append(append(keyAsg, fetch, guard), valAsg...)
		rs.Body.List = append(head, rs.Body.List...)
		rs.Key = mk("_")
		rs.Value = loopKey
		rs.Tok = token.DEFINE
		rs.X = &ast.CallExpr{Fun: &ast.SelectorExpr{X: mk("vrt"), Sel: mk("MapOrder")}, Lparen: pos, Args: []ast.Expr{mk(m)}, Rparen: pos}
		rw.changed = true
		return true
	})
	if rw.changed {
		rw.dropUnusedStdImports()
	}
}

// dropUnusedStdImports removes imports of standard-library packages (first path element without a
// dot, package name = last path element) that no selector expression refers to any more.
func (rw *rewriter) dropUnusedStdImports() {
	used := map[string]bool{}
	ast.Inspect(rw.file, func(n ast.Node) bool {
		if se, ok := n.(*ast.SelectorExpr); ok {
			if id, ok := se.X.(*ast.Ident); ok && id.Obj == nil {
				used[id.Name] = true
			}
		}
		return true
	})
	drop := map[*ast.ImportSpec]bool{}
	for _, im := range rw.file.Imports {
		p, err := strconv.Unquote(im.Path.Value)
		if err != nil || p == "C" || p == "embed" || p == "unsafe" {
			continue
		}
		if first := strings.SplitN(p, "/", 2)[0]; strings.Contains(first, ".") || strings.HasPrefix(p, "verif/") {
			continue
		}
		name := p[strings.LastIndex(p, "/")+1:]
		if len(name) > 1 && name[0] == 'v' && strings.Trim(name[1:], "0123456789") == "" && strings.Contains(p, "/") {
			q := p[:strings.LastIndex(p, "/")]
			name = q[strings.LastIndex(q, "/")+1:]
		}
		if im.Name != nil {
			name = im.Name.Name
		}
		if name == "_" || name == "." || used[name] {
			continue
		}
		drop[im] = true
	}
	if len(drop) == 0 {
		return
	}
	keepI := rw.file.Imports[:0]
	for _, im := range rw.file.Imports {
		if !drop[im] {
			keepI = append(keepI, im)
		}
	}
	rw.file.Imports = keepI
	for _, d := range rw.file.Decls {
		gd, ok := d.(*ast.GenDecl)
		if !ok || gd.Tok != token.IMPORT {
			continue
		}
		keep := gd.Specs[:0]
		for _, s := range gd.Specs {
			if im, ok := s.(*ast.ImportSpec); !ok || !drop[im] {
				keep = append(keep, s)
			}
		}
		gd.Specs = keep
	}
}
