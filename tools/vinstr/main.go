// vinstr — source instrumentation for the controlled scheduler and for owned nondeterminism.
// Reads a list "<path relative to repo> <rule,rule,...>" (path = file or directory, non-test
// files), writes instrumented copies under -out and an overlay fragment {"/repo/x.go": "<copy>"}.
// The copies are regenerated from the tree as it is on disk at check time.
//
// Rules:
//   rand     import "math/rand"      -> verif/vrt/vrand   (enumerated random choices)
//   sync     import "sync"           -> verif/vrt/vsync   (Mutex/RWMutex/WaitGroup/Once/Cond/Map/Pool = scheduling points)
//   atomic   import "sync/atomic"    -> verif/vrt/vatomic
//   time     import "time"           -> verif/vrt/vtime   (virtual clock)
//   go       `go f(x)`               -> vrt.Go(func(){ f(x) })  with arguments evaluated at the go site
//   chan     channel send/recv/close/range/select -> vrt.Send/Recv/Recv2/Close/Range/Select
//   maprange `for k,v := range m` (m a map, by go/types-free heuristic list)  -> see rule "maps="
//   numcpu   runtime.NumCPU()/runtime.GOMAXPROCS(0) -> vrt.NumCPU()
package main

import (
	"bytes"
	"encoding/json"
	"flag"
	"fmt"
	"go/ast"
	"go/format"
	"go/parser"
	"go/token"
	"os"
	"path/filepath"
	"sort"
	"strconv"
	"strings"
)

var importMap = map[string][2]string{
	"rand":   {"math/rand", "verif/vrt/vrand"},
	"sync":   {"sync", "verif/vrt/vsync"},
	"atomic": {"sync/atomic", "verif/vrt/vatomic"},
	"time":   {"time", "verif/vrt/vtime"},
}

func main() {
	repo := flag.String("repo", "/repo", "")
	out := flag.String("out", "", "")
	list := flag.String("list", "", "")
	js := flag.String("json", "", "")
	flag.Parse()
	b, err := os.ReadFile(*list)
	if err != nil {
		fatal(err)
	}
	os.RemoveAll(*out)
	os.MkdirAll(*out, 0o755)
	absOut, _ := filepath.Abs(*out)
	rep := map[string]string{}
	for _, ln := range strings.Split(string(b), "\n") {
		ln = strings.TrimSpace(ln)
		if ln == "" || strings.HasPrefix(ln, "#") {
			continue
		}
		f := strings.Fields(ln)
		if len(f) < 2 {
			fatal(fmt.Errorf("bad line %q", ln))
		}
		rules := map[string]string{}
		for _, r := range strings.Split(f[1], ",") {
			kv := strings.SplitN(r, "=", 2)
			if len(kv) == 2 {
				rules[kv[0]] = kv[1]
			} else {
				rules[r] = "1"
			}
		}
		p := filepath.Join(*repo, f[0])
		st, err := os.Stat(p)
		if err != nil {
			fatal(err)
		}
		var files []string
		if st.IsDir() {
			es, _ := os.ReadDir(p)
			for _, e := range es {
				n := e.Name()
				if strings.HasSuffix(n, ".go") && !strings.HasSuffix(n, "_test.go") {
					files = append(files, filepath.Join(p, n))
				}
			}
		} else {
			files = []string{p}
		}
		sort.Strings(files)
		for _, file := range files {
			src, changed, err := instrument(file, rules)
			if err != nil {
				fatal(fmt.Errorf("%s: %v", file, err))
			}
			if !changed {
				continue
			}
			rel, _ := filepath.Rel(*repo, file)
			dst := filepath.Join(absOut, rel)
			os.MkdirAll(filepath.Dir(dst), 0o755)
			if err := os.WriteFile(dst, src, 0o644); err != nil {
				fatal(err)
			}
			rep[file] = dst
			fmt.Println("instrumented", rel)
		}
	}
	jb, _ := json.MarshalIndent(rep, "", " ")
	if err := os.WriteFile(*js, jb, 0o644); err != nil {
		fatal(err)
	}
}

func fatal(err error) {
	fmt.Fprintln(os.Stderr, "vinstr:", err)
	os.Exit(1)
}

func instrument(file string, rules map[string]string) ([]byte, bool, error) {
	fset := token.NewFileSet()
	f, err := parser.ParseFile(fset, file, nil, parser.ParseComments)
	if err != nil {
		return nil, false, err
	}
	changed := false
	// import rewrites
	for rule, m := range importMap {
		if rules[rule] == "" {
			continue
		}
		for _, im := range f.Imports {
			p, _ := strconv.Unquote(im.Path.Value)
			if p == m[0] {
				if im.Name == nil {
					base := m[0][strings.LastIndex(m[0], "/")+1:]
					im.Name = ast.NewIdent(base)
				}
				im.Path.Value = strconv.Quote(m[1])
				changed = true
			}
		}
	}
	needVrt := false
	var extra [][2]string
	if rules["go"] != "" || rules["chan"] != "" || rules["numcpu"] != "" || rules["maprange"] != "" || rules["mutex"] != "" {
		rw := &rewriter{fset: fset, rules: rules, file: f}
		rw.run()
		if rw.changed {
			changed = true
			needVrt = rules["go"] != "" || rules["chan"] != "" || rules["numcpu"] != "" || rules["maprange"] != ""
		}
		extra = rw.extraImports
	}
	for _, e := range extra {
		addImport(f, e[0], e[1])
	}
	if needVrt {
		addImport(f, "vrt", "verif/vrt")
	}
	pruneUnusedImports(f)
	var buf bytes.Buffer
	if err := format.Node(&buf, fset, f); err != nil {
		return nil, false, err
	}
	return buf.Bytes(), changed, nil
}

func addImport(f *ast.File, name, path string) {
	for _, im := range f.Imports {
		if p, _ := strconv.Unquote(im.Path.Value); p == path {
			return
		}
	}
	spec := &ast.ImportSpec{Name: ast.NewIdent(name), Path: &ast.BasicLit{Kind: token.STRING, Value: strconv.Quote(path)}}
	for _, d := range f.Decls {
		if gd, ok := d.(*ast.GenDecl); ok && gd.Tok == token.IMPORT {
			gd.Specs = append(gd.Specs, spec)
			if !gd.Lparen.IsValid() {
				gd.Lparen = gd.Pos()
				gd.Rparen = gd.End()
			}
			f.Imports = append(f.Imports, spec)
			return
		}
	}
	gd := &ast.GenDecl{Tok: token.IMPORT, Specs: []ast.Spec{spec}}
	f.Decls = append([]ast.Decl{gd}, f.Decls...)
	f.Imports = append(f.Imports, spec)
}

// pruneUnusedImports drops imports whose package name is no longer referenced (an unused import does
// not compile). Only named-by-default or aliased imports are considered; blank and dot imports stay.
func pruneUnusedImports(f *ast.File) {
	used := map[string]bool{}
	ast.Inspect(f, func(n ast.Node) bool {
		if se, ok := n.(*ast.SelectorExpr); ok {
			if id, ok := se.X.(*ast.Ident); ok {
				used[id.Name] = true
			}
		}
		return true
	})
	keep := func(im *ast.ImportSpec) bool {
		if im.Name != nil {
			if im.Name.Name == "_" || im.Name.Name == "." {
				return true
			}
			return used[im.Name.Name]
		}
		p, _ := strconv.Unquote(im.Path.Value)
		base := p[strings.LastIndex(p, "/")+1:]
		if used[base] {
			return true
		}
		// packages whose name differs from the last path element cannot be judged: keep unless it is a std package
		return strings.Contains(p, ".")
	}
	for _, d := range f.Decls {
		gd, ok := d.(*ast.GenDecl)
		if !ok || gd.Tok != token.IMPORT {
			continue
		}
		var specs []ast.Spec
		for _, sp := range gd.Specs {
			if keep(sp.(*ast.ImportSpec)) {
				specs = append(specs, sp)
			}
		}
		gd.Specs = specs
	}
	var ims []*ast.ImportSpec
	for _, im := range f.Imports {
		if keep(im) {
			ims = append(ims, im)
		}
	}
	f.Imports = ims
}
