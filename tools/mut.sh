#!/bin/bash
# usage: tools/mut.sh <ID> <file-in-repo> <python-regex> <replacement> [tier]
# Applies a one-off mutation in a scratch worktree of /repo (never in /repo), runs the registered check
# against it (VERIF_REPO), removes the worktree.  With MUT_TEST=<pkg> also runs `go test <pkg>` there.
ID=$1; F=$2; PAT=$3; REP=$4; TIER=${5:-quick}
export GOFLAGS=-mod=mod GOPROXY=off GOSUMDB=off GOTOOLCHAIN=local
WT=/tmp/vmut-$$
git -C /repo worktree add -q --detach $WT HEAD || exit 9
trap 'git -C /repo worktree remove --force $WT; rm -rf /verif/.work/*/mut_tmp_vmut-'$$ EXIT
python3 - "$WT/$F" "$PAT" "$REP" <<'PY'
import re,sys
f,p,r=sys.argv[1:4]
s=open(f).read()
n=len(re.findall(p,s,flags=re.S))
if n!=1: print("pattern matches",n,"times"); sys.exit(3)
open(f,'w').write(re.sub(p,r,s,count=1,flags=re.S))
PY
[ $? -eq 0 ] || exit 3
git -C $WT diff --stat | tail -1
if [ -n "${MUT_TEST:-}" ]; then (cd $WT && go test -count=1 -vet=off $MUT_TEST 2>&1 | tail -3); fi
cd /verif && VERIF_REPO=$WT ./run.sh $ID $TIER | grep -v '^badger' | tail -6; rc=${PIPESTATUS[0]}
rm -f /verif/bin/*-mut_tmp_vmut-$$
echo "mutant exit=$rc"
