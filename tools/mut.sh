#!/bin/bash
# usage: tools/mut.sh <ID> <file-in-repo> <python-regex> <replacement> [tier]  — applies a one-off mutation to /repo, runs the check, reverts.
ID=$1; F=$2; PAT=$3; REP=$4; TIER=${5:-quick}
cd /repo && git diff --quiet || { echo "repo dirty"; exit 9; }
python3 - "$F" "$PAT" "$REP" <<'PY'
import re,sys
f,p,r=sys.argv[1:4]
s=open('/repo/'+f).read()
n=len(re.findall(p,s,flags=re.S))
if n!=1: print("pattern matches",n,"times"); sys.exit(3)
open('/repo/'+f,'w').write(re.sub(p,r,s,count=1,flags=re.S))
PY
[ $? -eq 0 ] || exit 3
git -C /repo diff --stat | tail -1
cd /verif && ./run.sh $ID $TIER | tail -6; rc=${PIPESTATUS[0]}
git -C /repo checkout -- . 
echo "mutant exit=$rc"
