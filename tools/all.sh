#!/bin/bash
# usage: tools/all.sh quick|thorough  — runs every claimed check once, one line per check.
TIER=${1:-quick}
cd "$(dirname "$0")/.."
for ID in $(cat checks/ENABLED); do
  s=$(date +%s)
  out=$(./run.sh $ID $TIER 2>&1 | grep -E "^$ID tier|VIOLATION|KNOWN-FINDING|HARNESS|VACUOUS|cap:" | cut -c1-220)
  rc=${PIPESTATUS[0]}
  echo "== $ID exit=$? wall=$(( $(date +%s) - s ))s"
  echo "$out" | head -8
done
