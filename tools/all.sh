#!/bin/bash
# usage: tools/all.sh quick|thorough  — runs every claimed check once, one line per check.
#        ONLY="C01 C07" tools/all.sh thorough  — only the named checks.
TIER=${1:-quick}
cd "$(dirname "$0")/.."
for ID in ${ONLY:-$(cat checks/ENABLED)}; do
  s=$(date +%s)
  ./run.sh $ID $TIER > .work/all-$ID.out 2>&1; rc=$?
  out=$(grep -E "^$ID tier|VIOLATION|KNOWN-FINDING|HARNESS|VACUOUS|cap:" .work/all-$ID.out | cut -c1-220)
  echo "== $ID exit=$rc wall=$(( $(date +%s) - s ))s"
  echo "$out" | head -8
done
