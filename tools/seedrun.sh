#!/bin/bash
# usage: tools/seedrun.sh <ID>... | all   — applies each stored seeded change (seeded/<ID>/patch.diff) to a scratch
# worktree of /repo (never /repo), runs the property's quick check against it and expects exit 1.
# One line per seed: "<ID> caught" / "<ID> MISSED". The worktree is removed afterwards.
export GOFLAGS=-mod=mod GOPROXY=off GOSUMDB=off GOTOOLCHAIN=local
cd "$(dirname "$0")/.."
IDS="$@"; [ "$IDS" = all ] && IDS=$(ls seeded)
miss=0
for NAME in $IDS; do
  ID=${NAME%%-*}
  if [ -f /verif/seeded/$NAME/SUPERSEDED ]; then echo "$NAME skipped (superseded by a fix: see seeded/$NAME/SUPERSEDED)"; continue; fi
  WT=/tmp/vmut-$$-$NAME
  git -C /repo worktree add -q --detach $WT HEAD || exit 9
  if ! git -C $WT apply --whitespace=nowarn /verif/seeded/$NAME/patch.diff; then echo "$NAME patch does not apply"; git -C /repo worktree remove --force $WT; miss=1; continue; fi
  # a seed may name the check(s) that are responsible for it when the machinery splits a property (file CHECKS)
  [ -f /verif/seeded/$NAME/CHECKS ] && ID=$(head -1 /verif/seeded/$NAME/CHECKS)
  TIER=$(python3 -c "import json;print(json.load(open('/verif/seeded/$NAME/meta.json')).get('caught_tier','quick'))" 2>/dev/null || echo quick)
  out=$(VERIF_REPO=$WT ./run.sh $ID $TIER 2>&1 | grep -v '^badger'); rc=$?
  if echo "$out" | grep -q "^VIOLATION property=$ID"; then echo "$NAME caught by $ID ($TIER): $(echo "$out" | grep -m1 'what:' | cut -c1-200)"; else echo "$NAME MISSED ($TIER): $(echo "$out" | tail -2 | cut -c1-200)"; miss=1; fi
  git -C /repo worktree remove --force $WT
  rm -rf /verif/.work/*/mut_tmp_vmut-$$-$NAME /verif/bin/*-mut_tmp_vmut-$$-$NAME
done
exit $miss
