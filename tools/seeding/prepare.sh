#!/bin/bash
# usage: tools/seeding/prepare.sh <ID>...  — creates a scratch worktree /tmp/seed-<ID> of /repo (HEAD) and the two files a
# seeding sub-agent receives: /tmp/seed-<ID>.property.txt (the property's own text, nothing from /verif's machinery)
# and /tmp/seed-<ID>.prompt.txt. The agent is started with: "Read the file /tmp/seed-<ID>.prompt.txt and carry out
# exactly the task it describes. Work only inside /tmp/seed-<ID>; never touch /verif or /repo."
cd "$(dirname "$0")/../.."
# An argument "C05=mechanism words" adds a focus line naming one of the property's own mechanisms (round 2:
# a second, different change per property); the worktree is then /tmp/seed-C05-2.
for ARG in "$@"; do
  ID=${ARG%%=*}; FOCUS=""; N=2
  case "$ID" in *"#"*) N=${ID#*#}; ID=${ID%%#*};; esac
  TAG=$ID
  if [ "$ARG" != "${ARG%%=*}" ]; then FOCUS=${ARG#*=}; TAG=$ID-$N; fi
  git -C /repo worktree add -q --detach /tmp/seed-$TAG HEAD || exit 9
  python3 - $ID "$TAG" "$FOCUS" <<'PY'
import json,sys
ID,TAG,FOCUS=sys.argv[1:4]
for l in open('/verif/properties.jsonl'):
    d=json.loads(l)
    if d['id']==ID: break
else: sys.exit("no such property")
lines=[f"{d['id']} — {d.get('title','')}", "", "Statement: "+d.get('statement','')]
q=d.get('quantifier') or {}
if q.get('text'): lines+=["", "Quantified over: "+q['text']]
if d.get('why_tests_cant'): lines+=["", "Why the existing tests cannot settle it: "+d['why_tests_cant']]
anch=d.get('anchors') or {}
if anch.get('files'): lines+=["", "Code anchors (files): "+", ".join(anch['files'])]
def fmt(v):
    if isinstance(v,dict):
        return v.get('name','')+(" — "+v['meaning'] if v.get('meaning') else "")+(" ("+v['where']+")" if v.get('where') else "")
    return str(v)
for k,lab in (('state','State'),('mechanism','Mechanisms'),('observe_at','Observable at')):
    if anch.get(k): lines.append(f"{lab}: "+"; ".join(fmt(x) for x in anch[k]))
if FOCUS=="-":
    lines+=["", "For this run prefer a change in a helper, a boundary case or an error path of the anchored code that is NOT the first thing one would think of for this property (another run covers the obvious one)."]
elif FOCUS:
    hit=[fmt(x) for x in anch.get('mechanism',[]) if FOCUS.lower() in fmt(x).lower()]
    if not hit: sys.exit("focus matches no mechanism of "+ID)
    lines+=["", "For this run concentrate on this mechanism of the property (another run covers the others): "+hit[0]]
text="\n".join(lines)
open(f'/tmp/seed-{TAG}.property.txt','w').write(text+"\n")
t=open('/verif/tools/seeding/prompt.template.txt').read()
open(f'/tmp/seed-{TAG}.prompt.txt','w').write(t.replace('__WT__',f'/tmp/seed-{TAG}').replace('__PROP__',f'/tmp/seed-{TAG}.property.txt').replace('__PROPTEXT__',text))
PY
done
echo ok
