#!/usr/bin/env python3
"""Emit a go build overlay JSON: every file under /verif/overlay/<pkgpath>/ is added into
/repo/<pkgpath>/ (add-only export shims, //go:build verif), plus instrumented copies listed in
.work/<id>/instr.json (written by tools/vinstr for the checks that need a controlled scheduler)."""
import json, os, sys
root = os.environ.get("VERIF_ROOT", "/verif")
repo = sys.argv[1] if len(sys.argv) > 1 else "/repo"
extra = sys.argv[2] if len(sys.argv) > 2 else None
rep = {}
ov = os.path.join(root, "overlay")
for d, _, fs in os.walk(ov):
    for f in fs:
        if f.endswith(".go"):
            rel = os.path.relpath(os.path.join(d, f), ov)
            tgt = os.path.join(repo, rel)
            if os.path.isdir(os.path.dirname(tgt)):
                rep[tgt] = os.path.join(d, f)
if extra and os.path.exists(extra):
    rep.update(json.load(open(extra)))
json.dump({"Replace": rep}, sys.stdout, indent=1)
