#!/usr/bin/env python3
"""Summarise the race detector's log files of one auxiliary race pass: usage racereport.py <ID> <workdir> <N>."""
import sys, glob, re, json
ID, W, N = sys.argv[1], sys.argv[2], int(sys.argv[3])
reports = []
for f in sorted(glob.glob(f"{W}/racelog.*")):
    txt = open(f, errors="replace").read()
    reports += [b for b in txt.split("==================") if "WARNING: DATA RACE" in b]
def frames(block):
    # first non-runtime frame of each of the two accesses
    out = []
    for part in re.split(r"\n(?=Previous |Goroutine )", block):
        m = re.search(r"^(Read|Write|Previous read|Previous write) at .*?\n((?:  .*\n)+)", part, re.M)
        if m:
            fr = [l.strip() for l in m.group(2).splitlines() if l.strip() and not l.strip().startswith(("runtime.", "sync.", "sync/atomic."))]
            fn = next((x for x in fr if "(" in x), fr[0] if fr else "?")
            loc = ""
            ls = m.group(2).splitlines()
            for i, l in enumerate(ls):
                if l.strip() == fn and i + 1 < len(ls):
                    loc = ls[i + 1].strip().split(" +")[0]
                    break
            out.append(f"{m.group(1).lower()} {fn.split('(')[0]} {loc}")
    return " <-> ".join(sorted(set(out))[:2])
classes, harness_only = {}, {}
for b in reports:
    k = frames(b)
    # a pair whose two accesses are both in harness code (verif/...) says nothing about chain33
    tgt = harness_only if all(" verif/" in part or part.split(" ")[-2].startswith("main.") for part in k.split(" <-> ")) else classes
    tgt.setdefault(k, 0)
    tgt[k] += 1
free = 0
try:
    for l in open(f"{W}/race.out"):
        m = re.search(r"free_runs=(\d+)", l)
        if m: free = int(m.group(1))
except Exception: pass
json.dump({"property_id": ID, "pass": "free-running harness bodies under the Go race detector", "runs_per_scenario": N, "free_runs": free,
           "race_reports": len(reports), "reports_in_harness_bookkeeping_only": sum(harness_only.values()),
           "distinct_access_pairs": [{"pair": k, "reports": v} for k, v in sorted(classes.items(), key=lambda x: -x[1])]}, sys.stdout, indent=1)
print()
sys.exit(3 if classes else 0)
