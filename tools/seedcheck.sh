#!/bin/bash
# usage: tools/seedcheck.sh <ID> <seed worktree made by a seeding agent> [check ids to run, default ID]
# Independently confirms a seeded change in a FRESH scratch worktree of /repo and runs the registered
# check(s) against it:
#   1. demonstration passes on the unchanged tree, 2. patch applies and the touched packages build,
#   3. the repository's own tests of the touched packages pass with the patch, 4. the demonstration fails
#   with the patch, 5. ./run.sh <check> quick against the patched tree (VERIF_REPO) exits 1.
# Keeps /verif/seeded/<ID>/{patch.diff, demo files, demo.sh, meta.json, verify.json}; removes the worktree.
ID=$1; SRC=$2; shift; shift
CHECKS=${*:-$ID}
export GOFLAGS=-mod=mod GOPROXY=off GOSUMDB=off GOTOOLCHAIN=local
WT=/tmp/sv-$ID-$$
git -C /repo worktree add -q --detach $WT HEAD || exit 9
trap 'git -C /repo worktree remove --force $WT 2>/dev/null; rm -rf /verif/.work/*/mut_tmp_sv-'$ID-$$' /verif/bin/*-mut_tmp_sv-'$ID-$$ EXIT
mkdir -p $WT/SEED && cp -r $SRC/SEED/. $WT/SEED/
res() { echo "$1" >> $WT/SEED/verify.txt; echo "  $1"; }
: > $WT/SEED/verify.txt
pkgs=$(grep '^+++ b/' $WT/SEED/patch.diff | sed 's#^+++ b/##' | xargs -n1 dirname | sort -u | sed 's#^#./#')
# 1. demo on the unchanged tree
(cd $WT && sh SEED/demo.sh > SEED/demo_without.log 2>&1); rc0=$?
res "demo_without_change_exit=$rc0"
# 2. patch
(cd $WT && git apply SEED/patch.diff) || { res "patch_applies=no"; exit 3; }
res "patch_applies=yes"
(cd $WT && go build $pkgs > SEED/build.log 2>&1); res "build_exit=$?"
# 3. existing tests of the touched packages (the demo test file is moved away meanwhile)
demos=$(cd $WT && git status --short | grep '^??' | awk '{print $2}' | grep -v '^SEED/' )
mkdir -p $WT/.demo_aside; for f in $demos; do mkdir -p $WT/.demo_aside/$(dirname $f); mv $WT/$f $WT/.demo_aside/$f; done
(cd $WT && timeout 1500 go test -count=1 -vet=off $pkgs > SEED/existing_tests.log 2>&1); rct=$?
res "existing_tests_exit=$rct ($(grep -c '^ok' $WT/SEED/existing_tests.log) packages ok, $(grep -c '^FAIL\|^--- FAIL' $WT/SEED/existing_tests.log) failures)"
for f in $demos; do mv $WT/.demo_aside/$f $WT/$f; done; rm -rf $WT/.demo_aside
# 4. demo with the change
(cd $WT && sh SEED/demo.sh > SEED/demo_with.log 2>&1); rc1=$?
res "demo_with_change_exit=$rc1"
# 5. our checks
for c in $CHECKS; do
  (cd /verif && VERIF_REPO=$WT ./run.sh $c quick > $WT/SEED/check_$c.log 2>&1); rcc=$?
  res "check_${c}_quick_exit=$rcc $(grep -m1 'what:' $WT/SEED/check_$c.log | cut -c1-300)"
done
if [ $rc0 -eq 0 ] && [ $rc1 -ne 0 ] && [ $rct -eq 0 ]; then res "confirmed=yes"; else res "confirmed=no"; fi
NAME=${SEED_NAME:-$ID}
mkdir -p /verif/seeded/$NAME
cp $WT/SEED/patch.diff $WT/SEED/demo.sh $WT/SEED/meta.json $WT/SEED/verify.txt /verif/seeded/$NAME/ 2>/dev/null
for f in $WT/SEED/*; do case $(basename $f) in patch.diff|demo.sh|meta.json|verify.txt|*.log) ;; *) cp -r $f /verif/seeded/$NAME/ ;; esac; done
tail -c 1500 $WT/SEED/demo_with.log > /verif/seeded/$NAME/demo_with_change.tail.log
