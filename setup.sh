#!/bin/bash
# Builds the framework and every claimed check once (warms the Go build cache; offline), and runs the
# explorer self-tests. A failure aborts setup.
cd "$(dirname "$0")"
export GOFLAGS=-mod=mod GOPROXY=off GOSUMDB=off GOTOOLCHAIN=local
mkdir -p .work bin evidence
rc=0
go build -trimpath -o bin/vinstr ./tools/vinstr || rc=1
go run ./vrt/selftest || { echo "setup: scheduler self-test failed"; rc=1; }
build_one() {
  id=$1
  d=checks/$id
  [ -f $d/main.go ] || return 0
  mkdir -p .work/$id
  INSTR=""
  if [ -f $d/instr.txt ]; then
    bin/vinstr -repo /repo -out .work/$id/instr -list $d/instr.txt -json .work/$id/instr.json > .work/$id/vinstr.log 2>&1 || return 1
    INSTR=.work/$id/instr.json
  fi
  python3 tools/mkoverlay.py /repo $INSTR > .work/$id/overlay.json
  go build -trimpath -tags verif -overlay .work/$id/overlay.json -o bin/$id ./checks/$id || return 1
}
# sequential first build (shared dependency closure), then the rest in parallel
first=1
pids=()
for ID in $(cat checks/ENABLED); do
  id=$(echo $ID | tr 'A-Z' 'a-z')
  if [ $first = 1 ]; then build_one $id || { echo "setup: build of $id failed"; rc=1; }; first=0; continue; fi
  ( build_one $id || { echo "setup: build of $id failed"; exit 1; } ) &
  pids+=($!)
  if [ ${#pids[@]} -ge 6 ]; then wait ${pids[0]} || rc=1; pids=("${pids[@]:1}"); fi
done
for p in "${pids[@]}"; do wait $p || rc=1; done
exit $rc
