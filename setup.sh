#!/bin/bash
# Builds every check binary once (warms the Go build cache; offline).
cd "$(dirname "$0")"
export GOFLAGS=-mod=mod GOPROXY=off GOSUMDB=off GOTOOLCHAIN=local
mkdir -p .work bin evidence
rc=0
for d in checks/*/; do
  id=$(basename $d)
  [ -f $d/main.go ] || continue
  mkdir -p .work/$id
  INSTR=""
  if [ -f $d/instr.txt ]; then
    go build -trimpath -o bin/vinstr ./tools/vinstr || rc=1
    bin/vinstr -repo /repo -out .work/$id/instr -list $d/instr.txt -json .work/$id/instr.json > .work/$id/vinstr.log 2>&1 || rc=1
    INSTR=.work/$id/instr.json
  fi
  python3 tools/mkoverlay.py /repo $INSTR > .work/$id/overlay.json
  go build -trimpath -tags verif -overlay .work/$id/overlay.json -o bin/$id ./checks/$id || { echo "setup: build of $id failed"; rc=1; }
done
exit $rc
