//go:build verif

package rpc

import (
	"net"
	"sort"
)

// VerifListen, when set, replaces net.Listen in the copies of rpc/http.go that the C39 check
// regenerates from the tree at check time (net.Listen( -> verifListen(), so that the real
// JSONRPCServer.Listen / Grpcserver.Listen serve in-memory connections whose RemoteAddr the
// harness chooses. In every other build verifListen is unused and nothing changes.
var VerifListen func(network, addr string) (net.Listener, error)

func verifListen(network, addr string) (net.Listener, error) {
	if VerifListen != nil {
		return VerifListen(network, addr)
	}
	return net.Listen(network, addr)
}

// VerifResetLists empties the package-global access lists (the Init* functions only ever add to
// them, so a second configuration in one process would otherwise be the union of both).
func VerifResetLists() {
	grpcFuncListLock.Lock()
	defer grpcFuncListLock.Unlock()
	remoteIPWhitelist = make(map[string]bool)
	jrpcFuncWhitelist = make(map[string]bool)
	grpcFuncWhitelist = make(map[string]bool)
	jrpcFuncBlacklist = make(map[string]bool)
	grpcFuncBlacklist = make(map[string]bool)
	rpcFilterPrintFuncBlacklist = make(map[string]bool)
}

// VerifLists dumps the lists (for evidence notes only).
func VerifLists() map[string][]string {
	grpcFuncListLock.RLock()
	defer grpcFuncListLock.RUnlock()
	out := map[string][]string{}
	for name, m := range map[string]map[string]bool{"ip": remoteIPWhitelist, "jrpcWhite": jrpcFuncWhitelist, "grpcWhite": grpcFuncWhitelist, "jrpcBlack": jrpcFuncBlacklist, "grpcBlack": grpcFuncBlacklist} {
		l := []string{}
		for k := range m {
			l = append(l, k)
		}
		sort.Strings(l)
		out[name] = l
	}
	return out
}
