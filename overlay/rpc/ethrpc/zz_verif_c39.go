//go:build verif

package ethrpc

import "net"

// VerifListen: see overlay/rpc/zz_verif_c39.go (same seam for httpServer.Start).
var VerifListen func(network, addr string) (net.Listener, error)

func verifListen(network, addr string) (net.Listener, error) {
	if VerifListen != nil {
		return VerifListen(network, addr)
	}
	return net.Listen(network, addr)
}
