//go:build verif

package wallet

import (
	"sync/atomic"

	"github.com/33cn/chain33/client"
	"github.com/33cn/chain33/types"
	wcom "github.com/33cn/chain33/wallet/common"
)

// VerifC37Restart models a process restart for check C37: the running wallet is stopped without
// closing its database (Close would close it), and a new Wallet built by New() is pointed at the
// same database, exactly as a restarted node would find it (no password in memory, locked,
// encryption flag read back from the store). Add-only; used by /verif/checks/c37 only.
func VerifC37Restart(cfg *types.Chain33Config, old *Wallet) *Wallet {
	db := old.walletStore.GetDB()
	atomic.StoreInt32(&old.isclosed, 1)
	close(old.done)
	if old.client != nil {
		old.client.Close()
	}
	old.wg.Wait()
	w := New(cfg)
	w.walletStore.Close() // the scratch database New() opened
	w.walletStore = newStore(db)
	w.FeeAmount = w.walletStore.GetFeeAmount(w.cfg.MinFee)
	w.EncryptFlag = w.walletStore.GetEncryptionFlag()
	return w
}

// VerifC37SetAPI wires the wallet to a stub of the node API without a message queue (the queue's
// per-topic buffers dominate the cost of a fresh wallet); the wallet then counts as initialised.
func (wallet *Wallet) VerifC37SetAPI(api client.QueueProtocolAPI) {
	wallet.api = api
	wcom.Init(wallet, nil) // the built-in policy keeps a reference to the running wallet, as SetQueueClient does
	wallet.setInited(true)
}
