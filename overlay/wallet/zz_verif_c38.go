//go:build verif

package wallet

import (
	"github.com/33cn/chain33/client"
	"github.com/33cn/chain33/common"
	"github.com/33cn/chain33/queue"
	"github.com/33cn/chain33/types"
	wcom "github.com/33cn/chain33/wallet/common"
)

// VerifSetState puts the wallet object into the state a restarted node has (C38/C37 harnesses):
// the in-memory password forgotten or given, encryption flag as stored, lock flag as given.
func (wallet *Wallet) VerifSetState(password string, encryptFlag int64, locked bool) {
	wallet.Password = password
	wallet.EncryptFlag = encryptFlag
	if locked {
		wallet.isWalletLocked = 1
	} else {
		wallet.isWalletLocked = 0
	}
}

// VerifSetClient installs the queue client and API without starting the receive loop.
func (wallet *Wallet) VerifSetClient(cli queue.Client, api client.QueueProtocolAPI) {
	wallet.client = cli
	wallet.api = api
}

// VerifAddAccount stores an account whose private key is encrypted under password.
func (wallet *Wallet) VerifAddAccount(password, addr, label string, priv []byte) error {
	enc := wcom.CBCEncrypterPrivkey([]byte(password), priv)
	return wallet.walletStore.SetWalletAccount(false, addr, &types.WalletAccountStore{Privkey: common.ToHex(enc), Label: label, Addr: addr})
}

// VerifLockFlag reads the raw lock flag.
func (wallet *Wallet) VerifLockFlag() int32 { return wallet.isWalletLocked }
