//go:build verif

package mavl

// Add-only export shims for the /verif checks C01..C05.

import (
	"reflect"
	"sort"
	"unsafe"

	dbm "github.com/33cn/chain33/common/db"
	mavl "github.com/33cn/chain33/system/store/mavl/db"
)

func verifAlloc[T any](p **T) { *p = new(T) }

// VerifSetDB replaces the database object of a Store (BaseStore.db is unexported in another
// package, hence reflection). Used to put a thin adapter around the in-memory backend.
func VerifSetDB(s *Store, db dbm.DB) {
	f := reflect.ValueOf(s.BaseStore).Elem().FieldByName("db")
	reflect.NewAt(f.Type(), unsafe.Pointer(f.UnsafeAddr())).Elem().Set(reflect.ValueOf(db))
}

// VerifRestart returns a new Store object on the database of an existing one, with an empty set
// of pending trees: what a process restart leaves of a store whose database survives (used with
// the in-memory backend, which cannot be closed and reopened). The caller drops the node cache
// and the package-global caches of mavl/db.
func VerifRestart(old *Store) *Store {
	// a copy of the whole object (whatever fields the constructor set up), with a fresh set of pending trees
	n := new(Store)
	*n = *old
	n.trees = nil
	verifAlloc(&n.trees) // *sync.Map, or its instrumented counterpart when mavl.go is rewritten
	mavl.InitGlobalMem(n.treeCfg)
	return n
}

// VerifTreeCfg exposes the tree configuration derived from the sub-config.
func (mavls *Store) VerifTreeCfg() *mavl.TreeConfig { return mavls.treeCfg }

// VerifPending lists the roots of the pending (MemSet, not yet committed/rolled back) updates.
func (mavls *Store) VerifPending() []string {
	var l []string
	mavls.trees.Range(func(k, v interface{}) bool { l = append(l, k.(string)); return true })
	sort.Strings(l)
	return l
}
