//go:build verif

package mavl

// Add-only export shims for the /verif checks C01..C05.

import (
	"sort"
	"sync"

	mavl "github.com/33cn/chain33/system/store/mavl/db"
)

// VerifRestart returns a new Store object on the database of an existing one, with an empty set
// of pending trees: what a process restart leaves of a store whose database survives (used with
// the in-memory backend, which cannot be closed and reopened). The caller drops the node cache
// and the package-global caches of mavl/db.
func VerifRestart(old *Store) *Store {
	n := &Store{old.BaseStore, &sync.Map{}, old.treeCfg}
	mavl.InitGlobalMem(n.treeCfg)
	return n
}

// VerifTreeCfg exposes the tree configuration derived from the sub-config.
func (mavls *Store) VerifTreeCfg() *mavl.TreeConfig { return mavls.treeCfg }

// VerifPending lists the roots of the pending (MemSet, not yet committed/rolled back) updates.
func (mavls *Store) VerifPending() []string {
	var l []string
	mavls.trees.Range(func(k, v interface{}) bool { l = append(l, k.(string)); return true })
	sort.Strings(l)
	return l
}
