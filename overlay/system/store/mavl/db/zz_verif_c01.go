//go:build verif

package mavl

// Add-only export shims for the /verif checks C01..C05 (state tree). They only read unexported
// state or reset process-global caches between executions; no existing identifier is changed.

import (
	"fmt"
	"strings"

	dbm "github.com/33cn/chain33/common/db"
)

// VerifNode is a read-only copy of one persisted node (read straight from the database: no node
// cache, no memTree, so reading a shape has no side effect on the subject).
type VerifNode struct {
	DBKey  []byte // key the record is stored under (bare or height-prefixed hash)
	Key    []byte
	Value  []byte
	Height int32
	Size   int32
	L, R   *VerifNode
}

// VerifLoadTree reads the whole tree below a root hash. A missing record is reported as an error
// naming the path ("L"/"R" steps from the root).
func VerifLoadTree(db dbm.DB, root []byte) (*VerifNode, error) {
	if len(root) == 0 || string(root) == string(emptyRoot[:]) {
		return nil, nil
	}
	return verifLoad(db, root, "")
}

func verifLoad(db dbm.DB, hash []byte, path string) (*VerifNode, error) {
	buf, err := db.Get(hash)
	if err != nil || len(buf) == 0 {
		kind := "bare-hash"
		if strings.HasPrefix(string(hash), leafNodePrefix) {
			kind = "prefixed-leaf"
		} else if strings.HasPrefix(string(hash), hashNodePrefix) {
			kind = "prefixed-inner"
		}
		where := "below the root (path " + path + ")"
		if path == "" {
			where = "root"
		}
		return nil, fmt.Errorf("ErrNodeNotExist: %s node record missing, %s", kind, where)
	}
	n, err := MakeNode(buf, nil)
	if err != nil {
		return nil, fmt.Errorf("node record undecodable at path %q: %v", path, err)
	}
	v := &VerifNode{DBKey: append([]byte{}, hash...), Key: n.key, Value: n.value, Height: n.height, Size: n.size}
	if n.height > 0 {
		if v.L, err = verifLoad(db, n.leftHash, path+"L"); err != nil {
			return nil, err
		}
		if v.R, err = verifLoad(db, n.rightHash, path+"R"); err != nil {
			return nil, err
		}
	}
	return v, nil
}

// VerifResetGlobals puts the process-global state of the package (memTree, tkCloseCache,
// maxBlockHeight) back to what a fresh process has. With memTree=true small caches of the real
// types are installed right away (InitGlobalMem would allocate a 500000-entry map per execution;
// it leaves existing caches alone).
func VerifResetGlobals(withMemTree bool, tkCloseLen int) {
	heightMtx.Lock()
	maxBlockHeight = 0
	heightMtx.Unlock()
	if memTree != nil || tkCloseCache != nil { // (no write when there is nothing to reset: callers without memTree may run in parallel)
		memTree, tkCloseCache = nil, nil
	}
	if withMemTree {
		if tkCloseLen <= 0 {
			tkCloseLen = 100
		}
		memTree = NewTreeMap(64)
		tkCloseCache = NewTreeARC(tkCloseLen)
	}
}

// VerifGlobalLens reports the sizes of the global caches (-1 = absent) and maxBlockHeight.
func VerifGlobalLens() (mem int, tk int, maxH int64) {
	mem, tk = -1, -1
	if memTree != nil {
		mem = memTree.Len()
	}
	if tkCloseCache != nil {
		tk = tkCloseCache.Len()
	}
	heightMtx.Lock()
	maxH = maxBlockHeight
	heightMtx.Unlock()
	return
}

// VerifTreeRootInfo loads a root through the real Tree.Load and returns Tree.Size/Tree.Height.
func VerifTreeRootInfo(db dbm.DB, root []byte, cfg *TreeConfig) (size, height int32, err error) {
	t := NewTree(db, true, cfg)
	if err = t.Load(root); err != nil {
		return 0, 0, err
	}
	return t.Size(), t.Height(), nil
}
