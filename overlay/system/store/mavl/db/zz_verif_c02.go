//go:build verif

package mavl

import (
	"fmt"
	"sort"
	"strings"
)

// VerifGlobalCacheKey renders the content of the process-global node caches (memTree and
// tkCloseCache: which 64-bit node keys are present, and whether a cached leaf carries a value) so
// that an explorer can tell two process histories with different cache states apart.
func VerifGlobalCacheKey() string {
	var l []string
	if tm, ok := memTree.(*TreeMap); ok && tm != nil {
		tm.lock.Lock()
		for k, v := range tm.mpCache {
			mn := v.(*memNode)
			l = append(l, fmt.Sprintf("m%x/%d/%d", uint64(k.(uintkey)), mn.Height, len(mn.data)))
		}
		tm.lock.Unlock()
	}
	if ta, ok := tkCloseCache.(*TreeARC); ok && ta != nil {
		for _, k := range ta.arcCache.Keys() {
			l = append(l, fmt.Sprintf("t%x", uint64(k.(uintkey))))
		}
	}
	sort.Strings(l)
	heightMtx.Lock()
	h := maxBlockHeight
	heightMtx.Unlock()
	return fmt.Sprintf("%d|%s", h, strings.Join(l, ","))
}
