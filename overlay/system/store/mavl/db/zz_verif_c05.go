//go:build verif

package mavl

// Add-only shims for C05 (pruning): reset / control of the process-global pruning state.

// VerifResetPrune gives the pruning globals the state of a fresh process (no pruning running, not
// quitting, second-level height unknown).
func VerifResetPrune() {
	wg.Wait()
	quit = false
	secLvlPruningH = 0
	setPruning(pruningStateEnd)
}

// VerifSetPruning marks pruning as running (true) so that Tree.Save does not start the background
// pruning goroutine (the repository's own tests do the same), or as idle (false).
func VerifSetPruning(running bool) {
	if running {
		setPruning(pruningStateStart)
	} else {
		setPruning(pruningStateEnd)
	}
}

// VerifWaitPrune waits until a background pruning run started by Tree.Save has finished.
func VerifWaitPrune() { wg.Wait() }

// VerifIsPruning reports the pruning flag.
func VerifIsPruning() bool { return isPruning() }

// VerifPruneConsts exposes the level thresholds.
func VerifPruneConsts() (second, third int64) {
	return secondLevelPruningHeight, threeLevelPruningHeight
}
