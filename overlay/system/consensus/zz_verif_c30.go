//go:build verif

package consensus

import "github.com/33cn/chain33/queue"

// VerifSetClient gives a BaseClient its queue client without starting the finalizer, committer and
// miner goroutines that InitClient starts (the C30/C31 checks call AddTxsToBlock / CheckTxExpire only,
// which read nothing but bc.client.GetConfig()).
func (bc *BaseClient) VerifSetClient(c queue.Client) { bc.client = c }
