//go:build verif

package broadcast

import (
	"github.com/33cn/chain33/common/pubsub"
	"github.com/33cn/chain33/p2p/utils"
	"github.com/33cn/chain33/system/p2p/dht/protocol"
	"github.com/33cn/chain33/types"
	"github.com/libp2p/go-libp2p/core/peer"
)

// VBroadcast is the broadcast protocol object built the way init() builds it, minus the libp2p
// topic subscriptions and the validator's ticker; the light-block loops are started by the real
// initLightBroadcast (C33/C34 harnesses run them under the controlled scheduler with virtual tickers).
type VBroadcast struct{ p *broadcastProtocol }

// VerifNew builds the protocol on env.
func VerifNew(env *protocol.P2PEnv, pendTimeoutMs int64) *VBroadcast {
	p := &broadcastProtocol{syncStatus: true}
	p.P2PEnv = env
	p.ps = pubsub.NewPubSub(1024)
	p.cfg = env.SubConfig.Broadcast
	p.cfg.LtBlockPendTimeout = pendTimeoutMs
	p.setDefaultConfig()
	p.txFilter = utils.NewFilter(p.cfg.TxFilterLen)
	p.blockFilter = utils.NewFilter(p.cfg.BlockFilterLen)
	p.val = newValidator(&pubSub{broadcastProtocol: p})
	p.ltB = initLightBroadcast(p)
	return &VBroadcast{p}
}

// Receive is the real receive path of a pubsub message (handleBroadcastReceive).
func (v *VBroadcast) Receive(topic string, value types.Message, from, publisher peer.ID) {
	v.p.handleBroadcastReceive(subscribeMsg{topic: topic, value: value, receiveFrom: from, publisher: publisher})
}

// Topics returns the topic names (tx, batch tx, block, light block, peer-message prefix).
func VerifTopics() (tx, batch, block, ltblock, peerPrefix string) {
	return psTxTopic, psBatchTxTopic, psBlockTopic, psLtBlockTopic, psPeerMsgTopicPrefix
}

// Outgoing subscribes to what the protocol publishes towards the network.
func (v *VBroadcast) Outgoing() chan interface{} { return v.p.ps.Sub(psBroadcast) }

// VerifOut decodes one published item.
func VerifOut(x interface{}) (topic string, msg types.Message, ok bool) {
	pm, ok := x.(publishMsg)
	if !ok {
		return "", nil, false
	}
	return pm.topic, pm.msg, true
}

// BuildLight is the real light-block construction of the sending side.
func (v *VBroadcast) BuildLight(b *types.Block) *types.LightBlock { return v.p.buildLtBlock(b) }

// SetHeight sets the node's current height as EventAddBlock would.
func (v *VBroadcast) SetHeight(h int64) {
	v.p.handleAddBlock(v.p.QueueClient.NewMessage("p2p", types.EventAddBlock, &types.Block{Height: h}))
}

// PendLen is the number of pending light blocks.
func (v *VBroadcast) PendLen() int {
	v.p.ltB.pdBlockLock.Lock()
	defer v.p.ltB.pdBlockLock.Unlock()
	return v.p.ltB.pendBlockList.Len()
}

// Message ids of peer messages.
const (
	VerifBlockReqMsgID  = blockReqMsgID
	VerifBlockRespMsgID = blockRespMsgID
)

// Barrier publishes a marker on the outgoing channel: everything published before it has been
// delivered to Outgoing() subscribers when the marker arrives (the internal pubsub is FIFO).
func (v *VBroadcast) Barrier(token interface{}) { v.p.ps.Pub(token, psBroadcast) }
