//go:build verif

package download

import (
	"github.com/33cn/chain33/queue"
	"github.com/33cn/chain33/system/p2p/dht/protocol"
)

// VerifNew builds the download protocol object on a harness-supplied environment without
// registering stream or event handlers.
func VerifNew(env *protocol.P2PEnv) *Protocol {
	return &Protocol{P2PEnv: env, counter: NewCounter()}
}

// VerifHandleEventDownloadBlock is the real EventFetchBlocks handler.
func (p *Protocol) VerifHandleEventDownloadBlock(msg *queue.Message) { p.handleEventDownloadBlock(msg) }
