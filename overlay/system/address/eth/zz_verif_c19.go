//go:build verif

package eth

import (
	"fmt"
	"sort"
	"strings"
)

// VerifC19Reset empties the public-key -> address cache.
func VerifC19Reset() { addrCache.Purge() }

// VerifC19Dump renders the cache canonically.
func VerifC19Dump() string {
	var l []string
	for _, k := range addrCache.Keys() {
		v, _ := addrCache.Peek(k)
		l = append(l, fmt.Sprintf("%x=%v", k, v))
	}
	sort.Strings(l)
	return strings.Join(l, ";")
}
