//go:build verif

package btc

import (
	"fmt"
	"sort"
	"strings"
)

// VerifC19Reset empties the public-key -> address caches.
func VerifC19Reset() {
	normalAddrCache.Purge()
	multiSignAddrCache.Purge()
}

// VerifC19Dump renders both caches canonically.
func VerifC19Dump() string {
	var l []string
	for _, k := range normalAddrCache.Keys() {
		v, _ := normalAddrCache.Peek(k)
		l = append(l, fmt.Sprintf("n:%x=%v", k, v))
	}
	for _, k := range multiSignAddrCache.Keys() {
		v, _ := multiSignAddrCache.Peek(k)
		l = append(l, fmt.Sprintf("m:%x=%v", k, v))
	}
	sort.Strings(l)
	return strings.Join(l, ";")
}
