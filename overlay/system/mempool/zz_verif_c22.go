//go:build verif

package mempool

import "github.com/33cn/chain33/types"

// Export shim for check C22 (mempool admission). Add-only.

// V22Contents returns the transactions the pool's queue holds, in queue order.
func V22Contents(mem *Mempool) (out []*types.Transaction) {
	mem.proxyMtx.Lock()
	defer mem.proxyMtx.Unlock()
	mem.cache.Walk(0, func(it *Item) bool {
		out = append(out, it.Value)
		return true
	})
	return out
}
