//go:build verif

package mempool

import (
	"github.com/33cn/chain33/queue"
	"github.com/33cn/chain33/types"
)

// Export shim for check C22 (mempool admission). Add-only.

// V22Contents returns the transactions the pool's queue holds, in queue order.
func V22Contents(mem *Mempool) (out []*types.Transaction) {
	mem.proxyMtx.Lock()
	defer mem.proxyMtx.Unlock()
	mem.cache.Walk(0, func(it *Item) bool {
		out = append(out, it.Value)
		return true
	})
	return out
}

// The admission pipeline of the module (eventTx -> checkSign workers -> checkTxRemote workers ->
// reply) one stage at a time, so that a harness can interleave the stages of several submissions
// with other pool events. Each returns the message the stage hands on; Err() != nil = refused.

// V22Stage0 is what eventTx does before queueing the submission (basic checks).
func V22Stage0(mem *Mempool, tx *types.Transaction) *queue.Message {
	return mem.checkTxs(&queue.Message{Data: tx})
}

// V22Stage1 is the signature stage.
func V22Stage1(mem *Mempool, m *queue.Message) *queue.Message {
	if m.Err() != nil {
		return m
	}
	return mem.checkSign(m)
}

// V22Stage2 is the remote stage (duplicate query, optional exec check, PushTx).
func V22Stage2(mem *Mempool, m *queue.Message) *queue.Message {
	if m.Err() != nil {
		return m
	}
	return mem.checkTxRemote(m)
}
