//go:build verif

package mempool

import (
	"github.com/33cn/chain33/client"
	"github.com/33cn/chain33/queue"
	"github.com/33cn/chain33/types"
)

// Export shim for check C21 (mempool bookkeeping). Add-only; reaches unexported handlers and the
// five bookkeeping structures of a real Mempool without starting its module goroutines.

// V21Attach binds a queue client (configuration + request/reply to the scripted "blockchain"
// responder of the harness) to a pool built with NewMempool, without SetQueueClient's goroutines,
// and stops the one-minute sweep ticker NewMempool created (nothing reads it here).
func V21Attach(mem *Mempool, cli queue.Client) {
	mem.client = cli
	api, err := client.New(cli, nil)
	if err != nil {
		panic(err)
	}
	mem.setAPI(api)
	mem.setSync(true)
	mem.removeBlockTicket.Stop()
}

// V21SetHeader is pollLastHeader's effect.
func V21SetHeader(mem *Mempool, height, blockTime int64) {
	mem.setHeader(&types.Header{Height: height, BlockTime: blockTime})
}

// V21EventAddBlock drives the real eventAddBlock handler.
func V21EventAddBlock(mem *Mempool, b *types.Block) {
	mem.eventAddBlock(&queue.Message{Data: &types.BlockDetail{Block: b}})
}

// V21EventDelBlock drives the real eventDelBlock handler (asks "blockchain" for the last header).
func V21EventDelBlock(mem *Mempool, b *types.Block) {
	mem.eventDelBlock(&queue.Message{Data: &types.BlockDetail{Block: b}})
}

// V21RemoveExpired is the body of the one-minute sweep.
func V21RemoveExpired(mem *Mempool) { mem.removeExpired() }

// V21GetTxList is the EventTxList body.
func V21GetTxList(mem *Mempool, l *types.TxHashList) []*types.Transaction { return mem.getTxList(l) }

// V21GetTxListByHash is the EventTxListByHash body.
func V21GetTxListByHash(mem *Mempool, l *types.ReqTxHashList) *types.ReplyTxList {
	return mem.getTxListByHash(l)
}

// V21All is the EventGetMempool body.
func V21All(mem *Mempool, isAll bool) []*types.Transaction { return mem.filterTxList(0, nil, isAll) }

// V21TotalFee reads the fee total.
func V21TotalFee(mem *Mempool) int64 {
	mem.proxyMtx.Lock()
	defer mem.proxyMtx.Unlock()
	return mem.cache.TotalFee()
}

// V21Item is one pool entry as the queue holds it.
type V21Item struct {
	Tx        *types.Transaction
	EnterTime int64
}

// V21Contents walks the real queue: the pool's contents in queue order.
func V21Contents(mem *Mempool) (out []V21Item) {
	mem.proxyMtx.Lock()
	defer mem.proxyMtx.Unlock()
	mem.cache.Walk(0, func(it *Item) bool {
		out = append(out, V21Item{it.Value, it.EnterTime})
		return true
	})
	return out
}

// V21Exist asks the queue for a hash.
func V21Exist(mem *Mempool, hash []byte) bool {
	mem.proxyMtx.Lock()
	defer mem.proxyMtx.Unlock()
	return mem.cache.Exist(string(hash))
}

// V21ShiftClock makes every transaction currently held look `secs` seconds older. The pool only
// ever uses the clock as the difference Now-EnterTime, so this is what the passing of `secs`
// seconds of wall time is to it.
func V21ShiftClock(mem *Mempool, secs int64) {
	mem.proxyMtx.Lock()
	defer mem.proxyMtx.Unlock()
	mem.cache.Walk(0, func(it *Item) bool {
		it.EnterTime -= secs
		return true
	})
}

// V21ExpiredInterval is the pool-age limit in seconds.
func V21ExpiredInterval() int64 { return mempoolExpiredInterval }

// V21ShortIndexSize / V21AccountKeys expose the sizes of the secondary structures.
func V21ShortIndexSize(mem *Mempool) int { return mem.cache.SHashTxCache.l.Size() }

// V21AccountKeys lists the senders the per-sender index holds with their entry counts.
func V21AccountKeys(mem *Mempool) map[string]int {
	out := map[string]int{}
	for k, v := range mem.cache.AccountTxIndex.accMap {
		out[k] = v.Size()
	}
	return out
}
