//go:build verif

package mempool

import (
	"github.com/33cn/chain33/client"
	"github.com/33cn/chain33/queue"
	"github.com/33cn/chain33/types"
)

// Export shim for check C23 (packable transaction lists). Add-only.

// V23Attach binds a queue client to a pool built with NewMempool without starting the module's
// goroutines (the harness calls the handlers itself) and stops the unused sweep ticker.
func V23Attach(mem *Mempool, cli queue.Client) {
	mem.client = cli
	api, err := client.New(cli, nil)
	if err != nil {
		panic(err)
	}
	mem.setAPI(api)
	mem.setSync(true)
	mem.removeBlockTicket.Stop()
}

// V23SetHeader is what pollLastHeader / eventAddBlock do to the header.
func V23SetHeader(mem *Mempool, height, blockTime int64) {
	mem.setHeader(&types.Header{Height: height, BlockTime: blockTime})
}

// V23EventTxList runs the real EventTxList handler on msg (the reply lands in msg's reply channel).
func V23EventTxList(mem *Mempool, msg *queue.Message) { mem.eventTxList(msg) }

// V23ShiftClock makes every held transaction look secs seconds older (the pool uses the clock only
// as Now-EnterTime).
func V23ShiftClock(mem *Mempool, secs int64) {
	mem.proxyMtx.Lock()
	defer mem.proxyMtx.Unlock()
	mem.cache.Walk(0, func(it *Item) bool {
		it.EnterTime -= secs
		return true
	})
}

// V23Contents returns the pool's transactions in queue (arrival) order.
func V23Contents(mem *Mempool) (out []*types.Transaction) {
	mem.proxyMtx.Lock()
	defer mem.proxyMtx.Unlock()
	mem.cache.Walk(0, func(it *Item) bool {
		out = append(out, it.Value)
		return true
	})
	return out
}
