//go:build verif

package blockchain

import (
	"github.com/33cn/chain33/types"
)

func verifAlloc[T any](p **T) { *p = new(T) }

// VerifNewPush builds a Push exactly as newpush does, with the post service supplied by the harness.
func VerifNewPush(store CommonStore, seqStore SequenceStore, post PostService, cfg *types.Chain33Config, failSleep int32) *Push {
	service := &Push{store: store,
		sequenceStore:  seqStore,
		tasks:          make(map[string]*pushNotify),
		postService:    post,
		cfg:            cfg,
		postFail2Sleep: failSleep,
	}
	verifAlloc(&service.postwg) // *sync.WaitGroup, or its instrumented counterpart when push.go is rewritten
	service.init()
	return service
}

// VerifAddSubscriber is addSubscriber.
func (push *Push) VerifAddSubscriber(s *types.PushSubscribeReq) error { return push.addSubscriber(s) }

// VerifLastPushSeq is getLastPushSeq.
func (push *Push) VerifLastPushSeq(s *types.PushSubscribeReq) int64 { return push.getLastPushSeq(s) }
