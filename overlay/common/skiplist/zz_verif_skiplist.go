//go:build verif

package skiplist

import (
	"container/list"
	"fmt"
	"strings"
)

// VerifShape dumps the real linked structure (every level chain, prev links, tail, count, level)
// and returns the first structural inconsistency found ("" if none).
func (sl *SkipList) VerifShape() (shape string, bad string) {
	var sb strings.Builder
	var l0 []*skipListNode
	for e := sl.header.next[0]; e != nil; e = e.next[0] {
		l0 = append(l0, e)
		if len(l0) > 10000 {
			return "", "level-0 chain is cyclic"
		}
	}
	pos := map[*skipListNode]int{}
	for i, n := range l0 {
		pos[n] = i
		fmt.Fprintf(&sb, "%d/%d ", n.Value.Score, len(n.next))
		if i > 0 && l0[i-1].Value.Score <= n.Value.Score {
			bad = fmt.Sprintf("level-0 chain not strictly descending at %d", i)
		}
		var wantPrev *skipListNode
		if i > 0 {
			wantPrev = l0[i-1]
		}
		if n.prev != wantPrev {
			bad = fmt.Sprintf("prev link of node %d (score %d) wrong", i, n.Value.Score)
		}
	}
	if len(l0) != sl.count {
		bad = fmt.Sprintf("count=%d but %d nodes linked", sl.count, len(l0))
	}
	if len(l0) == 0 {
		if sl.tail != nil && sl.count == 0 {
			// tail may keep a stale pointer only if nobody reads it: Last() reads it
			bad = "tail not nil on empty list"
		}
	} else if sl.tail != l0[len(l0)-1] {
		bad = "tail is not the last node"
	}
	fmt.Fprintf(&sb, "|L%d", sl.level)
	for lv := 1; lv < maxLevel; lv++ {
		prev := -1
		n := 0
		for e := sl.header.next[lv]; e != nil; e = e.next[lv] {
			p, ok := pos[e]
			if !ok {
				return sb.String(), fmt.Sprintf("level-%d chain reaches a node that is not in the level-0 chain (score %d)", lv, e.Value.Score)
			}
			if p <= prev {
				return sb.String(), fmt.Sprintf("level-%d chain out of order", lv)
			}
			if len(e.next) <= lv {
				return sb.String(), fmt.Sprintf("level-%d chain through a node of height %d", lv, len(e.next))
			}
			prev = p
			n++
			if n > 10000 {
				return sb.String(), "cyclic upper chain"
			}
		}
		want := 0
		for _, x := range l0 {
			if len(x.next) > lv {
				want++
			}
		}
		if n != want {
			bad = fmt.Sprintf("level-%d chain has %d nodes, %d nodes have that height", lv, n, want)
		}
		if lv >= sl.level && n > 0 {
			bad = fmt.Sprintf("nodes linked at level %d but list level is %d", lv, sl.level)
		}
	}
	return sb.String(), bad
}

// VerifShape of the queue: the skip list shape plus the bucket contents and the map.
func (cache *Queue) VerifShape() (string, string) {
	sh, bad := cache.txList.VerifShape()
	var sb strings.Builder
	sb.WriteString(sh)
	n := 0
	cache.txList.WalkS(func(v interface{}) bool {
		sv := v.(*SkipValue)
		l := sv.Value.(*list.List)
		if l.Len() == 0 {
			bad = fmt.Sprintf("empty bucket for score %d stays linked", sv.Score)
		}
		for e := l.Front(); e != nil; e = e.Next() {
			s := e.Value.(Scorer)
			fmt.Fprintf(&sb, " %x", s.Hash())
			if s.GetScore() != sv.Score {
				bad = "item in a bucket of another score"
			}
			if cache.txMap[string(s.Hash())] != e {
				bad = "map does not point at the list element"
			}
			n++
		}
		return true
	})
	if n != len(cache.txMap) {
		bad = fmt.Sprintf("map has %d entries, buckets hold %d", len(cache.txMap), n)
	}
	return sb.String(), bad
}
