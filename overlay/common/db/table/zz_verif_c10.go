//go:build verif

package table

import (
	"fmt"
	"sort"
	"strings"
)

// VerifPending renders the pending-operation cache of a table (ordered row list and row map): the
// part of the real state, besides the database, that later operations and Save depend on.
func (table *Table) VerifPending() string {
	var sb strings.Builder
	for _, r := range table.rows {
		old := "-"
		if r.old != nil {
			old = r.old.String()
		}
		d := "-"
		if r.Data != nil {
			d = r.Data.String()
		}
		fmt.Fprintf(&sb, "[%d %q %s|%s]", r.Ty, r.Primary, d, old)
	}
	var ks []string
	for k, r := range table.rowmap {
		ks = append(ks, fmt.Sprintf("%q:%d", k, r.Ty))
	}
	sort.Strings(ks)
	sb.WriteString(" map" + strings.Join(ks, ","))
	return sb.String()
}
