//go:build verif

package db

import (
	"sync"
)

// Backend "vdb": the in-memory goleveldb-memdb backend (validated against the ordered-map model by
// C06) wrapped with what the node-level harnesses need: a registry of instances by directory, a
// preload for cloning snapshots, a global log of durable write units across all instances, and a
// crash point: when the log holds dieAfter units the content of every instance is captured as the
// "crash image" (what a process stopped at that instant leaves behind). The node keeps running on
// the live instances afterwards so that the harness can shut it down in an orderly way; only the
// image is used for the restart.

// VOp is one operation of a write unit.
type VOp struct {
	Del  bool
	K, V []byte
}

// VUnit is one durable write: a point write or one atomic batch.
type VUnit struct {
	DB   string
	Sync bool
	Ops  []VOp
}

// VDB is one instance.
type VDB struct {
	*GoMemDB
	Name, Dir string
}

var vdbState struct {
	mu        sync.Mutex
	instances map[string]*VDB
	preload   map[string][]VOp
	log       []VUnit
	logging   bool
	dead      bool
	dieAfter  int // when >= 0: capture the crash image once the log holds this many units
	image     map[string][]VOp
}

func init() {
	vdbState.instances = map[string]*VDB{}
	vdbState.preload = map[string][]VOp{}
	vdbState.dieAfter = -1
	registerDBCreator("vdb", func(name string, dir string, cache int) (DB, error) {
		m, _ := NewGoMemDB(name, dir, cache)
		v := &VDB{GoMemDB: m, Name: name, Dir: dir}
		vdbState.mu.Lock()
		for _, op := range vdbState.preload[dir] {
			_ = m.Set(op.K, op.V)
		}
		delete(vdbState.preload, dir)
		vdbState.instances[dir] = v
		vdbState.mu.Unlock()
		return v, nil
	}, true)
}

// VDBPreload makes the next "vdb" opened on dir start with the given content.
func VDBPreload(dir string, kvs []VOp) {
	vdbState.mu.Lock()
	vdbState.preload[dir] = kvs
	vdbState.mu.Unlock()
}

// VDBInstance returns the live instance opened on dir.
func VDBInstance(dir string) *VDB {
	vdbState.mu.Lock()
	defer vdbState.mu.Unlock()
	return vdbState.instances[dir]
}

// VDBForget drops the registry entry of dir.
func VDBForget(dir string) {
	vdbState.mu.Lock()
	delete(vdbState.instances, dir)
	vdbState.mu.Unlock()
}

// VDBControl (re)sets the write log and the crash switch: logging on/off, dieAfter = number of
// write units after which the "process is dead" (-1 = never). It returns the log collected so far.
func VDBControl(logging bool, dieAfter int) []VUnit {
	vdbState.mu.Lock()
	defer vdbState.mu.Unlock()
	old := vdbState.log
	vdbState.log = nil
	vdbState.logging = logging
	vdbState.dead = false
	vdbState.dieAfter = dieAfter
	vdbState.image = nil
	return old
}

// VDBCrashImage returns the content of every instance at the crash point (nil if the history ended
// before the crash point was reached: then the final content is the image).
func VDBCrashImage() map[string][]VOp {
	vdbState.mu.Lock()
	defer vdbState.mu.Unlock()
	return vdbState.image
}

// VDBDead reports whether the crash switch has tripped.
func VDBDead() bool {
	vdbState.mu.Lock()
	defer vdbState.mu.Unlock()
	return vdbState.dead
}

// vdbCommit records one unit and applies it, atomically with respect to every other unit of every
// instance (so that the crash image is exactly a prefix of the global write order).
func vdbCommit(u VUnit, apply func()) {
	vdbState.mu.Lock()
	defer vdbState.mu.Unlock()
	if vdbState.dieAfter >= 0 && !vdbState.dead && len(vdbState.log) >= vdbState.dieAfter {
		vdbState.dead = true
		vdbState.image = map[string][]VOp{}
		for dir, v := range vdbState.instances {
			vdbState.image[dir] = v.Dump()
		}
	}
	if vdbState.logging {
		vdbState.log = append(vdbState.log, u)
	}
	apply()
}

// Dump returns the whole content in key order.
func (v *VDB) Dump() []VOp {
	var out []VOp
	it := v.GoMemDB.DB().NewIterator(nil)
	for it.Next() {
		out = append(out, VOp{K: cloneByte(it.Key()), V: cloneByte(it.Value())})
	}
	it.Release()
	return out
}

func (v *VDB) point(del bool, sync bool, k, val []byte) error {
	var err error
	vdbCommit(VUnit{DB: v.Dir, Sync: sync, Ops: []VOp{{Del: del, K: cloneByte(k), V: cloneByte(val)}}}, func() {
		if del {
			_ = v.GoMemDB.Delete(k)
			return
		}
		err = v.GoMemDB.Set(k, val)
	})
	return err
}

// Set logs and applies a point write.
func (v *VDB) Set(k, val []byte) error { return v.point(false, false, k, val) }

// SetSync logs and applies a synchronous point write.
func (v *VDB) SetSync(k, val []byte) error { return v.point(false, true, k, val) }

// Delete logs and applies a point delete.
func (v *VDB) Delete(k []byte) error { return v.point(true, false, k, nil) }

// DeleteSync logs and applies a synchronous point delete.
func (v *VDB) DeleteSync(k []byte) error { return v.point(true, true, k, nil) }

type vBatch struct {
	v    *VDB
	sync bool
	ops  []VOp
	size int
	n    int
}

// NewBatch returns an atomic batch (one write unit).
func (v *VDB) NewBatch(sync bool) Batch { return &vBatch{v: v, sync: sync} }

func (b *vBatch) Set(k, val []byte) {
	b.ops = append(b.ops, VOp{K: cloneByte(k), V: cloneByte(val)})
	b.size += len(k) + len(val)
	b.n += len(val)
}

func (b *vBatch) Delete(k []byte) {
	b.ops = append(b.ops, VOp{Del: true, K: cloneByte(k)})
	b.size += len(k)
	b.n++
}

func (b *vBatch) Write() error {
	if len(b.ops) == 0 {
		return nil
	}
	vdbCommit(VUnit{DB: b.v.Dir, Sync: b.sync, Ops: append([]VOp{}, b.ops...)}, func() {
		for _, op := range b.ops {
			if op.Del {
				_ = b.v.GoMemDB.Delete(op.K)
			} else {
				_ = b.v.GoMemDB.Set(op.K, op.V)
			}
		}
	})
	return nil
}

func (b *vBatch) ValueSize() int            { return b.size }
func (b *vBatch) ValueLen() int             { return b.n }
func (b *vBatch) Reset()                    { b.ops, b.size, b.n = b.ops[:0], 0, 0 }
func (b *vBatch) UpdateWriteSync(sync bool) { b.sync = sync }

// Close keeps the content (a closed in-memory database can be dumped by the harness).
func (v *VDB) Close() {}
