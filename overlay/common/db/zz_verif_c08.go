//go:build verif

package db

// VerifLayers exposes the three layers of a LocalDB and its transaction flag (C08: canonical state;
// C07: building a layered database whose transaction layer is populated).
func (l *LocalDB) VerifLayers() (intx bool, txcache, cache, maindb DB) {
	l.mu.RLock()
	defer l.mu.RUnlock()
	return l.intx, l.txcache, l.cache, l.maindb
}
