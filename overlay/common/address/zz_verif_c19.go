//go:build verif

package address

import (
	"fmt"
	"sort"
	"strings"
)

// VerifC19Reset empties every process-global cache of this package (fresh-process state for C19).
func VerifC19Reset() {
	checkAddressCache.Purge()
	execAddrCache.Purge()
	execPubKeyCache.Purge()
}

// VerifC19Dump renders the validity cache canonically (sorted by address).
func VerifC19Dump() string {
	var l []string
	for _, k := range checkAddressCache.Keys() {
		v, _ := checkAddressCache.Peek(k)
		l = append(l, fmt.Sprintf("%v=%v", k, v))
	}
	sort.Strings(l)
	return strings.Join(l, ";")
}

// VerifC19DriverIDs lists the registered driver ids with their enable heights, sorted by id.
func VerifC19DriverIDs() (ids []int32, enable []int64) {
	for id := range drivers {
		ids = append(ids, id)
	}
	sort.Slice(ids, func(i, j int) bool { return ids[i] < ids[j] })
	for _, id := range ids {
		enable = append(enable, drivers[id].enableHeight)
	}
	return
}
