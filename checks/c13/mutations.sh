#!/bin/bash
cd /verif  # usage: checks/cNN/mutations.sh [number]
m() { echo "=== $1"; shift; tools/mut.sh C13 "$@" 2>&1 | grep -o 'what: \[[^]]*\]\|mutant exit=.*\|pattern matches.*\|HARNESS[^ ]* .*' | sort | uniq -c; }
case "$1" in
1|"") m "M1 procExecAddBlock ranges over the plugin map directly (F-EXEC-001 reverted)" executor/executor.go 'for _, name := range sortedPluginNames\(\) \{\n\t\tplugin := globalPlugins\[name\](?=(?:(?!sortedPluginNames).)*?plugin\.ExecLocal\()' 'for name, plugin := range globalPlugins {' ;;&
2|"") m "M2 procExecDelBlock ranges over the plugin map directly" executor/executor.go 'for _, name := range sortedPluginNames\(\) \{\n\t\tplugin := globalPlugins\[name\](?=(?:(?!sortedPluginNames).)*?plugin\.ExecDelLocal\()' 'for name, plugin := range globalPlugins {' ;;&
3|"") m "M3 DelDupKey returns the keys in the order of its index map" util/exec.go 'return kvs\[0:n\]' 'out := make([]*types.KeyValue, 0, n)\n\tfor _, idx := range dupindex {\n\t\tout = append(out, kvs[idx])\n\t}\n\tcopy(kvs, out)\n\treturn kvs[0:n]' ;;&
4|"") m "M4 GetMerkleRoot collects the sub-roots in arrival order" common/merkle/merkle.go 'childlist\[sub\.index\] = sub\.hash\n\t\}\n\treturn getMerkleRoot\(childlist\)' 'childlist[i] = sub.hash\n\t}\n\treturn getMerkleRoot(childlist)' ;;&
5|"") m "M5 plugin flag record is emitted by the first block a process executes (cache warm-up leaks into the output)" executor/plugin.go 'base\.flag = flag\n\t\}' 'base.flag = flag\n\t\tif flag != 0 {\n\t\t\tkvset = append(kvset, types.FlagKV(flagKey, flag))\n\t\t}\n\t}' ;;&
6|"") m "M6 sortedPluginNames does not sort" executor/plugin.go 'sort\.Strings\(names\)\n\treturn names' '_ = sort.Strings\n\treturn names' ;;&
esac
