// C13 — block execution is deterministic.
// The same generated block is executed on the same prior state (12-block trunk + one block S) of real
// nodes with every local-index plugin on, under every controlled source of variation: iteration order
// of every ranged map of the executor (source seam), worker count of signature verification and of the
// merkle root (source seam), and process history (fresh node versus nodes that executed other blocks,
// connected and rolled back another block sharing a transaction, answered queries, or hold the block's
// transactions in the pool, in every order of up to two such activities). Receipts (EventExecTxList),
// state write set and state root (PreExecBlock), and the local-index write sets of EventAddBlock and
// EventDelBlock must be byte-identical to the first execution.
package main

import (
	"bytes"
	"encoding/binary"
	"encoding/json"
	"fmt"
	"os"
	"os/exec"
	"path/filepath"
	"runtime"
	"strings"
	"sync"
	"sync/atomic"
	"time"

	"github.com/33cn/chain33/common/address"
	clog "github.com/33cn/chain33/common/log"
	"github.com/33cn/chain33/types"
	"github.com/33cn/chain33/util"
	"verif/vnode"
	"verif/vnode/lidx"
	"verif/vnode/treex"
	"verif/vrt"
	"verif/vx"
)

// ---- owned nondeterminism ---------------------------------------------------------------------

var (
	mapVar  int64 // index of the map-order policy (0 = canonical order)
	cpuVar  int64 // worker count answered to the instrumented code (0 = the machine's)
	sizesMu sync.Mutex
	sizes   = map[int]int{} // map sizes seen by the seam while the current block runs -> how often
	allSize = map[int]int{} // the same over the whole run
)

// newBlock forgets the sizes of the previous block (the number of policies is decided per block).
func newBlock() {
	sizesMu.Lock()
	sizes = map[int]int{}
	sizesMu.Unlock()
}

var perms = map[int][][]int{}

func init() {
	for n := 0; n <= 4; n++ {
		perms[n] = treex.Perms(n)
	}
}

// orderFor is the visiting order of a map with n keys under policy v: all n! permutations for
// n <= 4, the n rotations of the sorted and of the reversed key list above.
func orderFor(n int, v int64) []int {
	if n <= 1 || v == 0 {
		return nil
	}
	if n <= 4 {
		p := perms[n]
		return p[int(v)%len(p)]
	}
	r := int(v) % (2 * n)
	out := make([]int, n)
	for i := range out {
		j := (i + r%n) % n
		if r >= n {
			j = n - 1 - j
		}
		out[i] = j
	}
	return out
}

// policiesNeeded is the number of policies that covers every order of every map size seen.
func policiesNeeded() int {
	sizesMu.Lock()
	defer sizesMu.Unlock()
	need := 1
	for n := range sizes {
		k := 2 * n
		if n <= 4 {
			k = len(perms[n])
		}
		if k > need {
			need = k
		}
	}
	return need
}

func installSeams() {
	vrt.MapOrderHook = func(n int) []int {
		sizesMu.Lock()
		sizes[n]++
		allSize[n]++
		sizesMu.Unlock()
		return orderFor(n, atomic.LoadInt64(&mapVar))
	}
	vrt.NumCPUHook = func() int {
		if c := atomic.LoadInt64(&cpuVar); c > 0 {
			return int(c)
		}
		return runtime.NumCPU()
	}
}

func setVar(m, c int64) {
	atomic.StoreInt64(&mapVar, m)
	atomic.StoreInt64(&cpuVar, c)
}

var cpus = []int64{1, 2, 3, 4, 8, 16}

// ---- observation -------------------------------------------------------------------------------

// canonKV writes a key/value list byte-exactly (order kept, nil and empty values told apart).
func canonKV(kvs []*types.KeyValue) string {
	var b bytes.Buffer
	var l [4]byte
	for _, kv := range kvs {
		binary.BigEndian.PutUint32(l[:], uint32(len(kv.Key)))
		b.Write(l[:])
		b.Write(kv.Key)
		if kv.Value == nil {
			b.WriteString("N")
		} else {
			b.WriteString("V")
			binary.BigEndian.PutUint32(l[:], uint32(len(kv.Value)))
			b.Write(l[:])
			b.Write(kv.Value)
		}
	}
	return b.String()
}

func clone(b *types.Block) *types.Block { return types.Clone(b).(*types.Block) }

// localSet sends the real EventAddBlock / EventDelBlock message to the executor module (as
// blockchain/blockstore.go getLocalKV / getDelLocalKV do) and renders the reply.
func localSet(n *vnode.Node, ev int64, d *types.BlockDetail) string {
	msg := n.Client.NewMessage("execs", ev, d)
	if err := n.Client.Send(msg, true); err != nil {
		return "SEND " + err.Error()
	}
	resp, err := n.Client.Wait(msg)
	if err != nil {
		return "WAIT " + err.Error()
	}
	switch x := resp.GetData().(type) {
	case *types.LocalDBSet:
		return "SET " + canonKV(x.KV)
	case error:
		return "ERR " + x.Error()
	default:
		return fmt.Sprintf("REPLY %T", x)
	}
}

// Out is everything one execution of a block puts out.
type Out struct {
	Receipts string // EventExecTxList reply
	Pre      string // PreExecBlock: error text, or header + receipts + prev state hash
	StateKV  string // PreExecBlock: state write set (ordered)
	Root     string // PreExecBlock: state root
	Dropped  int
	Add      string // EventAddBlock reply (ordered local write set)
	Del      string // EventDelBlock reply (ordered local write set)
}

// part names the first differing part.
func (o Out) diff(w Out, withDel bool) string {
	switch {
	case o.Receipts != w.Receipts:
		return "receipts"
	case strings.HasPrefix(o.Pre, "ERR") != strings.HasPrefix(w.Pre, "ERR"):
		return "block-verdict"
	case o.Root != w.Root:
		return "state-root"
	case o.StateKV != w.StateKV:
		return "state-write-set"
	case o.Pre != w.Pre || o.Dropped != w.Dropped:
		return "block-detail"
	case o.Add != w.Add:
		return "local-write-set-of-add"
	case withDel && o.Del != w.Del:
		return "local-write-set-of-del"
	}
	return ""
}

// before executes X (a block of the producer, child of the node's tip P) without connecting it.
func before(n *vnode.Node, P, X *types.Block) (o Out, d *types.BlockDetail) {
	rc, err := util.ExecTx(n.Client, P.StateHash, clone(X))
	if err != nil {
		o.Receipts = "ERR " + err.Error()
	} else {
		o.Receipts = string(types.Encode(rc))
	}
	d, dropped, err := util.PreExecBlock(n.Client, P.StateHash, clone(X), true, false, true)
	if err != nil {
		o.Pre = "ERR " + err.Error()
		return o, nil
	}
	o.Dropped = len(dropped)
	o.Root = string(d.Block.StateHash)
	o.StateKV = canonKV(d.KV)
	h := types.Clone(d).(*types.BlockDetail)
	h.KV = nil
	o.Pre = string(types.Encode(h))
	if err := util.ExecKVSetRollback(n.Client, d.Block.StateHash); err != nil {
		o.Pre += " ROLLBACK " + err.Error()
	}
	o.Add = localSet(n, types.EventAddBlock, d)
	return o, d
}

// after asks for the removal set of the connected block X.
func after(n *vnode.Node, X *types.Block) string {
	d, err := n.Chain.GetBlock(X.Height)
	if err != nil {
		return "NOBLOCK " + err.Error()
	}
	d = types.Clone(d).(*types.BlockDetail)
	d.KV, d.PrevStatusHash = nil, nil // as loaded from the database by the reorganisation
	return localSet(n, types.EventDelBlock, d)
}

// ---- the run -----------------------------------------------------------------------------------

type kase struct {
	Config  string `json:"config"`
	Block   string `json:"block"`
	Part    string `json:"part"` // "seams" or "history"
	Map     int64  `json:"map_order_policy"`
	CPU     int64  `json:"numcpu"`
	History string `json:"history,omitempty"`
}

var (
	r      *vx.Run
	replay *kase
	item   int
	debug  = os.Getenv("C13_DEBUG") != ""
)

// histories: every sequence of up to two prior activities (plus three with the large block H). E = another block executed (not
// connected) on the current tip, Q = local queries (incl. the block's own transactions and
// addresses), M = the block's transactions handed to the pool, R = a block Y that shares a transaction
// with X was connected and then rolled back by the arrival of S (only once; without R the node
// receives S first thing).
func histories() []string {
	acts := "EQMR"
	out := []string{""}
	for _, a := range acts {
		out = append(out, string(a))
	}
	for _, a := range acts {
		for _, b := range acts {
			if a == 'R' && b == 'R' {
				continue
			}
			out = append(out, string(a)+string(b))
		}
	}
	// H = a block with a very large write set (5000 distinct keys) executed (not connected) on the tip
	out = append(out, "H", "HE", "RH")
	return out
}

// ---- a really fresh process ---------------------------------------------------------------------

// freshJob is handed to a child process that does nothing but start a node on the prior state and
// execute the block (no trunk was built in it, no plugin flag loaded, no cache warm).
type freshJob struct {
	MVCC bool
	Snap vnode.Snapshot
	P, X []byte
}

// freshOut is an Out with byte fields (JSON keeps them exact).
type freshOut struct {
	Receipts, Pre, StateKV, Root, Add, Del []byte
	Dropped                                int
	Err                                    string
}

func freshMain(path string) {
	clog.SetLogLevel("crit")
	installSeams()
	setVar(0, 1)
	var out freshOut
	defer func() {
		b, _ := json.Marshal(&out)
		os.WriteFile(path+".out.tmp", b, 0o644)
		os.Rename(path+".out.tmp", path+".out")
	}()
	raw, err := os.ReadFile(path)
	if err != nil {
		out.Err = err.Error()
		return
	}
	var job freshJob
	if err := json.Unmarshal(raw, &job); err != nil {
		out.Err = err.Error()
		return
	}
	var P, X types.Block
	if types.Decode(job.P, &P) != nil || types.Decode(job.X, &X) != nil {
		out.Err = "blocks do not decode"
		return
	}
	n := vnode.New(vnode.Options{Snap: job.Snap, CfgEdit: lidx.CfgEditFor(job.MVCC)})
	if !n.WaitHeight(P.Height, 10*time.Second) {
		out.Err = "node did not come up on the prior state"
		return
	}
	o, _ := before(n, &P, &X)
	if err := n.Deliver(vnode.Broadcast, &X, "peer"); err != nil {
		o.Del = "REFUSED " + err.Error()
	} else {
		o.Del = after(n, &X)
	}
	out = freshOut{Receipts: []byte(o.Receipts), Pre: []byte(o.Pre), StateKV: []byte(o.StateKV), Root: []byte(o.Root), Add: []byte(o.Add), Del: []byte(o.Del), Dropped: o.Dropped}
	n.Close()
}

// freshProcess runs the block in a new process started on the given prior state.
func freshProcess(mvcc bool, snap vnode.Snapshot, P, X *types.Block) (Out, string) {
	dir := filepath.Join(vx.Root(), ".work", "c13")
	os.MkdirAll(dir, 0o755)
	path := filepath.Join(dir, fmt.Sprintf("fresh-%d-%d.json", os.Getpid(), atomic.AddInt64(&freshSeq, 1)))
	b, err := json.Marshal(&freshJob{MVCC: mvcc, Snap: snap, P: types.Encode(P), X: types.Encode(X)})
	if err != nil {
		return Out{}, err.Error()
	}
	if err := os.WriteFile(path, b, 0o644); err != nil {
		return Out{}, err.Error()
	}
	defer os.Remove(path)
	defer os.Remove(path + ".out")
	cmd := exec.Command(os.Args[0])
	cmd.Env = append(os.Environ(), "C13_FRESH="+path, "GOMAXPROCS=2")
	lf, _ := os.Create(filepath.Join(dir, "fresh.log"))
	cmd.Stdout, cmd.Stderr = lf, lf
	err = cmd.Run()
	lf.Close()
	ob, rerr := os.ReadFile(path + ".out")
	if rerr != nil {
		return Out{}, fmt.Sprintf("fresh process gave no result (%v, %v)", err, rerr)
	}
	var fo freshOut
	if err := json.Unmarshal(ob, &fo); err != nil {
		return Out{}, err.Error()
	}
	if fo.Err != "" {
		return Out{}, fo.Err
	}
	return Out{Receipts: string(fo.Receipts), Pre: string(fo.Pre), StateKV: string(fo.StateKV), Root: string(fo.Root), Add: string(fo.Add), Del: string(fo.Del), Dropped: fo.Dropped}, ""
}

var freshSeq int64

func main() {
	if f := os.Getenv("C13_FRESH"); f != "" {
		freshMain(f)
		return
	}
	r = vx.Start("C13", "model_checking")
	clog.SetLogLevel("crit")
	r.QuietStderr()
	r.Rule = "configuration in {mvcc plugin on, off, off with mavl mem-tree} (txindex, addrindex, addrfeeindex, fee, stat always on) x block X from the alphabet (1-3 transactions: coins transfers to known / never-seen / own address, several receivers, failing transfer, none, manage Modify and Apply, groups of two succeeding and failing, mixtures) plus one block of 96 transfers (parallel merkle root) executed on the prior state trunk(12)+S: part 'seams' = on one long-running node every map-order policy (all permutations of maps with <= 4 keys, all rotations of the sorted and reversed key list above; maps: plugin table, executor cache maps, key sets of checkKV/DelDupKey/CheckTxDup) with the worker count cycling through {1,2,3,4,8,16}, plus every worker count under the canonical order; part 'fresh-process' = a new OS process started on a snapshot of the prior state; part 'history' = a fresh node per sequence of <= 2 prior activities from {other block executed, local queries, X's transactions in the pool, block Y sharing a transaction with X connected and rolled back}. Outputs compared byte for byte with the first execution: EventExecTxList receipts, PreExecBlock state write set / state root / header+receipts, EventAddBlock and (after connecting X through the blockchain module) EventDelBlock local write sets. state = (configuration, X, part, variation); distinct = (configuration, X, output hash) classes"
	r.Assume = []string{
		"goroutine interleavings inside verifyTxsSignature / GetMerkleRoot are left to the runtime (their results are a conjunction / collected by index); worker counts are enumerated",
		"the mvcc-on configuration reads state through the local DB while local reads are disabled during Exec (odd but deterministic balances); every block also runs with the plugin off",
		"map sizes are learned from the seam while running; the number of policies grows until every order of every seen size has been used",
	}
	installSeams()
	if raw, ok := r.Replaying(); ok {
		replay = &kase{}
		if err := json.Unmarshal(raw, replay); err != nil {
			fmt.Println("REPLAY-ERROR", err)
			r.Finish()
		}
	} else if r.Fork(8) {
		r.Floors["executions"] = 400
		r.Floors["distinct"] = 30
		r.Floors["map_sizes"] = 4
		r.Floors["histories"] = 15
		r.Finish()
	}
	envOn, err := lidx.NewEnv(lidx.Options{})
	if err != nil {
		fmt.Println("HARNESS-ERROR", err)
		r.Note("harness error: %v", err)
		r.Finish()
	}
	if envOn.MVCCNote != "" {
		r.Note("%s", envOn.MVCCNote)
	}
	r.Extra["mvcc_plugin_exercised"] = envOn.MVCC
	if envOn.MVCC {
		run(envOn, "mvcc-on")
		envOn.P.Close()
		envOff, err := lidx.NewEnv(lidx.Options{NoMVCC: true})
		if err != nil {
			fmt.Println("HARNESS-ERROR", err)
			r.Finish()
		}
		run(envOff, "mvcc-off")
		envOff.P.Close()
		memTree(envOff.MVCC)
	} else {
		run(envOn, "mvcc-off")
		envOn.P.Close()
		memTree(false)
	}
	sizesMu.Lock()
	for n, c := range allSize {
		if n > 1 {
			r.Seen("map_sizes", fmt.Sprint(n))
		}
		r.Count("map_iterations_owned", int64(c))
	}
	sizesMu.Unlock()
	r.Finish()
}

// memTree runs the third configuration: mavl's process-global node cache on (a cache that outlives
// nodes and blocks: process history by construction).
func memTree(bool) {
	env, err := lidx.NewEnv(lidx.Options{NoMVCC: true, Extra: func(s string) string {
		return strings.Replace(s, "[store.sub.mavl]\n", "[store.sub.mavl]\nenableMemTree=true\nenableMemVal=true\ntkCloseCacheLen=100\n", 1)
	}})
	if err != nil {
		fmt.Println("HARNESS-ERROR", err)
		r.Note("harness error: %v", err)
		r.Finish()
	}
	var sub struct {
		EnableMemTree bool `json:"enableMemTree"`
	}
	if raw := env.Cfg.GetSubConfig().Store["mavl"]; raw != nil {
		json.Unmarshal(raw, &sub)
	}
	if !sub.EnableMemTree {
		r.Note("the mem-tree configuration edit did not take; configuration skipped")
		env.P.Close()
		return
	}
	run(env, "mvcc-off+memtree")
	env.P.Close()
}

type world struct {
	historyOnly bool // quick tier: worker counts, new process and histories only
	env         *lidx.Env
	cfgName     string
	S, Y0       *types.Block
	ZT, ZS      *types.Block
	HT, HS      *types.Block // blocks with a very large write set (more than 4096 distinct keys)
	addrs       []string
	fillerY     *types.Transaction
}

func run(env *lidx.Env, cfgName string) {
	setVar(0, 1)
	w := &world{env: env, cfgName: cfgName, historyOnly: strings.Contains(cfgName, "memtree")}
	T := env.Tip()
	var err error
	must := func(what string, err error) {
		if err != nil {
			fmt.Println("HARNESS-ERROR", cfgName, what, err)
			r.Note("harness error: %s %s: %v", cfgName, what, err)
			r.Finish()
		}
	}
	w.Y0, err = env.Make(T, []*types.Transaction{env.Transfer(lidx.G, lidx.D, 30)}, treex.Bits[0])
	must("Y0", err)
	w.ZT, err = env.Make(T, []*types.Transaction{env.Transfer(lidx.A, lidx.E, 9), env.None(lidx.A)}, treex.Bits[0])
	must("Z on trunk", err)
	w.S, err = env.Make(T, []*types.Transaction{env.Transfer(lidx.G, lidx.E, 77), env.Transfer(lidx.A, lidx.D, 78)}, treex.Bits[1])
	must("S", err)
	must("S on producer", env.P.Deliver(vnode.Broadcast, w.S, "producer"))
	w.ZS, err = env.Make(w.S, []*types.Transaction{env.Transfer(lidx.A, lidx.E, 10), env.None(lidx.A)}, treex.Bits[0])
	if err == nil {
		w.HT, err = env.Make(T, []*types.Transaction{env.Vlx(lidx.A, "bulk:5000")}, treex.Bits[0])
	}
	if err == nil {
		w.HS, err = env.Make(w.S, []*types.Transaction{env.Vlx(lidx.A, "bulk:5000")}, treex.Bits[0])
	}
	must("Z on S", err)
	w.addrs = append([]string{}, lidx.Addrs[:]...)
	w.addrs = append(w.addrs, address.ExecAddress("none"), address.ExecAddress("manage"))
	specs := lidx.Alphabet()
	if !r.Quick() {
		specs = lidx.AllBlocks(3) // every multiset of <= 3 transactions over ten kinds
	}
	specs = append(specs, lidx.Spec{Name: "96 x A->D", Txs: func(e *lidx.Env) []*types.Transaction {
		var txs []*types.Transaction
		for i := 0; i < 96; i++ {
			txs = append(txs, e.Transfer(lidx.A, lidx.D, int64(i+1)))
		}
		return txs
	}})
	for _, sp := range specs {
		item++
		if replay != nil {
			if replay.Config != cfgName || replay.Block != sp.Name {
				continue
			}
		} else if !r.Mine(item) {
			continue
		}
		if r.Expired("blocks") {
			return
		}
		block(w, sp)
	}
}

// prior brings a fresh node to the prior state trunk+S by the given history and returns it.
func prior(w *world, X, Y *types.Block, hist string) (*vnode.Node, string) {
	n := w.env.Fresh()
	sDone := false
	deliverS := func() string {
		if sDone {
			return ""
		}
		sDone = true
		if err := n.Deliver(vnode.Broadcast, w.S, "peer"); err != nil {
			return "S refused: " + err.Error()
		}
		return ""
	}
	if !strings.Contains(hist, "R") {
		if e := deliverS(); e != "" {
			return n, e
		}
	}
	for _, a := range hist {
		switch a {
		case 'E':
			z, p := w.ZS, w.S
			if !sDone {
				z, p = w.ZT, w.env.Tip()
			}
			if _, _, err := util.ExecBlock(n.Client, p.StateHash, clone(z), true, false, false); err != nil {
				return n, "activity E failed: " + err.Error()
			}
		case 'H':
			z, p := w.HS, w.S
			if !sDone {
				z, p = w.HT, w.env.Tip()
			}
			if _, _, err := util.ExecBlock(n.Client, p.StateHash, clone(z), true, false, false); err != nil {
				return n, "activity H failed: " + err.Error()
			}
		case 'Q':
			_, _, th := hashes(w.env.Cfg, X)
			lidx.LocalView(n, w.env, lidx.Probe{Addrs: w.addrs, Txs: th, Blocks: [][]byte{X.Hash(w.env.Cfg), w.S.Hash(w.env.Cfg)}, States: [][]byte{X.StateHash}, Manage: []string{lidx.ManageKey}})
		case 'M':
			for _, tx := range X.Txs {
				if tx.GroupCount == 0 {
					n.API.SendTx(types.CloneTx(tx)) // refusals are fine
				}
			}
		case 'R':
			if err := n.Deliver(vnode.Broadcast, Y, "peer"); err != nil {
				return n, "Y refused: " + err.Error()
			}
			if h := n.Chain.GetBlockHeight(); h != Y.Height {
				return n, "Y not connected"
			}
			if e := deliverS(); e != "" {
				return n, e
			}
		}
	}
	if lh, _ := n.Chain.ProcGetLastHeaderMsg(); lh == nil || !bytes.Equal(lh.Hash, w.S.Hash(w.env.Cfg)) {
		return n, "the node did not end on S"
	}
	return n, ""
}

func hashes(cfg *types.Chain33Config, blocks ...*types.Block) (bh, sh, th [][]byte) {
	for _, b := range blocks {
		bh = append(bh, b.Hash(cfg))
		sh = append(sh, b.StateHash)
		for _, tx := range b.Txs {
			th = append(th, tx.Hash())
		}
	}
	return
}

func block(w *world, sp lidx.Spec) {
	env := w.env
	setVar(0, 1)
	newBlock()
	txs := sp.Txs(env)
	big := len(txs) > 3
	X, err := env.Make(w.S, txs, treex.Bits[0])
	if err != nil || len(X.Txs) == 0 {
		r.Note("%s %s: block could not be produced: %v", w.cfgName, sp.Name, err)
		r.Count("blocks_not_producible", 1)
		return
	}
	// Y: shares X's first stand-alone transaction, child of the trunk tip
	ytx := []*types.Transaction{env.Transfer(lidx.G, lidx.D, 31)}
	for _, tx := range X.Txs {
		if tx.GroupCount == 0 {
			ytx = append(ytx, types.CloneTx(tx))
			break
		}
	}
	Y, err := env.Make(env.Tip(), ytx, treex.Bits[0])
	if err != nil {
		r.Note("%s %s: Y could not be produced: %v", w.cfgName, sp.Name, err)
		return
	}
	name := w.cfgName + " X=" + sp.Name
	// ---- first execution: fresh node, canonical order, one worker
	n, e := prior(w, X, Y, "")
	if e != "" {
		r.Note("%s: %s", name, e)
		n.Close()
		n.Forget()
		return
	}
	basePrior := lidx.LocalDump(n)
	priorSnap := n.Snapshot()
	base, _ := before(n, w.S, X)
	if strings.HasPrefix(base.Pre, "ERR") {
		r.Note("%s: first execution refuses the block: %s", name, base.Pre)
		r.Count("blocks_refused_by_first_execution", 1)
	}
	r.Count("executions", 1)
	wantSeams := replay == nil || replay.Part == "seams"
	wantHist := replay == nil || replay.Part == "history"
	check := func(o Out, withDel bool, kc kase, what string) bool {
		r.Count("executions", 1)
		r.Count("transitions", 1)
		part := o.diff(base, withDel)
		if part == "" {
			return true
		}
		fp := fmt.Sprintf("%s-differs:%s", part, kc.Part)
		if kc.Part == "fresh-process" {
			fp += ":new-process-vs-long-running"
		} else if kc.Part == "seams" {
			switch {
			case kc.Map != 0 && kc.CPU == 1:
				fp += ":map-order"
			case kc.Map == 0:
				fp += ":numcpu"
			default:
				fp += ":map-order+numcpu"
			}
		} else if kc.Part == "history" {
			fp += ":after-" + kc.History
		}
		r.Violate(fp, fmt.Sprintf("[%s] %s: %s: the %s differs from the first execution (fresh node, canonical map order, one worker)%s", fp, name, what, part, explain(o, base, part)), kc, nil)
		return false
	}
	if wantSeams {
		// ---- part "seams": one long-running node, all policies x worker counts, X not connected
		type variation struct{ m, c int64 }
		var vars []variation
		for _, c := range cpus {
			vars = append(vars, variation{0, c})
		}
		for v := int64(1); ; v++ {
			if replay != nil {
				vars = []variation{{replay.Map, replay.CPU}}
				break
			}
			need := int64(policiesNeeded())
			limit := int64(r.Pick(128, 2000))
			if big {
				// by design: the large block is there for the worker counts
				need, limit = 7, 7
			}
			if w.historyOnly && r.Quick() {
				// by design: this configuration is about a process-global cache, not about map order
				need, limit = 1, 1
			}
			if v >= need || v >= limit {
				if v < need {
					r.Cap(fmt.Sprintf("map-order policies limited to %d (block %s needs %d)", limit, sp.Name, need))
				}
				break
			}
			// run as we go: the number of policies needed is learned from the maps the run meets
			vv := variation{v, cpus[int(v)%len(cpus)]}
			setVar(vv.m, vv.c)
			o, _ := before(n, w.S, X)
			setVar(0, 1)
			r.Seen("states", fmt.Sprintf("%s seams m=%d c=%d", name, vv.m, vv.c))
			check(o, false, kase{Config: w.cfgName, Block: sp.Name, Part: "seams", Map: vv.m, CPU: vv.c}, fmt.Sprintf("map-order policy %d, %d workers", vv.m, vv.c))
		}
		for _, vv := range vars {
			setVar(vv.m, vv.c)
			o, _ := before(n, w.S, X)
			setVar(0, 1)
			r.Seen("states", fmt.Sprintf("%s seams m=%d c=%d", name, vv.m, vv.c))
			check(o, false, kase{Config: w.cfgName, Block: sp.Name, Part: "seams", Map: vv.m, CPU: vv.c}, fmt.Sprintf("map-order policy %d, %d workers", vv.m, vv.c))
		}
	}
	// connect X through the blockchain module, then the removal set
	if err := n.Deliver(vnode.Broadcast, X, "peer"); err != nil {
		r.Note("%s: the first node refuses X: %v", name, err)
		n.Close()
		n.Forget()
		r.Seen("distinct", name+" refused")
		return
	}
	base.Del = after(n, X)
	baseDump := lidx.LocalDump(n)
	r.Seen("distinct", fmt.Sprintf("%s %s", name, vx.H(base.Receipts, base.Root, base.StateKV, base.Pre, base.Add, base.Del)))
	if debug {
		fmt.Printf("BASE %s: receipts %d bytes, state kv %d bytes, add %d bytes (%s), del %d bytes (%s), pre %q\n", name, len(base.Receipts), len(base.StateKV), len(base.Add), base.Add[:3], len(base.Del), base.Del[:3], clip(base.Pre))
	}
	if wantSeams {
		limit := int64(r.Pick(128, 2000))
		if big {
			limit = 7
		}
		if w.historyOnly && r.Quick() {
			limit = 1
		}
		for v := int64(0); v < int64(policiesNeeded()) && v < limit; v++ {
			if replay != nil && v != replay.Map {
				continue
			}
			c := cpus[int(v)%len(cpus)]
			setVar(v, c)
			o := base
			o.Del = after(n, X)
			setVar(0, 1)
			check(o, true, kase{Config: w.cfgName, Block: sp.Name, Part: "seams", Map: v, CPU: c}, fmt.Sprintf("removal set under map-order policy %d", v))
		}
	}
	n.Close()
	n.Forget()
	// ---- part "fresh-process": a new process that starts on the prior state and executes X first thing
	if replay == nil || replay.Part == "fresh-process" {
		kc := kase{Config: w.cfgName, Block: sp.Name, Part: "fresh-process", Map: 0, CPU: 1}
		o, e := freshProcess(env.MVCC, priorSnap, w.S, X)
		if e != "" {
			r.Note("%s: fresh process failed: %s", name, e)
			r.Count("fresh_processes_failed", 1)
		} else {
			r.Count("fresh_processes", 1)
			r.Seen("states", name+" fresh-process")
			check(o, true, kc, "executed first thing in a new process started on the prior state")
		}
	}
	// ---- part "history": fresh node per history, canonical order
	if wantHist && !big {
		for hi, h := range histories() {
			if h == "" || (replay != nil && replay.History != h) {
				continue
			}
			kc := kase{Config: w.cfgName, Block: sp.Name, Part: "history", Map: 0, CPU: 1, History: h}
			// the connect step runs under a varying policy: the persisted result must not depend on it
			hn, e := prior(w, X, Y, h)
			if e != "" {
				r.Note("%s after %s: %s", name, h, e)
				r.Count("histories_not_reached", 1)
				hn.Close()
				hn.Forget()
				continue
			}
			// the statement is about the same prior state: when the history did not bring the local
			// indexes back to it (rolling back Y left something behind: property C14's subject), the
			// execution is not comparable
			if res := significant(lidx.DiffDump(basePrior, lidx.LocalDump(hn))); len(res) > 0 && Y != w.Y0 {
				// retry with a rolled-back block that shares nothing with X
				hn.Close()
				hn.Forget()
				r.Count("histories_retried_with_unrelated_rolled_back_block", 1)
				hn, e = prior(w, X, w.Y0, h)
				if e != "" {
					r.Note("%s after %s: %s", name, h, e)
					r.Count("histories_not_reached", 1)
					hn.Close()
					hn.Forget()
					continue
				}
			}
			if res := significant(lidx.DiffDump(basePrior, lidx.LocalDump(hn))); len(res) > 0 {
				r.Count("histories_with_other_prior_local_state", 1)
				r.Note("%s after %s: not compared, the history leaves other local indexes than a fresh node has (C14's subject): %s", w.cfgName+" X=<block with a failed transfer>", h, res[0].Family)
				hn.Close()
				hn.Forget()
				continue
			}
			r.Seen("histories", h)
			r.Seen("states", fmt.Sprintf("%s history %s", name, h))
			o, _ := before(hn, w.S, X)
			setVar(int64(hi), cpus[hi%len(cpus)])
			err := hn.Deliver(vnode.Broadcast, X, "peer")
			setVar(0, 1)
			if err != nil {
				r.Violate("refused-after-history:"+h, fmt.Sprintf("[refused-after-history:%s] %s: after history %s the node refuses X (%v) which a fresh node connects", h, name, h, err), kc, nil)
				hn.Close()
				hn.Forget()
				continue
			}
			o.Del = after(hn, X)
			if check(o, true, kc, "after history "+h) {
				// same outputs: the persisted local indexes must be the same too
				if d := lidx.DiffDump(baseDump, lidx.LocalDump(hn)); len(d) > 0 && !strings.Contains(h, "R") {
					r.Violate("persisted-indexes-differ:after-"+h, fmt.Sprintf("[persisted-indexes-differ:after-%s] %s: after history %s and connecting X the local indexes differ from the first node: %s", h, name, h, d[0]), kc, nil)
				}
			}
			hn.Close()
			hn.Forget()
		}
	}
	r.SampleN(6, map[string]interface{}{"config": w.cfgName, "block": sp.Name, "txs": len(X.Txs), "policies": policiesNeeded()})
}

// significant drops the residues that C14 classifies as unobservable (zero counters, mvcc key lists).
func significant(res []lidx.Residue) []lidx.Residue {
	var out []lidx.Residue
	for _, d := range res {
		if d.Zero() || (d.Kind == "extra" && strings.HasPrefix(d.Key, ".-mvcc-.m.versionkl.")) {
			continue
		}
		out = append(out, d)
	}
	return out
}

func clip(s string) string {
	if len(s) > 80 {
		return s[:80] + "..."
	}
	return s
}

// explain renders where two outputs part.
func explain(o, w Out, part string) string {
	a, b := "", ""
	switch part {
	case "receipts":
		a, b = o.Receipts, w.Receipts
	case "state-root":
		return fmt.Sprintf(" (%x vs %x)", o.Root, w.Root)
	case "state-write-set":
		a, b = o.StateKV, w.StateKV
	case "block-verdict":
		return fmt.Sprintf(" (%q vs %q)", clip(o.Pre), clip(w.Pre))
	case "block-detail":
		a, b = o.Pre, w.Pre
		if strings.HasPrefix(a, "ERR") || strings.HasPrefix(b, "ERR") {
			return fmt.Sprintf(" (%q vs %q)", clip(a), clip(b))
		}
	case "local-write-set-of-add":
		a, b = o.Add, w.Add
	case "local-write-set-of-del":
		a, b = o.Del, w.Del
	}
	i := 0
	for i < len(a) && i < len(b) && a[i] == b[i] {
		i++
	}
	lo := i - 20
	if lo < 0 {
		lo = 0
	}
	ha, hb := i+40, i+40
	if ha > len(a) {
		ha = len(a)
	}
	if hb > len(b) {
		hb = len(b)
	}
	return fmt.Sprintf(" (lengths %d vs %d, first difference at byte %d: %q vs %q)", len(a), len(b), i, a[lo:ha], b[lo:hb])
}
