// C36 — message bus delivers each reply to its own request.
// The queue package is source-instrumented (sync, atomic, time, go, channels, select) and run under
// the controlled scheduler: every interleaving of requesters, responders and closers with at most k
// preemptions (plus every select tie-break) is executed on the real queue code.
package main

import (
	"time"
	"encoding/json"
	"fmt"
	"sort"
	"strings"

	clog "github.com/33cn/chain33/common/log"
	"github.com/33cn/chain33/queue"
	"verif/vrt"
	"verif/vx"
)

type obs struct {
	log      []string // per-thread observations, appended in execution order
	bad      []string
	seen     map[string]int // payload -> times a subscriber saw it
	closed   bool           // closer returned
	outcomes map[string]bool
}

type scenario struct {
	name       string
	requesters int
	rounds     int
	topics     int
	closer     string // "client", "queue", "queue2" (two concurrent queue closes), "clientqueue", "none"
	free       bool
	stalled    bool // the subscriber of topic A never takes a message (requests stay parked in its buffer until it is closed)
	slowFirst  bool // the responder answers request r0.0 only after 300 ms; requester 0 waits for it with a 100 ms time-out, gives up and goes on with its next request
}

// pause sleeps in virtual time under the scheduler and in real time in the free-running pass.
func pause(ms int64) {
	if !vrt.SleepFor(ms * 1e6) {
		time.Sleep(time.Duration(ms) * time.Millisecond)
	}
}

func (sc scenario) body(o *obs) func() {
	return func() {
		*o = obs{seen: map[string]int{}, outcomes: map[string]bool{}}
		q := queue.New("c36")
		var rclients []queue.Client
		for t := 0; t < sc.topics; t++ {
			topic := string(rune('A' + t))
			rc := q.Client()
			rc.Sub(topic)
			rclients = append(rclients, rc)
			if sc.stalled && t == 0 {
				continue
			}
			vrt.Go(func() { // responder: a module's receive loop (a daemon: it ends only when its client is closed)
				for {
					msg, ok := vrt.Recv2(rc.Recv())
					if !ok {
						return
					}
					p := fmt.Sprint(msg.Data)
					vrt.Own(func() { o.seen[p]++ })
					if sc.slowFirst && p == "r0.0" {
						pause(300)
					}
					msg.Reply(rc.NewMessage("", msg.Ty, "echo:"+p))
				}
			})
		}
		for i := 0; i < sc.requesters; i++ {
			i := i
			vrt.GoNamed(fmt.Sprintf("req%d", i), func() {
				c := q.Client()
				for k := 0; k < sc.rounds; k++ {
					topic := string(rune('A' + (i+k)%sc.topics))
					payload := fmt.Sprintf("r%d.%d", i, k)
					var wasClosed bool
					vrt.Own(func() { wasClosed = o.closed })
					closedBefore := wasClosed && (sc.closer != "client" || topic == "A")
					msg := c.NewMessage(topic, int64(100+i), payload)
					// a topic whose subscriber is never closed (and the queue stays open) must serve every request
					live := sc.closer == "none" || (sc.closer == "client" && topic != "A")
					err := c.Send(msg, true)
					if err != nil {
						vrt.Own(func() { o.outcomes["send-error"] = true })
						if live {
							vrt.Own(func() {
								o.bad = append(o.bad, fmt.Sprintf("request %s to the live topic %s could not be sent: %v", payload, topic, err))
							})
						}
						continue
					}
					if closedBefore {
						// a send that started after the close returned may only be accepted if the wait then fails
						vrt.Own(func() { o.outcomes["send-accepted-after-close"] = true })
					}
					var resp *queue.Message
					if sc.slowFirst && payload == "r0.0" {
						resp, err = c.WaitTimeout(msg, 100*time.Millisecond)
						if err == queue.ErrQueueTimeout {
							// the caller gives the request up; it may not free it (the responder still holds it)
							vrt.Own(func() { o.outcomes["timed-out"] = true })
							continue
						}
					} else {
						resp, err = c.Wait(msg)
					}
					if err != nil {
						vrt.Own(func() { o.outcomes["wait-error"] = true })
						if live {
							vrt.Own(func() {
								o.bad = append(o.bad, fmt.Sprintf("request %s to the live topic %s was answered with an error: %v", payload, topic, err))
							})
						}
						continue
					}
					if closedBefore {
						vrt.Own(func() {
							o.bad = append(o.bad, fmt.Sprintf("request %s was sent after the close had returned and still got a reply", payload))
						})
					}
					if got := fmt.Sprint(resp.GetData()); got != "echo:"+payload {
						vrt.Own(func() { o.bad = append(o.bad, fmt.Sprintf("request %s received reply %q", payload, got)) })
					}
					vrt.Own(func() { o.outcomes["reply-ok"] = true })
					if sc.free {
						c.FreeMessage(msg, resp)
					}
				}
			})
		}
		switch sc.closer {
		case "client":
			vrt.GoNamed("closer", func() { rclients[0].Close(); vrt.Own(func() { o.closed = true }) })
		case "queue":
			vrt.GoNamed("closer", func() { q.Close(); vrt.Own(func() { o.closed = true }) })
		case "queue2":
			vrt.GoNamed("closer", func() { q.Close(); vrt.Own(func() { o.closed = true }) })
			vrt.GoNamed("closer2", func() { q.Close() })
		case "clientqueue":
			vrt.GoNamed("closer", func() { rclients[0].Close() })
			vrt.GoNamed("closer2", func() { q.Close(); vrt.Own(func() { o.closed = true }) })
		}
	}
}

func (sc scenario) check(o *obs) func(res *vrt.Result) string {
	return func(res *vrt.Result) string {
		if len(res.Panics) > 0 {
			return "panic: " + firstLine(res.Panics[0])
		}
		if res.Deadlock {
			return "blocked forever: " + strings.Join(res.Blocked, "; ")
		}
		if res.Horizon {
			return "" // counted by the explorer; not a verdict
		}
		if len(o.bad) > 0 {
			return o.bad[0]
		}
		var ks []string
		for p, n := range o.seen {
			if n > 1 {
				return fmt.Sprintf("subscriber saw message %s %d times", p, n)
			}
			ks = append(ks, p)
		}
		sort.Strings(ks)
		return ""
	}
}

func firstLine(s string) string {
	if i := strings.Index(s, "\n"); i > 0 {
		return s[:i]
	}
	return s
}

func main() {
	r := vx.Start("C36", "model_checking")
	clog.SetLogLevel("crit")
	queue.DisableLog()
	r.Rule = "controlled-scheduler exploration of the instrumented queue package: scenarios {2 requesters x 2 rounds with message recycling, 1-2 responders on 1-2 topics, a closer: responder client.Close / queue.Close / two concurrent queue.Close / client.Close + queue.Close; a request given up after WaitTimeout whose reply arrives late while its sender's next request is under way}; every interleaving with <= k preemptions and every select tie-break; states = schedule-tree nodes. distinct = (scenario, outcome class) pairs observed"
	r.Assume = []string{"callers follow the FreeMessage contract (free only after the reply was consumed)", "data races below the synchronisation operations are not modelled (cooperative scheduler)", "timeouts do not fire while a thread can run (virtual time)"}
	r.StateCounter = "tree_nodes"
	r.DistinctSet = "outcomes"
	scs := []scenario{
		{"S1-clientclose", 2, 2, 1, "client", true, false, false},
		{"S2-queueclose", 2, 2, 1, "queue", true, false, false},
		{"S3-doubleclose", 1, 1, 1, "queue2", true, false, false},
		{"S4-twotopics", 2, 2, 2, "client", true, false, false},
		{"S5-client+queue", 1, 2, 1, "clientqueue", true, false, false},
		{"S6-noclose", 2, 2, 1, "none", true, false, false},
		{"S7-stalled-subscriber-closed", 2, 2, 2, "client", true, true, false},
		{"S8-timeout-then-next-request", 2, 2, 1, "none", true, false, true},
	}
	bound := r.Pick(2, 3)
	mk := func(sc scenario) *vx.Sched {
		o := &obs{}
		chk := sc.check(o)
		return &vx.Sched{Run: r, Name: sc.name, Body: sc.body(o), MaxPreempt: bound, MaxSteps: 5000,
			Check: func(res *vrt.Result) string {
				w := chk(res)
				for k := range o.outcomes {
					r.Seen("outcomes", sc.name+"/"+k)
				}
				return w
			},
			FP: func(what string) string { return sc.name + ":" + vx.Norm(what, 50) }}
	}
	if raw, ok := r.Replaying(); ok {
		var c struct {
			Harness string
			Choices []int
		}
		json.Unmarshal(raw, &c)
		for _, sc := range scs {
			if sc.name == c.Harness {
				w, res := mk(sc).ReplaySched(c.Choices)
				for _, l := range res.Trace {
					fmt.Println("  ", l)
				}
				if w != "" {
					fmt.Println("replay: FAIL", w)
					r.Violate("replay", w, c, nil)
				} else {
					fmt.Println("replay: ok")
				}
			}
		}
		r.Finish()
	}
	if r.Fork(16) {
		r.Floors["outcomes"] = 8
		r.Finish()
	}
	for _, sc := range scs {
		mk(sc).Explore()
	}
	r.Finish()
}
