// C37 — wallet secrets decrypt correctly across formats and password changes.
//
// Part 1 (flat, exhaustive over a small domain): passwords of byte length {1,8,31,32,33,64} (two
// contents each) x private keys of every length a registered crypto driver produces (several
// contents) x IVs {zeros, ones, the legacy IV key[:16], a counter}: CBCEncrypterPrivkey /
// CBCDecrypterPrivkey round-trip, and a blob built with the legacy rule (IV = key[:16], no IV
// prefix) still decrypts. The same for AesgcmEncrypter / AesgcmDecrypter over every mnemonic
// length the wallet accepts (12..24 words, English and Chinese) and nonces {zeros, ones, the
// legacy nonce key[:12], a counter}; legacy blob = Seal with nonce key[:12], no prefix.
// IV / nonce bytes are owned by assigning crypto/rand.Reader (an exported variable) for the
// duration of each call; no source instrumentation is needed for that.
//
// Part 2 (vx.Seq): all histories of {SetPasswd(old,new) over a pool of three valid passwords and
// two invalid new ones, Lock, Unlock(p), Restart} on a real wallet.Wallet (memdb) with a saved
// seed and three imported keys, for a secp256k1 wallet (3 x 32-byte keys) and an ed25519 wallet
// (32-, 64-, 64-byte keys), starting from new-format and from legacy-format stored blobs. After
// every step the seed and every key are decrypted under the wallet's current password (the last
// one a SetPasswd call accepted), directly from the store and through Unlock + GetSeed +
// ProcDumpPrivkey, and compared with the originals.
package main

import (
	"bytes"
	"crypto/aes"
	"crypto/cipher"
	crand "crypto/rand"
	"crypto/sha256"
	"encoding/hex"
	"encoding/json"
	"fmt"
	"io"
	"os"
	"sort"
	"strings"

	"github.com/33cn/chain33/client/mocks"
	"github.com/33cn/chain33/common"
	"github.com/33cn/chain33/common/crypto"
	clog "github.com/33cn/chain33/common/log"
	"github.com/33cn/chain33/queue"
	_ "github.com/33cn/chain33/system/address"
	_ "github.com/33cn/chain33/system/crypto/init"
	"github.com/33cn/chain33/types"
	"github.com/33cn/chain33/wallet"
	bip39 "github.com/33cn/chain33/wallet/bipwallet/go-bip39"
	wcom "github.com/33cn/chain33/wallet/common"
	"github.com/stretchr/testify/mock"
	"verif/vx"
)

// ---------- owned randomness ----------

type patReader struct {
	pat []byte
	n   int
}

func (p *patReader) Read(b []byte) (int, error) {
	for i := range b {
		b[i] = p.pat[p.n%len(p.pat)]
		p.n++
	}
	return len(b), nil
}

// ctrReader is a deterministic stream (sha256 of a counter), reset per wallet instance.
type ctrReader struct {
	ctr uint64
	buf []byte
}

func (c *ctrReader) Read(b []byte) (int, error) {
	for i := range b {
		if len(c.buf) == 0 {
			h := sha256.Sum256([]byte(fmt.Sprintf("c37-%d", c.ctr)))
			c.ctr++
			c.buf = h[:]
		}
		b[i] = c.buf[0]
		c.buf = c.buf[1:]
	}
	return len(b), nil
}

var sysRand = crand.Reader

func withRand(r io.Reader, f func()) {
	crand.Reader = r
	defer func() { crand.Reader = sysRand }()
	f()
}

// ---------- legacy formats, written from the decrypters' fallback rule ----------

func deriveKey(password []byte) []byte {
	key := make([]byte, 32)
	copy(key, password) // zero padded, truncated to 32
	return key
}

func legacyCBC(password, priv []byte) []byte {
	key := deriveKey(password)
	block, _ := aes.NewCipher(key)
	out := make([]byte, len(priv))
	cipher.NewCBCEncrypter(block, key[:block.BlockSize()]).CryptBlocks(out, priv)
	return out
}

func legacyGCM(password, seed []byte) []byte {
	key := deriveKey(password)
	block, _ := aes.NewCipher(key)
	g, _ := cipher.NewGCM(block)
	return g.Seal(nil, key[:12], seed, nil)
}

// ---------- part 1 ----------

var allPwLens bool // thorough tier: every password length 1..66

func passwords() [][]byte {
	var out [][]byte
	lens := []int{1, 8, 31, 32, 33, 64}
	if allPwLens {
		lens = lens[:0]
		for n := 1; n <= 66; n++ {
			lens = append(lens, n)
		}
	}
	for _, n := range lens {
		a := make([]byte, n)
		b := make([]byte, n)
		for i := range a {
			a[i] = "a1B2c3D4e5"[i%10]
			b[i] = byte(0x80 + (i*7)%0x7f) // not UTF-8, high bit set
		}
		out = append(out, a, b)
	}
	return out
}

func lenClass(n int) string {
	switch {
	case n < 32:
		return "<32"
	case n == 32:
		return "=32"
	}
	return ">32"
}

type flatCase struct {
	Kind   string `json:"kind"` // cbc-new cbc-legacy gcm-new gcm-legacy
	PwHex  string `json:"password_hex"`
	Data   string `json:"plaintext_hex"`
	IVName string `json:"iv"`
}

func ivFor(name string, n int, password []byte) []byte {
	switch name {
	case "zeros":
		return make([]byte, n)
	case "ones":
		return bytes.Repeat([]byte{0xff}, n)
	case "legacy":
		return deriveKey(password)[:n]
	}
	b := make([]byte, n)
	for i := range b {
		b[i] = byte(i + 1)
	}
	return b
}

// ivOwned counts encryptions whose IV/nonce prefix is the one the harness chose (vacuity guard for the seam).
var ivOwned int64

// runFlat executes one flat case; "" = ok, else (class, text).
func runFlat(c flatCase) (string, string) {
	pw, _ := hex.DecodeString(c.PwHex)
	data, _ := hex.DecodeString(c.Data)
	cls := fmt.Sprintf("%s:pwlen%s:len%d", c.Kind, lenClass(len(pw)), len(data))
	var got []byte
	var err error
	p := vx.Catch(func() {
		switch c.Kind {
		case "cbc-new":
			var enc []byte
			withRand(&patReader{pat: ivFor(c.IVName, 16, pw)}, func() { enc = wcom.CBCEncrypterPrivkey(pw, data) })
			if enc == nil {
				err = fmt.Errorf("encrypter returned nil")
				return
			}
			if len(enc) >= 16 && bytes.Equal(enc[:16], ivFor(c.IVName, 16, pw)) {
				ivOwned++
			}
			got = wcom.CBCDecrypterPrivkey(pw, enc)
		case "cbc-legacy":
			got = wcom.CBCDecrypterPrivkey(pw, legacyCBC(pw, data))
		case "gcm-new":
			var enc []byte
			withRand(&patReader{pat: ivFor(c.IVName, 12, pw)}, func() { enc, err = wallet.AesgcmEncrypter(pw, data) })
			if err != nil {
				return
			}
			if len(enc) >= 12 && bytes.Equal(enc[:12], ivFor(c.IVName, 12, pw)) {
				ivOwned++
			}
			got, err = wallet.AesgcmDecrypter(pw, enc)
		case "gcm-legacy":
			got, err = wallet.AesgcmDecrypter(pw, legacyGCM(pw, data))
		}
	})
	switch {
	case p != "":
		return cls + ":panic", fmt.Sprintf("%s with password of %d bytes, plaintext of %d bytes, iv %s: %s", c.Kind, len(pw), len(data), c.IVName, p)
	case err != nil:
		return cls + ":error", fmt.Sprintf("%s with password of %d bytes, plaintext of %d bytes, iv %s: %v", c.Kind, len(pw), len(data), c.IVName, err)
	case !bytes.Equal(got, data):
		return cls + ":wrong-plaintext", fmt.Sprintf("%s with password of %d bytes, plaintext of %d bytes, iv %s: decrypts to %d bytes that differ from the original", c.Kind, len(pw), len(data), c.IVName, len(got))
	}
	return "", ""
}

// keyLengths asks every registered driver for a fresh key and returns the distinct byte lengths.
func keyLengths(r *vx.Run) []int {
	names, _ := crypto.GetCryptoList()
	sort.Strings(names)
	set := map[int]bool{}
	var desc []string
	for _, n := range names {
		c, err := crypto.Load(n, -1)
		if err != nil || c == nil {
			continue
		}
		var l int
		if p := vx.Catch(func() {
			k, err := c.GenKey()
			if err == nil && k != nil {
				l = len(k.Bytes())
			}
		}); p != "" || l == 0 {
			continue
		}
		set[l] = true
		desc = append(desc, fmt.Sprintf("%s=%d", n, l))
	}
	set[32] = true // ed25519 also accepts 32-byte seeds as private keys
	var out []int
	for l := range set {
		out = append(out, l)
	}
	sort.Ints(out)
	r.Note("private key lengths by driver: %s", strings.Join(desc, " "))
	return out
}

func keyContents(n int) [][]byte {
	mk := func(f func(i int) byte) []byte {
		b := make([]byte, n)
		for i := range b {
			b[i] = f(i)
		}
		return b
	}
	return [][]byte{
		mk(func(i int) byte { return 0 }),
		mk(func(i int) byte { return 0xff }),
		mk(func(i int) byte { return byte(i*13 + 1) }),
		mk(func(i int) byte { return "a1B2c3D4e5"[i%10] }), // equals the start of an ASCII password / its key
	}
}

// mnemonics of every size bip39 defines, both word lists; kept if the wallet's own check accepts them.
func seeds(r *vx.Run) []string {
	var out []string
	var desc []string
	for lang := int32(0); lang <= 1; lang++ {
		for bits := 128; bits <= 256; bits += 32 {
			ent := make([]byte, bits/8)
			for i := range ent {
				ent[i] = byte(i*31 + bits + int(lang))
			}
			m, err := bip39.NewMnemonic(ent, lang)
			if err != nil {
				continue
			}
			words := len(strings.Fields(m))
			ok, _ := wallet.VerifySeed(m, types.SECP256K1, 0x80003333)
			if !ok || words < wallet.SaveSeedLong {
				continue
			}
			out = append(out, m)
			desc = append(desc, fmt.Sprintf("lang%d/%dwords/%dbytes", lang, words, len(m)))
		}
	}
	r.Note("seeds accepted by the wallet: %s", strings.Join(desc, " "))
	return out
}

func flat(r *vx.Run) {
	klens := keyLengths(r)
	sds := seeds(r)
	ivs := []string{"zeros", "ones", "legacy", "counter"}
	do := func(c flatCase) {
		r.Count("evaluations", 1)
		cls, what := runFlat(c)
		pw, _ := hex.DecodeString(c.PwHex)
		r.Seen("distinct", fmt.Sprintf("%s/pw%d/len%d/iv-%s", c.Kind, len(pw), len(c.Data)/2, c.IVName))
		r.SampleN(4, c)
		if cls != "" {
			cc := c
			r.Violate("flat:"+cls, what, map[string]interface{}{"flat": cc}, func() string { _, w := runFlat(cc); return w })
		}
	}
	for _, pw := range passwords() {
		ph := hex.EncodeToString(pw)
		for _, kl := range klens {
			for _, k := range keyContents(kl) {
				kh := hex.EncodeToString(k)
				for _, iv := range ivs {
					do(flatCase{"cbc-new", ph, kh, iv})
				}
				do(flatCase{"cbc-legacy", ph, kh, "-"})
			}
		}
		for _, s := range sds {
			sh := hex.EncodeToString([]byte(s))
			for _, iv := range ivs {
				do(flatCase{"gcm-new", ph, sh, iv})
			}
			do(flatCase{"gcm-legacy", ph, sh, "-"})
		}
	}
	r.Count("iv_owned", ivOwned)
	r.Extra["key_lengths"] = klens
	r.Extra["seed_count"] = len(sds)
}

// ---------- part 2: wallet histories ----------

var pool = []string{"abcd1234", strings.Repeat("Z9", 15), "пароль12ab"} // 8 bytes (min), 30 bytes (max), non-ASCII letters
var badNew = []string{strings.Repeat("a1", 15) + "x", "onlyletters"}      // 31 bytes; no digit

type wop struct {
	kind     string
	old, new string
}

func (o wop) name() string {
	pn := func(p string) string {
		for i, q := range pool {
			if p == q {
				return fmt.Sprintf("p%d", i)
			}
		}
		for i, q := range badNew {
			if p == q {
				return fmt.Sprintf("bad%d", i)
			}
		}
		return p
	}
	switch o.kind {
	case "SetPasswd":
		return "SetPasswd(" + pn(o.old) + "->" + pn(o.new) + ")"
	case "Unlock":
		return "Unlock(" + pn(o.old) + ")"
	}
	return o.kind
}

func walletOps(withDerive bool) []wop {
	var ops []wop
	for _, o := range pool {
		for _, n := range pool {
			ops = append(ops, wop{"SetPasswd", o, n})
		}
		for _, n := range badNew {
			ops = append(ops, wop{"SetPasswd", o, n})
		}
	}
	ops = append(ops, wop{kind: "Lock"})
	for _, p := range pool {
		ops = append(ops, wop{"Unlock", p, ""})
	}
	ops = append(ops, wop{kind: "Restart"})
	ops = append(ops, wop{kind: "ImportExtra"}) // a key imported under whatever password is current then
	if withDerive {
		ops = append(ops, wop{kind: "NewAccount"}) // a key derived from the seed, encrypted under the password in memory (bip32: ~20 ms each)
	}
	return ops
}

type wkey struct {
	addr string
	priv []byte
}

type wsys struct {
	cfg   *types.Chain33Config
	w     *wallet.Wallet
	api   *mocks.QueueProtocolAPI
	cur   string
	seed  string
	keys  []wkey
	canon string
	r     *vx.Run
	bad   string // construction failure (harness error)
}

// stubAPI answers the two node calls ProcImportPrivKey / ProcCreateNewAccount make to look up the
// balance of the new address (empty ledger).
func stubAPI(cfg *types.Chain33Config) *mocks.QueueProtocolAPI {
	api := &mocks.QueueProtocolAPI{}
	api.On("GetConfig").Return(cfg)
	api.On("GetLastHeader").Return(&types.Header{Height: 1, StateHash: []byte("c37")}, nil)
	api.On("GetTransactionByAddr", mock.Anything).Return(nil, types.ErrNotFound) // the import hook's background rescan: no history
	api.On("StoreGet", mock.Anything).Return(func(g *types.StoreGet) *types.StoreReplyValue {
		return &types.StoreReplyValue{Values: make([][]byte, len(g.Keys))}
	}, nil)
	return api
}

func (s *wsys) start(w *wallet.Wallet) {
	w.VerifC37SetAPI(s.api)
	s.w = w
}

func walletCfg(sign string) *types.Chain33Config {
	str := types.GetDefaultCfgstring()
	old := "[wallet]\nminFee=100000\ndriver=\"leveldb\"\ndbPath=\"wallet\"\ndbCache=16\nsignType=\"secp256k1\""
	if !strings.Contains(str, old) {
		fmt.Println("HARNESS-ERROR default config has no [wallet] section of the expected shape")
		os.Exit(2)
	}
	str = strings.Replace(str, old, "[wallet]\nminFee=100000\ndriver=\"memdb\"\ndbPath=\"c37wallet\"\ndbCache=16\nsignType=\""+sign+"\"", 1)
	return types.NewChain33Config(str)
}

var theSeed string
var apis = map[*types.Chain33Config]*mocks.QueueProtocolAPI{}

func newWallet(r *vx.Run, cfg *types.Chain33Config, keys [][]byte, legacy bool) *wsys {
	crand.Reader = &ctrReader{}
	s := &wsys{cfg: cfg, r: r, cur: pool[0], seed: theSeed, api: apis[cfg]}
	s.start(wallet.New(cfg))
	if ok, err := s.w.SaveSeed(pool[0], s.seed); !ok || err != nil {
		s.bad = fmt.Sprint("SaveSeed: ", err)
		return s
	}
	if err := s.w.ProcWalletUnLock(&types.WalletUnLock{Passwd: pool[0]}); err != nil {
		s.bad = fmt.Sprint("initial unlock: ", err)
		return s
	}
	for i, k := range keys {
		acc, err := s.w.ProcImportPrivKey(&types.ReqWalletImportPrivkey{Privkey: common.ToHex(k), Label: fmt.Sprintf("k%d", i)})
		if err != nil {
			s.bad = fmt.Sprintf("import key %d (%d bytes): %v", i, len(k), err)
			return s
		}
		s.keys = append(s.keys, wkey{acc.Acc.Addr, k})
	}
	if legacy {
		// a wallet written before the random-IV formats: same secrets, stored with the legacy rule
		for _, k := range s.keys {
			st, err := s.w.GetAccountByAddr(k.addr)
			if err != nil {
				s.bad = fmt.Sprint("GetAccountByAddr: ", err)
				return s
			}
			st.Privkey = common.ToHex(legacyCBC([]byte(pool[0]), k.priv))
			if err := s.w.SetWalletAccount(true, k.addr, st); err != nil {
				s.bad = fmt.Sprint("SetWalletAccount: ", err)
				return s
			}
		}
		if err := s.w.GetDBStore().SetSync(wallet.WalletSeed, legacyGCM([]byte(pool[0]), []byte(s.seed))); err != nil {
			s.bad = fmt.Sprint("store legacy seed: ", err)
			return s
		}
	}
	s.snap()
	return s
}

func (s *wsys) close() {
	if s.w != nil {
		vx.Catch(func() { s.w.GetDBStore().Close() })
	}
}

// which pool passwords decrypt which stored secret (property-relevant state)
func (s *wsys) snap() {
	var sb strings.Builder
	fmt.Fprintf(&sb, "cur=%s mem=%q locked=%v enc=%d", pname(s.cur), s.w.Password, s.w.IsWalletLocked(), s.w.EncryptFlag)
	db := s.w.GetDBStore()
	blob, _ := db.Get(wallet.WalletSeed)
	fmt.Fprintf(&sb, " seed[len%d:", len(blob))
	for i, p := range pool {
		if g, err := wallet.GetSeed(db, p); err == nil && g == s.seed {
			fmt.Fprintf(&sb, "p%d", i)
		}
	}
	sb.WriteString("]")
	for _, k := range s.keys {
		st, err := s.w.GetAccountByAddr(k.addr)
		if err != nil {
			sb.WriteString(" key[missing]")
			continue
		}
		b, _ := common.FromHex(st.Privkey)
		fmt.Fprintf(&sb, " key[len%d:", len(b))
		for i, p := range pool {
			if bytes.Equal(wcom.CBCDecrypterPrivkey([]byte(p), b), k.priv) {
				fmt.Fprintf(&sb, "p%d", i)
			}
		}
		sb.WriteString("]")
	}
	s.canon = sb.String()
}

func pname(p string) string {
	for i, q := range pool {
		if p == q {
			return fmt.Sprintf("p%d", i)
		}
	}
	return "?"
}

func (s *wsys) apply(o wop) string {
	if s.bad != "" {
		return "harness: " + s.bad
	}
	var err error
	switch o.kind {
	case "SetPasswd":
		rel := "old=current"
		if o.old != s.cur {
			rel = "old≠current"
		}
		err = s.w.ProcWalletSetPasswd(&types.ReqWalletSetPasswd{OldPass: o.old, NewPass: o.new})
		res := "refused"
		if err == nil {
			res = "changed"
			s.cur = o.new // the wallet accepted the change: this is its current password now
		}
		s.r.Seen("outcomes", fmt.Sprintf("SetPasswd:%s:%s:%v:locked=%v:mem=%v", rel, res, err, s.w.IsWalletLocked(), s.w.Password != ""))
	case "Lock":
		err = s.w.ProcWalletLock()
		s.r.Seen("outcomes", fmt.Sprintf("Lock:%v", err))
	case "Unlock":
		err = s.w.ProcWalletUnLock(&types.WalletUnLock{Passwd: o.old})
		s.r.Seen("outcomes", fmt.Sprintf("Unlock:%v:current=%v", err, o.old == s.cur))
	case "ImportExtra":
		k := make([]byte, 32)
		for i := range k {
			k[i] = byte(i)*5 + 0x41
		}
		var acc *types.WalletAccount
		acc, err = s.w.ProcImportPrivKey(&types.ReqWalletImportPrivkey{Privkey: common.ToHex(k), Label: "extra"})
		if err == nil {
			s.keys = append(s.keys, wkey{acc.Acc.Addr, k})
		}
		s.r.Seen("outcomes", fmt.Sprintf("ImportExtra:%v", err))
	case "NewAccount":
		var acc *types.WalletAccount
		acc, err = s.w.ProcCreateNewAccount(&types.ReqNewAccount{Label: "derived"})
		if err == nil {
			// its original value is what the wallet hands out right after creating it
			h, derr := s.w.ProcDumpPrivkey(acc.Acc.Addr)
			b, _ := common.FromHex(h)
			if derr != nil || len(b) == 0 {
				return fmt.Sprintf("dumpprivkey-after-unlock-fails | ProcDumpPrivkey of the account just created: %v", derr)
			}
			s.keys = append(s.keys, wkey{acc.Acc.Addr, b})
		}
		s.r.Seen("outcomes", fmt.Sprintf("NewAccount:%v", err))
	case "Restart":
		s.start(wallet.VerifC37Restart(s.cfg, s.w))
		s.r.Seen("outcomes", "Restart")
	}
	s.snap()
	return ""
}

// check decrypts everything under the current password. It unlocks the wallet, which is fine:
// the instance is discarded afterwards (successors are built by replay), and canon was taken before.
func (s *wsys) check() string {
	if s.bad != "" {
		return "harness: " + s.bad
	}
	db := s.w.GetDBStore()
	g, err := wallet.GetSeed(db, s.cur)
	if err != nil {
		return "seed-not-decryptable-under-current-password | stored seed does not decrypt under the current password: " + err.Error()
	}
	if g != s.seed {
		return "seed-decrypts-to-other-value | stored seed decrypts to a different value"
	}
	for i, k := range s.keys {
		st, err := s.w.GetAccountByAddr(k.addr)
		if err != nil {
			return fmt.Sprintf("key-record-lost | account %d: %v", i, err)
		}
		b, _ := common.FromHex(st.Privkey)
		if d := wcom.CBCDecrypterPrivkey([]byte(s.cur), b); !bytes.Equal(d, k.priv) {
			return fmt.Sprintf("key-not-decryptable-under-current-password | stored key %d (%d bytes, blob %d bytes) does not decrypt to the original under the current password", i, len(k.priv), len(b))
		}
	}
	if err := s.w.ProcWalletUnLock(&types.WalletUnLock{Passwd: s.cur}); err != nil {
		return "unlock-with-current-password-refused | ProcWalletUnLock(current password): " + err.Error()
	}
	g, err = s.w.GetSeed(s.cur)
	if err != nil || g != s.seed {
		return fmt.Sprintf("getseed-after-unlock-wrong | Wallet.GetSeed(current) after unlock: err=%v equal=%v", err, g == s.seed)
	}
	for i, k := range s.keys {
		d, err := s.w.ProcDumpPrivkey(k.addr)
		if err != nil {
			return fmt.Sprintf("dumpprivkey-after-unlock-fails | ProcDumpPrivkey(key %d): %v", i, err)
		}
		if d != common.ToHex(k.priv) {
			return fmt.Sprintf("dumpprivkey-after-unlock-wrong | ProcDumpPrivkey(key %d) differs from the imported key", i)
		}
	}
	return ""
}

type wvariant struct {
	name   string
	sign   string
	legacy bool
}

func testKeys(sign string) [][]byte {
	mk := func(n int, seed byte) []byte {
		b := make([]byte, n)
		for i := range b {
			b[i] = byte(i)*7 + seed
		}
		return b
	}
	if sign == "ed25519" {
		return [][]byte{mk(32, 3), mk(64, 5), mk(64, 9)}
	}
	return [][]byte{mk(32, 3), mk(32, 5), mk(32, 9)}
}

func walletHarness(r *vx.Run, v wvariant, cfg *types.Chain33Config, depth int) *vx.Seq[*wsys] {
	ops := walletOps(!r.Quick() || v.name == "secp256k1-new")
	keys := testKeys(v.sign)
	q := &vx.Seq[*wsys]{Run: r, Name: v.name, NumOps: len(ops), MaxDepth: depth, Workers: 1}
	q.New = func() *wsys { return newWallet(r, cfg, keys, v.legacy) }
	q.OpName = func(i int) string { return ops[i].name() }
	q.Apply = func(s *wsys, i int) string { return s.apply(ops[i]) }
	q.Check = func(s *wsys) string { return s.check() }
	q.Canon = func(s *wsys) string { return s.canon }
	q.Close = func(s *wsys) { s.close() }
	q.FP = func(what string, h []int) string {
		if i := strings.Index(what, " | "); i > 0 {
			last := ops[h[len(h)-1]].kind
			return "wallet:" + what[:i] + ":after-" + last
		}
		return "wallet:" + vx.Norm(what, 60)
	}
	return q
}

func main() {
	clog.SetLogLevel("crit")
	queue.DisableLog()
	r := vx.Start("C37", "model_checking")
	r.Rule = "part 1: flat product of passwords (byte lengths 1,8,31,32,33,64 in the quick tier, every length 1..66 in the thorough tier; ASCII and non-UTF8 contents) x private keys of every length a registered crypto driver produces (4 contents) x IV {zeros, ones, legacy IV, counter} for CBC new format + the legacy-rule blob; x every accepted mnemonic (12..24 words, 2 languages) x nonce {zeros, ones, legacy nonce, counter} for GCM new format + the legacy-rule blob. part 2: BFS over all histories of SetPasswd(old,new) (3 valid passwords incl. 8/30 bytes and non-ASCII letters, 2 invalid new), Lock, Unlock(p), Restart on a real wallet.Wallet with a saved seed and 3 imported keys; variants secp256k1/ed25519 x stored blobs in new/legacy format; state = (current password, password in memory, lock flag, which pool passwords decrypt each stored secret, blob lengths). distinct = (function, password length, plaintext length, iv) classes of part 1"
	r.Assume = []string{
		"the wallet's current password is the NewPass of the last ProcWalletSetPasswd call that returned nil (initially the SaveSeed password)",
		"crypto/aes, crypto/cipher are correct; legacy blobs are built from the rule in the decrypters' fallback (IV = key[:16] / nonce = key[:12], no prefix, same key derivation)",
		"IV/nonce bytes are owned through the exported variable crypto/rand.Reader; password-hash salts come from the same deterministic stream",
		"blockchain and store modules are mocked on the queue (empty ledger); they only serve ProcImportPrivKey's balance lookup",
	}
	bits := make([]byte, 20)
	for i := range bits {
		bits[i] = byte(i*11 + 7)
	}
	theSeed, _ = bip39.NewMnemonic(bits, 0)

	variants := []wvariant{{"secp256k1-new", "secp256k1", false}, {"secp256k1-legacy", "secp256k1", true}, {"ed25519-new", "ed25519", false}, {"ed25519-legacy", "ed25519", true}}
	cfgs := map[string]*types.Chain33Config{}
	getCfg := func(sign string) *types.Chain33Config {
		if cfgs[sign] == nil {
			cfgs[sign] = walletCfg(sign)
			apis[cfgs[sign]] = stubAPI(cfgs[sign])
		}
		return cfgs[sign]
	}
	depth := r.Pick(5, 8)
	if raw, ok := r.Replaying(); ok {
		var c struct {
			Flat    *flatCase
			Harness string
			Hist    []int
		}
		json.Unmarshal(raw, &c)
		f := ""
		if c.Flat != nil {
			_, f = runFlat(*c.Flat)
		} else {
			for _, v := range variants {
				if v.name == c.Harness {
					f = walletHarness(r, v, getCfg(v.sign), len(c.Hist)).ReplayHist(c.Hist)
				}
			}
		}
		if f != "" {
			fmt.Println("replay: FAIL", f)
			r.Violate("replay", f, c, nil)
		} else {
			fmt.Println("replay: ok")
		}
		r.Finish()
	}
	allPwLens = !r.Quick()
	flat(r)
	for _, v := range variants {
		walletHarness(r, v, getCfg(v.sign), depth).Explore()
	}
	crand.Reader = sysRand
	r.Floors["distinct"] = 100
	r.Floors["states"] = 40
	r.Floors["outcomes"] = 8
	r.Floors["iv_owned"] = 100
	r.Finish()
}
