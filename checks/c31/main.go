// C31 — blacklisted accounts cannot transact.
//
// One real node (util/testnode: queue, store, executor, blockchain, solo consensus, mempool, wallet)
// is started on a configuration written the way the repository supports it: the blacklist under
// [blacklist] accountBlacklist = {one base58 address, one 0x address}, its activation height under
// [fork.system] ForkAccountBlacklist = H. From one funded state every generated transaction shape is
// executed depth-1 at the heights H-1, H, H+1 through the real EventExecTxList, offered to the real
// BaseClient.AddTxsToBlock at the same heights, and sent to the real mempool (EventTx,
// EventAddDelayTx, and embedded in a block as a none/CommitDelayTx payload) while the chain tip
// moves from below H to above it.
//
// Shapes: the blacklisted account as sender, as recipient in every spelling the address drivers
// accept (0x/0X/no prefix, lower / upper / EIP-55 / alternating hex case), as EVM contract target
// and as 20-byte EVM transfer recipient (exec names evm, user.evm.x), as inner recipient / sender of
// a proxied transaction (eth-signed evm envelope to the proxy address carrying a coins transfer),
// as payload of a delayed transaction; each as a single transaction and as a group member at every
// position of groups of 2 and 3. Every shape has a control twin that differs only in the address.
//
// Oracle: (a) at heights >= H no receipt of a transaction touching a blacklisted account is ExecOk;
// (b) AddTxsToBlock leaves such items out at heights >= H; (c) the mempool answers an error for them
// at every tip; a blacklisted delayed transaction is refused by EventAddDelayTx and, when embedded
// in a block, is never executed. Controls (same shape, other address) and the blacklisted shapes
// below H must succeed, otherwise the shape is reported as vacuous, never as a violation.
package main

import (
	"bytes"
	"encoding/json"
	"fmt"
	"math/big"
	"os"
	"sort"
	"strings"
	"syscall"
	"time"

	"github.com/33cn/chain33/common"
	"github.com/33cn/chain33/common/address"
	"github.com/33cn/chain33/common/crypto"
	clog "github.com/33cn/chain33/common/log"
	erpctypes "github.com/33cn/chain33/rpc/ethrpc/types"
	_ "github.com/33cn/chain33/system"
	consensus "github.com/33cn/chain33/system/consensus"
	cty "github.com/33cn/chain33/system/dapp/coins/types"
	nty "github.com/33cn/chain33/system/dapp/none/types"
	"github.com/33cn/chain33/types"
	"github.com/33cn/chain33/util"
	"github.com/33cn/chain33/util/testnode"
	ecommon "github.com/ethereum/go-ethereum/common"
	ethtypes "github.com/ethereum/go-ethereum/core/types"
	ethcrypto "github.com/ethereum/go-ethereum/crypto"
	"verif/vx"
)

const (
	H        = 14 // ForkAccountBlacklist
	execOk   = types.ExecOk
	evmChain = 3999
	proxyTo  = "0x0000000000000000000000000000000000200005"
)

type acct struct {
	name string
	priv crypto.PrivKey
	raw  []byte // 32-byte secret
	b58  string // address under the btc driver
	hex  string // address under the eth driver
}

var (
	cfg      *types.Chain33Config
	node     *testnode.Chain33Mock
	bc       *consensus.BaseClient
	gen      *acct // genesis account (base58)
	okA      *acct // ordinary sender, base58 form
	okF      *acct // ordinary sender, 0x form
	blkB     *acct // blacklisted as base58
	blkX     *acct // blacklisted as 0x
	okR      *acct // ordinary recipient (both forms)
	state    []byte
	nonce    int64 = 1000
	ethSigTy int32
)

func mkAcct(name string, secret []byte) *acct {
	c, err := crypto.Load("secp256k1", -1)
	if err != nil {
		panic(err)
	}
	p, err := c.PrivKeyFromBytes(secret)
	if err != nil {
		panic(err)
	}
	return &acct{name: name, priv: p, raw: secret, b58: address.PubKeyToAddr(0, p.PubKey().Bytes()), hex: address.PubKeyToAddr(2, p.PubKey().Bytes())}
}

func buildConfig() string {
	local := types.NewChain33Config(types.GetDefaultCfgstring())
	forks, err := local.GetForks()
	if err != nil {
		panic(err)
	}
	s := types.GetDefaultCfgstring()
	rep := func(old, new string) {
		if strings.Count(s, old) != 1 {
			fmt.Printf("HARNESS-ERROR default configuration changed shape: %q\n", old)
			os.Exit(2)
		}
		s = strings.Replace(s, old, new, 1)
	}
	rep(`Title="local"`, "Title=\"verifc31\"\ndisableForkCheck=true")
	rep("[address.enableHeight]\neth=-2", "[address.enableHeight]\neth=0")
	rep(`loglevel = "debug"`, `loglevel = "crit"`)
	rep(`logConsoleLevel = "info"`, `logConsoleLevel = "crit"`)
	sys := []string{}
	sub := map[string][]string{}
	for k := range forks {
		if i := strings.Index(k, "."); i >= 0 {
			sub[k[:i]] = append(sub[k[:i]], k[i+1:])
		} else {
			sys = append(sys, k)
		}
	}
	sort.Strings(sys)
	var sb strings.Builder
	sb.WriteString("\n[fork.system]\n")
	for _, k := range sys {
		h := 0
		switch k {
		case "ForkBlockHash", "ForkRootHash":
			h = 1
		case types.ForkAccountBlacklist:
			h = H
		}
		fmt.Fprintf(&sb, "%s=%d\n", k, h)
	}
	var dapps []string
	for d := range sub {
		dapps = append(dapps, d)
	}
	sort.Strings(dapps)
	for _, d := range dapps {
		fmt.Fprintf(&sb, "\n[fork.sub.%s]\n", d)
		sort.Strings(sub[d])
		for _, k := range sub[d] {
			fmt.Fprintf(&sb, "%s=0\n", k)
		}
	}
	// what a deployment with the evm plugin has in its fork section: makes "evm" an allowed exec name
	sb.WriteString("\n[fork.sub.evm]\nEnable=0\n")
	fmt.Fprintf(&sb, "\n[blacklist]\naccountBlacklist=[%q,%q]\n", blkB.b58, blkX.hex)
	return s + sb.String()
}

// ---------------------------------------------------------------- transactions

func nextNonce() int64 { nonce++; return nonce }

func sign(tx *types.Transaction, a *acct, ethForm bool) *types.Transaction {
	ty := int32(types.SECP256K1)
	if ethForm {
		ty = ethSigTy
	}
	tx.Sign(ty, a.priv)
	return tx
}

func coinsTransfer(to string, amount int64) *types.Transaction {
	v := &cty.CoinsAction_Transfer{Transfer: &types.AssetsTransfer{Amount: amount, Note: []byte("c31"), To: to}}
	tx := &types.Transaction{Execer: []byte("coins"), Payload: types.Encode(&cty.CoinsAction{Value: v, Ty: cty.CoinsActionTransfer}), To: to, Fee: 1000000, Nonce: nextNonce(), ChainID: cfg.GetChainID()}
	return tx
}

func noneTx(to string) *types.Transaction {
	return &types.Transaction{Execer: []byte("none"), Payload: []byte("c31-none"), To: to, Fee: 1000000, Nonce: nextNonce(), ChainID: cfg.GetChainID()}
}

func evmTx(execer, contractAddr string, para []byte) *types.Transaction {
	a := &types.EVMContractAction4Chain33{Amount: 1, GasLimit: 100000, GasPrice: 1, ContractAddr: contractAddr, Para: para}
	return &types.Transaction{Execer: []byte(execer), Payload: types.Encode(a), To: address.ExecAddress(execer), Fee: 1000000, Nonce: nextNonce(), ChainID: cfg.GetChainID()}
}

// proxied wraps inner (an unsigned chain33 transaction) into the eth-signed evm envelope that
// executor.checkProxyExecTx unwraps, exactly as rpc/ethrpc assembles it from an eth_sendRawTransaction.
func proxied(inner *types.Transaction, signer *acct, ethNonce uint64) *types.Transaction {
	sk, err := ethcrypto.ToECDSA(signer.raw)
	if err != nil {
		panic(err)
	}
	s := ethtypes.NewEIP155Signer(big.NewInt(evmChain))
	etx := ethtypes.NewTransaction(ethNonce, ecommon.HexToAddress(proxyTo), big.NewInt(0), 3000000, big.NewInt(10e9), types.Encode(inner))
	stx, err := ethtypes.SignTx(etx, s, sk)
	if err != nil {
		panic(err)
	}
	v, r, ss := stx.RawSignatureValues()
	cv, err := erpctypes.CaculateRealV(v, stx.ChainId().Uint64(), stx.Type())
	if err != nil {
		panic(err)
	}
	sig := make([]byte, 65)
	copy(sig[32-len(r.Bytes()):32], r.Bytes())
	copy(sig[64-len(ss.Bytes()):64], ss.Bytes())
	sig[64] = cv
	pub, err := ethcrypto.Ecrecover(s.Hash(stx).Bytes(), sig)
	if err != nil {
		panic(err)
	}
	return erpctypes.AssembleChain33Tx(stx, sig, pub, cfg)
}

func spellings(hexAddr string) map[string]string {
	body := strings.TrimPrefix(strings.ToLower(hexAddr), "0x")
	alt := []byte(body)
	for i := range alt {
		if i%2 == 0 && alt[i] >= 'a' && alt[i] <= 'f' {
			alt[i] -= 32
		}
	}
	eip := ecommon.HexToAddress(hexAddr).Hex()
	return map[string]string{
		"0x-lower": "0x" + body, "0X-lower": "0X" + body, "0x-UPPER": "0x" + strings.ToUpper(body), "0X-UPPER": "0X" + strings.ToUpper(body),
		"eip55": eip, "0X-eip55": "0X" + eip[2:], "0x-alternating": "0x" + string(alt), "bare-lower": body, "bare-UPPER": strings.ToUpper(body),
	}
}

// shape is one way a transaction can touch an account; build is called with the address role filled
// by the blacklisted account or by its control twin.
type shape struct {
	Name  string
	Build func(black bool) (tx *types.Transaction, note string)
	// Exec: the shape can execute successfully on this node (the EVM shapes cannot: no evm executor)
	Exec bool
	// Pool: the control twin is acceptable to the mempool as built (needs a funded chain account as sender)
}

func shapes() []shape {
	var l []shape
	// sender blacklisted
	l = append(l, shape{Name: "from:b58", Exec: true, Build: func(b bool) (*types.Transaction, string) {
		if b {
			return sign(coinsTransfer(okR.b58, 100), blkB, false), ""
		}
		return sign(coinsTransfer(okR.b58, 100), okA, false), ""
	}})
	l = append(l, shape{Name: "from:0x", Exec: true, Build: func(b bool) (*types.Transaction, string) {
		if b {
			return sign(coinsTransfer(okR.b58, 100), blkX, true), ""
		}
		return sign(coinsTransfer(okR.b58, 100), okF, true), ""
	}})
	// recipient blacklisted
	l = append(l, shape{Name: "to:b58", Exec: true, Build: func(b bool) (*types.Transaction, string) {
		to := okR.b58
		if b {
			to = blkB.b58
		}
		return sign(coinsTransfer(to, 100), okA, false), to
	}})
	spX, spR := spellings(blkX.hex), spellings(okR.hex)
	var names []string
	for n := range spX {
		names = append(names, n)
	}
	sort.Strings(names)
	for _, n := range names {
		n := n
		l = append(l, shape{Name: "to:0x:" + n, Exec: true, Build: func(b bool) (*types.Transaction, string) {
			to := spR[n]
			if b {
				to = spX[n]
			}
			return sign(coinsTransfer(to, 100), okA, false), to
		}})
		l = append(l, shape{Name: "to:0x:" + n + ":eth-sender", Exec: true, Build: func(b bool) (*types.Transaction, string) {
			to := spR[n]
			if b {
				to = spX[n]
			}
			return sign(coinsTransfer(to, 100), okF, true), to
		}})
	}
	// EVM targets (no evm executor in this repository: only AddTxsToBlock and the mempool can be judged)
	for _, ex := range []string{"evm", "user.evm.c31"} {
		ex := ex
		for _, n := range []string{"0x-lower", "0X-UPPER", "eip55", "bare-lower"} {
			n := n
			l = append(l, shape{Name: "evm-contract:" + ex + ":" + n, Build: func(b bool) (*types.Transaction, string) {
				to := spR[n]
				if b {
					to = spX[n]
				}
				return sign(evmTx(ex, to, []byte{1, 2, 3, 4}), okA, false), to
			}})
		}
		l = append(l, shape{Name: "evm-contract:" + ex + ":b58", Build: func(b bool) (*types.Transaction, string) {
			to := okR.b58
			if b {
				to = blkB.b58
			}
			return sign(evmTx(ex, to, []byte{1, 2, 3, 4}), okA, false), to
		}})
		l = append(l, shape{Name: "evm-para20:" + ex + ":0x", Build: func(b bool) (*types.Transaction, string) {
			raw := ecommon.HexToAddress(okR.hex).Bytes()
			if b {
				raw = ecommon.HexToAddress(blkX.hex).Bytes()
			}
			return sign(evmTx(ex, address.ExecAddress(ex), raw), okA, false), common.ToHex(raw)
		}})
		l = append(l, shape{Name: "evm-para20:" + ex + ":b58", Build: func(b bool) (*types.Transaction, string) {
			who := okR.b58
			if b {
				who = blkB.b58
			}
			a, err := address.NewBtcAddress(who)
			if err != nil {
				panic(err)
			}
			return sign(evmTx(ex, address.ExecAddress(ex), a.Hash160[:]), okA, false), who
		}})
	}
	// proxied: an eth-signed evm envelope to the proxy address carrying a coins transfer
	l = append(l, shape{Name: "proxied:inner-to:b58", Exec: true, Build: func(b bool) (*types.Transaction, string) {
		to := okR.b58
		if b {
			to = blkB.b58
		}
		return proxied(coinsTransfer(to, 100), okF, 0), to
	}})
	l = append(l, shape{Name: "proxied:inner-to:0x", Exec: true, Build: func(b bool) (*types.Transaction, string) {
		to := okR.hex
		if b {
			to = blkX.hex
		}
		return proxied(coinsTransfer(to, 100), okF, 0), to
	}})
	// the inner transaction is an evm call whose CONTRACT is the blacklisted party (its To is the evm executor)
	l = append(l, shape{Name: "proxied:inner-evm-contract:0x", Exec: true, Build: func(b bool) (*types.Transaction, string) {
		to := spR["0x-lower"]
		if b {
			to = spX["0x-lower"]
		}
		return proxied(evmTx("evm", to, []byte{1, 2, 3, 4}), okF, 0), to
	}})
	l = append(l, shape{Name: "proxied:signer:0x", Exec: true, Build: func(b bool) (*types.Transaction, string) {
		if b {
			return proxied(coinsTransfer(okR.b58, 100), blkX, 0), ""
		}
		return proxied(coinsTransfer(okR.b58, 100), okF, 0), ""
	}})
	return l
}

// ---------------------------------------------------------------- cases

type kase struct {
	Oracle string `json:"oracle"` // exec, pack, pool, delay, delay-block
	Shape  string `json:"shape"`
	Group  int    `json:"group,omitempty"` // 0 = single, else size
	Pos    int    `json:"pos,omitempty"`   // position of the touching member
	Height int64  `json:"height,omitempty"`
	Same   bool   `json:"same_sender,omitempty"` // the other members of the group are signed by the touching member's key
}

type verdict struct{ fp, what string }

var shapeByName = map[string]shape{}

// assemble builds the transaction(s) of a case: a single tx, or a group whose member Pos is the
// shape and whose other members are ordinary transfers. Returns pool form and expanded form.
func assemble(k kase, black bool) (pool *types.Transaction, flat []*types.Transaction, idx int, note string) {
	sh := shapeByName[k.Shape]
	if k.Group == 0 {
		tx, note := sh.Build(black)
		return tx, []*types.Transaction{tx}, 0, note
	}
	txs := make([]*types.Transaction, k.Group)
	signers := make([]func(*types.Transaction), k.Group)
	var nt string
	for i := range txs {
		if i == k.Pos {
			tx, n := sh.Build(black)
			nt = n
			sig := tx.Signature
			// the member is re-signed after grouping by the same key and signature type
			var who *acct
			for _, a := range []*acct{okA, okF, blkB, blkX, gen} {
				if bytes.Equal(a.priv.PubKey().Bytes(), sig.Pubkey) {
					who = a
				}
			}
			if who == nil {
				return nil, nil, 0, "" // eth-envelope signatures cannot be redone inside a group
			}
			ty := sig.Ty
			tx.Signature = nil
			txs[i] = tx
			signers[i] = func(t *types.Transaction) { t.Sign(ty, who.priv) }
		} else {
			txs[i] = coinsTransfer(okR.b58, 10)
			signers[i] = func(t *types.Transaction) { t.Sign(types.SECP256K1, gen.priv) }
		}
	}
	if k.Same {
		// every member comes from the touching member's sender (signed after grouping, like that member)
		pos := signers[k.Pos]
		for i := range signers {
			signers[i] = pos
		}
	}
	g, err := types.CreateTxGroup(txs, cfg.GetMinTxFeeRate())
	if err != nil {
		panic("HARNESS CreateTxGroup: " + err.Error())
	}
	for i := range g.Txs {
		signers[i](g.Txs[i])
	}
	return g.Tx(), g.Txs, k.Pos, nt
}

func execAt(h int64, txs []*types.Transaction) ([]int32, []string) {
	blk := &types.Block{Height: h, BlockTime: types.Now().Unix(), Txs: txs, ParentHash: make([]byte, 32)}
	rs, err := util.ExecTx(node.GetClient(), state, blk)
	if err != nil {
		panic("HARNESS ExecTx: " + err.Error())
	}
	var tys []int32
	var logs []string
	for _, r := range rs.Receipts {
		tys = append(tys, r.Ty)
		lg := ""
		for _, l := range r.Logs {
			if l.Ty == types.TyLogErr {
				lg = string(l.Log)
			}
		}
		logs = append(logs, lg)
	}
	return tys, logs
}

var stat *vx.Run

func hit(c string, cond bool) {
	if cond {
		stat.Count(c, 1)
	}
}

func evalCase(k kase) *verdict {
	sh := shapeByName[k.Shape]
	gname := "single"
	if k.Group > 0 {
		gname = fmt.Sprintf("group%d@%d", k.Group, k.Pos)
		if k.Same {
			gname += "-one-sender"
		}
	}
	switch k.Oracle {
	case "exec":
		_, flat, idx, note := assemble(k, true)
		if flat == nil {
			return nil
		}
		tys, logs := execAt(k.Height, flat)
		_, cflat, cidx, _ := assemble(k, false)
		ctys, clogs := execAt(k.Height, cflat)
		ctlOK := ctys[cidx] == execOk
		stat.Seen("outcomes", fmt.Sprintf("exec:%s:%s:active=%v:black=%d:control=%d", strings.SplitN(k.Shape, ":", 2)[0], gname, k.Height >= H, tys[idx], ctys[cidx]))
		if !ctlOK {
			stat.Note("vacuous exec shape %s %s at height %d: control receipt %d (%s)", k.Shape, gname, k.Height, ctys[cidx], clogs[cidx])
			hit("vacuous_exec", true)
		}
		if k.Height < H {
			hit("hit_exec_ok_below_activation", tys[idx] == execOk)
			hit("hit_exec_ok_below_activation:"+strings.SplitN(k.Shape, ":", 2)[0], tys[idx] == execOk)
			return nil
		}
		hit("hit_exec_refused_with_control_ok", tys[idx] != execOk && ctlOK)
		hit("hit_exec_refused_with_control_ok:"+strings.SplitN(k.Shape, ":", 2)[0], tys[idx] != execOk && ctlOK)
		if tys[idx] == execOk {
			return &verdict{"exec:" + fpShape(k.Shape) + ":" + fpGroup(k) + ":ExecOk-at-or-after-activation",
				fmt.Sprintf("height %d >= %d: receipt of %s (%s, address %q) is ExecOk", k.Height, H, k.Shape, gname, note)}
		}
		_ = logs
		return nil
	case "pack":
		pool, _, _, note := assemble(k, true)
		if pool == nil {
			return nil
		}
		cpool, _, _, _ := assemble(k, false)
		blk := &types.Block{Height: k.Height}
		bc.AddTxsToBlock(blk, []*types.Transaction{pool})
		cblk := &types.Block{Height: k.Height}
		bc.AddTxsToBlock(cblk, []*types.Transaction{cpool})
		stat.Seen("outcomes", fmt.Sprintf("pack:%s:%s:active=%v:black-in=%v:control-in=%v", strings.SplitN(k.Shape, ":", 2)[0], gname, k.Height >= H, len(blk.Txs) > 0, len(cblk.Txs) > 0))
		if len(cblk.Txs) == 0 {
			hit("vacuous_pack", true)
			stat.Note("vacuous pack shape %s %s: control not packed", k.Shape, gname)
		}
		if k.Height < H {
			hit("hit_pack_taken_below_activation", len(blk.Txs) > 0)
			return nil
		}
		hit("hit_pack_skipped_with_control_taken", len(blk.Txs) == 0 && len(cblk.Txs) > 0)
		if len(blk.Txs) > 0 {
			return &verdict{"pack:" + fpShape(k.Shape) + ":" + fpGroup(k) + ":taken-by-AddTxsToBlock-after-activation",
				fmt.Sprintf("height %d >= %d: AddTxsToBlock takes %s (%s, address %q)", k.Height, H, k.Shape, gname, note)}
		}
		return nil
	case "pool":
		pool, _, _, note := assemble(k, true)
		if pool == nil {
			return nil
		}
		tip := node.GetLastBlock().Height
		_, err := node.GetAPI().SendTx(pool)
		stat.Seen("outcomes", fmt.Sprintf("pool:%s:%s:tip-vs-H=%d:rejected=%v", strings.SplitN(k.Shape, ":", 2)[0], gname, sgn(tip+1-H), err != nil))
		hit("hit_pool_rejected", err != nil)
		if err == nil {
			return &verdict{"pool:" + fpShape(k.Shape) + ":" + fpGroup(k) + ":accepted-by-mempool",
				fmt.Sprintf("chain tip %d (activation %d): mempool accepts %s (%s, address %q)", tip, H, k.Shape, gname, note)}
		}
		return nil
	case "delay":
		tx, note := sh.Build(true)
		_, err := node.GetAPI().SendDelayTx(&types.DelayTx{Tx: tx, EndDelayTime: 1 << 40}, true)
		ctx, _ := sh.Build(false)
		_, cerr := node.GetAPI().SendDelayTx(&types.DelayTx{Tx: ctx, EndDelayTime: 1 << 40}, true)
		stat.Seen("outcomes", fmt.Sprintf("delay:%s:rejected=%v:control-accepted=%v", strings.SplitN(k.Shape, ":", 2)[0], err != nil, cerr == nil))
		hit("hit_delay_rejected_with_control_accepted", err != nil && cerr == nil)
		if cerr != nil {
			hit("vacuous_delay", true)
			stat.Note("vacuous delay shape %s: control refused: %v", k.Shape, cerr)
		}
		if err == nil {
			return &verdict{"delay:" + fpShape(k.Shape) + ":accepted-by-EventAddDelayTx", fmt.Sprintf("EventAddDelayTx accepts delayed %s (address %q)", k.Shape, note)}
		}
		return nil
	}
	panic("HARNESS unknown oracle " + k.Oracle)
}

func sgn(x int64) int {
	switch {
	case x < 0:
		return -1
	case x > 0:
		return 1
	}
	return 0
}

// fingerprints name the position and the spelling class, not the concrete address
func fpShape(s string) string {
	switch {
	case strings.HasPrefix(s, "proxied:inner-evm-contract"):
		return "proxied-envelope-inner-evm-contract"
	case strings.HasPrefix(s, "proxied:inner-to"):
		return "proxied-envelope-inner-recipient"
	case strings.HasPrefix(s, "proxied:signer"):
		return "proxied-envelope-signer"
	case strings.HasPrefix(s, "to:0x:"):
		return "recipient-0x-spelled-" + strings.TrimSuffix(strings.TrimPrefix(s, "to:0x:"), ":eth-sender")
	case strings.HasPrefix(s, "to:b58"):
		return "recipient-base58"
	case strings.HasPrefix(s, "from:"):
		return "sender"
	case strings.HasPrefix(s, "evm-contract:"):
		p := strings.Split(s, ":")
		return "evm-contract-target-" + p[len(p)-1]
	case strings.HasPrefix(s, "evm-para20:"):
		return "evm-20-byte-recipient"
	}
	return s
}
func fpGroup(k kase) string {
	if k.Group == 0 {
		return "single"
	}
	return "group-member"
}

func waitTip(h int64) {
	for i := 0; i < 2000; i++ {
		if node.GetLastBlock().Height >= h {
			return
		}
		time.Sleep(5 * time.Millisecond)
	}
	fmt.Println("HARNESS-ERROR chain did not reach height", h)
	os.Exit(2)
}

func sendOK(tx *types.Transaction) {
	if _, err := node.GetAPI().SendTx(tx); err != nil {
		fmt.Println("HARNESS-ERROR funding/advance transaction refused:", err)
		os.Exit(2)
	}
}

func setup() {
	clog.SetLogLevel("crit")
	sec := func(b byte) []byte { return bytes.Repeat([]byte{b}, 32) }
	gk, _ := common.FromHex("CC38546E9E659D15E6B4893F0AB32A06D103931A8230B0BDE71459D2B27D6944")
	gen = mkAcct("genesis", gk)
	okA, okF, blkB, blkX, okR = mkAcct("A", sec(0x11)), mkAcct("F", sec(0x12)), mkAcct("B", sec(0x13)), mkAcct("X", sec(0x14)), mkAcct("R", sec(0x15))
	cfg = types.NewChain33Config(buildConfig())
	ethSigTy = types.EncodeSignID(types.SECP256K1, 2)
	if !types.IsBlockedAccount(blkB.b58) || !types.IsBlockedAccount(blkX.hex) || types.IsBlockedAccount(okR.b58) {
		fmt.Println("HARNESS-ERROR the [blacklist] section did not take effect")
		os.Exit(2)
	}
	if cfg.IsFork(H-1, types.ForkAccountBlacklist) || !cfg.IsFork(H, types.ForkAccountBlacklist) {
		fmt.Println("HARNESS-ERROR ForkAccountBlacklist is not at", H)
		os.Exit(2)
	}
	// the blockchain module prints a few start-up lines on stdout whatever the log level is
	saved, _ := syscall.Dup(1)
	if null, err := os.OpenFile(os.DevNull, os.O_WRONLY, 0); err == nil {
		syscall.Dup2(int(null.Fd()), 1)
	}
	node = testnode.NewWithConfig(cfg, nil)
	clog.SetLogLevel("crit")
	waitTip(0)
	syscall.Dup2(saved, 1)
	syscall.Close(saved)
	bc = consensus.NewBaseClient(cfg.GetModuleConfig().Consensus)
	bc.VerifSetClient(node.GetClient())
	waitTip(0)
	// chain block 1: fund the ordinary senders through the mempool
	sendOK(sign(coinsTransfer(okA.b58, 1000*types.DefaultCoinPrecision), gen, false))
	sendOK(sign(coinsTransfer(okF.hex, 1000*types.DefaultCoinPrecision), gen, false))
	for i := 0; i < 400; i++ {
		a := node.GetAccount(node.GetLastBlock().StateHash, okA.b58)
		f := node.GetAccount(node.GetLastBlock().StateHash, okF.hex)
		if a.Balance > 0 && f.Balance > 0 {
			break
		}
		time.Sleep(5 * time.Millisecond)
	}
	tip := node.GetLastBlock()
	if tip.Height >= H-2 {
		fmt.Println("HARNESS-ERROR funding took too many blocks:", tip.Height)
		os.Exit(2)
	}
	// experiment state: the blacklisted accounts get funds too (below H nothing forbids it; the mempool
	// would refuse these transfers, so the block is executed and committed to the store directly)
	fund := &types.Block{Height: tip.Height + 1, BlockTime: types.Now().Unix(), ParentHash: tip.Hash(cfg), Txs: []*types.Transaction{
		sign(coinsTransfer(blkB.b58, 1000*types.DefaultCoinPrecision), gen, false),
		sign(coinsTransfer(blkX.hex, 1000*types.DefaultCoinPrecision), gen, false),
	}}
	d, _, err := util.ExecBlock(node.GetClient(), tip.StateHash, fund, false, true, false)
	if err != nil {
		fmt.Println("HARNESS-ERROR funding block:", err)
		os.Exit(2)
	}
	for i, r := range d.Receipts {
		if r.Ty != execOk {
			fmt.Println("HARNESS-ERROR funding receipt", i, r.Ty)
			os.Exit(2)
		}
	}
	state = d.Block.StateHash
}

func main() {
	r := vx.Start("C31", "exploration")
	stat = r
	r.DistinctSet = "outcomes"
	r.Rule = "depth-1 from one funded state of a real node: every shape (sender; recipient in 9 spellings x 2 sender kinds; none-tx recipient; EVM contract target x 5 spellings and 20-byte EVM recipient, for exec names evm and user.evm.x; proxied envelope with blacklisted inner recipient / signer; both blacklist entries) x {single, member at every position of groups of 2 and 3} x heights {H-1,H,H+1} through EventExecTxList and through AddTxsToBlock; x chain tips from below H to above H through mempool EventTx; singles through EventAddDelayTx; each with a control twin differing only in the address. distinct = (oracle, position kind, single/group, rule active?, outcome of blacklisted, outcome of control) classes"
	r.Assume = []string{
		"main-chain configuration: there the real recipient equals tx.To (payload recipients are only consulted on para chains, which need the external para consensus plugin)",
		"no EVM executor exists in this repository: EVM-target shapes are judged at AddTxsToBlock and at the mempool only, and only when their control twin is accepted there",
		"[fork.sub.evm] is present in the configuration (as in deployments with the evm plugin) so that the exec name evm is allowed; proxied envelopes are then executable because only their inner coins transfer runs",
		"the experiment state is built by executing a funding block directly (the mempool refuses transfers to blacklisted accounts at every height)",
	}
	r.QuietStderr()
	setup()
	for _, s := range shapes() {
		shapeByName[s.Name] = s
	}
	if raw, ok := r.Replaying(); ok {
		var k kase
		if err := json.Unmarshal(raw, &k); err != nil {
			fmt.Println("REPLAY-ERROR", err)
			r.Finish()
		}
		if v := evalCase(k); v != nil {
			fmt.Println("replay: FAIL", v.fp, v.what)
			r.Violate(v.fp, v.what, k, nil)
		} else {
			fmt.Println("replay: ok")
		}
		r.Finish()
	}
	run := func(k kase) {
		r.Count("evaluations", 1)
		r.Count("oracle_"+k.Oracle, 1)
		if v := evalCase(k); v != nil {
			kk := k
			r.Violate(v.fp, v.what+"  case="+vx.J(kk), kk, func() string {
				if w := evalCase(kk); w != nil {
					return w.fp
				}
				return ""
			})
		}
	}
	all := shapes()
	groups := [][3]int{{0, 0, 0}, {2, 0, 0}, {2, 1, 0}, {3, 0, 0}, {3, 1, 0}, {3, 2, 0}, {2, 1, 1}, {3, 2, 1}} // size, position, same sender
	for _, sh := range all {
		for _, g := range groups {
			for _, h := range []int64{H - 1, H, H + 1} {
				if sh.Exec {
					run(kase{Oracle: "exec", Shape: sh.Name, Group: g[0], Pos: g[1], Height: h, Same: g[2] == 1})
				}
				run(kase{Oracle: "pack", Shape: sh.Name, Group: g[0], Pos: g[1], Height: h, Same: g[2] == 1})
			}
		}
	}
	for _, sh := range all {
		run(kase{Oracle: "delay", Shape: sh.Name})
	}
	// mempool: at every tip from the current one to H+1, one block at a time
	for {
		tip := node.GetLastBlock().Height
		if tip < H-2 { // next block would still be below H-1: just move on
			sendOK(sign(coinsTransfer(okR.b58, 1), gen, false))
			waitTip(tip + 1)
			time.Sleep(50 * time.Millisecond)
			continue
		}
		for _, sh := range all {
			for _, g := range groups {
				run(kase{Oracle: "pool", Shape: sh.Name, Group: g[0], Pos: g[1], Same: g[2] == 1})
			}
		}
		if node.GetLastBlock().Height != tip {
			// only possible when the mempool accepted something it was sent in this phase (a violation already recorded)
			r.Note("the chain moved from tip %d during a mempool phase", tip)
		}
		r.Count("pool_tips", 1)
		r.Seen("tips", fmt.Sprint(tip))
		if tip >= H+1 {
			break
		}
		sendOK(sign(coinsTransfer(okR.b58, 1), gen, false))
		waitTip(tip + 1)
		time.Sleep(50 * time.Millisecond)
	}
	// controls of every shape must be acceptable to the same mempool
	for _, sh := range all {
		ctl, _ := sh.Build(false)
		_, err := node.GetAPI().SendTx(ctl)
		r.Seen("outcomes", fmt.Sprintf("pool-control:%s:accepted=%v", strings.SplitN(sh.Name, ":", 2)[0], err == nil))
		if err != nil {
			hit("vacuous_pool", true)
			r.Note("vacuous pool shape %s: control refused by the mempool: %v", sh.Name, err)
		} else {
			hit("hit_pool_control_accepted", true)
		}
	}
	// delayed transactions embedded in a block (none / CommitDelayTx): submitted after the mempool phases so that nothing but the harness moves the chain during them
	type embedded struct {
		shape       string
		black, ctl  *types.Transaction
		note        string
		outerB, out *types.Transaction
	}
	var emb []*embedded
	commit := func(inner *types.Transaction) *types.Transaction {
		act := &nty.NoneAction{Ty: nty.TyCommitDelayTxAction, Value: &nty.NoneAction_CommitDelayTx{CommitDelayTx: &nty.CommitDelayTx{
			DelayTx: common.ToHex(types.Encode(inner)), RelativeDelayTime: 1, RelativeDelayHeight: 1}}}
		tx := &types.Transaction{Execer: []byte(nty.NoneX), Payload: types.Encode(act), To: address.ExecAddress(nty.NoneX), Fee: 1000000, Nonce: nextNonce(), ChainID: cfg.GetChainID()}
		return sign(tx, gen, false)
	}
	for _, n := range []string{"to:b58", "to:0x:0x-lower", "to:0x:0X-UPPER"} {
		sh := shapeByName[n]
		e := &embedded{shape: n}
		e.black, e.note = sh.Build(true)
		e.ctl, _ = sh.Build(false)
		e.outerB, e.out = commit(e.black), commit(e.ctl)
		for _, o := range []*types.Transaction{e.outerB, e.out} {
			if _, err := node.GetAPI().SendTx(o); err != nil {
				r.Note("vacuous delay-block shape %s: commit transaction refused by the mempool: %v", n, err)
				hit("vacuous_delay_block", true)
			}
		}
		emb = append(emb, e)
	}
	waitTip(node.GetLastBlock().Height + 1)
	time.Sleep(100 * time.Millisecond)
	// let the embedded delays (1 s) run out, move the chain twice, then look for the inner transactions
	time.Sleep(1200 * time.Millisecond)
	for i := 0; i < 3; i++ {
		t := node.GetLastBlock().Height
		sendOK(sign(coinsTransfer(okR.b58, 1), gen, false))
		waitTip(t + 1)
		time.Sleep(150 * time.Millisecond)
	}
	for _, e := range emb {
		r.Count("evaluations", 1)
		r.Count("oracle_delay_block", 1)
		d, err := node.GetAPI().QueryTx(&types.ReqHash{Hash: e.black.Hash()})
		cd, cerr := node.GetAPI().QueryTx(&types.ReqHash{Hash: e.ctl.Hash()})
		ctlRan := cerr == nil && cd.GetReceipt().GetTy() == execOk
		r.Seen("outcomes", fmt.Sprintf("delay-block:%s:black-on-chain=%v:control-executed=%v", fpShape(e.shape), err == nil, ctlRan))
		hit("hit_delay_block_control_executed", ctlRan)
		if !ctlRan {
			r.Note("vacuous delay-block shape %s: the control's inner transaction was not executed in time (%v)", e.shape, cerr)
		}
		if err == nil && d.GetReceipt().GetTy() == execOk && d.GetHeight() >= H {
			r.Violate("delay-block:"+fpShape(e.shape)+":embedded-delayed-tx-executed", fmt.Sprintf("delayed transaction %s (address %q) embedded in a none/CommitDelayTx was executed at height %d", e.shape, e.note, d.GetHeight()), kase{Oracle: "delay-block", Shape: e.shape}, nil)
		}
	}
	r.Sample(map[string]interface{}{"blacklist": []string{blkB.b58, blkX.hex}, "activation_height": H, "tips_probed": r.SetSize("tips")})
	r.Floors["outcomes"] = 12
	for _, c := range []string{"hit_exec_ok_below_activation", "hit_exec_refused_with_control_ok", "hit_pack_taken_below_activation", "hit_pack_skipped_with_control_taken", "hit_pool_rejected", "hit_pool_control_accepted", "hit_delay_rejected_with_control_accepted"} {
		r.Floors[c] = 1
	}
	for _, kind := range []string{"from", "to", "proxied"} {
		r.Floors["hit_exec_ok_below_activation:"+kind] = 1
		r.Floors["hit_exec_refused_with_control_ok:"+kind] = 1
	}
	r.Floors["hit_delay_block_control_executed"] = 1
	r.Floors["tips"] = 3
	r.Finish()
}
