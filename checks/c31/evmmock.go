package main

import (
	"github.com/33cn/chain33/pluginmgr"
	drivers "github.com/33cn/chain33/system/dapp"
	"github.com/33cn/chain33/types"
)

// A stand-in for the evm executor (the real one lives in the plugin repository): it accepts every
// transaction and changes nothing, so that shapes whose blacklisted party sits in an EVM payload can
// also be judged by execution (a control twin then executes, a blacklisted one must not).
type evmMock struct{ drivers.DriverBase }

func (d *evmMock) GetDriverName() string                          { return "evm" }
func (d *evmMock) CheckTx(tx *types.Transaction, index int) error { return nil }
func (d *evmMock) Exec(tx *types.Transaction, index int) (*types.Receipt, error) {
	return &types.Receipt{Ty: types.ExecOk}, nil
}
func (d *evmMock) ExecLocal(tx *types.Transaction, r *types.ReceiptData, index int) (*types.LocalDBSet, error) {
	return &types.LocalDBSet{}, nil
}
func (d *evmMock) ExecDelLocal(tx *types.Transaction, r *types.ReceiptData, index int) (*types.LocalDBSet, error) {
	return &types.LocalDBSet{}, nil
}
func (d *evmMock) Query(funcName string, params []byte) (types.Message, error) {
	return nil, types.ErrActionNotSupport
}

func init() {
	pluginmgr.Register(&pluginmgr.PluginBase{Name: "verif.evm", ExecName: "evm", Exec: func(name string, cfg *types.Chain33Config, sub []byte) {
		drivers.Register(cfg, "evm", func() drivers.Driver {
			d := &evmMock{}
			d.SetChild(d)
			return d
		}, 0)
	}})
}
