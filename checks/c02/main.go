// C02 — the state root depends only on the prior root and the ordered writes.
//
// For every valid sub-configuration of the mavl store (prefix, prune=>prefix, memTree, memTree+memVal,
// MVCC value elision: 18 combinations) an explicit-state search runs histories of
// {Set(parent,W), MemSet(parent,W), Commit(r), Rollback(r)} on the real Store over a fresh in-memory
// database, with the process-global caches (memTree, tkCloseCache, maxBlockHeight) kept across the
// history and reset between executions. Every root returned by Set / MemSet is compared with the
// root a FRESH store in the plain configuration computes by applying the same chain of write lists
// one direct Set after the other from the empty root; Commit must return the root MemSet returned.
package main

import (
	"bytes"
	"encoding/json"
	"fmt"
	"os"
	"runtime/debug"
	"sort"
	"strings"

	clog "github.com/33cn/chain33/common/log"
	drivers "github.com/33cn/chain33/system/store"
	"github.com/33cn/chain33/system/store/mavl"
	mavldb "github.com/33cn/chain33/system/store/mavl/db"
	"github.com/33cn/chain33/system/store/mavl/db/ticket"
	"github.com/33cn/chain33/types"
	"verif/checks/c01/mvx"
	"verif/vx"
)

var run *vx.Run

// write lists (ordered). Keys share prefixes; the last list writes a closed ticket, which the
// memTree configurations route into the separate tkCloseCache.
var wlists [][]string

func init() {
	closed := string(types.Encode(&ticket.Ticket{TicketId: "t1", Status: ticket.StatusCloseTicket}))
	tk := string(ticket.TicketPrefix) + "t1"
	wlists = [][]string{
		{"a", "1"},
		{"a", ""}, // an empty value over a non-empty one (with MVCC the stored leaf carries no value to compare with)
		{"b", "1"},
		{"a", "2", "c", "1"},
		{"c", "1", "b", "2", "a", "1"},
		{"b", "1", "a", "1", "ab", "1"},
		{tk, closed, "ab", "2"},
		{"ab", "1", "a", "1", "b", "1", "c", "1", "d", "1"},
	}
}

func wname(i int) string {
	var p []string
	for j := 0; j+1 < len(wlists[i]); j += 2 {
		v := wlists[i][j+1]
		if len(v) > 2 {
			v = "closed-ticket"
		}
		p = append(p, wlists[i][j]+"="+v)
	}
	return "[" + strings.Join(p, ",") + "]"
}

type ver struct {
	root  []byte
	depth int64  // number of updates from the empty root = block height of this version
	chain []int  // write lists applied from the empty root
	id    string // which update produced it: parent root, write list, height
}

type sys struct {
	cfg       mvx.Cfg
	st        *mavl.Store
	committed []ver // distinct roots in commit order
	pending   []ver // in MemSet order, distinct roots
	// aliased: some pending update computed earlier in this process has not been committed (it is
	// still pending, was rolled back, or died in a restart); its nodes were published to the global
	// memTree by Tree.Hash although they were never persisted
	aliased     bool
	poisoned    bool
	everPending []ver
	allCommits  []ver
}

func (s *sys) markAlias() {
	s.aliased = false
	for _, p := range s.everPending {
		committed := false
		for _, c := range s.allCommits {
			committed = committed || p.id == c.id
		}
		if !committed {
			s.aliased = true
		}
	}
}

var refMemo = map[string][]byte{}

// refRoot: what a fresh plain-configuration store returns for the chain applied by direct Sets.
func refRoot(chain []int) []byte {
	key := fmt.Sprint(chain)
	if r, ok := refMemo[key]; ok {
		return r
	}
	st := mvx.Open(mvx.Cfg{Name: "plain"}, "memdb", "")
	root := drivers.EmptyRoot[:]
	for h, w := range chain {
		var err error
		root, err = st.Set(&types.StoreSet{StateHash: root, KV: mvx.KV(wlists[w]...), Height: int64(h + 1)}, true)
		if err != nil {
			panic("reference store failed: " + err.Error())
		}
	}
	refMemo[key] = root
	run.Count("reference_roots", 1)
	return root
}

func (s *sys) parent(p int) (ver, bool) {
	switch {
	case p == 0:
		return ver{root: drivers.EmptyRoot[:]}, true
	case len(s.committed) == 0:
		return ver{}, false
	case p == 1:
		return s.committed[len(s.committed)-1], true
	default:
		if len(s.committed) < 2 {
			return ver{}, false
		}
		return s.committed[0], true
	}
}

func find(l []ver, root []byte) int {
	for i, v := range l {
		if bytes.Equal(v.root, root) {
			return i
		}
	}
	return -1
}

func (s *sys) situation() string {
	var f []string
	if len(s.pending) > 0 {
		f = append(f, "other-pending")
	}
	if len(s.committed) > 0 {
		f = append(f, "after-commits")
	}
	return strings.Join(f, "+")
}

type harness struct {
	cfg      mvx.Cfg
	nParents int
	nW       int
	depth    int
}

func (h harness) opName(i int) string {
	n := h.nParents * h.nW
	pn := []string{"empty-root", "newest-committed", "oldest-committed"}
	switch {
	case i < n:
		return fmt.Sprintf("Set(%s,%s)", pn[i/h.nW], wname(i%h.nW))
	case i < 2*n:
		i -= n
		return fmt.Sprintf("MemSet(%s,%s)", pn[i/h.nW], wname(i%h.nW))
	}
	return []string{"Commit(oldest-pending)", "Commit(newest-pending)", "Rollback(oldest-pending)", "Rollback(newest-pending)", "Restart"}[i-2*n]
}

func (h harness) seq(r *vx.Run) *vx.Seq[*sys] {
	n := h.nParents * h.nW
	q := &vx.Seq[*sys]{Run: r, Name: h.cfg.Name, NumOps: 2*n + 5, MaxDepth: h.depth, Workers: 1}
	q.New = func() *sys {
		mvx.ResetGlobals(h.cfg)
		return &sys{cfg: h.cfg, st: mvx.Open(h.cfg, "memdb", "")}
	}
	q.OpName = h.opName
	inner := func(s *sys, i int) string { return "" }
	q.Apply = func(s *sys, i int) string {
		if s.poisoned {
			return ""
		}
		f := inner(s, i)
		if sup := os.Getenv("VERIF_SUPPRESS"); sup != "" && f != "" && containsAny(f, sup) {
			// mutation demonstrations only: a failure class already reported is counted, not raised,
			// and the history is not extended
			r.Count("suppressed_cases", 1)
			s.poisoned = true
			return ""
		}
		return f
	}
	inner = func(s *sys, i int) string {
		if i < 2*n {
			direct := i < n
			j := i % n
			p, ok := s.parent(j / h.nW)
			if !ok {
				return "" // no such parent yet: no-op (dedups away)
			}
			w := j % h.nW
			chain := append(append([]int{}, p.chain...), w)
			want := refRoot(chain)
			set := &types.StoreSet{StateHash: p.root, KV: mvx.KV(wlists[w]...), Height: p.depth + 1}
			var got []byte
			var err error
			mode := "pending"
			if direct {
				mode = "direct-set"
			}
			if perr := vx.Catch(func() {
				if direct {
					got, err = s.st.Set(set, true)
				} else {
					got, err = s.st.MemSet(set, true)
				}
			}); perr != "" {
				if strings.Contains(perr, "ErrNodeNotExist") && s.cfg.MemTree && s.cfg.Prefix && s.aliased {
					// specific class (see MUTATIONS.md / report): the memTree entry of a committed root,
					// keyed by the bare root hash, was replaced by the node of a pending update with the
					// same root hash whose height-prefixed children were never persisted
					return fmt.Sprintf("node-missing:memTree+prefix:node-of-uncommitted-pending-update-served-from-memTree| %s panics: %s", h.opName(i), vx.Norm(perr, 60))
				}
				return fmt.Sprintf("update-panics:%s:%s| %s panics: %s", mode, s.cfg.Name, h.opName(i), perr)
			}
			if err != nil {
				return fmt.Sprintf("update-fails:%s:%s| %s on a committed parent failed: %v", mode, s.cfg.Name, h.opName(i), err)
			}
			if !bytes.Equal(got, want) {
				return fmt.Sprintf("root-differs:%s:%s| %s at height %d gives root %x; a fresh plain store applying the same write chain %v gives %x", mode, s.cfg.Name, h.opName(i), p.depth+1, got, chain, want)
			}
			r.Seen("outcomes", mode+":equal:"+s.situation())
			v := ver{root: got, depth: p.depth + 1, chain: chain, id: fmt.Sprintf("%x|%d|%d", p.root, w, p.depth+1)}
			if direct {
				if find(s.committed, got) < 0 {
					s.committed = append(s.committed, v)
				}
				s.allCommits = append(s.allCommits, v)
			} else if k := find(s.pending, got); k >= 0 {
				s.everPending = append(s.everPending, v)
				s.pending[k] = v
			} else {
				s.everPending = append(s.everPending, v)
				s.pending = append(s.pending, v)
			}
			s.markAlias()
			return ""
		}
		if i == 2*n+4 {
			// the process ends and a new one opens the same database: caches are empty, pending updates are gone
			if len(s.committed) == 0 {
				return ""
			}
			s.st = mvx.RestartMem(s.st, s.cfg)
			s.pending = nil
			s.markAlias()
			r.Seen("outcomes", "restart:"+s.situation())
			return ""
		}
		if len(s.pending) == 0 {
			return ""
		}
		k := 0
		if (i-2*n)%2 == 1 {
			k = len(s.pending) - 1
		}
		v := s.pending[k]
		s.pending = append(s.pending[:k:k], s.pending[k+1:]...)
		known := func(op, perr string) string {
			if strings.Contains(perr, "ErrNodeNotExist") && s.cfg.MemTree && s.cfg.Prefix && s.aliased {
				return fmt.Sprintf("node-missing:memTree+prefix:node-of-uncommitted-pending-update-served-from-memTree| %s panics: %s", h.opName(i), vx.Norm(perr, 60))
			}
			return fmt.Sprintf("%s-panics:%s| %s panics: %s", op, s.cfg.Name, h.opName(i), perr)
		}
		if i-2*n < 2 {
			var got []byte
			var err error
			if perr := vx.Catch(func() { got, err = s.st.Commit(&types.ReqHash{Hash: v.root}) }); perr != "" {
				return known("commit", perr)
			}
			if err != nil || !bytes.Equal(got, v.root) {
				return fmt.Sprintf("commit-returns-other-root:%s| Commit(%x) returned %x, %v", s.cfg.Name, v.root, got, err)
			}
			r.Seen("outcomes", "commit:equal:"+s.situation())
			if find(s.committed, v.root) < 0 {
				s.committed = append(s.committed, v)
			}
			s.allCommits = append(s.allCommits, v)
			s.markAlias()
			return ""
		}
		var got []byte
		var err error
		if perr := vx.Catch(func() { got, err = s.st.Rollback(&types.ReqHash{Hash: v.root}) }); perr != "" {
			return known("rollback", perr)
		}
		if err != nil || !bytes.Equal(got, v.root) {
			return fmt.Sprintf("rollback-fails:%s| Rollback(%x) returned %x, %v", s.cfg.Name, v.root, got, err)
		}
		r.Seen("outcomes", "rollback:"+s.situation())
		return ""
	}
	q.Check = func(s *sys) string {
		if s.poisoned {
			return ""
		}
		// the store's own list of pending updates must be the model's (keeps the harness honest about
		// which updates are pending; a leak here is C04's subject and is reported as a harness error)
		var want []string
		for _, p := range s.pending {
			want = append(want, string(p.root))
		}
		sort.Strings(want)
		if got := s.st.VerifPending(); fmt.Sprint(got) != fmt.Sprint(want) {
			return fmt.Sprintf("pending-set-differs:%s| store holds %d pending trees, history implies %d", s.cfg.Name, len(got), len(want))
		}
		return ""
	}
	q.Canon = func(s *sys) string {
		if s.poisoned {
			return "poisoned"
		}
		parts := []interface{}{"c"}
		for _, v := range s.committed {
			parts = append(parts, v.root)
		}
		parts = append(parts, "p")
		for _, v := range s.pending {
			parts = append(parts, v.root, v.depth)
		}
		parts = append(parts, mvx.DumpKey(s.st.GetDB()), mavldb.VerifGlobalCacheKey())
		return vx.H(parts...)
	}
	q.FP = func(what string, hist []int) string {
		if i := strings.Index(what, "|"); i > 0 {
			return "root:" + what[:i]
		}
		return "root:" + vx.Norm(what, 40)
	}
	return q
}

func configs() (l []mvx.Cfg) {
	for _, base := range []mvx.Cfg{{Name: "plain"}, {Name: "prefix", Prefix: true}, {Name: "prune", Prefix: true, Prune: true, PruneHeight: 10000}} {
		for _, mem := range []int{0, 1, 2} {
			for _, mvcc := range []bool{false, true} {
				c := base
				c.MVCC = mvcc
				c.MemTree, c.MemVal = mem >= 1, mem == 2
				if mem == 1 {
					c.Name += "+memTree"
				} else if mem == 2 {
					c.Name += "+memTree+memVal"
				}
				if mvcc {
					c.Name += "+mvcc"
				}
				l = append(l, c)
			}
		}
	}
	return
}

func main() {
	r := vx.Start("C02", "model_checking")
	run = r
	clog.SetLogLevel("crit")
	r.QuietStderr()
	debug.SetGCPercent(400)
	r.DistinctSet = "outcomes"
	r.Rule = "per sub-configuration (3 bases plain/prefix/prune x {no cache, memTree, memTree+memVal} x {MVCC off,on} = 18): BFS over all histories of {Set(parent,W), MemSet(parent,W), Commit(oldest|newest pending), Rollback(oldest|newest pending)} with parent in {empty root, newest committed(, oldest committed)} and W from ordered write lists over prefix-sharing keys (1-5 writes, overwrites, a closed ticket); block height of an update = number of updates from the empty root, so forks reuse heights. state = (committed roots, pending roots+heights, raw database, content of the global caches, maxBlockHeight). Every root returned is compared with the root a fresh plain-configuration store computes for the same write chain by direct Sets. distinct = (mode, situation) classes in which equality was observed"
	r.Assume = []string{"parents are committed roots (the statement speaks of committed state roots); updates on a pending parent are not issued", "write lists are non-empty", "pruning itself does not run (interval 10000): deleting state is C05's subject", "one Store per process: configurations are explored in separate executions with the package globals reset in between"}
	cfgs := configs()
	mk := func(c mvx.Cfg) harness {
		memG := c.MemTree
		if r.Quick() {
			if memG {
				return harness{c, 2, 7, 4}
			}
			return harness{c, 2, 7, 4}
		}
		return harness{c, 3, 8, 4}
	}
	if raw, ok := r.Replaying(); ok {
		var c struct {
			Harness string
			Hist    []int
		}
		json.Unmarshal(raw, &c)
		f := "unknown harness " + c.Harness
		for _, cfg := range cfgs {
			if cfg.Name == c.Harness {
				f = mk(cfg).seq(r).ReplayHist(c.Hist)
			}
		}
		if f != "" {
			fmt.Println("replay: FAIL", f)
			r.Violate("replay", f, c, nil)
		} else {
			fmt.Println("replay: ok")
		}
		r.Finish()
	}
	if r.Fork(r.Pick(6, 9)) {
		if r.Counter("violating_cases") == 0 {
			r.Floors["states"] = 2000
			r.Floors["outcomes"] = 8
		}
		r.Finish()
	}
	for i, c := range cfgs {
		if !r.Mine(i) {
			continue
		}
		if o := os.Getenv("C02_ONLY"); o != "" && o != c.Name {
			continue
		}
		mk(c).seq(r).Explore()
	}
	r.Finish()
}

// containsAny reports whether f contains one of the comma-separated substrings.
func containsAny(f, list string) bool {
	for _, s := range strings.Split(list, ",") {
		if s != "" && strings.Contains(f, s) {
			return true
		}
	}
	return false
}
