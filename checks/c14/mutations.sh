#!/bin/bash
# runs the C14 mutation demonstrations; prints the fingerprints each mutant produced
cd /verif
m() { echo "=== $1"; shift; tools/mut.sh C14 "$@" 2>&1 | grep -o 'what: \[[^]]*\]\|mutant exit=.*\|pattern matches.*\|HARNESS[^ ]* .*' | sort | uniq -c; }
m "M1 addrindex ExecDelLocal does not decrement the receiver's count" executor/plugin_addrindex.go 'txindex\.to, 1, false\)' 'txindex.to, 0, false)'
m "M2 addrindex ExecDelLocal decrements once when from == to" executor/plugin_addrindex.go 'txindex\.to, 1, false\)' 'txindex.to, map[bool]int64{true: 0, false: 1}[txindex.to == txindex.from], false)'
m "M3 procExecDelBlock iterates forward" executor/executor.go 'for i := len\(b\.Txs\) - 1; i >= 0; i-- \{' 'for i := 0; i < len(b.Txs); i++ {'
m "M4 txindex ExecDelLocal keeps the values (no delete)" executor/plugin_txindex.go 'kvdel\[k\]\.Value = nil' '_ = kvdel[k]'
m "M5 addrfeeindex ExecDelLocal removes the to-direction key" executor/plugin_addrfeeindex.go '(//del: addr index.*?)drivers\.TxIndexFrom' '\1drivers.TxIndexTo'
m "M6 fee ExecDelLocal removes the parent's total instead of the block's" executor/plugin_fee.go 'delFee\(executor, data\.Block\.Hash\(executor\.api\.GetConfig\(\)\)\)' 'delFee(executor, data.Block.ParentHash)'
m "M7 mvcc DelMVCC keeps the data records" common/db/mvcc.go 'for _, v := range kvs \{\n\t\tkv, err := m\.GetDelKV' 'for _, v := range kvs[:0] {\n\t\tkv, err := m.GetDelKV'
