package main

import (
	"fmt"
	"sort"

	clog "github.com/33cn/chain33/common/log"
	"verif/vnode"
	"verif/vnode/lidx"
	"verif/vx"
)

func main() {
	r := vx.Start("C14", "model_checking")
	clog.SetLogLevel("crit")
	r.QuietStderr()
	env, err := lidx.NewEnv(lidx.Options{})
	if err != nil {
		fmt.Println("HARNESS-ERROR", err)
		for _, op := range env.P.Snapshot()["blockchain"] {
			fmt.Printf("%q = %d bytes\n", op.K, len(op.V))
		}
		r.Finish()
	}
	fam := map[string]int{}
	for _, op := range env.Snap["blockchain"] {
		fam[vnode.Family(op.K)]++
	}
	var fs []string
	for f, n := range fam {
		fs = append(fs, fmt.Sprintf("%s=%d", f, n))
	}
	sort.Strings(fs)
	fmt.Println(fs)
	for _, op := range env.Snap["blockchain"] {
		f := vnode.Family(op.K)
		if f != "CHAIN-" && f != ".-" {
			fmt.Printf("%q = %d bytes\n", op.K, len(op.V))
		}
	}
	env.P.Close()
	r.Finish()
}
