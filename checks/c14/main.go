// C14 — local indexes are exactly undone when a block is removed.
// For every block B of the alphabet on top of 0-2 prefix blocks, a real node (all local-index plugins
// on) connects B and is then made to disconnect it by a heavier sibling block S (chain
// reorganisation: disconnectBlock -> DelTxs -> EventDelBlock). What remains must equal a reference
// node that never saw B: every local-index key family of the blockchain database and every public
// local query.
package main

import (
	"bytes"
	"encoding/json"
	"fmt"
	"os"
	"sort"
	"strings"

	"github.com/33cn/chain33/common/address"
	clog "github.com/33cn/chain33/common/log"
	cty "github.com/33cn/chain33/system/dapp/coins/types"
	"github.com/33cn/chain33/types"
	"verif/vnode"
	"verif/vnode/lidx"
	"verif/vnode/lidx/vlx"
	"verif/vnode/treex"
	"verif/vx"
)

type kase struct {
	Config  string `json:"config"`
	Prefix  int    `json:"prefix_blocks"`
	Sibling int    `json:"sibling"`
	Block   string `json:"block"`
}

var siblingNames = []string{"S0[G->E]", "S1[A->D,G->C]", "S2[G->E;8x work;B buried under a filler block]"}

// heavyBits has about eight times the work of treex.Bits[0].
const heavyBits = 0x1f001fff

// mvccKeyList is the record family "key list of a version" of the mvcc plugin.
const mvccKeyList = ".-mvcc-.m.versionkl."

func siblingTxs(e *lidx.Env, i int) []*types.Transaction {
	if i != 1 {
		return []*types.Transaction{e.Transfer(lidx.G, lidx.E, 77)}
	}
	return []*types.Transaction{e.Transfer(lidx.A, lidx.D, 78), e.Transfer(lidx.G, lidx.C, 79)}
}

func hashesOf(cfg *types.Chain33Config, blocks ...*types.Block) (bh, sh, th [][]byte) {
	for _, b := range blocks {
		bh = append(bh, b.Hash(cfg))
		sh = append(sh, b.StateHash)
		for _, tx := range b.Txs {
			th = append(th, tx.Hash())
		}
	}
	return
}

var (
	r      *vx.Run
	replay *kase
	item   int
	debug  = os.Getenv("C14_DEBUG") != ""
)

func main() {
	r = vx.Start("C14", "model_checking")
	clog.SetLogLevel("crit")
	r.QuietStderr()
	r.Rule = "configuration in {mvcc plugin on, off} (txindex, addrindex, addrfeeindex, fee, stat always on) x chain = 12-block trunk + k prefix blocks (k = 0,1,2) + block B from the alphabet (coins transfer to a known / never-seen / own address, several receivers, same pair twice, sender that is also receiver, receiver that spends in the same block, transfer failing for lack of balance, none, manage Modify by the super manager, manage Apply (local table with rollback log), group of two succeeding and failing, mixtures; 1-3 transactions; plus three blocks of a synthetic executor whose local data is an order-sensitive stack) x how B is removed in {lighter B replaced by a sibling S on disjoint addresses, by a sibling on overlapping addresses incl. the never-seen one, B buried under one more block and both replaced by a much heavier S}; a fresh real node connects prefix and B, then receives S (reorganisation disconnects B and connects S); oracle: every key of the blockchain database outside hash-addressed block storage and the sequence log, and every public local query, equal to a node that received prefix and S only. state = (configuration, k, removal, B); distinct = (state, index families B had changed) classes"
	r.Assume = []string{
		"hash-addressed block storage (CHAIN-, TD:) and the sequence log (Seq:, HashToSeq:, LastSequence) legitimately keep the disconnected block and are not compared",
		"records left behind that no listed query can tell from an absent record are counted and noted, not reported: a counter record holding zero, and the mvcc plugin's key list of a removed version (rewritten by the next block of that height before anything reads it)",
		"with the mvcc plugin on ([exec] enableMVCC=true) the executor reads state through the local DB while local reads are disabled during Exec, so balances on that configuration are odd but deterministic; the configuration is kept because it is the only way to exercise AddMVCC/DelMVCC, and every block is also run with the plugin off",
		"the solo miner is kept idle (poll interval far above the run time), otherwise it re-mines the transactions a reorganisation returns to the pool when a case is stalled for a second",
	}
	if raw, ok := r.Replaying(); ok {
		replay = &kase{}
		if err := json.Unmarshal(raw, replay); err != nil {
			fmt.Println("REPLAY-ERROR", err)
			r.Finish()
		}
	} else if r.Fork(8) {
		r.Floors["executions"] = 100
		r.Floors["distinct"] = 60
		r.Floors["families_changed_by_B"] = 8
		r.Floors["queries_changed_by_B"] = 8
		r.Floors["receipt_kinds"] = 4
		r.Finish()
	}
	all := []int{0, 1, 2}
	// mvcc plugin on (falls back to off when the tree cannot run blocks with it)
	envOn, err := lidx.NewEnv(lidx.Options{})
	if err != nil {
		fmt.Println("HARNESS-ERROR", err)
		r.Note("harness error: %v", err)
		r.Finish()
	}
	if envOn.MVCCNote != "" {
		r.Note("%s", envOn.MVCCNote)
		r.Note("multi-version state is therefore not exercised in this run (the other plugins are)")
	}
	r.Extra["mvcc_plugin_exercised"] = envOn.MVCC
	if envOn.MVCC {
		run(envOn, "mvcc-on", all)
		envOn.P.Close()
		envOff, err := lidx.NewEnv(lidx.Options{NoMVCC: true})
		if err != nil {
			fmt.Println("HARNESS-ERROR", err)
			r.Note("harness error: %v", err)
			r.Finish()
		}
		sib := all
		if r.Quick() {
			sib = []int{1, 2}
		}
		run(envOff, "mvcc-off", sib)
		envOff.P.Close()
	} else {
		run(envOn, "mvcc-off", all)
		envOn.P.Close()
	}
	r.Finish()
}

func run(env *lidx.Env, cfgName string, siblings []int) {
	// prefix blocks, connected on the producer
	prefix := []*types.Block{}
	ptxs := [][]*types.Transaction{
		{env.Transfer(lidx.A, lidx.D, 1), env.Transfer(lidx.G, lidx.B, 2*lidx.Fee)},
		{env.Transfer(lidx.E, lidx.A, 3), env.None(lidx.A), env.Vlx(lidx.A, "p")},
	}
	parent := env.Tip()
	for i, txs := range ptxs {
		b, err := env.Make(parent, txs, treex.Bits[0])
		if err == nil {
			err = env.P.Deliver(vnode.Broadcast, b, "prefix")
		}
		if err != nil {
			fmt.Println("HARNESS-ERROR prefix block", i, err)
			r.Finish()
		}
		prefix = append(prefix, b)
		parent = b
	}
	forkAt := func(k int) *types.Block {
		if k == 0 {
			return env.Tip()
		}
		return prefix[k-1]
	}
	addrs := append([]string{}, lidx.Addrs[:]...)
	addrs = append(addrs, address.ExecAddress("none"), address.ExecAddress("manage"), address.ExecAddress("coins"), vlx.Addr())
	specs := lidx.Alphabet()
	if !r.Quick() {
		specs = lidx.AllBlocks(3) // every multiset of <= 3 transactions over ten kinds
	}
	specs = append(specs, lidx.Synthetic()...)
	for k := 0; k <= 2; k++ {
		for _, si := range siblings {
			F := forkAt(k)
			// work of this shard in this (k, sibling) group
			var mine []lidx.Spec
			for _, sp := range specs {
				item++
				if replay != nil {
					if replay.Config == cfgName && replay.Prefix == k && replay.Sibling == si && replay.Block == sp.Name {
						mine = append(mine, sp)
					}
				} else if r.Mine(item) {
					mine = append(mine, sp)
				}
			}
			if len(mine) == 0 {
				continue
			}
			sbits := treex.Bits[1]
			if si == 2 {
				sbits = heavyBits
			}
			S, err := env.Make(F, siblingTxs(env, si), sbits)
			if err != nil || len(S.Txs) == 0 {
				fmt.Println("HARNESS-ERROR sibling", err)
				r.Finish()
			}
			// reference: prefix + S only
			ref := env.Fresh()
			for _, p := range prefix[:k] {
				if err := ref.Deliver(vnode.Broadcast, p, "peer"); err != nil {
					r.Note("reference refused a prefix block: %v", err)
				}
			}
			if err := ref.Deliver(vnode.Broadcast, S, "peer"); err != nil {
				r.Note("reference refused the sibling: %v", err)
			}
			refDump := lidx.LocalDump(ref)
			for _, sp := range mine {
				if r.Expired("cases") {
					break
				}
				one(env, cfgName, k, si, sp, F, S, prefix[:k], ref, refDump, addrs)
			}
			ref.Close()
			ref.Forget()
		}
	}
}

func one(env *lidx.Env, cfgName string, k, si int, sp lidx.Spec, F, S *types.Block, prefix []*types.Block, ref *vnode.Node, refDump map[string]string, addrs []string) {
	cfg := env.Cfg
	kc := kase{Config: cfgName, Prefix: k, Sibling: si, Block: sp.Name}
	name := fmt.Sprintf("%s prefix=%d removal=%s B=%s", cfgName, k, siblingNames[si], sp.Name)
	B, err := env.Make(F, sp.Txs(env), treex.Bits[0])
	if err != nil || len(B.Txs) == 0 {
		r.Note("%s: block could not be produced: %v", name, err)
		r.Count("blocks_not_producible", 1)
		return
	}
	blocks := append(append([]*types.Block{env.Tip()}, prefix...), B, S)
	bh, sh, th := hashesOf(cfg, blocks...)
	probe := lidx.Probe{Addrs: addrs, Txs: th, Blocks: bh, States: sh, Manage: []string{lidx.ManageKey}}
	n := env.Fresh()
	defer func() {
		n.Close()
		n.Forget()
	}()
	for _, p := range prefix {
		if err := n.Deliver(vnode.Broadcast, p, "peer"); err != nil {
			r.Note("%s: prefix block refused: %v", name, err)
		}
	}
	before := lidx.LocalDump(n)
	viewBefore := lidx.LocalView(n, env, probe)
	if err := n.Deliver(vnode.Broadcast, B, "peer"); err != nil {
		r.Note("%s: B refused: %v", name, err)
		r.Count("blocks_refused", 1)
		return
	}
	if lh, _ := n.Chain.ProcGetLastHeaderMsg(); lh == nil || !bytes.Equal(lh.Hash, B.Hash(cfg)) {
		r.Note("%s: B is not the tip after its delivery", name)
		r.Count("blocks_refused", 1)
		return
	}
	// amounts of failed coins transfers per receiver (to recognise one known defect class)
	failedTo := map[string]int64{}
	if d, err := n.Chain.GetBlock(B.Height); err == nil && len(d.Receipts) == len(d.Block.Txs) {
		for i, tx := range d.Block.Txs {
			r.Seen("receipt_kinds", fmt.Sprintf("%s ty=%d", tx.Execer, d.Receipts[i].Ty))
			var act cty.CoinsAction
			if string(tx.Execer) == "coins" && d.Receipts[i].Ty != types.ExecOk && types.Decode(tx.Payload, &act) == nil && act.GetTransfer() != nil {
				failedTo[tx.GetRealToAddr()] += act.GetTransfer().Amount
			}
		}
	}
	withB := lidx.LocalDump(n)
	viewWithB := lidx.LocalView(n, env, probe)
	// what B changed (vacuity guard and the distinct class)
	fams := map[string]bool{}
	for _, d := range lidx.DiffDump(before, withB) {
		fams[d.Family] = true
		r.Seen("families_changed_by_B", d.Family)
	}
	for _, d := range viewWithB.Diff(viewBefore, 1000) {
		r.Seen("queries_changed_by_B", lidx.QueryClass(strings.SplitN(d, ":", 2)[0]))
	}
	if si == 2 {
		// bury B under a filler block produced and connected on the subject itself
		T, err := vnode.MakeBlock(n, B, []*types.Transaction{env.Transfer(lidx.G, lidx.E, 55)}, treex.Bits[0], 0)
		if err == nil {
			err = n.Deliver(vnode.Broadcast, T, "peer")
		}
		if err != nil || n.Chain.GetBlockHeight() != B.Height+1 {
			r.Note("%s: filler block on top of B failed: %v", name, err)
			return
		}
		_, _, tth := hashesOf(cfg, T)
		probe.Txs = append(probe.Txs, tth...)
		probe.Blocks = append(probe.Blocks, T.Hash(cfg))
		probe.States = append(probe.States, T.StateHash)
	}
	if err := n.Deliver(vnode.Broadcast, S, "peer"); err != nil {
		r.Note("%s: sibling refused: %v", name, err)
	}
	if lh, _ := n.Chain.ProcGetLastHeaderMsg(); lh == nil || !bytes.Equal(lh.Hash, S.Hash(cfg)) {
		r.Violate("no-reorganisation", name+": the heavier sibling did not become the tip", kc, nil)
		return
	}
	after := lidx.LocalDump(n)
	viewAfter := lidx.LocalView(n, env, probe)
	viewRef := lidx.LocalView(ref, env, probe)
	r.Count("executions", 1)
	r.Count("transitions", int64(k+2))
	r.Seen("states", name)
	var fl []string
	for f := range fams {
		fl = append(fl, f)
	}
	sort.Strings(fl)
	r.Seen("distinct", fmt.Sprintf("%s -> %s", name, strings.Join(fl, " ")))
	allq := viewAfter.Diff(viewRef, 1000)
	raw := lidx.DiffDump(refDump, after)
	if replay != nil || (debug && len(allq)+len(raw) > 0) {
		fmt.Printf("CASE %s: B at height %d with %d txs\n", name, B.Height, len(B.Txs))
		for _, d := range raw {
			fmt.Println("  record:", d.String())
		}
		for _, d := range allq {
			key := strings.SplitN(d, ":", 2)[0]
			fmt.Printf("  query: %s (%q vs %q)\n", d, clip(viewAfter[key]), clip(viewRef[key]))
		}
	}
	// oracle 1: public queries
	shown := allq
	if len(shown) > 8 {
		shown = shown[:8]
	}
	for _, d := range allq {
		key := strings.SplitN(d, ":", 2)[0]
		fp := "query-not-restored:" + lidx.QueryClass(key)
		if why := failedCredit(key, viewAfter[key], viewRef[key], addrs, failedTo); why != "" {
			fp = why
		}
		r.Violate(fp, fmt.Sprintf("[%s] %s: after B was disconnected the query %s answers differently from a node that never saw B (%q vs %q); all differing: %s", fp, name, key, clip(viewAfter[key]), clip(viewRef[key]), strings.Join(shown, "; ")), kc, nil)
	}
	// oracle 2: raw local-index records
	for _, d := range raw {
		if d.Zero() {
			r.Count("zero_counter_records_left_behind", 1)
			r.Seen("zero_counter_families", d.Family)
			if len(allq) == 0 {
				r.Note("raw residue (counted, not reported): after %s a zero-valued record stays under %s where the reference node has none; none of the listed queries can tell it from an absent record", sp.Name, d.Family)
			}
			continue
		}
		if d.Kind == "extra" && strings.HasPrefix(d.Key, mvccKeyList) {
			r.Count("mvcc_keylists_of_removed_versions_left_behind", 1)
			r.Note("raw residue (counted, not reported): the mvcc key list %q of the removed version stays behind; it is rewritten before it can be read again and no multi-version read looks at it", mvccKeyList+"<version>")
			continue
		}
		fp := "record-not-restored:" + d.Family + ":" + d.Kind
		if strings.HasPrefix(d.Key, "LODB-coins-Addr:") {
			if why := failedCreditRaw(strings.TrimPrefix(d.Key, "LODB-coins-Addr:"), d.Got, d.Ref, failedTo); why != "" {
				fp = why
			}
		}
		r.Violate(fp, fmt.Sprintf("[%s] %s: after B was disconnected the blockchain database differs from a node that never saw B: %s", fp, name, d), kc, nil)
	}
	r.SampleN(6, map[string]interface{}{"case": kc, "families_changed_by_B": fl, "txs_in_B": len(B.Txs)})
}

func clip(s string) string {
	if len(s) > 60 {
		return s[:60] + "..."
	}
	return s
}

const fpFailedCredit = "coins-received-total:failed-transfer-credited-on-add-not-debited-on-remove"

func int64Of(b string) (int64, bool) {
	var v types.Int64
	if types.Decode([]byte(b), &v) != nil {
		return 0, false
	}
	return v.Data, true
}

// failedCreditRaw recognises the residue of one known defect class: the coins executor's local
// "received" total of an address is higher than the reference by exactly the amounts of the failed
// (ExecPack) transfers that B addressed to it.
func failedCreditRaw(addr, got, ref string, failedTo map[string]int64) string {
	g, ok1 := int64Of(got)
	w, ok2 := int64Of(ref)
	if ok1 && ok2 && failedTo[addr] != 0 && g-w == failedTo[addr] {
		return fpFailedCredit
	}
	return ""
}

func failedCredit(key, got, ref string, addrs []string, failedTo map[string]int64) string {
	if !strings.HasPrefix(key, "addr#") || !strings.HasPrefix(got, "OK ") {
		return ""
	}
	var ai int
	var rest string
	if _, err := fmt.Sscanf(strings.Replace(key, "/", " ", 1), "addr#%d %s", &ai, &rest); err != nil || ai >= len(addrs) {
		return ""
	}
	got = strings.TrimPrefix(got, "OK ")
	if strings.HasPrefix(ref, "ERR ") {
		ref = "" // no record: received total 0
	} else {
		ref = strings.TrimPrefix(ref, "OK ")
	}
	switch rest {
	case "coins-local-received":
		return failedCreditRaw(addrs[ai], got, ref, failedTo)
	case "overview":
		var g, w types.AddrOverview
		if types.Decode([]byte(got), &g) == nil && types.Decode([]byte(ref), &w) == nil && g.TxCount == w.TxCount && g.Balance == w.Balance &&
			failedTo[addrs[ai]] != 0 && g.Reciver-w.Reciver == failedTo[addrs[ai]] {
			return fpFailedCredit
		}
	}
	return ""
}
