// C39 — RPC access control holds for every request shape (driver, stage 0).
//
// The JSON-RPC handler of chain33 is a closure built inside JSONRPCServer.Listen and handed
// straight to http.Serve on a listener obtained from net.Listen, so no add-only shim can reach it.
// This driver therefore regenerates, from the tree as it is on disk right now, copies of
// rpc/http.go and rpc/ethrpc/rpc.go in which `net.Listen(` reads `verifListen(` (a seam defined by
// the export shims overlay/rpc/zz_verif_c39.go and overlay/rpc/ethrpc/zz_verif_c39.go), adds them
// to the build overlay, builds checks/c39/stage1 against them and runs it. Nothing else of the
// files changes; if the pattern is gone the run ends with HARNESS-BUILD-ERROR (exit 2).
// The check proper is checks/c39/stage1/main.go.
package main

import (
	"encoding/json"
	"fmt"
	"os"
	"os/exec"
	"path/filepath"
	"strings"
	"syscall"
)

func die(f string, a ...interface{}) {
	fmt.Printf("HARNESS-BUILD-ERROR C39 "+f+"\n", a...)
	os.Exit(2)
}

func main() {
	root := os.Getenv("VERIF_ROOT")
	if root == "" {
		root = "/verif"
	}
	repo, w, bin, modflag := "/repo", filepath.Join(root, ".work", "c39"), filepath.Join(root, "bin", "c39-stage1"), ""
	if r := os.Getenv("VERIF_REPO"); r != "" {
		abs, err := filepath.Abs(r)
		if err != nil {
			die("%v", err)
		}
		repo = abs
		tag := strings.ReplaceAll(repo, "/", "_")
		w = filepath.Join(root, ".work", "c39", "mut"+tag)
		bin = filepath.Join(root, "bin", "c39-stage1-mut"+tag)
		modflag = "-modfile=" + filepath.Join(w, "go.mod")
	}
	var ov struct {
		Replace map[string]string `json:"Replace"`
	}
	b, err := os.ReadFile(filepath.Join(w, "overlay.json"))
	if err != nil {
		die("no overlay written by run.sh: %v", err)
	}
	if err := json.Unmarshal(b, &ov); err != nil {
		die("overlay.json: %v", err)
	}
	gen := filepath.Join(w, "stage1-src")
	os.RemoveAll(gen)
	os.MkdirAll(gen, 0o755)
	for _, rel := range []string{"rpc/http.go", "rpc/ethrpc/rpc.go"} {
		src, err := os.ReadFile(filepath.Join(repo, rel))
		if err != nil {
			die("%v", err)
		}
		s := string(src)
		if strings.Count(s, "net.Listen(") == 0 {
			die("%s no longer calls net.Listen( — the listener seam must be revisited", rel)
		}
		s = strings.ReplaceAll(s, "net.Listen(", "verifListen(")
		s += "\n// (C39 seam) keeps the import used whatever else the file does with it\nvar _ net.Listener\n"
		out := filepath.Join(gen, strings.ReplaceAll(rel, "/", "_"))
		if err := os.WriteFile(out, []byte(s), 0o644); err != nil {
			die("%v", err)
		}
		ov.Replace[filepath.Join(repo, rel)] = out
	}
	ob, _ := json.MarshalIndent(ov, "", " ")
	ovp := filepath.Join(w, "overlay-stage1.json")
	if err := os.WriteFile(ovp, ob, 0o644); err != nil {
		die("%v", err)
	}
	args := []string{"build"}
	if modflag != "" {
		args = append(args, modflag)
	}
	args = append(args, "-trimpath", "-tags", "verif", "-overlay", ovp, "-o", bin, "./checks/c39/stage1")
	cmd := exec.Command("go", args...)
	cmd.Dir = root
	cmd.Env = append(os.Environ(), "GOFLAGS=-mod=mod", "GOPROXY=off", "GOSUMDB=off", "GOTOOLCHAIN=local")
	if out, err := cmd.CombinedOutput(); err != nil {
		t := string(out)
		if len(t) > 4000 {
			t = t[len(t)-4000:]
		}
		die("stage1 does not build: %v\n%s", err, t)
	}
	if err := syscall.Exec(bin, append([]string{bin}, os.Args[1:]...), os.Environ()); err != nil {
		die("exec: %v", err)
	}
}
