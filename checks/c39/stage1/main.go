// C39 — RPC access control holds for every request shape (the check proper; built and started by
// checks/c39/main.go against regenerated copies of rpc/http.go and rpc/ethrpc/rpc.go whose
// net.Listen calls go through a seam).
//
// The REAL servers are started by the real rpc.RPC.Listen(): JSONRPCServer.Listen (its handler
// closure, rs/cors, net/http, net/rpc/jsonrpc), Grpcserver.Listen (the grpc.Server exactly as
// NewGRpcServer configures it, with the real Chain33 service), ethrpc httpServer.Start (http and
// websocket endpoints). Their listeners are in-memory; every accepted connection reports the
// remote address the harness chose. The node behind them is a recording stub of
// client.QueueProtocolAPI: "the method ran" = the handler called into the node (or answered
// without error).
//
//	E1  1024 IP-list configurations (whitelist x whitlist, each a subset of
//	    {"*","0.0.0.0","1.2.3.4","::1","2001:db8::1"}) x 5 remote addresses x
//	    {JSON-RPC IsSync, gRPC IsSync (unary), gRPC SubEvent (streaming), eth http, eth ws}
//	E2  JSON-RPC: function whitelists x blacklists x basic-auth configurations x Authorization
//	    header variants x request shapes (method spellings, duplicate / case-variant / escaped
//	    keys, params and id forms, extra fields, trailing data, batch, BOM, gzip, chunked, HTTP
//	    method and path variants) x {whitelisted, other} remote
//	E3  gRPC: EVERY method of the Chain33 service descriptor (unary and streaming) x
//	    {open, not-whitelisted address, function not whitelisted, function blacklisted} and
//	    full-method spellings
//
// Oracle (the statement, read permissively so that it never demands more): a probe method that
// ran must have been permitted — address on either configured list or a wildcard ("*" or
// "0.0.0.0") on either list, function whitelisted (list empty, "*", or the name) and not
// blacklisted, right credentials when basic auth is configured. And, whenever a non-empty list is
// configured under either key, the eth endpoints admit exactly the addresses JSON-RPC and gRPC admit.
package main

import (
	"bytes"
	"compress/gzip"
	"context"
	"encoding/base64"
	"encoding/json"
	"errors"
	"fmt"
	"io"
	"net"
	"net/http"
	"reflect"
	"sort"
	"strconv"
	"strings"
	"sync"
	"time"

	"github.com/33cn/chain33/client"
	"github.com/33cn/chain33/client/mocks"
	clog "github.com/33cn/chain33/common/log"
	"github.com/33cn/chain33/queue"
	"github.com/33cn/chain33/rpc"
	"github.com/33cn/chain33/rpc/ethrpc"
	"github.com/33cn/chain33/types"
	"github.com/stretchr/testify/mock"
	"google.golang.org/grpc"
	"google.golang.org/grpc/credentials/insecure"
	"google.golang.org/grpc/grpclog"
	"google.golang.org/grpc/test/bufconn"
	"verif/vx"
)

// ---------------------------------------------------------------- in-memory network

type memLis struct {
	bl   *bufconn.Listener
	addr *net.TCPAddr
	mu   sync.Mutex
	next chan net.Addr
	ack  chan struct{}
}

type addrConn struct {
	net.Conn
	remote, local net.Addr
}

func (c *addrConn) RemoteAddr() net.Addr { return c.remote }
func (c *addrConn) LocalAddr() net.Addr  { return c.local }

func (l *memLis) Accept() (net.Conn, error) {
	c, err := l.bl.Accept()
	if err != nil {
		return nil, err
	}
	r := <-l.next
	l.ack <- struct{}{}
	return &addrConn{Conn: c, remote: r, local: l.addr}, nil
}
func (l *memLis) Close() error   { return l.bl.Close() }
func (l *memLis) Addr() net.Addr { return l.addr }

// Dial opens a connection that the server will see as coming from remote.
func (l *memLis) Dial(remote net.Addr) (net.Conn, error) {
	l.mu.Lock()
	defer l.mu.Unlock()
	l.next <- remote
	c, err := l.bl.Dial()
	if err != nil {
		<-l.next
		return nil, err
	}
	<-l.ack
	return c, nil
}

var (
	lisMu sync.Mutex
	lis   = map[string]*memLis{}
)

func memListen(network, addr string) (net.Listener, error) {
	lisMu.Lock()
	defer lisMu.Unlock()
	host, ps, err := net.SplitHostPort(addr)
	if err != nil {
		return nil, err
	}
	port, _ := strconv.Atoi(ps)
	l := &memLis{bl: bufconn.Listen(1 << 20), addr: &net.TCPAddr{IP: net.IPv4(10, 0, 0, 1), Port: port}, next: make(chan net.Addr, 1), ack: make(chan struct{})}
	lis[host] = l
	return l, nil
}

// ---------------------------------------------------------------- recording node stub

type recorder struct {
	mu    sync.Mutex
	calls []string
}

func (r *recorder) add(n string) {
	r.mu.Lock()
	r.calls = append(r.calls, n)
	r.mu.Unlock()
}
func (r *recorder) take() []string {
	r.mu.Lock()
	defer r.mu.Unlock()
	c := r.calls
	r.calls = nil
	return c
}

var errProbe = errors.New("verif-probe-node-answer")

func newAPI(cfg *types.Chain33Config, rec *recorder) *mocks.QueueProtocolAPI {
	api := new(mocks.QueueProtocolAPI)
	it := reflect.TypeOf((*client.QueueProtocolAPI)(nil)).Elem()
	errT := reflect.TypeOf((*error)(nil)).Elem()
	for i := 0; i < it.NumMethod(); i++ {
		m := it.Method(i)
		name := m.Name
		args := make([]interface{}, m.Type.NumIn())
		for j := range args {
			args[j] = mock.Anything
		}
		var rets []interface{}
		for j := 0; j < m.Type.NumOut(); j++ {
			o := m.Type.Out(j)
			switch {
			case o.Implements(errT):
				rets = append(rets, errProbe)
			case name == "GetConfig":
				rets = append(rets, cfg)
			case o.Kind() == reflect.Ptr || o.Kind() == reflect.Interface || o.Kind() == reflect.Slice || o.Kind() == reflect.Map:
				rets = append(rets, nil)
			default:
				rets = append(rets, reflect.Zero(o).Interface())
			}
		}
		c := api.On(name, args...)
		if name != "GetConfig" && name != "NewMessage" {
			n := name
			c.Run(func(mock.Arguments) { rec.add(n) })
		}
		c.Return(rets...)
	}
	return api
}

// ---------------------------------------------------------------- the system under test

var (
	rec     = &recorder{}
	rcfg    *types.RPC
	cfg     *types.Chain33Config
	server  *rpc.RPC
	remotes = []*net.TCPAddr{
		{IP: net.IPv4(1, 2, 3, 4).To4(), Port: 40001},
		{IP: net.IPv4(5, 6, 7, 8).To4(), Port: 40002},
		{IP: net.ParseIP("::ffff:1.2.3.4"), Port: 40003},
		{IP: net.ParseIP("2001:db8::1"), Port: 40004},
		{IP: net.ParseIP("fe80::1"), Zone: "eth0", Port: 40005},
	}
	remoteNames = []string{"1.2.3.4", "5.6.7.8", "::ffff:1.2.3.4", "2001:db8::1", "fe80::1%eth0"}
	universe    = []string{"*", "0.0.0.0", "1.2.3.4", "::1", "2001:db8::1"}
	httpClients = map[string]*http.Client{}
	grpcConns   = map[int]*grpc.ClientConn{}
	grpcMethods []grpc.MethodInfo
)

// how a remote is written in a whitelist that means it
func remoteListed(i int) string {
	switch i {
	case 0, 2:
		return "1.2.3.4"
	case 1:
		return "5.6.7.8"
	case 3:
		return "2001:db8::1"
	}
	return "fe80::1%eth0"
}

func has(l []string, s string) bool {
	for _, e := range l {
		if e == s {
			return true
		}
	}
	return false
}

// ipPermitted is the most permissive reading of "on the configured IP whitelist (or the whitelist is
// a wildcard)": either key counts, "*" and "0.0.0.0" anywhere in a list count as wildcard, and with
// no list at all nothing is demanded.
func ipPermitted(w, w2 []string, remote int) bool {
	if len(w) == 0 && len(w2) == 0 {
		return true
	}
	for _, l := range [][]string{w, w2} {
		if has(l, "*") || has(l, "0.0.0.0") || has(l, remoteListed(remote)) {
			return true
		}
	}
	return false
}

func funcPermitted(white, black []string, f string) bool {
	if has(black, f) {
		return false
	}
	return len(white) == 0 || has(white, "*") || has(white, f)
}

func setup() {
	clog.SetLogLevel("crit")
	grpclog.SetLoggerV2(grpclog.NewLoggerV2(io.Discard, io.Discard, io.Discard))
	rpc.VerifListen = memListen
	ethrpc.VerifListen = memListen
	s := types.GetDefaultCfgstring()
	rep := func(old, new string) {
		if strings.Count(s, old) != 1 {
			fmt.Printf("HARNESS-ERROR default configuration changed shape: %q\n", old)
			panic("setup")
		}
		s = strings.Replace(s, old, new, 1)
	}
	rep(`jrpcBindAddr="localhost:0"`, `jrpcBindAddr="mem-jrpc:18801"`)
	rep(`grpcBindAddr="localhost:0"`, `grpcBindAddr="mem-grpc:18802"`)
	rep("[rpc.sub.eth]\nenable=false", "[rpc.sub.eth]\nenable=true\nhttpAddr=\"mem-eth:18545\"\nwsAddr=\"mem-ws:18546\"\nhttpApi=[\"web3\",\"net\"]\nwsApi=[\"web3\"]")
	// calibration of the two accepted key spellings: both must reach their own field
	rep(`whitelist=["127.0.0.1"]`, "whitelist=[\"9.9.9.1\"]\nwhitlist=[\"9.9.9.2\"]")
	cfg = types.NewChain33Config(s)
	rcfg = cfg.GetModuleConfig().RPC
	if len(rcfg.Whitelist) != 1 || rcfg.Whitelist[0] != "9.9.9.1" || len(rcfg.Whitlist) != 1 || rcfg.Whitlist[0] != "9.9.9.2" {
		fmt.Println("HARNESS-ERROR the keys whitelist / whitlist do not map to RPC.Whitelist / RPC.Whitlist any more")
		panic("setup")
	}
	q := queue.New("channel")
	q.SetConfig(cfg)
	api := newAPI(cfg, rec)
	server = rpc.New(cfg)
	server.SetAPI(api)
	server.SetQueueClientNoListen(q.Client())
	p1, p2, p3, p4 := server.Listen()
	if p1 == 0 || p2 == 0 || p3 == 0 || p4 == 0 {
		fmt.Println("HARNESS-ERROR an endpoint did not start", p1, p2, p3, p4)
		panic("setup")
	}
	for _, h := range []string{"mem-jrpc", "mem-grpc", "mem-eth", "mem-ws"} {
		if lis[h] == nil {
			fmt.Println("HARNESS-ERROR endpoint does not listen through the seam:", h)
			panic("setup")
		}
	}
	info, ok := server.GRPC().GetServiceInfo()["types.chain33"]
	if !ok {
		fmt.Println("HARNESS-ERROR service types.chain33 not registered")
		panic("setup")
	}
	grpcMethods = info.Methods
	sort.Slice(grpcMethods, func(i, j int) bool { return grpcMethods[i].Name < grpcMethods[j].Name })
}

func httpClient(host string, remote int) *http.Client {
	k := fmt.Sprintf("%s/%d", host, remote)
	if c := httpClients[k]; c != nil {
		return c
	}
	c := &http.Client{Transport: &http.Transport{
		DialContext:        func(ctx context.Context, n, a string) (net.Conn, error) { return lis[host].Dial(remotes[remote]) },
		DisableCompression: true,
		MaxIdleConns:       4,
	}, Timeout: 20 * time.Second}
	httpClients[k] = c
	return c
}

func grpcConn(remote int) *grpc.ClientConn {
	if c := grpcConns[remote]; c != nil {
		return c
	}
	c, err := grpc.Dial("passthrough:///mem-grpc",
		grpc.WithContextDialer(func(ctx context.Context, s string) (net.Conn, error) { return lis["mem-grpc"].Dial(remotes[remote]) }),
		grpc.WithTransportCredentials(insecure.NewCredentials()))
	if err != nil {
		panic(err)
	}
	grpcConns[remote] = c
	return c
}

var (
	calib map[string]map[string]bool // gRPC method -> node calls it makes when permitted
	stray = map[string]bool{}        // node calls that arrive after their request was answered
)

// rawCodec sends pre-encoded protobuf bytes (an empty message) under the normal content-subtype.
type rawCodec struct{}

func (rawCodec) Marshal(v interface{}) ([]byte, error) { return *(v.(*[]byte)), nil }
func (rawCodec) Unmarshal(d []byte, v interface{}) error {
	*(v.(*[]byte)) = append([]byte(nil), d...)
	return nil
}
func (rawCodec) Name() string { return "proto" }

// ---------------------------------------------------------------- configurations and requests

type conf struct {
	W     []string `json:"whitelist"`
	W2    []string `json:"whitlist"`
	JW    []string `json:"jrpcFuncWhitelist,omitempty"`
	JB    []string `json:"jrpcFuncBlacklist,omitempty"`
	GW    []string `json:"grpcFuncWhitelist,omitempty"`
	GB    []string `json:"grpcFuncBlacklist,omitempty"`
	User  string   `json:"jrpcUserName,omitempty"`
	Pass  string   `json:"jrpcUserPasswd,omitempty"`
	NoClr bool     `json:"keep_lists,omitempty"`
}

var lastConf string

func apply(c conf) {
	k := vx.J(c)
	if k == lastConf {
		return
	}
	lastConf = k
	rpc.VerifResetLists()
	rcfg.Whitelist, rcfg.Whitlist = c.W, c.W2
	rcfg.JrpcFuncWhitelist, rcfg.JrpcFuncBlacklist = c.JW, c.JB
	rcfg.GrpcFuncWhitelist, rcfg.GrpcFuncBlacklist = c.GW, c.GB
	rcfg.JrpcUserName, rcfg.JrpcUserPasswd = c.User, c.Pass
	rpc.InitCfg(rcfg) // the real initialisation
}

// jshape is one JSON-RPC request shape; %M is replaced by the JSON string of the method spelling.
type jshape struct {
	Name   string
	Method string // method spelling ("" allowed)
	Body   string
	HTTP   string
	Path   string
	Gzip   bool
	Chunk  bool
	Hdr    map[string]string
}

func jstr(s string) string { b, _ := json.Marshal(s); return string(b) }

func shapes() []jshape {
	var l []jshape
	canon := `{"method":%M,"params":[{}],"id":1}`
	for _, m := range []string{"Chain33.IsSync", "chain33.IsSync", "CHAIN33.IsSync", "Chain33.isSync", "Chain33.ISSYNC", "Chain33..IsSync", ".IsSync", "IsSync",
		"Chain33.IsSync.", "", "Chain33.X.IsSync", " Chain33.IsSync", "Chain33.IsSync ", "Chain33/IsSync", "X.Chain33.IsSync", "Chain33.Version", "Chain33.GetLastHeader", "Chain33.IsNtpClockSync", "Chain33.IsSync\u0000"} {
		l = append(l, jshape{Name: "spell:" + strconv.Quote(m), Method: m, Body: canon})
	}
	for i, b := range []string{
		`{"method":%M,"params":[],"id":1}`, `{"method":%M,"params":[null],"id":1}`, `{"method":%M,"params":null,"id":1}`, `{"method":%M,"id":1}`,
		`{"method":%M,"params":{},"id":1}`, `{"method":%M,"params":[{},{}],"id":1}`, `{"method":%M,"params":"x","id":1}`, `{"method":%M,"params":[[]],"id":1}`,
		`{"jsonrpc":"2.0","method":%M,"params":[{}],"id":1,"foo":{"method":"Chain33.Version"}}`,
		`{"method":%M,"params":[{}],"id":"1"}`, `{"method":%M,"params":[{}],"id":null}`, `{"method":%M,"params":[{}]}`, `{"method":%M,"params":[{}],"id":-1}`, `{"method":%M,"params":[{}],"id":1.5}`,
		`{"method":"Chain33.Version","method":%M,"params":[{}],"id":1}`, `{"method":%M,"method":"Chain33.Version","params":[{}],"id":1}`,
		`{"Method":"Chain33.Version","method":%M,"params":[{}],"id":1}`, `{"method":%M,"METHOD":"Chain33.Version","params":[{}],"id":1}`,
		`{"METHOD":%M,"PARAMS":[{}],"ID":1}`, `{"method":%M,"method":null,"params":[{}],"id":1}`, `{"method":"Chain33.Version","method":null,"params":[{}],"id":1,"x":%M}`,
		`{"\u006dethod":%M,"params":[{}],"id":1}`, `{"method":%M,"paramſ":[{}],"id":1}`, `{"method":%M,"method":1,"params":[{}],"id":1}`,
		"  \n\t" + canon, "\xef\xbb\xbf" + canon, canon + `{"method":"Chain33.Version","params":[{}],"id":2}`, canon + " garbage", "[" + canon + "]", canon + "\n",
		`{"method":%M,"params":[{}],"id":1,"method":"Chain33.GetLastHeader"}`, `{"params":[{}],"id":1}`, `%M`, `{"method":{"x":%M},"params":[{}],"id":1}`, `{"method":[%M],"params":[{}],"id":1}`,
	} {
		l = append(l, jshape{Name: fmt.Sprintf("body%02d", i), Method: "Chain33.IsSync", Body: b})
	}
	// the same value written with escapes
	l = append(l, jshape{Name: "escaped-value", Method: "Chain33.IsSync", Body: `{"method":"Chain33.Is\u0053ync","params":[{}],"id":1}`})
	l = append(l, jshape{Name: "gzip-body", Method: "Chain33.IsSync", Body: canon, Gzip: true, Hdr: map[string]string{"Content-Encoding": "gzip"}})
	l = append(l, jshape{Name: "gzip-body-undeclared", Method: "Chain33.IsSync", Body: canon, Gzip: true})
	l = append(l, jshape{Name: "accept-gzip", Method: "Chain33.IsSync", Body: canon, Hdr: map[string]string{"Accept-Encoding": "gzip"}})
	l = append(l, jshape{Name: "chunked", Method: "Chain33.IsSync", Body: canon, Chunk: true})
	l = append(l, jshape{Name: "text-plain", Method: "Chain33.IsSync", Body: canon, Hdr: map[string]string{"Content-Type": "text/plain"}})
	for _, hm := range []string{"GET", "PUT", "DELETE", "OPTIONS", "PATCH"} {
		l = append(l, jshape{Name: "http-" + hm, Method: "Chain33.IsSync", Body: canon, HTTP: hm})
	}
	l = append(l, jshape{Name: "cors-preflight", Method: "Chain33.IsSync", Body: canon, HTTP: "OPTIONS", Hdr: map[string]string{"Origin": "http://x", "Access-Control-Request-Method": "POST"}})
	l = append(l, jshape{Name: "cors-origin", Method: "Chain33.IsSync", Body: canon, Hdr: map[string]string{"Origin": "http://x"}})
	for _, p := range []string{"/x", "//", "/?x=1", "/.", "/%2f", "/index/../"} {
		l = append(l, jshape{Name: "path:" + p, Method: "Chain33.IsSync", Body: canon, Path: p})
	}
	for _, h := range []string{"X-Forwarded-For", "X-Real-Ip", "Forwarded"} {
		v := "1.2.3.4"
		if h == "Forwarded" {
			v = "for=1.2.3.4"
		}
		l = append(l, jshape{Name: "hdr:" + h, Method: "Chain33.IsSync", Body: canon, Hdr: map[string]string{h: v}})
	}
	return l
}

// authVariant is one Authorization header; Payload is what the base64 part decodes to.
type authVariant struct {
	Name, Scheme, Payload string
	Raw                   string // used verbatim when set
	None                  bool
}

func authVariants(user, pass string) []authVariant {
	right := user + ":" + pass
	return []authVariant{
		{Name: "none", None: true},
		{Name: "right", Scheme: "Basic", Payload: right},
		{Name: "wrong-pass", Scheme: "Basic", Payload: user + ":x" + pass},
		{Name: "wrong-user", Scheme: "Basic", Payload: "x" + user + ":" + pass},
		{Name: "empty-pair", Scheme: "Basic", Payload: ":"},
		{Name: "no-colon", Scheme: "Basic", Payload: user},
		{Name: "extra-field", Scheme: "Basic", Payload: right + ":x"},
		{Name: "swapped", Scheme: "Basic", Payload: pass + ":" + user},
		{Name: "lowercase-scheme-right", Scheme: "basic", Payload: right},
		{Name: "bearer-right", Scheme: "Bearer", Payload: right},
		{Name: "prefix-of-right", Scheme: "Basic", Payload: right[:len(right)-1]},
		{Name: "right-with-space", Scheme: "Basic", Payload: right + " "},
		{Name: "not-base64", Raw: "Basic " + right},
		{Name: "scheme-only", Raw: "Basic"},
		{Name: "case-changed", Scheme: "Basic", Payload: strings.ToUpper(right)},
	}
}

// kase is one request against one configuration.
type kase struct {
	Exp    string `json:"exp"`
	Conf   conf   `json:"conf"`
	Remote int    `json:"remote"`
	End    string `json:"endpoint"`         // jrpc, grpc, eth, ws
	Shape  string `json:"shape,omitempty"`  // jrpc request shape name
	Auth   string `json:"auth,omitempty"`   // Authorization variant name
	Method string `json:"method,omitempty"` // grpc full method
}

type obs struct {
	ran    []string // node calls observed (sorted, unique) or {"<answered>"} for an error-free answer without node call
	status int
	detail string
}

var (
	allShapes   []jshape
	shapeByName = map[string]jshape{}
)

func doJrpc(k kase) obs {
	sh := shapeByName[k.Shape]
	body := []byte(strings.ReplaceAll(sh.Body, "%M", jstr(sh.Method)))
	if sh.Gzip {
		var buf bytes.Buffer
		zw := gzip.NewWriter(&buf)
		zw.Write(body)
		zw.Close()
		body = buf.Bytes()
	}
	hm := sh.HTTP
	if hm == "" {
		hm = "POST"
	}
	p := sh.Path
	if p == "" {
		p = "/"
	}
	var rd io.Reader = bytes.NewReader(body)
	if sh.Chunk {
		rd = struct{ io.Reader }{rd} // hides the length: net/http then uses chunked encoding
	}
	req, err := http.NewRequest(hm, "http://mem-jrpc"+p, rd)
	if err != nil {
		return obs{detail: "bad request: " + err.Error()}
	}
	req.Header.Set("Content-Type", "application/json")
	for h, v := range sh.Hdr {
		req.Header.Set(h, v)
	}
	for _, a := range authVariants(k.Conf.User, k.Conf.Pass) {
		if a.Name == k.Auth && !a.None {
			if a.Raw != "" {
				req.Header.Set("Authorization", a.Raw)
			} else {
				req.Header.Set("Authorization", a.Scheme+" "+base64.StdEncoding.EncodeToString([]byte(a.Payload)))
			}
		}
	}
	rec.take()
	resp, err := httpClient("mem-jrpc", k.Remote).Do(req)
	o := obs{}
	if err != nil {
		o.detail = "transport: " + vx.Norm(err.Error(), 60)
	} else {
		b, _ := io.ReadAll(resp.Body)
		resp.Body.Close()
		o.status = resp.StatusCode
		if len(b) > 80 {
			b = b[:80]
		}
		o.detail = string(b)
	}
	o.ran = uniq(rec.take())
	return o
}

func uniq(l []string) []string {
	sort.Strings(l)
	var o []string
	for i, s := range l {
		if i == 0 || s != l[i-1] {
			o = append(o, s)
		}
	}
	return o
}

func doGrpc(k kase) obs {
	conn := grpcConn(k.Remote)
	ctx, cancel := context.WithTimeout(context.Background(), 10*time.Second)
	defer cancel()
	in, out := []byte{}, []byte{}
	stream := false
	for _, m := range grpcMethods {
		if strings.HasSuffix(k.Method, "/"+m.Name) && (m.IsServerStream || m.IsClientStream) {
			stream = true
		}
	}
	rec.take()
	var err error
	if !stream {
		err = conn.Invoke(ctx, k.Method, &in, &out, grpc.ForceCodec(rawCodec{}))
	} else {
		var st grpc.ClientStream
		st, err = conn.NewStream(ctx, &grpc.StreamDesc{ServerStreams: true, ClientStreams: true}, k.Method, grpc.ForceCodec(rawCodec{}))
		if err == nil {
			// a send that fails only says the server already ended the stream; the status comes from RecvMsg
			if st.SendMsg(&in) == nil {
				st.CloseSend()
			}
			err = st.RecvMsg(&out)
		}
	}
	o := obs{}
	name := k.Method[strings.LastIndex(k.Method, "/")+1:]
	for _, c := range uniq(rec.take()) {
		// only node calls this method is known to make (learned from a permitted call), never the
		// late calls of handlers that answer first and reach the node afterwards (CloseQueue)
		if calib == nil || (calib[name][c] && !stray[c]) {
			o.ran = append(o.ran, c)
		}
	}
	if err == nil || err == io.EOF {
		if len(o.ran) == 0 {
			o.ran = []string{"<answered>"}
		}
		o.detail = "ok"
	} else {
		o.detail = vx.Norm(err.Error(), 90)
		if ctx.Err() != nil {
			o.detail = "TIMEOUT " + o.detail
		}
	}
	return o
}

func doEth(k kase) obs {
	host := "mem-eth"
	if k.End == "ws" {
		host = "mem-ws"
	}
	req, _ := http.NewRequest("POST", "http://"+host+"/", strings.NewReader(`{"jsonrpc":"2.0","method":"web3_clientVersion","params":[],"id":1}`))
	req.Header.Set("Content-Type", "application/json")
	resp, err := httpClient(host, k.Remote).Do(req)
	if err != nil {
		return obs{detail: "transport: " + vx.Norm(err.Error(), 60)}
	}
	b, _ := io.ReadAll(resp.Body)
	resp.Body.Close()
	o := obs{status: resp.StatusCode}
	if len(b) > 60 {
		b = b[:60]
	}
	o.detail = string(b)
	return o
}

func execute(k kase) obs {
	apply(k.Conf)
	switch k.End {
	case "jrpc":
		return doJrpc(k)
	case "grpc":
		return doGrpc(k)
	}
	return doEth(k)
}

type verdict struct{ fp, what string }

// nodeCallOf: which node call proves that a given JSON-RPC / gRPC function ran (probe functions only).
var jrpcProbe = map[string]bool{"IsSync": true, "Version": true, "GetLastHeader": true, "IsNtpClockSync": true}

// judgeRan applies the statement to one observation of a JSON-RPC or gRPC request.
func judgeRan(k kase, o obs, fn func(call string) string) *verdict {
	for _, call := range o.ran {
		f := fn(call)
		if !ipPermitted(k.Conf.W, k.Conf.W2, k.Remote) {
			cls := "unary"
			if k.End == "grpc" && isStreaming(k.Method) {
				cls = "streaming"
			}
			if k.End == "jrpc" {
				cls = "method"
			}
			return &verdict{fpAddr(k.End, cls),
				fmt.Sprintf("%s %s ran for remote %s although whitelist=%v whitlist=%v", k.End, f, remoteNames[k.Remote], k.Conf.W, k.Conf.W2)}
		}
		white, black := k.Conf.JW, k.Conf.JB
		if k.End == "grpc" {
			white, black = k.Conf.GW, k.Conf.GB
		}
		if !funcPermitted(white, black, f) {
			why := "not-whitelisted"
			if has(black, f) {
				why = "blacklisted"
			}
			cls := "method"
			if k.End == "grpc" {
				cls = "unary-method"
				if isStreaming(k.Method) {
					cls = "streaming-method"
				}
			}
			return &verdict{fpFunc(k.End, cls, why),
				fmt.Sprintf("%s function %s ran although funcWhitelist=%v funcBlacklist=%v (request %s%s)", k.End, f, white, black, k.Shape, k.Method)}
		}
		if k.End == "jrpc" && (k.Conf.User != "" || k.Conf.Pass != "") {
			ok := false
			for _, a := range authVariants(k.Conf.User, k.Conf.Pass) {
				if a.Name == k.Auth && !a.None && a.Raw == "" && a.Payload == k.Conf.User+":"+k.Conf.Pass {
					ok = true
				}
			}
			if !ok {
				return &verdict{"jrpc:runs-without-valid-basic-auth:" + k.Auth,
					fmt.Sprintf("JSON-RPC %s ran with Authorization variant %q although user/password are configured", f, k.Auth)}
			}
		}
	}
	return nil
}

// fingerprints: one family per way of getting past the gate
func fpAddr(end, cls string) string {
	if end == "grpc" && cls == "streaming" {
		return "grpc:streaming-method-not-gated:runs-for-address-not-on-whitelist"
	}
	return fmt.Sprintf("%s:%s-runs-for-address-not-on-whitelist", end, cls)
}

func fpFunc(end, cls, why string) string {
	if end == "grpc" && cls == "streaming-method" {
		return "grpc:streaming-method-not-gated:runs-although-function-" + why
	}
	return fmt.Sprintf("%s:%s-runs-although-function-%s", end, cls, why)
}

func isStreaming(full string) bool {
	for _, m := range grpcMethods {
		if strings.HasSuffix(full, "/"+m.Name) {
			return m.IsServerStream || m.IsClientStream
		}
	}
	return false
}

func listClass(l []string) string {
	switch {
	case len(l) == 0:
		return "empty"
	case len(l) == 1 && l[0] == "*":
		return "sole-star"
	case has(l, "0.0.0.0"):
		return "has-0.0.0.0"
	case has(l, "*"):
		return "star-among-others"
	}
	return "addresses"
}

func remoteClass(i int) string {
	return []string{"ipv4", "ipv4", "ipv4-mapped", "ipv6", "ipv6-zone"}[i]
}

func main() {
	r := vx.Start("C39", "exploration")
	r.DistinctSet = "outcomes"
	r.Rule = "flat enumeration against the real JSON-RPC / gRPC / eth servers on in-memory listeners. E1: every (whitelist, whitlist) pair of subsets of {*,0.0.0.0,1.2.3.4,::1,2001:db8::1} (1024) x 5 remotes {1.2.3.4, 5.6.7.8, ::ffff:1.2.3.4, 2001:db8::1, fe80::1%eth0} x {JSON-RPC IsSync, gRPC IsSync, gRPC SubEvent (stream), eth http, eth ws}; E2: 7 jrpc function whitelists x 4 blacklists x 3 basic-auth configurations x 15 Authorization variants x ~80 request shapes x 2 remotes (auth variants only on the canonical shape, shapes only with no/right auth); E3: every method of the types.chain33 service descriptor x {open, address not whitelisted, function not whitelisted, function blacklisted} + full-method spellings. distinct = (endpoint, ran/denied, which of ip/function/auth permitted) classes"
	r.Assume = []string{
		"the node behind the RPC layer is a recording stub; 'ran' = the handler reached the node or answered without error",
		"either key counts, '*' or '0.0.0.0' anywhere in a list is a wildcard, no list at all demands nothing (most permissive reading of the statement)",
		"an Authorization header counts as valid whenever its base64 payload is exactly user:password, whatever the scheme word",
		"package-global lists are cleared between configurations (a process is configured once); loopback remotes are outside the statement",
		"gRPC requests carry an empty message; methods whose handler neither reaches the node nor answers for an empty message from a permitted address are listed as unobservable and not judged",
	}
	setup()
	allShapes = shapes()
	for _, s := range allShapes {
		shapeByName[s.Name] = s
	}
	if raw, ok := r.Replaying(); ok {
		var k kase
		if err := json.Unmarshal(raw, &k); err != nil {
			fmt.Println("REPLAY-ERROR", err)
			r.Finish()
		}
		vs := evalCase(r, k)
		for _, v := range vs {
			fmt.Println("replay: FAIL", v.fp, v.what)
			r.Violate(v.fp, v.what, k, nil)
		}
		if len(vs) == 0 {
			fmt.Println("replay: ok")
		}
		r.Finish()
	}
	run := func(k kase) {
		r.Count("evaluations", 1)
		r.Count("exp_"+k.Exp, 1)
		for _, v := range evalCase(r, k) {
			kk, fp := k, v.fp
			r.Violate(v.fp, v.what+"  case="+vx.J(kk), kk, func() string {
				lastConf = ""
				for _, w := range evalCase(r, kk) {
					if w.fp == fp {
						return w.fp + "|" + w.what
					}
				}
				return ""
			})
		}
	}

	// ---- E1
	var subsets [][]string
	for m := 0; m < 1<<len(universe); m++ {
		var l []string
		for i, u := range universe {
			if m&(1<<i) != 0 {
				l = append(l, u)
			}
		}
		subsets = append(subsets, l)
	}
	sort.SliceStable(subsets, func(i, j int) bool { return len(subsets[i]) < len(subsets[j]) })
	for _, w := range subsets {
		for _, w2 := range subsets {
			if r.Expired("E1") {
				break
			}
			c := conf{W: w, W2: w2}
			for rm := range remotes {
				run(kase{Exp: "E1", Conf: c, Remote: rm, End: "ipset"})
			}
		}
	}

	// ---- E2
	jws := [][]string{nil, {"*"}, {"IsSync"}, {"IsSync", "*"}, {"Version"}, {"issync"}, {"Chain33.IsSync"}}
	jbs := [][]string{nil, {"IsSync"}, {"Version"}, {"IsSync", "Version", "GetLastHeader", "IsNtpClockSync"}}
	auths := [][2]string{{"", ""}, {"user", "pass"}, {"user", ""}}
	for _, jw := range jws {
		for _, jb := range jbs {
			for _, au := range auths {
				if r.Expired("E2") {
					break
				}
				c := conf{W: []string{"1.2.3.4"}, JW: jw, JB: jb, User: au[0], Pass: au[1]}
				if au[0] == "" {
					// the same function lists behind a wildcard address list, for the two IPv6 remotes (one of them a
					// zone-scoped link-local address, which net.ParseIP does not parse): canonical shape only
					cw := conf{W: []string{"*"}, JW: jw, JB: jb}
					for _, rm := range []int{3, 4} {
						for _, sh := range allShapes {
							if sh.Name == "body14" || strings.HasPrefix(sh.Name, "spell:\"Chain33.IsSync\"") {
								run(kase{Exp: "E2", Conf: cw, Remote: rm, End: "jrpc", Shape: sh.Name, Auth: "none"})
							}
						}
					}
				}
				for _, rm := range []int{0, 1} {
					for _, sh := range allShapes {
						avs := []string{"none"}
						if au[0] != "" {
							avs = []string{"none", "right"}
							if strings.HasPrefix(sh.Name, "spell:\"Chain33.IsSync\"") || sh.Name == "body14" || sh.Name == "path:/x" {
								avs = nil
								for _, a := range authVariants(au[0], au[1]) {
									avs = append(avs, a.Name)
								}
							}
						}
						for _, a := range avs {
							run(kase{Exp: "E2", Conf: c, Remote: rm, End: "jrpc", Shape: sh.Name, Auth: a})
						}
					}
				}
			}
		}
	}

	// ---- E3
	var names []string
	for _, m := range grpcMethods {
		names = append(names, m.Name)
	}
	open := conf{W: []string{"1.2.3.4"}, GW: []string{"*"}, GB: []string{"NoSuchFunction"}}
	unobservable := map[string]bool{}
	learned := map[string]map[string]bool{}
	for _, m := range grpcMethods {
		o := execute(kase{Exp: "E3", Conf: open, Remote: 0, End: "grpc", Method: "/types.chain33/" + m.Name})
		r.Count("evaluations", 1)
		r.Count("exp_E3", 1)
		learned[m.Name] = map[string]bool{}
		for _, c := range o.ran {
			learned[m.Name][c] = true
		}
		if len(o.ran) == 0 {
			unobservable[m.Name] = true
			r.Note("gRPC %s: an empty request from a permitted address neither reaches the node nor is answered (%s) — not judged", m.Name, o.detail)
		}
	}
	time.Sleep(400 * time.Millisecond) // handlers that answer first and call the node later (CloseQueue: 100 ms)
	for _, c := range rec.take() {
		stray[c] = true
		r.Note("node call %s arrives after its request was answered; it is never used as evidence that a method ran", c)
	}
	calib = learned
	r.Count("grpc_methods", int64(len(grpcMethods)))
	r.Count("grpc_methods_observable", int64(len(grpcMethods)-len(unobservable)))
	for _, m := range grpcMethods {
		if unobservable[m.Name] {
			continue
		}
		other := "IsSync"
		if m.Name == other {
			other = "Version"
		}
		for _, c := range []conf{
			{W: []string{"1.2.3.4"}, GW: []string{"*"}},                                // only 1.2.3.4 may call
			{W2: []string{"2001:db8::1"}},                                              // the list under the other key, function lists at their defaults
			{W: []string{"*"}, GW: []string{other}},                                    // another function is whitelisted, this one is not
			{W: []string{"*"}, GW: []string{"*"}, GB: []string{m.Name}},                // this function is blacklisted
			{W: []string{"0.0.0.0"}, GW: []string{m.Name, other}, GB: []string{other}}, // this one whitelisted by name, the other blacklisted
			{W: []string{"1.2.3.4"}, GW: names, GB: names},                             // everything named in both lists
		} {
			for _, rm := range []int{0, 1, 3} {
				run(kase{Exp: "E3", Conf: c, Remote: rm, End: "grpc", Method: "/types.chain33/" + m.Name})
			}
		}
	}
	// advisory: the reflection service registered on the same server (not a Chain33 method; not judged)
	{
		apply(conf{W: []string{"1.2.3.4"}, GW: []string{"NoSuchFunction"}})
		ctx, cancel := context.WithTimeout(context.Background(), 5*time.Second)
		in, out := []byte{}, []byte{}
		st, err := grpcConn(1).NewStream(ctx, &grpc.StreamDesc{ServerStreams: true, ClientStreams: true}, "/grpc.reflection.v1alpha.ServerReflection/ServerReflectionInfo", grpc.ForceCodec(rawCodec{}))
		if err == nil {
			st.SendMsg(&in)
			err = st.RecvMsg(&out)
		}
		cancel()
		r.Note("advisory (not judged): grpc.reflection ServerReflectionInfo from 5.6.7.8 with whitelist=[1.2.3.4], grpcFuncWhitelist=[NoSuchFunction]: answered=%v (%d bytes)", err == nil, len(out))
	}
	for _, sp := range []string{"types.chain33/IsSync", "/types.chain33/issync", "/types.Chain33/IsSync", "//types.chain33/IsSync", "/types.chain33/IsSync/", "/types.chain33//IsSync", "/x/types.chain33/IsSync", "/types.chain33/Version/../IsSync", "/types.chain33/SubEvent", "types.chain33/SubEvent"} {
		for _, c := range []conf{{W: []string{"1.2.3.4"}, GW: []string{"Version"}}, {W: []string{"*"}, GW: []string{"*"}, GB: []string{"IsSync", "SubEvent"}}} {
			for _, rm := range []int{0, 1} {
				run(kase{Exp: "E3", Conf: c, Remote: rm, End: "grpc", Method: sp})
			}
		}
	}

	// samples
	for _, k := range []kase{
		{Exp: "E1", Conf: conf{W: []string{"1.2.3.4"}}, Remote: 2, End: "ipset"},
		{Exp: "E1", Conf: conf{W2: []string{"1.2.3.4"}}, Remote: 1, End: "ipset"},
		{Exp: "E2", Conf: conf{W: []string{"1.2.3.4"}, JW: []string{"Version"}}, Remote: 0, End: "jrpc", Shape: "body14", Auth: "none"},
		{Exp: "E3", Conf: conf{W: []string{"1.2.3.4"}, GW: []string{"*"}}, Remote: 1, End: "grpc", Method: "/types.chain33/SubEvent"},
	} {
		if k.End == "ipset" {
			m := map[string]interface{}{"case": k}
			for _, e := range []string{"jrpc", "grpc", "grpc-stream", "eth", "ws"} {
				m[e] = admitted(k, e)
			}
			r.Sample(m)
		} else {
			o := execute(k)
			r.Sample(map[string]interface{}{"case": k, "ran": o.ran, "status": o.status, "answer": o.detail})
		}
	}
	r.Floors["outcomes"] = 12
	for _, c := range []string{"hit_jrpc_ran", "hit_jrpc_denied_ip", "hit_jrpc_denied_func", "hit_jrpc_denied_auth", "hit_grpc_ran", "hit_grpc_denied", "hit_eth_admitted", "hit_eth_denied", "hit_ws_denied", "hit_stream_ran"} {
		r.Floors[c] = 1
	}
	r.Finish()
}

// admitted performs the canonical probe of one endpoint under k's configuration and remote.
func admitted(k kase, end string) bool {
	switch end {
	case "jrpc":
		o := execute(kase{Conf: k.Conf, Remote: k.Remote, End: "jrpc", Shape: `spell:"Chain33.IsSync"`, Auth: "none"})
		lastRan["jrpc:method"] = o.ran
		return has(o.ran, "IsSync")
	case "grpc":
		o := execute(kase{Conf: k.Conf, Remote: k.Remote, End: "grpc", Method: "/types.chain33/IsSync"})
		lastRan["grpc:unary"] = o.ran
		return len(o.ran) > 0
	case "grpc-stream":
		o := execute(kase{Conf: k.Conf, Remote: k.Remote, End: "grpc", Method: "/types.chain33/SubEvent"})
		lastRan["grpc:streaming"] = o.ran
		return len(o.ran) > 0
	case "eth":
		o := execute(kase{Conf: k.Conf, Remote: k.Remote, End: "eth"})
		return o.status == 200 && strings.Contains(o.detail, "jsonrpc")
	}
	o := execute(kase{Conf: k.Conf, Remote: k.Remote, End: "ws"})
	return o.status != http.StatusForbidden && o.status != 0
}

var lastRan = map[string][]string{}

func evalCase(r *vx.Run, k kase) (vs []*verdict) {
	hit := func(c string, cond bool) {
		if cond {
			r.Count(c, 1)
		}
	}
	if k.End == "ipset" {
		j, g, s, e, w := admitted(k, "jrpc"), admitted(k, "grpc"), admitted(k, "grpc-stream"), admitted(k, "eth"), admitted(k, "ws")
		perm := ipPermitted(k.Conf.W, k.Conf.W2, k.Remote)
		r.Seen("outcomes", fmt.Sprintf("ip:perm=%v jrpc=%v grpc=%v stream=%v eth=%v ws=%v lists=%v", perm, j, g, s, e, w, len(k.Conf.W)+len(k.Conf.W2) > 0))
		hit("hit_eth_admitted", e)
		hit("hit_eth_denied", !e)
		hit("hit_ws_denied", !w)
		hit("hit_stream_ran", s)
		if !perm {
			for _, x := range []struct {
				ran  bool
				what string
			}{{j, "jrpc:method"}, {g, "grpc:unary"}, {s, "grpc:streaming"}} {
				if x.ran {
					vs = append(vs, &verdict{fpAddr(strings.Split(x.what, ":")[0], strings.Split(x.what, ":")[1]), fmt.Sprintf("%s ran (node calls %v) for remote %s although whitelist=%v whitlist=%v", x.what, lastRan[x.what], remoteNames[k.Remote], k.Conf.W, k.Conf.W2)})
				}
			}
		}
		if len(k.Conf.W)+len(k.Conf.W2) > 0 {
			if j != g {
				return append(vs, &verdict{"ip:jsonrpc-and-grpc-admit-different-addresses", fmt.Sprintf("remote %s whitelist=%v whitlist=%v: JSON-RPC admits=%v gRPC admits=%v", remoteNames[k.Remote], k.Conf.W, k.Conf.W2, j, g)})
			}
			for _, x := range []struct {
				adm  bool
				name string
			}{{e, "eth-http"}, {w, "eth-ws"}} {
				if x.adm == j {
					continue
				}
				fp := ""
				switch {
				case len(k.Conf.W) == 0 && x.adm:
					fp = "eth:whitlist-key-ignored:admits-address-the-others-deny"
				case listClass(k.Conf.W2) == "sole-star" && !x.adm:
					fp = "eth:whitlist-key-ignored:denies-address-the-others-admit"
				default:
					fp = fmt.Sprintf("eth:admission-differs:whitelist=%s,whitlist=%s,remote=%s,eth-admits=%v", listClass(k.Conf.W), listClass(k.Conf.W2), remoteClass(k.Remote), x.adm)
				}
				vs = append(vs, &verdict{fp, fmt.Sprintf("remote %s whitelist=%v whitlist=%v: %s admits=%v, JSON-RPC and gRPC admit=%v", remoteNames[k.Remote], k.Conf.W, k.Conf.W2, x.name, x.adm, j)})
			}
		}
		return vs
	}
	o := execute(k)
	switch k.End {
	case "jrpc":
		ipok := ipPermitted(k.Conf.W, k.Conf.W2, k.Remote)
		r.Seen("outcomes", fmt.Sprintf("jrpc:ran=%v ip=%v auth-configured=%v", o.ran, ipok, k.Conf.User != ""))
		hit("hit_jrpc_ran", len(o.ran) > 0)
		hit("hit_jrpc_denied_ip", len(o.ran) == 0 && strings.Contains(o.detail, "Address is not authorized"))
		hit("hit_jrpc_denied_func", len(o.ran) == 0 && strings.Contains(o.detail, "method is not authorized"))
		hit("hit_jrpc_denied_auth", len(o.ran) == 0 && strings.Contains(o.detail, "Unauthozied"))
		for _, c := range o.ran {
			if !jrpcProbe[c] {
				return []*verdict{{"harness:unexpected-node-call", "node call " + c + " during a JSON-RPC probe"}}
			}
		}
		if v := judgeRan(k, o, func(c string) string { return c }); v != nil {
			return []*verdict{v}
		}
		return nil
	case "grpc":
		r.Seen("outcomes", fmt.Sprintf("grpc:ran=%v stream=%v ip=%v", len(o.ran) > 0, isStreaming(k.Method), ipPermitted(k.Conf.W, k.Conf.W2, k.Remote)))
		hit("hit_grpc_ran", len(o.ran) > 0)
		hit("hit_grpc_denied", len(o.ran) == 0)
		if strings.HasPrefix(o.detail, "TIMEOUT") {
			r.Note("gRPC %s timed out (%s)", k.Method, o.detail)
			return nil
		}
		fn := k.Method[strings.LastIndex(k.Method, "/")+1:]
		// the function the lists speak about is the method that was dispatched
		if v := judgeRan(k, o, func(string) string { return fn }); v != nil {
			return []*verdict{v}
		}
		return nil
	}
	return nil
}
