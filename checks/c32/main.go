// C32 — push subscribers receive the sequence log in order without gaps.
// blockchain/push.go is source-instrumented and its per-subscriber task, the chain's UpdateSeq
// notifications, re-registrations and Close are run under the controlled scheduler with a scripted
// subscriber endpoint whose success/failure at every call is an explorer choice.
package main

import (
	"encoding/json"
	"fmt"
	"sort"
	"strings"

	"github.com/33cn/chain33/blockchain"
	"github.com/33cn/chain33/common"
	clog "github.com/33cn/chain33/common/log"
	"github.com/33cn/chain33/types"
	"verif/vrt"
	"verif/vrt/vtime"
	"verif/vx"
)

// fake sequence log
type seqLog struct {
	seqs      []*types.BlockSequence
	headers   map[string]*types.Header
	blockSize int // > 0: full blocks of this reported size are served (PushBlock subscriptions)
}

func (l *seqLog) add(i int, del bool) {
	h := common.Sha256([]byte(fmt.Sprint("blk", i)))
	ty := int64(1)
	if del {
		ty = 2
	}
	l.seqs = append(l.seqs, &types.BlockSequence{Hash: h, Type: ty})
	l.headers[string(h)] = &types.Header{Height: int64(i), Hash: h}
}
func (l *seqLog) LoadBlockLastSequence() (int64, error) { return int64(len(l.seqs)) - 1, nil }
func (l *seqLog) GetBlockSequence(seq int64) (*types.BlockSequence, error) {
	if seq < 0 || seq >= int64(len(l.seqs)) {
		return nil, types.ErrNotFound
	}
	return l.seqs[seq], nil
}
func (l *seqLog) GetBlockHeaderByHash(hash []byte) (*types.Header, error) {
	if h, ok := l.headers[string(hash)]; ok {
		return h, nil
	}
	return nil, types.ErrNotFound
}
func (l *seqLog) LoadBlockBySequence(seq int64) (*types.BlockDetail, int, error) {
	if l.blockSize == 0 || seq < 0 || seq >= int64(len(l.seqs)) {
		return nil, 0, types.ErrNotFound
	}
	// a block whose reported size is blockSize (the payload itself stays small: only the size is used for batching)
	return &types.BlockDetail{Block: &types.Block{Height: seq}}, l.blockSize, nil
}
func (l *seqLog) LastHeader() *types.Header { return &types.Header{} }
func (l *seqLog) GetSequenceByHash(hash []byte) (int64, error) {
	for i, s := range l.seqs {
		if string(s.Hash) == string(hash) {
			return int64(i), nil
		}
	}
	return -1, types.ErrNotFound
}

// fake common store
type kvStore struct{ m map[string][]byte }

func (s *kvStore) SetSync(k, v []byte) error { s.m[string(k)] = append([]byte{}, v...); return nil }
func (s *kvStore) Set(k, v []byte) error     { return s.SetSync(k, v) }
func (s *kvStore) GetKey(k []byte) ([]byte, error) {
	if v, ok := s.m[string(k)]; ok {
		return v, nil
	}
	return nil, types.ErrNotFound
}
func (s *kvStore) PrefixCount(p []byte) int64 { l, _ := s.List(p); return int64(len(l)) }
func (s *kvStore) List(p []byte) ([][]byte, error) {
	var ks []string
	for k := range s.m {
		if strings.HasPrefix(k, string(p)) {
			ks = append(ks, k)
		}
	}
	sort.Strings(ks)
	var out [][]byte
	for _, k := range ks {
		out = append(out, s.m[k])
	}
	if len(out) == 0 {
		return nil, types.ErrNotFound
	}
	return out, nil
}

type post struct {
	first, last int64
	acked       bool
	storedAt    int64 // recorded last-push-seq at the time of the call
}

type world struct {
	log      *seqLog
	store    *kvStore
	push     *blockchain.Push
	sub      *types.PushSubscribeReq
	posts    []post
	inflight int
	bad      []string
	resume   int64 // explicit resume point, -1 if none
	maxFail  int
	fails    int
}

// PostData is the scripted subscriber endpoint.
func (w *world) PostData(sub *types.PushSubscribeReq, data []byte, seq int64) error {
	w.inflight++
	if w.inflight > 1 {
		w.bad = append(w.bad, "two tasks post concurrently for one subscriber")
	}
	var hs types.HeaderSeqs
	if sub.Type == int32(blockchain.PushBlock) {
		var bs types.BlockSeqs
		if err := types.Decode(data, &bs); err == nil {
			for _, b := range bs.Seqs {
				hs.Seqs = append(hs.Seqs, &types.HeaderSeq{Num: b.Num})
			}
		}
	} else if err := types.Decode(data, &hs); err != nil {
		hs.Seqs = nil
	}
	if len(hs.Seqs) == 0 {
		w.bad = append(w.bad, "undecodable or empty payload")
		w.inflight--
		return nil
	}
	for i, s := range hs.Seqs {
		if s.Num != hs.Seqs[0].Num+int64(i) {
			w.bad = append(w.bad, fmt.Sprintf("payload sequence numbers not consecutive: %d at position %d after %d", s.Num, i, hs.Seqs[0].Num))
		}
	}
	p := post{first: hs.Seqs[0].Num, last: hs.Seqs[len(hs.Seqs)-1].Num, storedAt: w.push.VerifLastPushSeq(sub)}
	if p.last != seq {
		w.bad = append(w.bad, fmt.Sprintf("update sequence %d differs from the last payload sequence %d", seq, p.last))
	}
	vrt.SchedPoint("PostData in flight")
	fail := false
	if w.fails < w.maxFail {
		if vrt.Choose(2, "post fails") == 1 {
			fail = true
			w.fails++
		}
	}
	p.acked = !fail
	w.posts = append(w.posts, p)
	w.inflight--
	if fail {
		return fmt.Errorf("endpoint down")
	}
	return nil
}

func (w *world) verdict() string {
	if len(w.bad) > 0 {
		return w.bad[0]
	}
	lastAck := w.resume
	have := w.resume >= 0
	for i, p := range w.posts {
		if have && p.first != lastAck+1 {
			return fmt.Sprintf("post %d starts at sequence %d but the last acknowledged sequence is %d (gap or repeat)", i, p.first, lastAck)
		}
		if have && p.storedAt > lastAck {
			return fmt.Sprintf("recorded last-push sequence %d exceeds the last acknowledged sequence %d", p.storedAt, lastAck)
		}
		if !have && p.storedAt >= p.first {
			return fmt.Sprintf("recorded last-push sequence %d although nothing was acknowledged before sequence %d", p.storedAt, p.first)
		}
		if p.acked {
			lastAck, have = p.last, true
		}
	}
	if st := w.push.VerifLastPushSeq(w.sub); have && st > lastAck {
		return fmt.Sprintf("final recorded last-push sequence %d exceeds the last acknowledged sequence %d", st, lastAck)
	}
	return ""
}

type scenario struct {
	name      string
	initial   int    // log length at subscription
	resume    int64  // explicit resume sequence (0 = none)
	grow      []bool // appended records (true = delete record)
	maxFail   int
	resub     int  // re-registrations by the subscriber
	resubGap  int  // virtual seconds between them (default 5)
	failSleep int  // back-off ticks after a failed post (default 2; production 60)
	growGapMs int  // virtual milliseconds between appended records (0 = all at once)
	closer    bool // Close() by a third thread
	expectAll bool
	blockSize int // > 0: a PushBlock subscription over blocks of this size (batches are cut at 1 MB)
}

func main() {
	r := vx.Start("C32", "model_checking")
	clog.SetLogLevel("crit")
	r.Rule = "controlled-scheduler exploration of the instrumented blockchain/push.go: real Push with a growing fake sequence log (add and delete records), a fake key/value store and a scripted endpoint; threads = the real per-subscriber task(s), a chain thread (append + UpdateSeq), a subscriber thread (re-registration after virtual sleeps), optionally Close; endpoint failure at each call is an explorer choice; every schedule/failure pattern within the deviation bound. distinct = (scenario, #posts, #acked, #failures, deactivated?) classes"
	r.Assume = []string{"virtual time: the 1 s retry ticks fire only when no thread can run", "postFail2Sleep shortened from 60 to 2 ticks (same code path)", "PushBlockHeader subscription (the other types share runTask)"}
	r.StateCounter = "tree_nodes"
	r.DistinctSet = "outcomes"
	cfg := types.NewChain33Config(types.GetDefaultCfgstring())
	scs := []scenario{
		{name: "P1-new-subscriber", initial: 2, grow: []bool{false, false, false}, maxFail: 2},
		{name: "P2-resume+reorg", initial: 3, resume: 1, grow: []bool{false, true, false}, maxFail: 2},
		{name: "P3-deactivate-reactivate", initial: 3, resume: 1, grow: []bool{false}, maxFail: 4, resub: 2},
		{name: "P4-close", initial: 2, resume: 1, grow: []bool{false, false}, maxFail: 1, closer: true},
		{name: "P6-full-blocks-batches-cut-by-size", initial: 6, resume: 1, grow: []bool{false, false}, maxFail: 1, blockSize: 400 * 1024},
		// a backlog of several batches (10 headers each), the last batch refused three times in a row (each retry is
		// driven by a new record arriving after the back-off), deactivation, re-registration: the replacement task
		// must resume from the progress that was acknowledged batch by batch
		{name: "P7-backlog-of-several-batches-deactivate-reactivate", initial: 25, resume: 1, grow: []bool{false, false, false, false}, growGapMs: 3000, maxFail: 3, resub: 3},
		{name: "P5-reregister-during-backoff", initial: 3, resume: 1, grow: []bool{false, false, false, false}, maxFail: 2, resub: 3, resubGap: 1, failSleep: 4, growGapMs: 700},
	}
	bound := r.Pick(4, 6)
	var cur *world
	mk := func(sc scenario) *vx.Sched {
		body := func() {
			w := &world{log: &seqLog{headers: map[string]*types.Header{}, blockSize: sc.blockSize}, store: &kvStore{m: map[string][]byte{}}, resume: -1, maxFail: sc.maxFail}
			cur = w
			for i := 0; i < sc.initial; i++ {
				w.log.add(i, false)
			}
			fs := int32(2)
			if sc.failSleep > 0 {
				fs = int32(sc.failSleep)
			}
			w.push = blockchain.VerifNewPush(w.store, w.log, w, cfg, fs)
			w.sub = &types.PushSubscribeReq{Name: "s", URL: "http://x", Type: int32(blockchain.PushBlockHeader), Encode: "proto"}
			if sc.blockSize > 0 {
				w.sub.Type = int32(blockchain.PushBlock)
			}
			if sc.resume > 0 {
				w.sub.LastSequence = sc.resume
				w.sub.LastHeight = sc.resume
				w.sub.LastBlockHash = common.ToHex(w.log.seqs[sc.resume].Hash)
				w.resume = sc.resume
			}
			if err := w.push.VerifAddSubscriber(w.sub); err != nil {
				w.bad = append(w.bad, "addSubscriber: "+err.Error())
			}
			vrt.GoNamed("chain", func() {
				for i, del := range sc.grow {
					if sc.growGapMs > 0 && i > 0 {
						vtime.Sleep(vtime.Duration(sc.growGapMs) * vtime.Millisecond)
					}
					w.log.add(sc.initial+i, del)
					last, _ := w.log.LoadBlockLastSequence()
					w.push.UpdateSeq(last)
				}
			})
			if sc.resub > 0 {
				vrt.GoNamed("subscriber", func() {
					for i := 0; i < sc.resub; i++ {
						gap := 5
						if sc.resubGap > 0 {
							gap = sc.resubGap
						}
						vtime.Sleep(vtime.Duration(gap) * vtime.Second)
						s2 := *w.sub
						if err := w.push.VerifAddSubscriber(&s2); err != nil {
							w.bad = append(w.bad, "re-registration: "+err.Error())
						}
					}
				})
			}
			if sc.closer {
				vrt.GoNamed("closer", func() { w.push.Close() })
			}
			// keep virtual time running until every retry tick of the push task has been taken
			vrt.GoNamed("horizon", func() { vtime.Sleep(300 * vtime.Second) })
		}
		return &vx.Sched{Run: r, Name: sc.name, Body: body, MaxPreempt: bound, MaxSteps: 4000,
			Check: func(res *vrt.Result) string {
				w := cur
				if len(res.Panics) > 0 {
					return "panic: " + res.Panics[0]
				}
				if res.Deadlock {
					return "blocked forever: " + strings.Join(res.Blocked, "; ")
				}
				acked := 0
				for _, p := range w.posts {
					if p.acked {
						acked++
					}
				}
				r.Seen("outcomes", fmt.Sprintf("%s/posts=%d/acked=%d/fails=%d", sc.name, len(w.posts), acked, w.fails))
				return w.verdict()
			}}
	}
	if raw, ok := r.Replaying(); ok {
		var c struct {
			Harness string
			Choices []int
		}
		json.Unmarshal(raw, &c)
		for _, sc := range scs {
			if sc.name == c.Harness {
				w, res := mk(sc).ReplaySched(c.Choices)
				for _, l := range res.Trace {
					fmt.Println("  ", l)
				}
				fmt.Printf("  posts: %+v\n", cur.posts)
				if w != "" {
					fmt.Println("replay: FAIL", w)
					r.Violate("replay", w, c, nil)
				} else {
					fmt.Println("replay: ok")
				}
			}
		}
		r.Finish()
	}
	if r.Fork(16) {
		r.Floors["outcomes"] = 8
		r.Finish()
	}
	for _, sc := range scs {
		mk(sc).Explore()
	}
	r.Finish()
}
