package main

import (
	"fmt"
	"strings"

	"github.com/33cn/chain33/system/store/mavl"
	mavldb "github.com/33cn/chain33/system/store/mavl/db"
	"github.com/33cn/chain33/types"
	"verif/checks/c01/mvx"
	"verif/vrt"
	"verif/vx"
)

// Concurrent part of C05: the store starts pruning in a goroutine of its own (Tree.Save, at heights
// that are multiples of PruneHeight) while the node keeps committing and reading. The mavl packages
// are source-instrumented (locks, atomics, the `go pruning(...)` statement, owned map order) and the
// database is wrapped so that every read, batch write and scan is a scheduling point (mvx.SchedDB,
// snapshot iterators as in goleveldb). Heights 1..3 are committed sequentially; then a writer thread
// commits height 4 (which starts the pruning thread), possibly re-commits it on a fork, and commits
// height 5, while a reader thread reads the states the pruning run at height 4 must keep (3 and,
// once committed, the current 4 and 5). Every schedule within the deviation bound is executed.
// Oracle: no panic, every concurrent read correct, and at quiescence (pruning awaited) every record
// of the kept states is still in the database and reads with the model's values.
type concScen struct {
	name   string
	setup  [][]string // write lists of heights 1..3
	w4     []string
	fork4  []string // when set: height 4 is committed again on state 3 with this list (reorganisation)
	w5     []string
	reader bool
}

func concurrentPart(r *vx.Run) {
	for _, q := range concScheds(r, false) {
		q.ExploreUnsharded()
		r.Count("concurrent_scenarios", 1)
	}
}

func concScheds(r *vx.Run, all bool) []*vx.Sched {
	var out []*vx.Sched
	c := mvx.Cfg{Name: "prune", Prefix: true, Prune: true, PruneHeight: 2}
	scens := []concScen{
		{"linear", [][]string{{"a", "1", "b", "1"}, {"a", "2"}, {"c", "1"}}, []string{"a", "1", "b", "1"}, nil, []string{"a", "2"}, true},
		{"recommit-height-4", [][]string{{"a", "1", "b", "1"}, {"a", "2"}, {"b", "2"}}, []string{"a", "1"}, []string{"b", "1", "c", "1"}, []string{"a", "1"}, true},
	}
	if !r.Quick() || all {
		scens = append(scens,
			concScen{"unchanged-heights", [][]string{{"a", "1", "b", "1"}, {"a", "1", "b", "1"}, {"a", "2"}}, []string{"a", "2"}, nil, []string{"a", "1", "b", "1"}, true},
			concScen{"recommit-same-content", [][]string{{"a", "1"}, {"a", "2"}, {"a", "1"}}, []string{"a", "2"}, []string{"a", "2"}, []string{"b", "1"}, true})
	}
	keysAll := []string{"a", "b", "c"}
	apply := func(m map[string]string, w []string) map[string]string {
		n := map[string]string{}
		for k, v := range m {
			n[k] = v
		}
		for i := 0; i+1 < len(w); i += 2 {
			n[w[i]] = w[i+1]
		}
		return n
	}
	type state struct {
		h       int64
		root    []byte
		content map[string]string
	}
	for _, sc := range scens {
		sc := sc
		type world struct {
			st   *mavl.Store
			kept []state // states the pruning run at height 4 must keep, as they become known
			bad  []string
		}
		var cur *world
		q := &vx.Sched{Run: r, Name: "conc/" + sc.name, MaxPreempt: r.Pick(2, 3), MaxSteps: 20000,
			Body: func() {
				mvx.ResetGlobals(c)
				mavldb.VerifResetPrune()
				w := &world{}
				cur = w
				w.st = mvx.Open(c, "memdb", "")
				mavl.VerifSetDB(w.st, mvx.SchedDB{DB: w.st.GetDB()})
				set := func(parent state, wl []string, h int64) (state, string) {
					root, err := w.st.Set(&types.StoreSet{StateHash: parent.root, KV: mvx.KV(wl...), Height: h}, true)
					if err != nil {
						return state{}, fmt.Sprintf("Set at height %d: %v", h, err)
					}
					return state{h, root, apply(parent.content, wl)}, ""
				}
				s := state{0, make([]byte, 32), map[string]string{}}
				for i, wl := range sc.setup {
					var f string
					if s, f = set(s, wl, int64(i+1)); f != "" {
						w.bad = append(w.bad, "setup: "+f)
						return
					}
				}
				s3 := s
				w.kept = []state{s3}
				note := func(f string) { vrt.Own(func() { w.bad = append(w.bad, f) }) }
				keep := func(s state, replace bool) {
					vrt.Own(func() {
						if replace {
							w.kept = w.kept[:len(w.kept)-1]
						}
						w.kept = append(w.kept, s)
					})
				}
				vrt.GoNamed("writer", func() {
					s4, f := set(s3, sc.w4, 4) // starts the pruning thread
					if f != "" {
						note(f)
						return
					}
					keep(s4, false)
					if sc.fork4 != nil {
						if s4, f = set(s3, sc.fork4, 4); f != "" {
							note("re-commit: " + f)
							return
						}
						keep(s4, true)
					}
					s5, f := set(s4, sc.w5, 5)
					if f != "" {
						note(f)
						return
					}
					keep(s5, false)
					mavldb.VerifWaitPrune()
				})
				if sc.reader {
					vrt.GoNamed("reader", func() {
						for round := 0; round < 2; round++ {
							var l []state
							vrt.Own(func() { l = append(l, w.kept...) })
							for _, s := range l {
								if f := mvx.CompareGets(w.st, s.root, keysAll, s.content); f != "" {
									// a state replaced by the re-commit is no longer promised
									still := false
									vrt.Own(func() {
										for _, k := range w.kept {
											still = still || string(k.root) == string(s.root)
										}
									})
									if still {
										note(fmt.Sprintf("concurrent read of the state of height %d: %s", s.h, f))
									}
								}
							}
						}
					})
				}
			},
			Check: func(res *vrt.Result) string {
				w := cur
				if len(res.Panics) > 0 {
					return "panic: " + strings.SplitN(res.Panics[0], "\n", 2)[0]
				}
				if res.Deadlock {
					return "deadlock: " + strings.Join(res.Blocked, "; ")
				}
				if len(w.bad) > 0 {
					return w.bad[0]
				}
				var f string
				if p := vx.Catch(func() {
					for _, s := range w.kept {
						if _, err := mavldb.VerifLoadTree(w.st.GetDB(), s.root); err != nil {
							f = fmt.Sprintf("after the pruning run the state of height %d is incomplete: %v", s.h, err)
							return
						}
						if g := mvx.CompareGets(w.st, s.root, keysAll, s.content); g != "" {
							f = fmt.Sprintf("after the pruning run the state of height %d: %s", s.h, g)
							return
						}
					}
				}); p != "" {
					return "reading kept states at quiescence: " + p
				}
				if f != "" {
					return f
				}
				h1 := 0
				for _, l := range mvx.Dump(w.st.GetDB()) {
					if strings.HasPrefix(l, "_mb_-0000000001-") {
						h1++
					}
				}
				r.Seen("outcomes", fmt.Sprintf("conc %s ok pruning-idle=%v leaves-of-height-1-left=%d", sc.name, !mavldb.VerifIsPruning(), h1))
				if h1 < len(sc.setup[0])/2 {
					r.Count("conc_executions_in_which_pruning_deleted_records", 1)
				}
				return ""
			},
			FP: func(what string) string { return "conc:" + sc.name + ":" + vx.Norm(what, 60) },
		}
		out = append(out, q)
	}
	return out
}
