// C05 — state pruning never deletes live state.
//
// Explicit-state search over chain histories on the real mavl Store with pruning enabled
// (PruneHeight 2 and 3, in-memory database per execution): Commit(W) at the next height (direct Set
// or MemSet+Commit), heights without state change (nothing stored, or a Set with an empty write
// list), Fork(k) = the chain goes back k heights and later commits reuse the heights, Prune = the
// real PruningTree at the tip height (or the store's own background trigger, awaited), Jump = the
// height counter moves past the second/third-level thresholds. After every event the tip state and
// every current-chain state within the prune interval below the tip must still be complete in the
// database (raw walk of every node record) and read with the model's values.
package main

import (
	"encoding/json"
	"fmt"
	"os"
	"path/filepath"
	"runtime/debug"
	"strings"
	"sync/atomic"

	clog "github.com/33cn/chain33/common/log"
	drivers "github.com/33cn/chain33/system/store"
	"github.com/33cn/chain33/system/store/mavl"
	mavldb "github.com/33cn/chain33/system/store/mavl/db"
	"github.com/33cn/chain33/types"
	"verif/checks/c01/mvx"
	"verif/vrt"
	"verif/vx"
)

var keys = []string{"a", "b", "c", "d"}

// write lists: 3 keys x 2 values, singles and pairs (W = empty is the Empty / EmptySet event)
var wlists = [][]string{
	{"a", "1"},
	{"a", "2"},
	{"b", "1"},
	{"b", "2"},
	{"a", "1", "b", "1"},
	{"c", "1"},
	{"c", "2", "a", "2"},
	{"a", "1", "b", "1", "c", "1", "d", "1"}, // 7: four keys at once (second-level histories: a tree with inner nodes below the root)
	{"d", "2"},                               // 8
}

func wname(i int) string {
	var p []string
	for j := 0; j+1 < len(wlists[i]); j += 2 {
		p = append(p, wlists[i][j]+"="+wlists[i][j+1])
	}
	return "[" + strings.Join(p, ",") + "]"
}

type entry struct {
	height  int64
	root    []byte
	content map[string]string
	// released: a pruning run happened while this state was outside the prune interval below the tip
	// of that time; it is no longer promised (a later fork does not bring the promise back)
	released bool
}

type harness struct {
	name   string
	ph     int32
	mode   string // "set": direct Set; "memset": MemSet+Commit; "background": direct Set with the store's own pruning trigger
	ops    []int  // op codes: < 100 = Commit(wlists[code]); 100+ = fixed events
	depth  int
	shards bool
	driver string // "" = in-memory backend; "leveldb" = goleveldb in a scratch directory (closed and removed after the execution)
}

func opset(nW int, fixed ...int) (l []int) {
	for i := 0; i < nW; i++ {
		l = append(l, i)
	}
	for _, f := range fixed {
		l = append(l, 100+f)
	}
	return
}

var allFixed = []int{opEmpty, opEmptySet, opFork1, opFork2, opPrune, opJump}

var ldbSeq int64

type sys struct {
	dir      string // scratch directory of the goleveldb backend
	h        harness
	cfg      mvx.Cfg
	st       *mavl.Store
	chain    []entry // current chain: the commits that changed or re-stored state, ascending heights
	tip      int64
	floor    int64 // forks do not go below this height (0, or the height reached by the last Jump)
	hist     []int
	skip     bool
	lastOp   string
	forked   bool
	jumps    int
	everRoot map[string]int64 // every root ever committed (any branch) -> first height
	recurs   bool             // some root hash was committed at two different heights
	pruned   int
	// abandoned: heights at which a commit of an abandoned branch was stored and no commit of the
	// current chain has been stored since (a re-commit at a used height makes the store drop the
	// version-index entries of the abandoned commit; a height that passes without a store call does not)
	abandoned map[int64]bool
}

const (
	opEmpty = iota
	opEmptySet
	opFork1
	opFork2
	opPrune
	opJump
	nFixed
)

func (h harness) numOps() int { return len(h.ops) }

func (h harness) opName(i int) string {
	c := h.ops[i]
	if c < 100 {
		return "Commit" + wname(c)
	}
	return []string{"EmptyHeight", "SetEmptyWriteList", "Fork(1)", "Fork(2)", "Prune", "Jump(+500000)"}[c-100]
}

func (s *sys) cur() entry {
	if len(s.chain) == 0 {
		return entry{root: drivers.EmptyRoot[:], content: map[string]string{}}
	}
	return s.chain[len(s.chain)-1]
}

// retained lists the chain entries that are the state of some height in (tip-PruneHeight, tip].
func (s *sys) retained() []entry {
	var out []entry
	lo := s.tip - int64(s.h.ph) + 1
	base := -1
	for i, e := range s.chain {
		if e.height <= lo {
			base = i // state of height lo (latest commit at or below it)
		}
	}
	for i, e := range s.chain {
		if (i == base || e.height > lo) && !e.released {
			out = append(out, e)
		}
	}
	return out
}

// pruneRan records a pruning run at the current tip: states outside the interval are released and
// the chain can no longer be rolled back below the lowest height whose state was kept.
func (s *sys) pruneRan() {
	keep := map[int64]bool{}
	for _, e := range s.retained() {
		keep[e.height] = true
	}
	for i := range s.chain {
		if !keep[s.chain[i].height] {
			s.chain[i].released = true
		}
	}
	if f := s.tip - int64(s.h.ph) + 1; f > s.floor {
		s.floor = f
	}
}

func (s *sys) commit(kv []*types.KeyValue, content map[string]string) string {
	parent := s.cur()
	height := s.tip + 1
	mavldb.VerifSetPruning(s.h.mode != "background")
	// the store's own trigger: Tree.Save starts pruning at multiples of PruneHeight above 2*PruneHeight
	fires := s.h.mode == "background" && height%int64(s.h.ph) == 0 && height/int64(s.h.ph) > 1
	var live map[string]bool
	if fires {
		s.tip = height // the interval is the one below the new tip
		live = s.reachable()
		s.tip = height - 1
	}
	set := &types.StoreSet{StateHash: parent.root, KV: kv, Height: height}
	var root []byte
	var err error
	perr := vx.Catch(func() {
		if s.h.mode == "memset" {
			if root, err = s.st.MemSet(set, true); err == nil {
				root, err = s.st.Commit(&types.ReqHash{Hash: root})
			}
		} else {
			root, err = s.st.Set(set, true)
		}
	})
	if s.h.mode == "background" {
		mavldb.VerifWaitPrune()
	}
	if perr != "" {
		return s.classify("commit-panics", perr, parent)
	}
	if err != nil || len(root) == 0 {
		return s.classify("commit-fails", fmt.Sprintf("commit at height %d on the tip state failed: %v", height, err), parent)
	}
	s.tip = height
	delete(s.abandoned, height)
	if h0, ok := s.everRoot[string(root)]; ok && h0 != height {
		s.recurs = true
	} else if !ok {
		s.everRoot[string(root)] = height
	}
	s.chain = append(s.chain, entry{height: height, root: root, content: content})
	if fires {
		if f := s.deletedLive(live); f != "" {
			return f
		}
		// the new tip did not exist before the run: walk the retained states now
		kinds := map[string]int{}
		for _, e := range s.retained() {
			if _, err := mavldb.VerifLoadTree(s.st.GetDB(), e.root); err != nil {
				for _, k := range []string{"bare-hash", "prefixed-leaf", "prefixed-inner"} {
					if strings.Contains(err.Error(), k) {
						kinds[k]++
					}
				}
			}
		}
		if f := s.pruneClass(kinds, height); f != "" {
			return f
		}
		s.pruneRan()
	}
	return ""
}

// reachable collects the database keys of every node record of every retained state.
func (s *sys) reachable() map[string]bool {
	m := map[string]bool{}
	var walk func(n *mavldb.VerifNode)
	walk = func(n *mavldb.VerifNode) {
		if n == nil {
			return
		}
		m[string(n.DBKey)] = true
		walk(n.L)
		walk(n.R)
	}
	for _, e := range s.retained() {
		n, _ := mavldb.VerifLoadTree(s.st.GetDB(), e.root)
		walk(n)
	}
	return m
}

// deletedLive reports the records of retained states that a pruning run removed ("pruning only
// removes data that no such state references"). The fingerprint is the set of kinds of keys that
// were wrongly removed: a bare (un-prefixed) hash is shared by every height that reaches the same
// content; a height-prefixed key belongs to one version of one height.
func (s *sys) deletedLive(live map[string]bool) string {
	kinds := map[string]int{}
	for k := range live {
		if v, err := s.st.GetDB().Get([]byte(k)); err != nil || len(v) == 0 {
			switch {
			case strings.HasPrefix(k, "_mb_"):
				kinds["prefixed-leaf"]++
			case strings.HasPrefix(k, "_mh_"):
				kinds["prefixed-inner"]++
			default:
				kinds["bare-hash"]++
			}
		}
	}
	return s.pruneClass(kinds, s.tip)
}

func (s *sys) pruneClass(kinds map[string]int, at int64) string {
	if len(kinds) == 0 {
		return ""
	}
	var ks, det []string
	for _, k := range []string{"bare-hash", "prefixed-inner", "prefixed-leaf"} {
		if kinds[k] > 0 {
			ks = append(ks, k)
			det = append(det, fmt.Sprintf("%d %s", kinds[k], k))
		}
	}
	class := "prune-deletes-referenced-records:" + strings.Join(ks, "+")
	if len(ks) == 1 && ks[0] == "bare-hash" {
		class += ":shared-across-heights"
	} else if s.forked && len(s.abandoned) > 0 {
		class += ":after-fork:abandoned-height-not-recommitted"
	} else if s.forked {
		class += ":after-fork:abandoned-heights-recommitted"
	} else {
		class += ":no-fork"
	}
	var f []string
	if s.recurs {
		f = append(f, "a root hash recurs at another height")
	}
	if s.forked {
		f = append(f, "history contains a fork")
	}
	if s.jumps > 0 {
		f = append(f, "beyond the second-level threshold")
	}
	return fmt.Sprintf("%s| PruningTree(height %d, PruneHeight %d) removed %s record(s) that the tip state or a current-chain state within the prune interval references [%s]", class, at, s.h.ph, strings.Join(det, ", "), strings.Join(f, "; "))
}

// classify builds "class| detail"; the class carries the kind of record that is missing and the
// features of the history that make the defect classes distinguishable.
func (s *sys) classify(symptom, detail string, e entry) string {
	kind := "no-missing-node"
	for _, k := range []string{"bare-hash", "prefixed-leaf", "prefixed-inner"} {
		if strings.Contains(detail, k) {
			kind = k + "-record-missing"
		}
	}
	if kind == "no-missing-node" && strings.Contains(detail, "ErrNodeNotExist") {
		kind = "node-missing"
	}
	var f []string
	if s.recurs {
		f = append(f, "a-root-hash-recurs-at-another-height")
	}
	if s.forked {
		f = append(f, "after-fork")
	}
	if s.jumps > 0 {
		f = append(f, "beyond-second-level")
	}
	if len(f) == 0 {
		f = append(f, "linear-history-distinct-roots")
	}
	return fmt.Sprintf("%s:%s:%s| %s (tip height %d, PruneHeight %d, after %s)", symptom, kind, strings.Join(f, "+"), detail, s.tip, s.h.ph, s.lastOp)
}

func (h harness) seq(r *vx.Run) *vx.Seq[*sys] {
	cfg := mvx.Cfg{Name: h.name, Prefix: true, Prune: true, PruneHeight: h.ph}
	second, _ := mavldb.VerifPruneConsts()
	q := &vx.Seq[*sys]{Run: r, Name: h.name, NumOps: h.numOps(), MaxDepth: h.depth, Workers: 1}
	q.New = func() *sys {
		mvx.ResetGlobals(cfg)
		mavldb.VerifResetPrune()
		mavldb.VerifSetPruning(true)
		if h.driver == "leveldb" {
			dir := filepath.Join(vx.Root(), ".work", "c05", fmt.Sprintf("ldb-%d-%d", os.Getpid(), atomic.AddInt64(&ldbSeq, 1)))
			os.RemoveAll(dir)
			return &sys{h: h, cfg: cfg, st: mvx.Open(cfg, "leveldb", dir), dir: dir, everRoot: map[string]int64{}, abandoned: map[int64]bool{}}
		}
		return &sys{h: h, cfg: cfg, st: mvx.Open(cfg, "memdb", ""), everRoot: map[string]int64{}, abandoned: map[int64]bool{}}
	}
	q.Close = func(s *sys) {
		if s.dir != "" {
			s.st.Close()
			os.RemoveAll(s.dir)
		}
	}
	q.OpName = h.opName
	suppress := func(s *sys, f string) string {
		for _, sup := range strings.Split(os.Getenv("VERIF_SUPPRESS"), ",") {
			if sup != "" && f != "" && strings.Contains(f, sup) {
				// mutation demonstrations only: a failure class already reported is counted, not
				// raised, and the history is not extended
				r.Count("suppressed_cases", 1)
				s.skip = true
				return ""
			}
		}
		return f
	}
	inner := func(s *sys, i int) string { return "" }
	q.Apply = func(s *sys, i int) string { return suppress(s, inner(s, i)) }
	inner = func(s *sys, i int) string {
		if s.skip {
			return ""
		}
		if h.shards && len(s.hist) == 1 && !r.Mine(s.hist[0]*h.numOps()+i) {
			s.skip = true // another shard explores this subtree
			return ""
		}
		s.hist = append(s.hist, i)
		s.lastOp = h.opName(i)
		code := h.ops[i]
		if code < 100 {
			content := map[string]string{}
			for k, v := range s.cur().content {
				content[k] = v
			}
			for j := 0; j+1 < len(wlists[code]); j += 2 {
				content[wlists[code][j]] = wlists[code][j+1]
			}
			if f := s.commit(mvx.KV(wlists[code]...), content); f != "" {
				return f
			}
			r.Seen("outcomes", fmt.Sprintf("commit:forked=%v:recurs=%v", s.forked, s.recurs))
			return ""
		}
		switch code - 100 {
		case opEmpty: // a height without state change: the store is not called (MemSet with an empty list + Commit write nothing)
			s.tip++
		case opEmptySet: // a height without state change stored through Set with an empty write list
			if len(s.chain) == 0 {
				return ""
			}
			if f := s.commit(nil, s.cur().content); f != "" {
				return f
			}
			r.Seen("outcomes", "set-empty-list")
		case opFork1, opFork2:
			k := int64(code - 100 - opFork1 + 1)
			if s.tip-k < s.floor {
				return ""
			}
			s.tip -= k
			for len(s.chain) > 0 && s.chain[len(s.chain)-1].height > s.tip {
				s.abandoned[s.chain[len(s.chain)-1].height] = true
				s.chain = s.chain[:len(s.chain)-1]
			}
			s.forked = true
		case opPrune:
			if s.tip == 0 {
				return ""
			}
			before := len(mvx.Dump(s.st.GetDB()))
			live := s.reachable() // every record the retained states reference, before the run
			dbg := os.Getenv("C05_DEBUG") != ""
			if dbg {
				fmt.Println("---- database before prune at height", s.tip)
				for _, l := range mvx.Dump(s.st.GetDB()) {
					fmt.Printf("   %q\n", l)
				}
				for _, e := range s.retained() {
					fmt.Printf("   retained height %d root %x content %v\n", e.height, e.root, e.content)
				}
			}
			perr := vx.Catch(func() { mavldb.PruningTree(s.st.GetDB(), s.tip, s.st.VerifTreeCfg()) })
			if dbg {
				for k := range live {
					if v, err := s.st.GetDB().Get([]byte(k)); err != nil || len(v) == 0 {
						fmt.Printf("---- live record removed: %q\n", k)
					}
				}
			}
			mavldb.VerifSetPruning(true)
			if perr != "" {
				return s.classify("prune-panics", perr, s.cur())
			}
			if f := s.deletedLive(live); f != "" {
				return f
			}
			s.pruneRan()
			if after := len(mvx.Dump(s.st.GetDB())); after < before {
				s.pruned++
				r.Seen("outcomes", fmt.Sprintf("prune-deleted-records:forked=%v:recurs=%v:level2=%v", s.forked, s.recurs, s.jumps > 0))
			} else {
				r.Seen("outcomes", "prune-deleted-nothing")
			}
		case opJump:
			if s.jumps >= 3 || len(s.chain) == 0 {
				return ""
			}
			s.tip += second
			s.floor = s.tip
			s.jumps++
			r.Seen("outcomes", fmt.Sprintf("jump%d", s.jumps))
		}
		return ""
	}
	check := func(s *sys) string { return "" }
	q.Check = func(s *sys) string { return suppress(s, check(s)) }
	check = func(s *sys) string {
		if s.skip {
			return ""
		}
		ret := s.retained()
		for i := len(ret) - 1; i >= 0; i-- { // tip first
			e := ret[i]
			which := "tip state"
			if i < len(ret)-1 {
				which = fmt.Sprintf("current-chain state of height %d (within the prune interval)", e.height)
			}
			sym := "tip-unreadable"
			if i < len(ret)-1 {
				sym = "interval-state-unreadable"
			}
			if _, err := mavldb.VerifLoadTree(s.st.GetDB(), e.root); err != nil {
				return s.classify(sym, which+": "+err.Error(), e)
			}
			var f string
			if perr := vx.Catch(func() { f = mvx.CompareGets(s.st, e.root, keys, e.content) }); perr != "" {
				return s.classify(sym, which+": "+perr, e)
			}
			if f != "" {
				return s.classify(strings.Replace(sym, "unreadable", "reads-differ", 1), which+": "+f, e)
			}
		}
		if s.pruned > 0 && len(ret) > 1 {
			r.Seen("outcomes", "interval-states-checked-after-prune")
		}
		return ""
	}
	q.Canon = func(s *sys) string {
		if s.skip {
			return "skipped-by-shard"
		}
		parts := []interface{}{s.tip, s.floor, s.jumps}
		for _, e := range s.chain {
			parts = append(parts, e.height, e.root)
		}
		parts = append(parts, mvx.DumpKey(s.st.GetDB()), mavldb.VerifGlobalCacheKey())
		return vx.H(parts...)
	}
	q.FP = func(what string, hist []int) string {
		if i := strings.Index(what, "|"); i > 0 {
			return "prune:" + what[:i]
		}
		return "prune:" + vx.Norm(what, 40)
	}
	return q
}

func main() {
	r := vx.Start("C05", "model_checking")
	clog.SetLogLevel("crit")
	r.QuietStderr()
	debug.SetGCPercent(400)
	r.DistinctSet = "outcomes"
	r.Rule = "BFS over all chain histories of {Commit(W) at height tip+1 for W in 7 ordered write lists over 3 keys x 2 values, EmptyHeight (height passes, nothing stored), SetEmptyWriteList (height stored through Set with no writes), Fork(1), Fork(2) (the tip goes back; later commits reuse heights), Prune (real PruningTree at the tip height), Jump(+500000) (height counter crosses the second/third-level thresholds)} on the real mavl Store with pruning enabled; harnesses: PruneHeight 2 with direct Set, PruneHeight 3 with MemSet+Commit, PruneHeight 2 with the store's own background trigger (awaited after each commit). state = (tip, chain heights+roots, raw database, maxBlockHeight). After every event: raw walk of every node record and point reads of every key for the tip state and every current-chain state of a height in (tip-PruneHeight, tip]. distinct = situations (commit/prune x forked x root-recurs x level) observed. Interrupted-commit part: heights 1-2, a commit of four 400 KB values at height 3 during which the process stops after every number of durable writes, restart on the durable content, height 3 committed again (another block / the same block), heights 4..7, PruningTree at 7: states of heights 6 and 7 read with the model's values"
	r.Assume = []string{"values are non-empty", "the model follows the current chain only; abandoned branches may be pruned", "background trigger: the pruning goroutine is awaited right after the commit that started it (one schedule; the interleaved schedules belong to the scheduler-based part)", "in-memory backend with the adapter that lets a batch delete an absent key (goleveldb semantics)", "level-1 subtrees are distributed over worker processes: depth-1/2 transitions are counted once per worker"}
	forkOps := []int{4, 1, 3, 100 + opEmpty, 100 + opFork1, 100 + opPrune} // [a=1,b=1], [a=2], [b=2], EmptyHeight, Fork(1), Prune
	hs := []harness{
		{"ph2-set", 2, "set", opset(r.Pick(6, 7), allFixed...), r.Pick(5, 7), true, ""},
		{"ph3-memset", 3, "memset", opset(r.Pick(5, 7), allFixed...), r.Pick(4, 6), true, ""},
		{"ph2-background", 2, "background", opset(r.Pick(5, 7), allFixed...), r.Pick(4, 6), true, ""},
		{"ph2-memset-fork-deep", 2, "memset", forkOps, r.Pick(7, 9), true, ""},
	}
	if raw, ok := r.Replaying(); ok {
		var c struct {
			Harness string
			Hist    []int
			Choices []int
		}
		json.Unmarshal(raw, &c)
		f := "unknown harness " + c.Harness
		if c.Harness == "interrupted-commit" {
			crashPart(r)
			r.Finish()
		}
		for _, q := range concScheds(r, true) {
			if q.Name == c.Harness {
				res := (*vrt.Result)(nil)
				f, res = q.ReplaySched(c.Choices)
				for _, l := range res.Trace {
					fmt.Println("  ", l)
				}
			}
		}
		for _, h := range hs {
			if h.name == c.Harness {
				h.shards = false
				f = h.seq(r).ReplayHist(c.Hist)
			}
		}
		for _, drv := range []string{"", "leveldb"} {
			h := harness{"second-level-" + map[string]string{"": "memdb", "leveldb": "goleveldb"}[drv], 2, "set", append(opset(9), 100+opJump, 100+opPrune), 9, false, drv}
			if h.name == c.Harness {
				f = h.seq(r).ReplayHist(c.Hist)
			}
		}
		if f != "" {
			fmt.Println("replay: FAIL", f)
			r.Violate("replay", f, c, nil)
		} else {
			fmt.Println("replay: ok")
		}
		r.Finish()
	}
	if r.Fork(r.Pick(8, 14)) {
		if r.Counter("violating_cases") == 0 {
			r.Floors["states"] = 3000
			r.Floors["outcomes"] = 8
		}
		r.Finish()
	}
	for _, h := range hs {
		if o := os.Getenv("C05_ONLY"); o != "" && o != h.name {
			continue
		}
		h.seq(r).Explore()
	}
	if sh, _ := r.Shard(); sh == 0 && os.Getenv("C05_ONLY") == "" {
		concurrentPart(r)
	}
	if sh, nsh := r.Shard(); (sh == 1 || nsh <= 1) && os.Getenv("C05_ONLY") == "" {
		crashPart(r)
	}
	// second-level part: enumerated histories that move version-index entries to the second level and
	// then prune there (a four-key tree, so that leaves have inner nodes below the root), on the
	// in-memory backend and on goleveldb (whose iterator reuses its buffers); split over the shards
	if os.Getenv("C05_ONLY") == "" {
		sh, nsh := r.Shard()
		if nsh == 0 {
			nsh = 1
		}
		J, P := 100+opJump, 100+opPrune
		rew := []int{1, 3, 8, 6} // a=2, b=2, d=2, [c=2,a=2]
		var hists [][]int
		for _, x := range rew {
			for _, y := range rew {
				hists = append(hists, []int{7, x, J, J, y, P}, []int{7, x, P, J, J, y, P, y, P}, []int{7, x, y, J, J, x, P, 4, P})
			}
		}
		item := 0
		for _, drv := range []string{"", "leveldb"} {
			h := harness{"second-level-" + map[string]string{"": "memdb", "leveldb": "goleveldb"}[drv], 2, "set", append(opset(9), J, P), 9, false, drv}
			q := h.seq(r)
			idx := map[int]int{}
			for i, o := range h.ops {
				idx[o] = i
			}
			for _, hist := range hists {
				item++
				if item%nsh != sh || r.Expired("second-level histories") {
					continue
				}
				hh := make([]int, len(hist))
				for i, o := range hist {
					hh[i] = idx[o]
				}
				r.Count("executions", 1)
				r.Count("second_level_histories", 1)
				r.Count("transitions", int64(len(hh)))
				if f := q.ReplayHist(hh); f != "" {
					fp := h.name + ":" + vx.Norm(f, 60)
					if q.FP != nil {
						fp = q.FP(f, hh)
					}
					r.Violate(fp, f+" after "+fmt.Sprint(hist)+" on "+h.name, map[string]interface{}{"harness": h.name, "hist": hh}, func() string { return q.ReplayHist(hh) })
				}
			}
		}
	}
	r.Finish()
}
