package main

import (
	"encoding/json"
	"fmt"
	"strings"
	"sync/atomic"

	dbm "github.com/33cn/chain33/common/db"
	mavldb "github.com/33cn/chain33/system/store/mavl/db"
	"github.com/33cn/chain33/types"
	"verif/checks/c01/mvx"
	"verif/vx"
)

// Interrupted-commit part. A re-commit at an already used height is, in a running node, most often the
// block that was being committed when the process stopped (executed again after the restart, or replaced by a
// competing block). The histories here: two ordinary heights, then a LARGE commit at height 3 (four keys with
// 400 KB values: more than the 1 MiB at which the package's own batch loops flush) during which the process
// stops after c durable writes, for every c; restart on exactly the durable content; height 3 is committed
// again (variant "other": a different block that leaves b, c, d alone; variant "same": the same block); the
// chain grows to height 7; the real PruningTree runs at the tip. Oracle as everywhere in C05: the tip state and
// every current-chain state within the prune interval read with the model's values.

type crashCase struct {
	C       int    `json:"crash_after_units"`
	Variant string `json:"recommit"`
}

var crashSeq int64

func crashRun(r *vx.Run, c int, variant string) (fail string, units int) {
	cfg := mvx.Cfg{Name: "crash", Prefix: true, Prune: true, PruneHeight: 2}
	reset := func() {
		mvx.ResetGlobals(cfg)
		mavldb.VerifResetPrune()
		mavldb.VerifSetPruning(true) // pruning runs only when the history asks for it
	}
	reset()
	dir := fmt.Sprintf("c05crash-%d", atomic.AddInt64(&crashSeq, 1))
	st := mvx.Open(cfg, "vdb", dir)
	defer func() { dbm.VDBForget(dir); dbm.VDBForget(dir + "r") }()
	type ent struct {
		height  int64
		root    []byte
		content map[string]string
	}
	var chain []ent
	commit := func(height int64, parent []byte, base map[string]string, list []string) ([]byte, map[string]string, string) {
		content := map[string]string{}
		for k, v := range base {
			content[k] = v
		}
		for j := 0; j+1 < len(list); j += 2 {
			content[list[j]] = list[j+1]
		}
		var root []byte
		var err error
		if p := vx.Catch(func() {
			root, err = st.Set(&types.StoreSet{StateHash: parent, KV: mvx.KV(list...), Height: height}, true)
		}); p != "" {
			return nil, nil, fmt.Sprintf("commit at height %d panics: %s", height, p)
		}
		if err != nil {
			return nil, nil, fmt.Sprintf("commit at height %d fails: %v", height, err)
		}
		return root, content, ""
	}
	var root []byte
	content := map[string]string{}
	for i, l := range [][]string{{"a", "1", "b", "1", "c", "1", "d", "1"}, {"a", "2"}} {
		rt, ct, f := commit(int64(i+1), root, content, l)
		if f != "" {
			return "harness: " + f, 0
		}
		root, content = rt, ct
		chain = append(chain, ent{int64(i + 1), rt, ct})
	}
	big := strings.Repeat("B", 400*1024)
	bigList := []string{"a", big + "a", "b", big + "b", "c", big + "c", "d", big + "d"}
	// the interrupted commit
	dbm.VDBControl(true, c)
	_, _, _ = commit(3, root, content, bigList)
	img := dbm.VDBCrashImage()
	units = len(dbm.VDBControl(false, -1))
	if img != nil {
		// restart: a new process on exactly the durable content
		dbm.VDBPreload(dir+"r", img[dir])
		reset()
		st = mvx.Open(cfg, "vdb", dir+"r")
	} else {
		r.Count("hit_commit_completed_before_the_crash_point", 1)
	}
	list := []string{"a", "3"}
	if variant == "same" {
		list = bigList
	}
	for h := int64(3); h <= 7; h++ {
		if h > 3 {
			list = []string{"a", fmt.Sprint(h)}
		}
		rt, ct, f := commit(h, root, content, list)
		if f != "" {
			return f + fmt.Sprintf(" (after the restart; height 3 re-committed with the %s block)", variant), units
		}
		root, content = rt, ct
		chain = append(chain, ent{h, rt, ct})
	}
	if p := vx.Catch(func() { mavldb.PruningTree(st.GetDB(), 7, st.VerifTreeCfg()) }); p != "" {
		return "pruning at height 7 panics: " + p, units
	}
	mavldb.VerifSetPruning(true)
	for i := len(chain) - 1; i >= 0 && chain[i].height >= 6; i-- {
		e := chain[i]
		var f string
		if p := vx.Catch(func() { f = mvx.CompareGets(st, e.root, keys, e.content) }); p != "" {
			f = p
		}
		if f != "" {
			if len(f) > 300 {
				f = f[:300]
			}
			return fmt.Sprintf("after pruning at height 7 the state of height %d (prune interval 2) is not readable: %s", e.height, f), units
		}
	}
	return "", units
}

func crashPart(r *vx.Run) {
	if raw, ok := r.Replaying(); ok {
		var c struct {
			Harness string
			crashCase
		}
		if json.Unmarshal(raw, &c) == nil && c.Harness == "interrupted-commit" {
			f, n := crashRun(r, c.C, c.Variant)
			fmt.Printf("replay: process stops after %d of %d writes of the large commit, height 3 re-committed with the %s block: %q\n", c.C, n, c.Variant, f)
			if f != "" {
				r.Violate("replay", f, c, nil)
			}
		}
		return
	}
	_, n := crashRun(r, -1, "other")
	r.Seen("outcomes", fmt.Sprintf("interrupted-commit:units=%d", n))
	for _, variant := range []string{"other", "same"} {
		for c := 0; c <= n; c++ {
			c, variant := c, variant
			f, _ := crashRun(r, c, variant)
			r.Count("executions", 1)
			r.Count("interrupted_commit_histories", 1)
			r.Count("transitions", 8)
			if f != "" {
				if strings.HasPrefix(f, "harness: ") {
					r.Note("interrupted-commit part: %s", f)
					continue
				}
				kase := map[string]interface{}{"Harness": "interrupted-commit", "crash_after_units": c, "recommit": variant}
				r.Violate("prune:interrupted-commit:"+variant+":"+vx.Norm(f, 40), fmt.Sprintf("large commit at height 3 interrupted after %d of %d durable writes, restart, height 3 re-committed with the %s block, heights 4..7, Prune: %s", c, n, variant, f), kase, func() string {
					f2, _ := crashRun(r, c, variant)
					return vx.Norm(f2, 40)
				})
			}
		}
	}
}
