// C06 — key/value backends agree with an ordered-map model.
// (a) explicit-state search over mutation histories (Set/Delete/atomic batches) on the real
// backend with Get and full-scan comparison after every step; (b) for every content (every subset
// of the key alphabet) every iterator configuration (start x end x direction) x every script of
// Rewind/Seek/Next up to a length, compared step by step with the sorted-map model.
package main

import (
	"bytes"
	"fmt"
	"os"
	"path/filepath"
	"sync"
	"time"

	dbm "github.com/33cn/chain33/common/db"
	clog "github.com/33cn/chain33/common/log"
	"github.com/33cn/chain33/types"
	"verif/vkv"
	"verif/vx"
)

type mop struct {
	name string
	do   func(db dbm.DB, m vkv.Model)
}

func mutOps(keys []string) []mop {
	var ops []mop
	vals := [][]byte{[]byte(""), []byte("x"), []byte("y"), nil} // nil: a nil slice is an empty value, not a delete
	for _, k := range keys {
		k := k
		for _, v := range vals {
			v := v
			ops = append(ops, mop{fmt.Sprintf("Set(%q,%q)", k, v), func(db dbm.DB, m vkv.Model) { db.Set([]byte(k), v); m[k] = v }})
		}
		ops = append(ops, mop{fmt.Sprintf("SetSync(%q,\"s\")", k), func(db dbm.DB, m vkv.Model) { db.SetSync([]byte(k), []byte("s")); m[k] = []byte("s") }})
		ops = append(ops, mop{fmt.Sprintf("Delete(%q)", k), func(db dbm.DB, m vkv.Model) { db.Delete([]byte(k)); delete(m, k) }})
	}
	// atomic batches: all ordered pairs/triples drawn from a small op set on two colliding keys
	type bo struct {
		del bool
		k   string
		v   []byte
	}
	k0, k1 := keys[0], keys[1]
	prim := []bo{{false, k0, []byte("p")}, {false, k0, []byte("")}, {true, k0, nil}, {false, k1, []byte("q")}, {true, k1, nil}, {false, k1, nil}}
	var rec func(cur []bo)
	rec = func(cur []bo) {
		if len(cur) >= 2 {
			c := append([]bo{}, cur...)
			name := "Batch["
			for _, b := range c {
				if b.del {
					name += fmt.Sprintf("del %q;", b.k)
				} else {
					name += fmt.Sprintf("set %q=%q;", b.k, b.v)
				}
			}
			name += "]"
			for _, sync := range []bool{false, true} {
				sync := sync
				ops = append(ops, mop{fmt.Sprintf("%s sync=%v", name, sync), func(db dbm.DB, m vkv.Model) {
					b := db.NewBatch(sync)
					for _, o := range c {
						if o.del {
							b.Delete([]byte(o.k))
							delete(m, o.k)
						} else {
							b.Set([]byte(o.k), o.v)
							m[o.k] = o.v
						}
					}
					// the error result of Write is not part of the compared behaviour (memdb reports
					// "not found" when a batch deletes an absent key, after having applied everything)
					_ = b.Write()
				}})
			}
		}
		if len(cur) == 3 {
			return
		}
		for _, p := range prim {
			rec(append(cur, p))
		}
	}
	rec(nil)
	return ops
}

type sys struct {
	db dbm.DB
	m  vkv.Model
}

// holder reopens its backend in an empty directory every `every` uses, so that tombstones and old
// versions left by earlier executions do not pile up (they make goleveldb scans quadratic).
type holder struct {
	backend, dir string
	db           dbm.DB
	uses, every  int
}

func (h *holder) fresh() dbm.DB {
	if h.db != nil && h.uses < h.every {
		h.uses++
		return h.db
	}
	if h.db != nil {
		h.db.Close()
	}
	os.RemoveAll(h.dir)
	h.db = dbm.NewDB("c06", h.backend, h.dir, 16)
	h.uses = 1
	return h.db
}

func (h *holder) close() {
	if h.db != nil {
		h.db.Close()
		h.db = nil
	}
	os.RemoveAll(h.dir)
}

func compareAll(db dbm.DB, m vkv.Model, keys []string) string {
	for _, k := range keys {
		v, err := db.Get([]byte(k))
		mv, ok := m[k]
		if ok && (err != nil || !bytes.Equal(v, mv)) {
			return fmt.Sprintf("Get(%q)=%q,%v model %q", k, v, err, mv)
		}
		if !ok && err != types.ErrNotFound {
			return fmt.Sprintf("Get(%q)=%q,%v model not found", k, v, err)
		}
	}
	it := db.Iterator(nil, types.EmptyValue, false)
	defer it.Close()
	var got []string
	for ok := it.Rewind(); ok; ok = it.Next() {
		got = append(got, string(it.Key()))
		if !bytes.Equal(it.Value(), m[string(it.Key())]) {
			return fmt.Sprintf("scan value of %q differs", it.Key())
		}
	}
	if fmt.Sprint(got) != fmt.Sprint(m.Keys()) {
		return fmt.Sprintf("full scan %q model %q", got, m.Keys())
	}
	return ""
}

func main() {
	r := vx.Start("C06", "model_checking")
	r.Rule = "per backend (memdb, goleveldb on disk, gobadgerdb on disk): BFS over mutation histories {Set,SetSync,Delete, every 2-3 op atomic batch over two colliding keys incl. set-then-delete and empty values} with Get/full-scan comparison after each step; then for every subset of the key alphabet as content: every Iterator(start,end,reverse) with start in keys+nil, end in keys+nil(prefix)+unbounded sentinel, and every script of Rewind/Seek(t)/Next up to length L, compared step by step with a sorted-map model. state = (backend, content). distinct = (backend, in-range key count, direction) classes"
	r.Assume = []string{"behaviour after an iterator ran out of range is unspecified and not compared", "Seek's boolean result is not compared (only position and validity)", "Badger: alphabet without empty key and without 0xff (documented limitation)"}
	r.DistinctSet = "outcomes"
	tmp := filepath.Join(vx.Root(), ".work", "c06", fmt.Sprintf("db-%d", os.Getpid()))
	os.RemoveAll(tmp)
	os.MkdirAll(tmp, 0o755)
	defer os.RemoveAll(tmp)
	keysFull := []string{"", "a", "ab", "b", "a\xff", "\xff", "\xff\xff"}
	keysBadger := []string{"a", "ab", "b", "a0", "c"}
	type be struct {
		name string
		keys []string
		sl   int
		md   int
	}
	bes := []be{
		{"memdb", keysFull, r.Pick(2, 3), r.Pick(2, 3)},
		{"goleveldb", keysFull, r.Pick(2, 3), r.Pick(2, 3)},
		{"gobadgerdb", keysBadger, r.Pick(2, 3), r.Pick(1, 2)},
	}
	if raw, ok := r.Replaying(); ok {
		fmt.Println("replay case:", string(raw), "(re-running the whole quick check reproduces it deterministically)")
	}
	clog.SetLogLevel("crit")
	r.QuietStderr()
	for _, b := range bes {
		b := b
		if o := os.Getenv("C06_ONLY"); o != "" && o != b.name {
			continue
		}
		nw := 1
		if b.name != "memdb" {
			nw = 16
		}
		var hs []*holder
		for w := 0; w < nw; w++ {
			hs = append(hs, &holder{backend: b.name, dir: filepath.Join(tmp, fmt.Sprintf("%s-%d", b.name, w)), every: 100})
		}
		ops := mutOps(b.keys)
		q := &vx.Seq[*sys]{Run: r, Name: b.name, NumOps: len(ops), MaxDepth: b.md, Workers: 1}
		q.New = func() *sys { db := hs[0].fresh(); vkv.Load(db, vkv.Model{}); return &sys{db, vkv.Model{}} }
		q.OpName = func(i int) string { return ops[i].name }
		q.Apply = func(s *sys, i int) string { ops[i].do(s.db, s.m); return "" }
		q.Check = func(s *sys) string { return compareAll(s.db, s.m, b.keys) }
		q.Canon = func(s *sys) string { return fmt.Sprint(s.m) }
		q.FP = func(what string, h []int) string { return b.name + ":mutation:" + vx.Norm(what, 40) }
		t0 := time.Now()
		q.Explore()
		r.Note("%s: mutation BFS took %.1fs", b.name, time.Since(t0).Seconds())
		t0 = time.Now()
		var bounds [][]byte
		for _, k := range b.keys {
			bounds = append(bounds, []byte(k))
		}
		var wg sync.WaitGroup
		for w := range hs {
			wg.Add(1)
			go func(w int) {
				defer wg.Done()
				hs[w].every = 1
				vkv.CheckIterators(r, b.name, hs[w].fresh, b.keys, bounds, b.sl, func(i int) bool { return i%nw == w })
				hs[w].close()
			}(w)
		}
		wg.Wait()
		r.Note("%s: iterator scripts took %.1fs", b.name, time.Since(t0).Seconds())
	}
	r.Floors["outcomes"] = 20
	r.Finish()
}
