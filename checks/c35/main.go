// C35 — block download delivers every servable height.
// The download protocol package is source-instrumented and its real task code
// (handleEventDownloadBlock / downloadBlock / tasks / checkTask) runs under the controlled scheduler
// against in-memory peers whose behaviour per (peer, height) is enumerated exhaustively.
package main

import (
	"bytes"
	"context"
	"crypto/sha256"
	"encoding/json"
	"errors"
	"fmt"
	"io"
	"sort"
	"strings"
	"time"

	clog "github.com/33cn/chain33/common/log"
	"github.com/33cn/chain33/queue"
	"github.com/33cn/chain33/system/p2p/dht/protocol"
	"github.com/33cn/chain33/system/p2p/dht/protocol/download"
	"github.com/33cn/chain33/types"
	"github.com/libp2p/go-libp2p/core/connmgr"
	lcrypto "github.com/libp2p/go-libp2p/core/crypto"
	"github.com/libp2p/go-libp2p/core/host"
	"github.com/libp2p/go-libp2p/core/network"
	"github.com/libp2p/go-libp2p/core/peer"
	"github.com/libp2p/go-libp2p/core/peerstore"
	lproto "github.com/libp2p/go-libp2p/core/protocol"
	"verif/vrt"
	"verif/vx"
)

// behaviours of a peer for one height
const (
	bServe = iota
	bRefuse
	bMalformed
	bReadErr
	bWrongHeight
	bUnavail // the peer's announced height is below the requested one: it must not even be asked
	bLate    // the peer's announced height is below the requested one until lateAt of virtual time (the whole first pass of a height: 50 tries 400 ms apart); from then on it serves the height
	nBehav
)

// lateAt lies between the 50th try of the first pass (19.6 s) and the moment the pass gives up (20.0 s).
const lateAt = int64(19800 * 1e6)

var bname = []string{"serve", "refuse-stream", "malformed-reply", "read-error", "wrong-height", "height-unavailable", "height-available-late"}

type req struct {
	peer   int
	height int64
	failed bool
	second bool // issued by the re-download pass (checkTask runs in the handler's own thread, the first pass in per-height goroutines)
}

type world struct {
	peers  []peer.ID
	behav  [][]int // [peer][height index]
	start  int64
	reqs   []req
	synced []int64 // heights delivered to the fake blockchain
	bad    []string
}

type fconn struct {
	network.Conn
	pid peer.ID
}

func (c fconn) RemotePeer() peer.ID { return c.pid }

type fstream struct {
	network.Stream
	rd      io.Reader
	wr      bytes.Buffer
	pid     peer.ID
	readErr error
}

func (s *fstream) Read(p []byte) (int, error) {
	if s.readErr != nil {
		return 0, s.readErr
	}
	return s.rd.Read(p)
}
func (s *fstream) Write(p []byte) (int, error) { return s.wr.Write(p) }
func (s *fstream) Close() error                { return nil }
func (s *fstream) Reset() error                { return nil }
func (s *fstream) Conn() network.Conn          { return fconn{pid: s.pid} }
func (s *fstream) Protocol() lproto.ID         { return "/fake" }

type fpeerstore struct {
	peerstore.Peerstore
	w *world
}

func (ps fpeerstore) LatencyEWMA(p peer.ID) time.Duration {
	for i, q := range ps.w.peers {
		if q == p {
			return time.Duration(i+1) * time.Millisecond // distinct latencies: a fixed sort order
		}
	}
	return 0
}

type fhost struct {
	host.Host
	w    *world
	self peer.ID
}

func (h *fhost) ID() peer.ID                      { return h.self }
func (h *fhost) Peerstore() peerstore.Peerstore   { return fpeerstore{w: h.w} }
func (h *fhost) ConnManager() connmgr.ConnManager { return connmgr.NullConnMgr{} }

func encodeResp(m types.Message) []byte {
	s := &fstream{}
	if err := protocol.WriteStream(m, s); err != nil {
		panic(err)
	}
	return s.wr.Bytes()
}

func (h *fhost) NewStream(ctx context.Context, p peer.ID, pids ...lproto.ID) (network.Stream, error) {
	vrt.SchedPoint("NewStream")
	w := h.w
	pi := -1
	for i, q := range w.peers {
		if q == p {
			pi = i
		}
	}
	if pi < 0 {
		return nil, errors.New("unknown peer")
	}
	// the request is only known after the caller has written it; the stream answers lazily
	st := &lazyStream{fstream: fstream{pid: p}, h: h, pi: pi}
	return st, nil
}

// lazyStream decides its answer when the first byte of the reply is read (the request was written by then).
type lazyStream struct {
	fstream
	h    *fhost
	pi   int
	done bool
}

func (s *lazyStream) Read(p []byte) (int, error) {
	if !s.done {
		s.done = true
		vrt.SchedPoint("peer answers")
		w := s.h.w
		var rq types.MessageGetBlocksReq
		rs := &fstream{rd: bytes.NewReader(s.wr.Bytes())}
		if err := protocol.ReadStream(&rq, rs); err != nil || rq.Message == nil {
			w.bad = append(w.bad, "harness could not decode the request written by downloadBlockFromPeerOld")
			return 0, io.EOF
		}
		h := rq.Message.StartHeight
		hi := int(h - w.start)
		b := bRefuse
		if hi >= 0 && hi < len(w.behav[s.pi]) {
			b = w.behav[s.pi][hi]
		}
		r := req{peer: s.pi, height: h, second: vrt.CurID() == 0}
		blk := func(height int64) *types.MessageGetBlocksResp {
			return &types.MessageGetBlocksResp{Message: &types.InvDatas{Items: []*types.InvData{{Ty: 2, Value: &types.InvData_Block{Block: &types.Block{Height: height, TxHash: []byte(fmt.Sprint("blk", height))}}}}}}
		}
		switch b {
		case bServe:
			s.rd = bytes.NewReader(encodeResp(blk(h)))
		case bLate:
			if vrt.Clock() < lateAt {
				w.bad = append(w.bad, fmt.Sprintf("peer %d was asked for height %d above its (then) announced height", s.pi, h))
				s.readErr = io.ErrUnexpectedEOF
				r.failed = true
			} else {
				s.rd = bytes.NewReader(encodeResp(blk(h)))
			}
		case bWrongHeight:
			s.rd = bytes.NewReader(encodeResp(blk(h + 100)))
			r.failed = true // a block of another height is not a service of this height
		case bMalformed:
			// which malformed reply is an environment choice explored like a scheduling decision
			tx := &types.InvData_Tx{Tx: &types.Transaction{Payload: []byte("x")}}
			shapes := []*types.MessageGetBlocksResp{
				{},
				{Message: &types.InvDatas{}},
				{Message: &types.InvDatas{Items: []*types.InvData{{Ty: 2, Value: tx}}}},
				{Message: &types.InvDatas{Items: []*types.InvData{{Ty: 2}}}},
				{Message: &types.InvDatas{Items: []*types.InvData{{Ty: 1, Value: tx}}}},
				{Message: &types.InvDatas{Items: []*types.InvData{{Ty: 2, Value: &types.InvData_Block{}}}}},
				{Message: &types.InvDatas{Items: []*types.InvData{nil}}},
			}
			s.rd = bytes.NewReader(encodeResp(shapes[vrt.Choose(len(shapes), "malformed reply shape")]))
			r.failed = true
		case bUnavail:
			w.bad = append(w.bad, fmt.Sprintf("peer %d was asked for height %d above its announced height", s.pi, h))
			s.readErr = io.ErrUnexpectedEOF
			r.failed = true
		default:
			s.readErr = io.ErrUnexpectedEOF
			r.failed = true
		}
		w.reqs = append(w.reqs, r)
	}
	return s.fstream.Read(p)
}

type fpim struct {
	protocol.IPeerInfoManager
	w *world
}

func (m fpim) PeerHeight(p peer.ID) int64 {
	w := m.w
	for i, q := range w.peers {
		if q == p {
			// announced height = highest height this peer does not mark unavailable
			hmax := w.start - 1
			for hi, b := range w.behav[i] {
				if b != bUnavail && !(b == bLate && vrt.Clock() < lateAt) {
					hmax = w.start + int64(hi)
				}
			}
			return hmax
		}
	}
	return -1
}

// fqueue records what the protocol sends to the blockchain module.
type fqueue struct {
	queue.Client
	w *world
}

func (q fqueue) NewMessage(topic string, ty int64, data interface{}) *queue.Message {
	return queue.NewMessage(0, topic, ty, data)
}
func (q fqueue) Send(msg *queue.Message, wait bool) error {
	if msg.Ty == types.EventSyncBlock {
		bp := msg.Data.(*types.BlockPid)
		q.w.synced = append(q.w.synced, bp.Block.Height)
	}
	return nil
}

func mkPeers(n int) []peer.ID {
	var out []peer.ID
	for i := 0; i < n; i++ {
		seed := sha256.Sum256([]byte(fmt.Sprint("c35-peer-", i)))
		_, pub, err := lcrypto.GenerateEd25519Key(bytes.NewReader(append(seed[:], seed[:]...)))
		if err != nil {
			panic(err)
		}
		id, err := peer.IDFromPublicKey(pub)
		if err != nil {
			panic(err)
		}
		out = append(out, id)
	}
	return out
}

func (w *world) verdict() (fp, what string) {
	if len(w.bad) > 0 {
		return "harness-or-protocol:" + vx.Norm(w.bad[0], 40), w.bad[0]
	}
	// every servable height delivered
	got := map[int64]int{}
	for _, h := range w.synced {
		got[h]++
	}
	nh := len(w.behav[0])
	for hi := 0; hi < nh; hi++ {
		h := w.start + int64(hi)
		servable := false
		for p := range w.behav {
			if w.behav[p][hi] == bServe || w.behav[p][hi] == bLate {
				servable = true
			}
		}
		if servable && got[h] == 0 {
			return "height-not-delivered", fmt.Sprintf("height %d is served by a peer but was never delivered to the blockchain", h)
		}
	}
	for h := range got {
		if h < w.start || h >= w.start+int64(nh) {
			return "foreign-height-delivered", fmt.Sprintf("a block of height %d outside the requested range was delivered", h)
		}
	}
	// a peer that failed a height is not asked for it again within the same task
	failed := map[[2]int64]bool{}
	for _, r := range w.reqs {
		k := [2]int64{int64(r.peer), r.height}
		if failed[k] {
			hi := int(r.height - w.start)
			servable := false
			for p := range w.behav {
				if hi >= 0 && hi < len(w.behav[p]) && (w.behav[p][hi] == bServe || w.behav[p][hi] == bLate) {
					servable = true
				}
			}
			if !servable {
				return "failed-peer-asked-again:re-download-pass-of-a-height-nobody-serves", fmt.Sprintf("peer %d failed height %d and was asked for it again in the same task (by the re-download pass; no peer serves that height)", r.peer, r.height)
			}
			if r.second {
				return "failed-peer-asked-again:re-download-pass-of-a-height-that-became-available-late", fmt.Sprintf("peer %d failed height %d and was asked for it again in the same task (by the re-download pass; the height failed the first pass because the peer that serves it announced it too late)", r.peer, r.height)
			}
			return "failed-peer-asked-again", fmt.Sprintf("peer %d failed height %d and was asked for it again in the same task", r.peer, r.height)
		}
		if r.failed {
			failed[k] = true
		}
	}
	return "", ""
}

func main() {
	r := vx.Start("C35", "model_checking")
	clog.SetLogLevel("crit")
	r.Rule = "controlled-scheduler exploration of the instrumented download package: the real handleEventDownloadBlock task over P in-memory peers and a range of H heights; the behaviour of every (peer,height) is enumerated over {serve, refuse stream, malformed reply (7 shapes: empty, no items, declared block type with a transaction payload / without payload, transaction item, block item without block, nil item — chosen like a scheduling decision), read error, wrong height, height unavailable, height available only after the first pass} with at most one height that no peer serves (for the termination clause); per assignment every schedule of the per-height goroutines within the deviation bound. distinct = (assignment class, #requests, #failures) classes"
	r.Assume = []string{"the libp2p host, peer store, peer-info manager and queue client are in-memory fakes behind the package's own interfaces; stream codecs (protocol.Read/WriteStream) are the real ones", "distinct peer latencies fix the initial sort order", "virtual time for the 400 ms back-off"}
	r.StateCounter = "tree_nodes"
	r.DistinctSet = "outcomes"
	type shape struct {
		P, H, bound int
		set         []int // behaviours enumerated for this shape (nil = the tier's full set)
	}
	// the last quick shape: three peers and two heights (the per-height goroutines then hold different
	// views of the shared peer list) over the three behaviours that shape the list: serve, refuse, too low
	// the shapes with "late" peers: heights that a peer serves but that fail the whole first pass (the peer's
	// announced height rises only afterwards) and are left to the re-download pass; the 50 tries make these
	// executions long, hence the small bounds
	shapes := []shape{{2, 2, 2, nil}, {3, 1, 2, nil}, {3, 2, 2, []int{bServe, bRefuse, bUnavail}}, {1, 2, 1, []int{bServe, bLate}}, {2, 2, 0, []int{bRefuse, bLate}}}
	if !r.Quick() {
		shapes = []shape{{2, 2, 3, nil}, {3, 1, 3, nil}, {3, 2, 2, nil}, {2, 3, 2, nil}, {4, 2, 2, []int{bServe, bRefuse, bUnavail}}, {1, 3, 1, []int{bServe, bLate}}, {2, 2, 1, []int{bServe, bRefuse, bLate}}, {2, 3, 0, []int{bRefuse, bLate, bUnavail}}}
	}
	behavSet := []int{bServe, bRefuse, bMalformed, bWrongHeight, bUnavail}
	if !r.Quick() {
		behavSet = []int{bServe, bRefuse, bMalformed, bReadErr, bWrongHeight, bUnavail}
	}
	var cur *world
	mk := func(sh shape, assign [][]int, name string) *vx.Sched {
		peers := mkPeers(sh.P + 1)
		body := func() {
			w := &world{peers: peers[:sh.P], behav: assign, start: 10}
			cur = w
			env := &protocol.P2PEnv{Ctx: context.Background(), Host: &fhost{w: w, self: peers[sh.P]}, QueueClient: fqueue{w: w}, PeerInfoManager: fpim{w: w}}
			p := download.VerifNew(env)
			var pids []string
			for _, id := range w.peers {
				pids = append(pids, id.String())
			}
			msg := queue.NewMessage(1, "p2p", types.EventFetchBlocks, &types.ReqBlocks{Start: w.start, End: w.start + int64(sh.H) - 1, Pid: pids})
			p.VerifHandleEventDownloadBlock(msg)
		}
		return &vx.Sched{Run: r, Name: name, Body: body, MaxPreempt: sh.bound, MaxSteps: 30000, Budget: 0,
			Check: func(res *vrt.Result) string {
				w := cur
				if len(res.Panics) > 0 {
					return "panic: " + res.Panics[0]
				}
				if res.Deadlock {
					return "task never terminates: " + strings.Join(res.Blocked, "; ")
				}
				if res.Horizon {
					return "task did not terminate within the step horizon"
				}
				nf := 0
				for _, q := range w.reqs {
					if q.failed {
						nf++
					}
				}
				r.Seen("outcomes", fmt.Sprintf("P%dH%d/reqs=%d/fails=%d/synced=%d", sh.P, sh.H, len(w.reqs), nf, len(w.synced)))
				_, what := w.verdict()
				return what
			},
			FP: func(what string) string {
				fp, _ := cur.verdict()
				if fp == "" {
					fp = vx.Norm(what, 50)
				}
				return fp
			}}
	}
	assignName := func(sh shape, a [][]int) string {
		var parts []string
		for p := range a {
			var hs []string
			for _, b := range a[p] {
				hs = append(hs, bname[b])
			}
			parts = append(parts, strings.Join(hs, ","))
		}
		return fmt.Sprintf("P%dH%d[%s]", sh.P, sh.H, strings.Join(parts, "|"))
	}
	if raw, ok := r.Replaying(); ok {
		var c struct {
			Harness string
			Choices []int
			Assign  [][]int
		}
		json.Unmarshal(raw, &c)
		var P, H int
		fmt.Sscanf(c.Harness, "P%dH%d[", &P, &H)
		inner := c.Harness[strings.Index(c.Harness, "[")+1 : len(c.Harness)-1]
		var a [][]int
		for _, ps := range strings.Split(inner, "|") {
			var row []int
			for _, bs := range strings.Split(ps, ",") {
				for bi, bn := range bname {
					if bn == bs {
						row = append(row, bi)
					}
				}
			}
			a = append(a, row)
		}
		q := mk(shape{P, H, 9, nil}, a, c.Harness)
		w, res := q.ReplaySched(c.Choices)
		for _, l := range res.Trace {
			fmt.Println("  ", l)
		}
		fmt.Printf("  requests (peer,height,failed): %+v\n  delivered heights: %v\n", cur.reqs, cur.synced)
		if w != "" {
			fmt.Println("replay: FAIL", w)
			r.Violate("replay", w, c, nil)
		} else {
			fmt.Println("replay: ok")
		}
		r.Finish()
	}
	if r.Fork(16) {
		r.Floors["outcomes"] = 5
		r.Finish()
	}
	sh0, nsh := r.Shard()
	idx := 0
	tierSet := behavSet
	for _, sh := range shapes {
		behavSet := tierSet
		if sh.set != nil {
			behavSet = sh.set
		}
		n := sh.P * sh.H
		total := 1
		for i := 0; i < n; i++ {
			total *= len(behavSet)
		}
		for code := 0; code < total; code++ {
			a := make([][]int, sh.P)
			c := code
			for p := 0; p < sh.P; p++ {
				a[p] = make([]int, sh.H)
				for h := 0; h < sh.H; h++ {
					a[p][h] = behavSet[c%len(behavSet)]
					c /= len(behavSet)
				}
			}
			ok := true
			unserved := 0
			for h := 0; h < sh.H; h++ {
				s := false
				for p := 0; p < sh.P; p++ {
					s = s || a[p][h] == bServe || a[p][h] == bLate
				}
				if !s {
					unserved++
				}
			}
			// assignments in which a height is served by nobody are explored for the termination clause
			// (and for the other heights); at most one such height per assignment
			ok = unserved <= 1
			// "height unavailable" must be monotone: a peer's announced height is one number
			for p := 0; p < sh.P; p++ {
				for h := 0; h+1 < sh.H; h++ {
					if a[p][h] == bUnavail && a[p][h+1] != bUnavail {
						ok = false
					}
					if a[p][h] == bLate && a[p][h+1] != bUnavail && a[p][h+1] != bLate {
						ok = false
					}
				}
			}
			if !ok {
				continue
			}
			idx++
			if nsh > 1 && idx%nsh != sh0 {
				continue
			}
			if r.Expired("assignments") {
				break
			}
			name := assignName(sh, a)
			q := mk(sh, a, name)
			// each assignment is explored completely inside this shard (no second-level sharding)
			x := exploreLocal(q)
			_ = x
			r.Count("assignments", 1)
		}
	}
	_ = sort.Strings
	r.Finish()
}

// exploreLocal runs the exploration of one assignment entirely in this process.
func exploreLocal(q *vx.Sched) *vrt.Explorer {
	return q.ExploreUnsharded()
}
