// C09 — versioned reads return the right key at the right version.
//
// Explicit-state search over histories of {AddVersion(W), DelTop, Trash(cut)} on the real
// SimpleMVCC / MVCCHelper / MVCCIter code, with GetV issued for every (key, version) after every
// transition and compared with a list-of-version-maps model. The key alphabet is chosen to collide
// with the data-key encoding ".-mvcc-.d.<key>.<20 digits>": keys that extend another key by '.',
// by a byte sorting below '.', by ".0" and by ".<20 digits>".
//
// Three drivers of the same histories:
//
//	helper   MVCCHelper over memdb (kv lists applied the way the repository tests do)
//	iter     MVCCIter over memdb (DelMVCC additionally reads the previous version)
//	layered  the production shape of StateDB.Get with MVCC: a fresh common/db LocalDB over the
//	         persistent database per block, SimpleMVCC on top of it through an adapter that turns an
//	         empty list into ErrNotFound exactly as executor.LocalDB.List does; the block's kv list is
//	         Set into the LocalDB (deletions as empty values = tombstones), every GetV is checked on
//	         that merged view, then the kv list is flushed to the database.
//
// plus a flat probe of SimpleMVCC directly over common/db LocalDB (the composition used by the
// repository's TestSimpleMVCCLocalDB) for the miss path.
package main

import (
	"encoding/json"
	"fmt"
	"os"
	"runtime/debug"
	"sort"
	"strings"
	"sync"
	"sync/atomic"

	dbm "github.com/33cn/chain33/common/db"
	clog "github.com/33cn/chain33/common/log"
	"github.com/33cn/chain33/types"
	"verif/vx"
)

var keys = []string{"a", "a.", "a-", "a.0", "a.00000000000000000001", "a.00000000000000000002y", "ab"} // the two long ones: records of OTHER keys that sort between versions of "a", under two different 20-byte heads

func val(k string, v int) string { return fmt.Sprintf("%s@%d", k, v) }

// owner extracts the key a value was written under.
func owner(value string) string {
	i := strings.LastIndexByte(value, '@')
	if i < 0 {
		return "?"
	}
	return value[:i]
}

// hashOf: 32-byte version hashes as in production (SetVersionKV appends the hash to a package-level
// slice with spare capacity; hashes shorter than 7 bytes would share its backing array).
func hashOf(v int) []byte { return []byte(fmt.Sprintf("%02d-state-hash-0123456789abcdefghi", v)) }

// ---- model -------------------------------------------------------------------------------

type model struct {
	vers [][]string      // vers[v] = keys written at version v
	gone map[string]bool // writes "k@v" an earlier Trash was allowed to collect
}

func (m *model) has(k string, v int) bool {
	for _, x := range m.vers[v] {
		if x == k {
			return true
		}
	}
	return false
}

// read: newest write to k at a version <= q.
func (m *model) read(k string, q int) (int, bool) {
	if q >= len(m.vers) {
		q = len(m.vers) - 1
	}
	for v := q; v >= 0; v-- {
		if m.has(k, v) {
			return v, true
		}
	}
	return 0, false
}

func (m *model) String() string {
	var g []string
	for k := range m.gone {
		g = append(g, k)
	}
	sort.Strings(g)
	return fmt.Sprint(m.vers, g)
}

// ---- real system -------------------------------------------------------------------------

type mvcc interface {
	AddMVCC(kvs []*types.KeyValue, hash []byte, prevHash []byte, version int64) ([]*types.KeyValue, error)
	DelMVCC(hash []byte, version int64, strict bool) ([]*types.KeyValue, error)
	GetV(key []byte, version int64) ([]byte, error)
}

// nfKVDB turns "no rows" into ErrNotFound the way executor.LocalDB.List does on the production path.
type nfKVDB struct{ dbm.KVDB }

func (a nfKVDB) List(prefix, key []byte, count, direction int32) ([][]byte, error) {
	v, err := a.KVDB.List(prefix, key, count, direction)
	if err == nil && v == nil {
		return nil, types.ErrNotFound
	}
	return v, err
}

type sys struct {
	kind  string
	mem   *dbm.GoMemDB
	mv    mvcc // helper / iter (nil for layered: a fresh one per block)
	m     model
	snaps [][]string // answers before version i was added (nil once a Trash intervened)
	hist  []int
}

func save(db dbm.DB, kvs []*types.KeyValue) {
	for _, kv := range kvs {
		if kv.Value == nil {
			db.Delete(kv.Key)
		} else {
			db.Set(kv.Key, kv.Value)
		}
	}
}

func newSys(kind string) *sys {
	mem, _ := dbm.NewGoMemDB("c09", "", 0)
	s := &sys{kind: kind, mem: mem, m: model{gone: map[string]bool{}}}
	switch kind {
	case "helper":
		s.mv = dbm.NewMVCC(mem)
	case "iter":
		s.mv = dbm.NewMVCCIter(mem)
	}
	return s
}

// reader returns the GetV to use for queries at rest.
func (s *sys) reader() func(k []byte, v int64) ([]byte, error) {
	if s.kind == "layered" {
		return dbm.NewSimpleMVCC(nfKVDB{dbm.NewLocalDB(s.mem, false)}).GetV
	}
	return s.mv.GetV
}

func resOf(getv func(k []byte, v int64) ([]byte, error), k string, q int) string {
	var v []byte
	var err error
	if p := vx.Catch(func() { v, err = getv([]byte(k), int64(q)) }); p != "" {
		return "PANIC:" + p
	}
	switch err {
	case nil:
		return "V:" + string(v)
	case types.ErrNotFound:
		return "NF"
	case types.ErrVersion:
		return "EV"
	}
	return "ERR:" + err.Error()
}

// answers reads every (key, version 0..top+1).
// (index = q*len(keys)+key index, so that a snapshot taken at a lower top is a prefix)
func (s *sys) answers(getv func(k []byte, v int64) ([]byte, error)) []string {
	out := make([]string, 0, len(keys)*(len(s.m.vers)+1))
	for q := 0; q <= len(s.m.vers); q++ {
		for _, k := range keys {
			out = append(out, resOf(getv, k, q))
		}
	}
	return out
}

func (s *sys) dump() string {
	var sb strings.Builder
	it := s.mem.Iterator(nil, types.EmptyValue, false)
	for ok := it.Rewind(); ok; ok = it.Next() {
		fmt.Fprintf(&sb, "%q=%q;", it.Key(), it.Value())
	}
	it.Close()
	return sb.String()
}

// ---- failure classes ---------------------------------------------------------------------

// rel describes how key x relates to the other keys that currently hold data. The encoding can only
// confuse x with a key that is a proper prefix of x or that x is a proper prefix of; among several
// such keys the one whose extension starts with '.' is named first, then a byte below '.', then the
// shortest.
func (s *sys) rel(x string) string {
	present := map[string]bool{}
	for _, ks := range s.m.vers {
		for _, k := range ks {
			present[k] = true
		}
	}
	rank := func(c string) int {
		var t string
		if strings.HasPrefix(x, c) {
			t = x[len(c):]
		} else {
			t = c[len(x):]
		}
		switch {
		case t[0] == '.':
			return 0
		case t[0] < '.':
			return 1
		}
		return 2
	}
	best := ""
	for c := range present {
		if c != x && (strings.HasPrefix(x, c) || strings.HasPrefix(c, x)) {
			if best == "" || rank(c) < rank(best) || (rank(c) == rank(best) && (len(c) < len(best) || (len(c) == len(best) && c < best))) {
				best = c
			}
		}
	}
	return relOf(x, best)
}

// landing returns the key owning the data record a reverse seek for (k, q) stands on in the real
// database (what GetV looks at), "" if none.
func landing(raw dbm.DB, k string, q int) string {
	search, _ := dbm.GetKey([]byte(k), int64(q))
	pre := dbm.GetKeyPerfix([]byte(k))
	it := raw.Iterator(pre, nil, true)
	defer it.Close()
	it.Seek(search)
	if !it.Valid() {
		return ""
	}
	dk := string(it.Key())
	base := string(pre[:len(pre)-len(k)-1])
	if len(dk) < len(base)+21 {
		return ""
	}
	return dk[len(base) : len(dk)-21]
}

func relOf(x, c string) string {
	switch {
	case c == "" || c == x || !(strings.HasPrefix(x, c) || strings.HasPrefix(c, x)):
		return "unrelated"
	case strings.HasPrefix(x, c):
		t := x[len(c):]
		switch {
		case t[0] == '.':
			return "key=other+dot+rest"
		case t[0] < '.':
			return "key=other+byte-below-dot"
		}
		return "key=other+byte-above-dot"
	default:
		t := c[len(x):]
		if t[0] == '.' {
			return "other=key+dot+rest"
		}
		if t[0] < '.' {
			return "other=key+byte-below-dot"
		}
		return "other=key+byte-above-dot"
	}
}

var outcomesSeen sync.Map
var sampled int64

// outcome records an outcome class (lock-free once it has been seen in this process).
func outcome(r *vx.Run, class string) {
	if _, ok := outcomesSeen.Load(class); ok {
		return
	}
	outcomesSeen.Store(class, true)
	r.Seen("outcomes", class)
}

type lazy struct {
	view, k string
	q       int
}

func (l lazy) String() string { return fmt.Sprintf("%sGetV(%q,%d)", l.view, l.k, l.q) }

type finding struct {
	fp, text string
	fatal    bool
}

// verify compares every GetV with the model. Read-only defects with a recognised class are not
// fatal (the state is intact, the search continues below them); everything else is.
func (s *sys) verify(r *vx.Run, getv func(k []byte, v int64) ([]byte, error), view string, raw dbm.DB) []finding {
	var out []finding
	seen := map[string]bool{}
	add := func(fp, text string, fatal bool) {
		if !seen[fp] {
			seen[fp] = true
			out = append(out, finding{fp, text, fatal})
		}
	}
	top := len(s.m.vers) - 1
	for _, k := range keys {
		for q := 0; q <= top+1; q++ {
			got := resOf(getv, k, q)
			w, ok := s.m.read(k, q)
			desc := lazy{view, k, q}
			if strings.HasPrefix(got, "PANIC:") {
				add("getv:panic", fmt.Sprintf("%s panics: %s", desc, got), true)
				continue
			}
			if strings.HasPrefix(got, "ERR:") {
				add("getv:unexpected-error:"+vx.Norm(got, 30), fmt.Sprintf("%s = %s", desc, got), true)
				continue
			}
			if strings.HasPrefix(got, "V:") {
				o := owner(got[2:])
				if o != k {
					add("getv:returns-value-written-under-another-key:"+relOf(k, o),
						fmt.Sprintf("%s = %q, a value written under key %q (model: %s)", desc, got[2:], o, s.want(k, q)), false)
					continue
				}
			}
			switch {
			case !ok:
				if got == "NF" || got == "EV" {
					if q > top {
						outcome(r, "miss-above-top")
					} else {
						outcome(r, "miss:"+got)
					}
					continue
				}
				add("getv:value-for-never-written-key", fmt.Sprintf("%s = %s, model: not found", desc, got), true)
			case s.m.gone[val(k, w)]:
				// the write may have been collected: any own older value or a miss is acceptable
				if got == "NF" || got == "EV" {
					outcome(r, "collected-read-miss")
					continue
				}
				var gv int
				fmt.Sscanf(got[2+len(k)+1:], "%d", &gv)
				if gv > q || gv >= len(s.m.vers) || !s.m.has(k, gv) {
					add("getv:after-trash:impossible-version", fmt.Sprintf("%s = %s after Trash; no such write at or below %d", desc, got, q), true)
				}
				outcome(r, "collected-read-older-or-kept")
			default:
				if got == "V:"+val(k, w) {
					switch {
					case q > top:
						outcome(r, "hit-above-top")
					case w == q:
						outcome(r, "hit-exact")
					default:
						outcome(r, "hit-older")
					}
					continue
				}
				if got == "EV" {
					o := landing(raw, k, q)
					add("getv:ErrVersion-although-own-write-exists:"+relOf(k, o),
						fmt.Sprintf("%s = ErrVersion (the reverse seek stands on a record of key %q), model: %s", desc, o, s.want(k, q)), false)
					continue
				}
				add("getv:wrong-answer:"+vx.Norm(got, 12), fmt.Sprintf("%s = %s, model: %s", desc, got, s.want(k, q)), true)
			}
		}
	}
	return out
}

func (s *sys) want(k string, q int) string {
	if w, ok := s.m.read(k, q); ok {
		return fmt.Sprintf("%q", val(k, w))
	}
	return "not found"
}

// ---- operations --------------------------------------------------------------------------

type op struct {
	kind string // add / deltop / trash
	w    []string
	cut  int
}

func (o op) String() string {
	switch o.kind {
	case "add":
		return fmt.Sprintf("AddVersion(%q)", o.w)
	case "deltop":
		return "DelTop"
	}
	return fmt.Sprintf("Trash(%d)", o.cut)
}

func mkOps(maxV int, level int) []op {
	var ops []op
	for _, k := range keys {
		ops = append(ops, op{kind: "add", w: []string{k}})
	}
	for i := range keys {
		for j := i + 1; j < len(keys); j++ {
			if i == 0 || level >= 2 { // level<2: the pairs containing "a" (every other key collides with it)
				ops = append(ops, op{kind: "add", w: []string{keys[i], keys[j]}})
			}
		}
	}
	if level >= 1 {
		ops = append(ops, op{kind: "add", w: append([]string{}, keys...)})
	}
	ops = append(ops, op{kind: "deltop"})
	for c := 0; c < maxV; c++ {
		ops = append(ops, op{kind: "trash", cut: c})
	}
	return ops
}

type harness struct {
	r    *vx.Run
	kind string
	ops  []op
	maxV int
	q    *vx.Seq[*sys]
}

// block runs one AddVersion/DelTop on the layered driver: fresh LocalDB, kv list Set into it, all
// reads checked on the merged view, then flushed.
func (h *harness) layered(s *sys, f func(m *dbm.SimpleMVCC) ([]*types.KeyValue, error), after func()) ([]finding, error) {
	ldb := dbm.NewLocalDB(s.mem, false)
	sm := dbm.NewSimpleMVCC(nfKVDB{ldb})
	kvs, err := f(sm)
	if err != nil {
		return nil, err
	}
	for _, kv := range kvs {
		ldb.Set(kv.Key, kv.Value)
	}
	after()
	// a scratch copy of the database with the block applied is only used to name the record a wrong
	// read stood on; the reads themselves go through the block's LocalDB over the old database
	scratch, _ := dbm.NewGoMemDB("c09s", "", 0)
	it := s.mem.Iterator(nil, types.EmptyValue, false)
	for ok := it.Rewind(); ok; ok = it.Next() {
		scratch.Set(it.Key(), it.ValueCopy())
	}
	it.Close()
	save(scratch, kvs)
	fs := s.verify(h.r, sm.GetV, "merged view before flush: ", scratch)
	save(s.mem, kvs)
	return fs, nil
}

// report hands non-fatal findings to the run and returns the first fatal one.
func (h *harness) report(s *sys, fs []finding) string {
	fatal := ""
	for _, f := range fs {
		if f.fatal {
			if fatal == "" {
				fatal = "[" + f.fp + "] " + f.text
			}
			continue
		}
		hist := append([]int{}, s.hist...)
		fp := f.fp
		h.r.Violate(fp, fmt.Sprintf("%s after %v", f.text, h.names(hist)),
			map[string]interface{}{"harness": h.q.Name, "ops": h.names(hist), "hist": hist},
			func() string {
				s2 := newSys(h.kind)
				var all []finding
				for _, o := range hist {
					_, fs := h.apply(s2, o)
					all = append(all, fs...)
				}
				all = append(all, s2.verify(h.r, s2.reader(), "", s2.mem)...)
				for _, g := range all {
					if g.fp == fp {
						return g.text
					}
				}
				return ""
			})
	}
	return fatal
}

func (h *harness) names(hist []int) []string {
	out := make([]string, len(hist))
	for i, o := range hist {
		out[i] = h.ops[o].String()
	}
	return out
}

// apply performs op i on the real system and the model; returns a fatal failure text and the
// findings seen on the way (layered merged view).
func (h *harness) apply(s *sys, i int) (string, []finding) {
	o := h.ops[i]
	s.hist = append(s.hist, i)
	n := len(s.m.vers)
	r := h.r
	switch o.kind {
	case "add":
		if n >= h.maxV {
			return "", nil
		}
		var kvs []*types.KeyValue
		for _, k := range o.w {
			kvs = append(kvs, &types.KeyValue{Key: []byte(k), Value: []byte(val(k, n))})
		}
		var prev []byte
		if n > 0 {
			prev = hashOf(n - 1)
		}
		snap := s.answers(s.reader())
		var fs []finding
		if s.kind == "layered" {
			var err error
			fs, err = h.layered(s, func(m *dbm.SimpleMVCC) ([]*types.KeyValue, error) {
				return m.AddMVCC(kvs, hashOf(n), prev, int64(n))
			}, func() { s.m.vers = append(s.m.vers, o.w) })
			if err != nil {
				return fmt.Sprintf("[add:error:%s] AddMVCC(version %d) = %v", vx.Norm(err.Error(), 30), n, err), nil
			}
		} else {
			out, err := s.mv.AddMVCC(kvs, hashOf(n), prev, int64(n))
			if err != nil {
				return fmt.Sprintf("[add:error:%s] AddMVCC(version %d) = %v", vx.Norm(err.Error(), 30), n, err), nil
			}
			save(s.mem, out)
			s.m.vers = append(s.m.vers, o.w)
		}
		s.snaps = append(s.snaps, snap)
		return "", fs
	case "deltop":
		if n == 0 {
			return "", nil
		}
		t := n - 1
		pop := func() {
			for _, k := range s.m.vers[t] {
				delete(s.m.gone, val(k, t))
			}
			s.m.vers = s.m.vers[:t]
		}
		var fs []finding
		if s.kind == "layered" {
			var err error
			fs, err = h.layered(s, func(m *dbm.SimpleMVCC) ([]*types.KeyValue, error) {
				return m.DelMVCC(hashOf(t), int64(t), true)
			}, pop)
			if err != nil {
				cls := "some-version"
				if t == 0 {
					cls = "version-zero"
				}
				return fmt.Sprintf("[deltop:error:%s:%s:%s] DelMVCC(top version %d) = %v", s.kind, cls, vx.Norm(err.Error(), 30), t, err), nil
			}
		} else {
			out, err := s.mv.DelMVCC(hashOf(t), int64(t), true)
			if err != nil {
				return fmt.Sprintf("[deltop:error:%s:%s] DelMVCC(top version %d) = %v", s.kind, vx.Norm(err.Error(), 30), t, err), nil
			}
			save(s.mem, out)
			pop()
		}
		snap := s.snaps[t]
		s.snaps = s.snaps[:t]
		if snap != nil {
			// differential: every read is back to what it was before the version was added
			now := s.answers(s.reader())
			for i := range snap {
				if now[i] != snap[i] {
					return fmt.Sprintf("[deltop:read-not-restored] after removing top version %d GetV(%q,%d) = %s, before the version was added it was %s", t, keys[i%len(keys)], i/len(keys), now[i], snap[i]), fs
				}
			}
			outcome(r, "deltop-restored")
		}
		return "", fs
	default:
		if o.cut >= n {
			return "", nil
		}
		// what Trash may collect: writes at versions <= cut that are not their key's newest
		newest := map[string]int{}
		for v, ks := range s.m.vers {
			for _, k := range ks {
				newest[k] = v
			}
		}
		if err := dbm.NewMVCC(s.mem).Trash(int64(o.cut)); err != nil {
			return fmt.Sprintf("[trash:error] Trash(%d) = %v", o.cut, err), nil
		}
		for i := range s.snaps {
			s.snaps[i] = nil
		}
		collected := 0
		for v, ks := range s.m.vers {
			for _, k := range ks {
				dk, _ := dbm.GetKey([]byte(k), int64(v))
				_, err := s.mem.Get(dk)
				present := err == nil
				may := v <= o.cut && newest[k] != v
				if may {
					s.m.gone[val(k, v)] = true
					if !present {
						collected++
					}
					continue
				}
				if !present && !s.m.gone[val(k, v)] {
					if newest[k] == v {
						return fmt.Sprintf("[trash:removes-newest-version-of-a-key:%s] Trash(%d) removed version %d of key %q, the newest version of that key (versions: %q)", s.rel(k), o.cut, v, k, s.m.vers), nil
					}
					return fmt.Sprintf("[trash:removes-version-newer-than-cut:%s] Trash(%d) removed version %d of key %q (versions: %q)", s.rel(k), o.cut, v, k, s.m.vers), nil
				}
			}
		}
		if collected > 0 {
			outcome(r, "trash-collected")
		} else {
			outcome(r, "trash-nothing-to-collect")
		}
		return "", nil
	}
}

func mkHarness(r *vx.Run, kind, name string, depth, maxV, workers int, level int) *harness {
	h := &harness{r: r, kind: kind, ops: mkOps(maxV, level), maxV: maxV}
	q := &vx.Seq[*sys]{Run: r, Name: name, NumOps: len(h.ops), MaxDepth: depth, Workers: workers}
	q.New = func() *sys { return newSys(kind) }
	q.OpName = func(i int) string { return h.ops[i].String() }
	q.Apply = func(s *sys, i int) string {
		fatal, fs := h.apply(s, i)
		if fatal != "" {
			return fatal
		}
		return h.report(s, fs)
	}
	q.Check = func(s *sys) string {
		if len(s.hist) >= 3 && atomic.AddInt64(&sampled, 1) <= 3 {
			reads := map[string]string{}
			get := s.reader()
			for _, k := range keys {
				for v := 0; v <= len(s.m.vers); v++ {
					reads[fmt.Sprintf("GetV(%q,%d)", k, v)] = resOf(get, k, v)
				}
			}
			r.Sample(map[string]interface{}{"harness": name, "history": h.names(s.hist), "versions": s.m.vers, "reads": reads})
		}
		return h.report(s, s.verify(r, s.reader(), "", s.mem))
	}
	q.Canon = func(s *sys) string {
		valid := ""
		for _, sn := range s.snaps {
			if sn != nil {
				valid += "1"
			} else {
				valid += "0"
			}
		}
		return vx.H(s.dump(), s.m.String(), valid)
	}
	q.FP = func(what string, hist []int) string {
		if strings.HasPrefix(what, "[") {
			if e := strings.IndexByte(what, ']'); e > 0 {
				return what[1:e]
			}
		}
		return kind + ":" + vx.Norm(what, 60)
	}
	h.q = q
	return h
}

// rawLocalDB probes SimpleMVCC directly over common/db LocalDB (no adapter): a read of a key that
// has no version must answer not-found.
func rawLocalDB(r *vx.Run) {
	probe := func(k, q string) string {
		mem, _ := dbm.NewGoMemDB("c09", "", 0)
		ldb := dbm.NewLocalDB(mem, false)
		sm := dbm.NewSimpleMVCC(ldb)
		kvs, err := sm.AddMVCC([]*types.KeyValue{{Key: []byte(k), Value: []byte(val(k, 0))}}, hashOf(0), nil, 0)
		if err != nil {
			return "AddMVCC: " + err.Error()
		}
		for _, kv := range kvs {
			ldb.Set(kv.Key, kv.Value)
		}
		got := resOf(sm.GetV, q, 0)
		if q == k {
			if got != "V:"+val(k, 0) {
				return fmt.Sprintf("GetV(%q,0) = %s after writing it", q, got)
			}
			return ""
		}
		if strings.HasPrefix(got, "PANIC:") {
			return fmt.Sprintf("SimpleMVCC over common/db LocalDB: GetV(%q,0) with only key %q written panics instead of answering not-found: %s", q, k, got)
		}
		return ""
	}
	for _, k := range []string{"ab", "a"} {
		for _, q := range keys {
			r.Count("executions", 1)
			r.Count("transitions", 1)
			if f := probe(k, q); f != "" {
				k, q := k, q
				fp := "getv:panic-on-miss:SimpleMVCC-directly-over-common-db-LocalDB"
				if !strings.Contains(f, "panics") {
					fp = "rawlocaldb:" + vx.Norm(f, 40)
				}
				r.Violate(fp, f, map[string]interface{}{"harness": "rawlocaldb", "written": k, "read": q}, func() string { return probe(k, q) })
			} else {
				outcome(r, "rawlocaldb-ok")
			}
		}
	}
}

func main() {
	r := vx.Start("C09", "model_checking")
	clog.SetLogLevel("crit")
	r.QuietStderr()
	debug.SetGCPercent(1000) // tiny live heap, millions of short-lived memdbs
	r.Rule = "BFS over all histories of {AddVersion(W) for every 1- and 2-key W (thorough: also all 6 keys) from the alphabet " + fmt.Sprintf("%q", keys) +
		" (values embed key and version), DelTop, Trash(cut) for every cut below the top} on the real MVCCHelper, MVCCIter (memdb) and on SimpleMVCC over a per-block common/db LocalDB (production shape); after every transition GetV for every (key, version 0..top+1) is compared with a list-of-version-maps model, after DelTop all reads are compared with the snapshot taken before the version was added, after Trash the raw database is inspected for every write that must survive. state = full database dump + model. distinct = outcome classes (hit exact/older/above top, miss, restored after DelTop, collected by Trash, ...)"
	r.Assume = []string{
		"values are non-empty (through KVDB an empty value is a tombstone; the statement does not speak about them)",
		"every version writes at least one key",
		"ErrNotFound and ErrVersion both count as not-found when the model says the key has no write at or below the version",
		"after Trash(cut) a write at a version <= cut that is not its key's newest may or may not be readable (the statement only says what must survive)",
		"version hashes are distinct fixed strings that cannot collide with the key space",
	}
	r.DistinctSet = "outcomes"
	// harness name = driver/L<op level>/V<max versions>: enough to rebuild the op table for a replay
	type plan struct {
		kind         string
		level, maxV  int
		depth, nwork int
	}
	var plans []plan
	for _, k := range []string{"helper", "iter", "layered"} {
		plans = append(plans, plan{k, r.Pick(0, 1), r.Pick(4, 5), r.Pick(4, 5), 8})
	}
	if !r.Quick() {
		plans = append(plans, plan{"helper", 2, 4, 4, 8}, plan{"layered", 2, 3, 3, 8})
	}
	name := func(p plan) string { return fmt.Sprintf("%s/L%d/V%d", p.kind, p.level, p.maxV) }
	if raw, ok := r.Replaying(); ok {
		var c struct {
			Harness string
			Hist    []int
		}
		json.Unmarshal(raw, &c)
		var p plan
		parts := strings.Split(c.Harness, "/")
		if len(parts) == 3 {
			p.kind = parts[0]
			fmt.Sscanf(parts[1], "L%d", &p.level)
			fmt.Sscanf(parts[2], "V%d", &p.maxV)
			h := mkHarness(r, p.kind, c.Harness, len(c.Hist), p.maxV, 1, p.level)
			s := newSys(p.kind)
			fail := ""
			for _, o := range c.Hist {
				fmt.Println("replay:", h.ops[o])
				fatal, fs := h.apply(s, o)
				for _, f := range fs {
					fmt.Println("replay: FAIL", f.fp, f.text)
					fail = f.text
				}
				if fatal != "" {
					fmt.Println("replay: FAIL", fatal)
					fail = fatal
					break
				}
			}
			if fail == "" {
				for _, f := range s.verify(r, s.reader(), "", s.mem) {
					fmt.Println("replay: FAIL", f.fp, f.text)
					fail = f.text
				}
			}
			if fail != "" {
				r.Violate("replay", fail, c, nil)
			} else {
				fmt.Println("replay: ok")
			}
		} else {
			rawLocalDB(r)
			sameKeyFamily(r)
		}
		r.Finish()
	}
	only := os.Getenv("C09_ONLY")
	for _, p := range plans {
		if only == "" || only == p.kind {
			mkHarness(r, p.kind, name(p), p.depth, p.maxV, p.nwork, p.level).q.Explore()
		}
	}
	if only == "" || only == "rawlocaldb" {
		rawLocalDB(r)
	}
	if only == "" || only == "samekey" {
		sameKeyFamily(r)
	}
	r.Floors["outcomes"] = 8
	r.Floors["states"] = 500
	r.Finish()
}

// sameKeyFamily: a version may write one key several times (a block's transactions overwrite each other);
// the last write of the version is the version's value. Every assignment of a write list from
// {none, [1], [2], [1,2], [2,1], [1,2,1], [2,1,2]} to versions 0..2 of key "a" (with the extending key
// "a.1" written alongside in every version, so that the neighbours of the version records are not all the
// key's own), on SimpleMVCC over the in-memory database; GetV of every version is compared with a plain
// "last write at or below the version" model, and again after the top version was removed with DelMVCC.
func sameKeyFamily(r *vx.Run) {
	lists := [][]string{nil, {"1"}, {"2"}, {"1", "2"}, {"2", "1"}, {"1", "2", "1"}, {"2", "1", "2"}}
	run := func(code int) string {
		mem, _ := dbm.NewGoMemDB("c09s", "", 0)
		sm := dbm.NewSimpleMVCC(dbm.NewKVDB(mem))
		var want [3]string // value of "a" at each version ("" = never written so far)
		cur := ""
		var perV [3][]*types.KeyValue
		c := code
		for v := 0; v < 3; v++ {
			l := lists[c%len(lists)]
			c /= len(lists)
			kvs := []*types.KeyValue{{Key: []byte("a.1"), Value: []byte(fmt.Sprint("n", v))}}
			for _, x := range l {
				kvs = append(kvs, &types.KeyValue{Key: []byte("a"), Value: []byte(x)})
				cur = x
			}
			want[v] = cur
			perV[v] = kvs
			var prev []byte
			if v > 0 {
				prev = hashOf(v - 1)
			}
			out, err := sm.AddMVCC(kvs, hashOf(v), prev, int64(v))
			if err != nil {
				return fmt.Sprintf("AddMVCC(version %d): %v", v, err)
			}
			for _, kv := range out {
				if kv.Value == nil {
					mem.Delete(kv.Key)
				} else {
					mem.Set(kv.Key, kv.Value)
				}
			}
		}
		check := func(top int, when string) string {
			for v := 0; v <= top; v++ {
				got, err := sm.GetV([]byte("a"), int64(v))
				switch {
				case want[v] == "" && err == nil:
					return fmt.Sprintf("%s: GetV(a,%d) = %q, never written at or below that version", when, v, got)
				case want[v] != "" && (err != nil || string(got) != want[v]):
					return fmt.Sprintf("%s: GetV(a,%d) = %q (%v), the last write at or below that version is %q", when, v, got, err, want[v])
				}
			}
			return ""
		}
		if f := check(2, "after three versions"); f != "" {
			return f
		}
		out, err := sm.DelMVCC(hashOf(2), 2, true)
		if err != nil {
			return "DelMVCC(2): " + err.Error()
		}
		for _, kv := range out {
			if kv.Value == nil {
				mem.Delete(kv.Key)
			} else {
				mem.Set(kv.Key, kv.Value)
			}
		}
		return check(1, "after the top version was removed")
	}
	n := len(lists) * len(lists) * len(lists)
	for code := 0; code < n; code++ {
		r.Count("executions", 1)
		r.Count("same_key_histories", 1)
		r.Count("transitions", 4)
		if f := run(code); f != "" {
			code := code
			var names []string
			c := code
			for v := 0; v < 3; v++ {
				names = append(names, fmt.Sprintf("v%d:a=%v", v, lists[c%len(lists)]))
				c /= len(lists)
			}
			r.Violate("samekey:"+vx.Norm(f, 40), fmt.Sprintf("%s (writes %v)", f, names), map[string]interface{}{"harness": "samekey", "code": code}, func() string { return vx.Norm(run(code), 40) })
		}
	}
}
