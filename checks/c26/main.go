// C26 — the block sequence log replays to the best chain.
// Same block trees and delivery orders as C25 (all of them, ties included), with sequence recording
// enabled; after every execution the add/delete records are replayed and compared with the best chain.
package main

import (
	clog "github.com/33cn/chain33/common/log"
	"verif/vnode/treex"
	"verif/vx"
)

func main() {
	r := vx.Start("C26", "model_checking")
	clog.SetLogLevel("crit")
	r.QuietStderr()
	r.Rule = "every rooted block tree with <= N blocks above a 12-block trunk x every assignment of two difficulty values (tied tips included) x EVERY delivery order (n!) x {plain, one duplicated delivery / sync kind}; after each execution: sequence numbers 0..last all present, none beyond; replaying add/delete records on an empty height->hash map (adds only on a free height with the right parent, deletes only of the current tip) yields exactly the best chain; hash->sequence points at the last add; the block loaded by sequence (LoadBlockBySequence) is the block the record names, for every record including those of removed blocks. state = (tree, order, kind). distinct = (tree size, refusals, kind, last sequence) classes"
	r.Assume = []string{"node modules run free on the real queue; observations are made after every delivery has been answered"}
	if r.Fork(16) {
		r.Floors["executions"] = 50
		r.Floors["distinct"] = 8
		r.Finish()
	}
	treex.RunConverge(r, "C26", r.Pick(3, 5), false)
	r.Finish()
}
