// C03 — state proofs are complete, sound and crash-free.
//
// For every tree state reached by a bounded enumeration of write histories on the real mavl Store
// (configurations plain / prefix / prune) and every key present at every committed root:
// GetKVPairProof + VerifyKVPairProof must accept. Soundness: for the newest root every
// single-field change of the claim (other value, every 1-bit flip of the value, other keys, other
// committed roots, 1-bit flips of the root) and every single-field change of the decoded proof that
// alters the hashed Merkle path (height/size +-1, sibling hash bit flips / emptied / shortened /
// moved to the other side, node dropped / duplicated / swapped / appended) must be rejected, for the
// true claim and for a false one. Robustness: every byte string up to a length, every proper prefix
// and single-byte substitution of valid proofs: no panic, undecodable bytes are rejected, and
// nothing is accepted for a false claim.
package main

import (
	"github.com/33cn/chain33/system/store/mavl/db/ticket"
	"bytes"
	"crypto/sha256"
	"encoding/json"
	"fmt"
	"os"
	"runtime/debug"
	"sort"
	"strings"
	"sync"
	"sync/atomic"

	clog "github.com/33cn/chain33/common/log"
	drivers "github.com/33cn/chain33/system/store"
	"github.com/33cn/chain33/system/store/mavl"
	mavldb "github.com/33cn/chain33/system/store/mavl/db"
	"github.com/33cn/chain33/types"
	"github.com/golang/protobuf/proto"
	"verif/checks/c01/mvx"
	"verif/vx"
)

var run *vx.Run

type sys struct {
	cfg    mvx.Cfg
	st     *mavl.Store
	roots  [][]byte
	models []map[string]string
	hist   string // the batches applied so far (identifies the execution for the once-only families)
}

// once decides whether the calling execution evaluates a once-only family: the first history to ask
// owns the key, and a re-execution of that same history (violation confirmation, replay) owns it
// again, so failures stay reproducible.
var (
	onceMu    sync.Mutex
	onceOwner = map[string]string{}
)

func once(set, key, hist string) bool {
	onceMu.Lock()
	defer onceMu.Unlock()
	k := set + "\x00" + key
	o, ok := onceOwner[k]
	if !ok {
		onceOwner[k] = hist
		run.Seen(set, key)
		return true
	}
	return o == hist
}

type write struct{ k, v string }

func (s *sys) parent() []byte {
	if len(s.roots) == 0 {
		return drivers.EmptyRoot[:]
	}
	return s.roots[len(s.roots)-1]
}

func (s *sys) commit(ws []write) string {
	var kv []*types.KeyValue
	m := map[string]string{}
	if n := len(s.models); n > 0 {
		for k, v := range s.models[n-1] {
			m[k] = v
		}
	}
	for _, w := range ws {
		kv = append(kv, &types.KeyValue{Key: []byte(w.k), Value: []byte(w.v)})
		m[w.k] = w.v
	}
	root, err := s.st.Set(&types.StoreSet{StateHash: s.parent(), KV: kv, Height: int64(len(s.roots) + 1)}, true)
	if err != nil || len(root) == 0 {
		return fmt.Sprintf("set-error| Store.Set failed: %v", err)
	}
	s.roots = append(s.roots, root)
	s.models = append(s.models, m)
	s.hist += fmt.Sprintf("%q;", ws)
	return ""
}

// verify calls the real verifier; a panic is returned as text.
func verify(root []byte, k, v []byte, proof []byte) (ok bool, perr string) {
	perr = vx.Catch(func() {
		ok = mavldb.VerifyKVPairProof(nil, root, &types.KeyValue{Key: k, Value: v}, proof)
	})
	atomic.AddInt64(&evals, 1)
	return
}

var (
	evals     int64
	famMu     sync.RWMutex
	famCount  = map[string]*int64{}
	seenLocal sync.Map
)

// tally counts one evaluation of a family (flushed into the run's counters at the end).
func tally(class string) {
	if i := strings.IndexByte(class, ':'); i > 0 && strings.HasPrefix(class, "proof:") {
		class = "proof-field"
	} else if strings.HasPrefix(class, "bytes-len") {
		class = "short-bytes"
	} else if i := strings.IndexByte(class, '+'); i > 0 {
		class = class[:i]
	}
	famMu.RLock()
	c := famCount[class]
	famMu.RUnlock()
	if c == nil {
		famMu.Lock()
		if c = famCount[class]; c == nil {
			c = new(int64)
			famCount[class] = c
		}
		famMu.Unlock()
	}
	atomic.AddInt64(c, 1)
}

func outcome(key string) {
	if _, loaded := seenLocal.LoadOrStore(key, true); !loaded {
		run.Seen("outcomes", key)
	}
}

func flushCounts() {
	run.Count("evaluations", atomic.LoadInt64(&evals))
	for k, c := range famCount {
		run.Count("evaluations_"+k, atomic.LoadInt64(c))
	}
}

// eff is the hashed content of a Merkle path: per inner node height, size, the side the child sits
// on and the 32 hashed bytes of the sibling. Two proofs with equal eff recompute the same root.
func eff(p *types.MAVLProof) string {
	var sb strings.Builder
	for _, n := range p.InnerNodes {
		sib, side := n.LeftHash, "R" // child is the right one
		if len(n.LeftHash) == 0 {
			sib, side = n.RightHash, "L"
		}
		if len(sib) > 32 {
			sib = sib[len(sib)-32:]
		}
		fmt.Fprintf(&sb, "%d/%d/%s/%x;", n.Height, n.Size, side, sib)
	}
	return sb.String()
}

// judge evaluates one verification of (root,k,v,proof bytes). claimTrue says whether (k,v) really is
// in the state of root; genuine is eff() of the honest proof for that key at that root.
// Acceptance is legitimate only for a true claim with a decodable proof whose hashed path equals
// the honest one; everything else must be rejected; nothing may panic.
func judge(class string, claimTrue bool, genuine string, root, k, v, proofBytes []byte) string {
	ok, perr := verify(root, k, v, proofBytes)
	tally(class)
	if perr != "" {
		return "verify-panics:" + class + "| " + perr
	}
	if !ok {
		outcome(class + ":rejected")
		return ""
	}
	var p types.MAVLProof
	if err := proto.Unmarshal(proofBytes, &p); err != nil {
		return "accepts-undecodable-proof:" + class + "| verifier accepted bytes that do not decode as a proof"
	}
	if !claimTrue {
		return "accepts-false-claim:" + class + "| verifier accepted a (key,value,root) that is not in the state"
	}
	if eff(&p) != genuine {
		return "accepts-altered-path:" + class + "| verifier accepted a proof whose hashed path differs from the honest one"
	}
	outcome(class + ":accepted-equivalent")
	return ""
}

func clone(p *types.MAVLProof) *types.MAVLProof {
	q := &types.MAVLProof{}
	for _, n := range p.InnerNodes {
		q.InnerNodes = append(q.InnerNodes, &types.InnerNode{LeftHash: append([]byte(nil), n.LeftHash...), RightHash: append([]byte(nil), n.RightHash...), Height: n.Height, Size: n.Size})
	}
	return q
}

type pmut struct {
	class string
	b     []byte
	twin  bool // also evaluated against a false claim
}

// proofMutations lists single-field changes of a decoded proof. heavy: all 256 bit positions of
// every sibling hash instead of 4.
func proofMutations(p *types.MAVLProof, heavy bool) (out []pmut) {
	add := func(class string, f func(q *types.MAVLProof)) {
		q := clone(p)
		f(q)
		out = append(out, pmut{class, types.Encode(q), true})
	}
	for i := range p.InnerNodes {
		i := i
		add("height+1", func(q *types.MAVLProof) { q.InnerNodes[i].Height++ })
		add("height-1", func(q *types.MAVLProof) { q.InnerNodes[i].Height-- })
		add("size+1", func(q *types.MAVLProof) { q.InnerNodes[i].Size++ })
		add("size-1", func(q *types.MAVLProof) { q.InnerNodes[i].Size-- })
		sibLeft := len(p.InnerNodes[i].LeftHash) != 0
		sib := func(q *types.MAVLProof) *[]byte {
			if sibLeft {
				return &q.InnerNodes[i].LeftHash
			}
			return &q.InnerNodes[i].RightHash
		}
		n := len(*sib(p))
		bits := []int{0, 7, 128, 255}
		if heavy {
			bits = bits[:0]
			for b := 0; b < 256; b++ {
				bits = append(bits, b)
			}
		}
		for _, b := range bits {
			b := b
			add("hash-bitflip", func(q *types.MAVLProof) { h := *sib(q); h[n-32+b/8] ^= 1 << (b % 8) })
			if b != 0 && b != 7 && b != 128 && b != 255 {
				out[len(out)-1].twin = false // the false-claim twin runs for the four positions every proof gets
			}
		}
		for b := 0; b < (n-32)*8; b += 5 { // height-prefix bytes are not hashed: no-crash / equivalent class
			b := b
			add("prefix-bitflip", func(q *types.MAVLProof) { h := *sib(q); h[b/8] ^= 1 << (b % 8) })
		}
		add("hash-emptied", func(q *types.MAVLProof) { *sib(q) = nil })
		add("hash-shortened", func(q *types.MAVLProof) { h := *sib(q); *sib(q) = h[:len(h)-1] })
		add("hash-extended", func(q *types.MAVLProof) { *sib(q) = append(*sib(q), 0) })
		add("sides-swapped", func(q *types.MAVLProof) {
			q.InnerNodes[i].LeftHash, q.InnerNodes[i].RightHash = q.InnerNodes[i].RightHash, q.InnerNodes[i].LeftHash
		})
		add("other-side-filled", func(q *types.MAVLProof) { // unused side gets junk: hashed path unchanged or rejected
			if sibLeft {
				q.InnerNodes[i].RightHash = bytes.Repeat([]byte{7}, 32)
			} else {
				q.InnerNodes[i].LeftHash = bytes.Repeat([]byte{7}, 32)
			}
		})
		add("node-dropped", func(q *types.MAVLProof) { q.InnerNodes = append(q.InnerNodes[:i:i], q.InnerNodes[i+1:]...) })
		add("node-duplicated", func(q *types.MAVLProof) {
			q.InnerNodes = append(q.InnerNodes[:i+1:i+1], append([]*types.InnerNode{q.InnerNodes[i]}, q.InnerNodes[i+1:]...)...)
		})
		if i+1 < len(p.InnerNodes) {
			add("nodes-swapped", func(q *types.MAVLProof) { q.InnerNodes[i], q.InnerNodes[i+1] = q.InnerNodes[i+1], q.InnerNodes[i] })
		}
	}
	add("node-appended", func(q *types.MAVLProof) { q.InnerNodes = append(q.InnerNodes, &types.InnerNode{}) })
	add("node-prepended", func(q *types.MAVLProof) { q.InnerNodes = append([]*types.InnerNode{{}}, q.InnerNodes...) })
	return
}

var otherKeys = []string{"", "a", "ab", "abc", "b", "\x00", "\xff", "a\xff"}

func flipVal(v string) string {
	if v == "v1" {
		return "v2"
	}
	return "v1"
}

// oracle is evaluated after every transition.
func (s *sys) oracle(fullSubst *int32Budget) string {
	db, cfg := s.st.GetDB(), s.st.VerifTreeCfg()
	// completeness at every committed root
	for i, root := range s.roots {
		for _, k := range sortedKeys(s.models[i]) {
			v := s.models[i][k]
			var proof []byte
			var err error
			if p := vx.Catch(func() { proof, err = mavldb.GetKVPairProof(db, root, []byte(k), cfg) }); p != "" {
				return "getproof-panics| " + p
			}
			if err != nil || (proof == nil && len(s.models[i]) > 1) {
				return fmt.Sprintf("no-proof-for-present-key| GetKVPairProof(root #%d, %q) = %v, %v", i+1, k, proof, err)
			}
			ok, perr := verify(root, []byte(k), []byte(v), proof)
			if perr != "" {
				return "verify-panics:honest| " + perr
			}
			if !ok {
				where := "@latest-root"
				if i < len(s.roots)-1 {
					where = "@older-root"
				}
				return fmt.Sprintf("honest-proof-rejected%s| proof of %q=%q at root #%d of %d does not verify", where, k, v, i+1, len(s.roots))
			}
			tally("honest")
			outcome(fmt.Sprintf("honest:accepted:nodes%d", proofNodes(proof)))
		}
		for _, k := range otherKeys { // absent keys: no proof is promised, but asking must not crash
			if _, present := s.models[i][k]; !present {
				if p := vx.Catch(func() { mavldb.GetKVPairProof(db, root, []byte(k), cfg) }); p != "" {
					return "getproof-panics| absent key: " + p
				}
			}
		}
	}
	// soundness and robustness at the newest root
	li := len(s.roots) - 1
	root := s.roots[li]
	for _, k := range sortedKeys(s.models[li]) {
		v := s.models[li][k]
		proof, _ := mavldb.GetKVPairProof(db, root, []byte(k), cfg)
		var dec types.MAVLProof
		if err := proto.Unmarshal(proof, &dec); err != nil {
			return "honest-proof-undecodable| " + err.Error()
		}
		gen := eff(&dec)
		K, V := []byte(k), []byte(v)
		// the verifier is a function of (root,key,value,proof bytes) only: the families below are
		// evaluated once per distinct (root,key,honest proof bytes) reached by the enumeration
		ck := vx.H(root, k, proof)
		if !once("claims", ck, s.hist) {
			continue
		}
		heavy := once("heavy", vx.H(root, k), s.hist) // bit-flip families once per distinct (root,key)
		// (1) false claims with the honest proof
		vals := []string{flipVal(v), "", v + "\x00", v[:1]}
		for b := 0; b < len(v)*8; b++ {
			x := []byte(v)
			x[b/8] ^= 1 << (b % 8)
			vals = append(vals, string(x))
		}
		for _, ov := range vals {
			if f := judge("other-value", false, gen, root, K, []byte(ov), proof); f != "" {
				return f + fmt.Sprintf(" (key %q value %q instead of %q)", k, ov, v)
			}
		}
		keys := append([]string{k + "\x00"}, otherKeys...)
		for b := 0; b < len(k)*8; b++ {
			x := []byte(k)
			x[b/8] ^= 1 << (b % 8)
			keys = append(keys, string(x))
		}
		for _, ok2 := range keys {
			if ok2 == k {
				continue
			}
			// the proof was produced for k; (ok2, v) is a different claim (false unless ok2 holds v too:
			// even then this proof was not produced for it and recomputes a different root)
			if f := judge("other-key", false, gen, root, []byte(ok2), V, proof); f != "" {
				return f + fmt.Sprintf(" (key %q instead of %q)", ok2, k)
			}
		}
		for j, or := range s.roots {
			if !bytes.Equal(or, root) {
				if f := judge("other-root", false, gen, or, K, V, proof); f != "" {
					return f + fmt.Sprintf(" (root #%d instead of #%d)", j+1, li+1)
				}
			}
		}
		if f := judge("other-root", false, gen, drivers.EmptyRoot[:], K, V, proof); f != "" {
			return f + " (empty root)"
		}
		if f := judge("other-root", false, gen, root[:31], K, V, proof); f != "" {
			return f + " (root shortened)"
		}
		step := 37
		if heavy {
			step = 1
		}
		for b := 0; b < 256; b += step {
			x := append([]byte(nil), root...)
			x[b/8] ^= 1 << (b % 8)
			if f := judge("root-bitflip", false, gen, x, K, V, proof); f != "" {
				return f
			}
		}
		// (2) single-field changes of the proof: true claim and a false one
		for _, m := range proofMutations(&dec, heavy) {
			if f := judge("proof:"+m.class, true, gen, root, K, V, m.b); f != "" {
				return f + fmt.Sprintf(" (key %q)", k)
			}
			if !m.twin {
				continue
			}
			if f := judge("proof:"+m.class+"+other-value", false, gen, root, K, []byte(flipVal(v)), m.b); f != "" {
				return f + fmt.Sprintf(" (key %q)", k)
			}
		}
		// (2b) forged short proofs: the subtree below level i is replaced by its hash, written into the side
		// the honest proof leaves empty, and the levels below are dropped. Every hash in it is genuine; only
		// the binding of the claimed key/value to the path is gone, so it must verify for nothing.
		{
			leaf := types.LeafNode{Key: K, Value: V, Height: 0, Size: 1}
			child := leaf.Hash()
			for i := range dec.InnerNodes {
				q := clone(&dec)
				if len(q.InnerNodes[i].LeftHash) == 0 {
					q.InnerNodes[i].LeftHash = child
				} else {
					q.InnerNodes[i].RightHash = child
				}
				q.InnerNodes = q.InnerNodes[i:]
				fb := types.Encode(q)
				if f := judge("forged:subtree-hash-inlined", true, gen, root, K, V, fb); f != "" {
					return f + fmt.Sprintf(" (key %q, level %d)", k, i)
				}
				if f := judge("forged:subtree-hash-inlined+other-value", false, gen, root, K, []byte(flipVal(v)), fb); f != "" {
					return f + fmt.Sprintf(" (key %q, level %d)", k, i)
				}
				if f := judge("forged:subtree-hash-inlined+absent-key", false, gen, root, []byte("zz-absent"), []byte("v1"), fb); f != "" {
					return f + fmt.Sprintf(" (level %d)", i)
				}
				child = mavldb.InnerNodeProofHash(child, dec.InnerNodes[i])
			}
		}
		// (3) every proper prefix and single-byte substitutions of the honest proof bytes
		if once("proofs", string(proof), s.hist) { // byte-level families once per distinct honest proof
			for n := 0; n < len(proof); n++ {
				if f := judge("prefix", true, gen, root, K, V, proof[:n]); f != "" {
					return f + fmt.Sprintf(" (first %d of %d proof bytes)", n, len(proof))
				}
				if f := judge("prefix+other-value", false, gen, root, K, []byte(flipVal(v)), proof[:n]); f != "" {
					return f
				}
			}
			// all 255 substitutions per position for a deterministic subset of the proofs (chosen by
			// a hash of the proof bytes, so it does not depend on the order of visiting), 5 otherwise
			all := fullSubst.n >= 1<<20 || int(sha256.Sum256(proof)[0]) < fullSubst.n
			for pos := 0; pos < len(proof); pos++ {
				subs := []byte{0x00, 0xff, proof[pos] ^ 0x01, proof[pos] ^ 0x80, proof[pos] + 1}
				if all {
					subs = subs[:0]
					for c := 0; c < 256; c++ {
						subs = append(subs, byte(c))
					}
				}
				for _, c := range subs {
					if c == proof[pos] {
						continue
					}
					x := append([]byte(nil), proof...)
					x[pos] = c
					if f := judge("substitution", true, gen, root, K, V, x); f != "" {
						return f + fmt.Sprintf(" (byte %d of %d: %#x -> %#x)", pos, len(proof), proof[pos], c)
					}
					if !all {
						continue // the false-claim twin runs for the proofs that get all 255 values
					}
					if f := judge("substitution+other-value", false, gen, root, K, []byte(flipVal(v)), x); f != "" {
						return f
					}
				}
			}
		}
	}
	return ""
}

func sortedKeys(m map[string]string) []string {
	var l []string
	for k := range m {
		l = append(l, k)
	}
	sort.Strings(l)
	return l
}

func proofNodes(b []byte) int {
	var p types.MAVLProof
	if proto.Unmarshal(b, &p) != nil {
		return -1
	}
	return len(p.InnerNodes)
}

// int32Budget hands out a bounded number of "all 255 substitutions" treatments (the first N distinct
// proofs in BFS order; every later proof gets 5 substitutions per position).
type int32Budget struct {
	mu sync.Mutex
	n  int
}

func (b *int32Budget) take() bool {
	b.mu.Lock()
	defer b.mu.Unlock()
	if b.n > 0 {
		b.n--
		return true
	}
	return false
}

type harness struct {
	name  string
	cfg   mvx.Cfg
	keys  []string
	depth int
}

func (h harness) seq(r *vx.Run, budget *int32Budget) *vx.Seq[*sys] {
	var ops [][]write
	for _, k := range h.keys {
		for _, v := range []string{"v1", "v2"} {
			ops = append(ops, []write{{k, v}})
		}
	}
	// a few 2-write batches so that rotations on unpersisted nodes are among the states
	for i := 0; i+1 < len(h.keys); i++ {
		ops = append(ops, []write{{h.keys[i+1], "v1"}, {h.keys[i], "v2"}})
	}
	// one worker: the order of visiting (and with it which history evaluates a once-only family)
	// is then fixed, so the counters are reproducible; the prune configuration needs it anyway
	// (its bookkeeping reads/writes the process-global maxBlockHeight)
	workers := 1
	q := &vx.Seq[*sys]{Run: r, Name: h.name, NumOps: len(ops), MaxDepth: h.depth, Workers: workers}
	q.New = func() *sys {
		if h.cfg.Prune {
			mvx.ResetGlobals(h.cfg)
		}
		return &sys{cfg: h.cfg, st: mvx.Open(h.cfg, "memdb", "")}
	}
	q.OpName = func(i int) string {
		var p []string
		for _, w := range ops[i] {
			p = append(p, fmt.Sprintf("%q=%s", w.k, w.v))
		}
		return "Batch[" + strings.Join(p, ",") + "]"
	}
	q.Apply = func(s *sys, i int) string { return s.commit(ops[i]) }
	q.Check = func(s *sys) string { return s.oracle(budget) }
	q.Canon = func(s *sys) string {
		parts := []interface{}{}
		for _, rt := range s.roots {
			parts = append(parts, rt)
		}
		parts = append(parts, mvx.DumpKey(s.st.GetDB()))
		return vx.H(parts...)
	}
	q.FP = func(what string, hist []int) string { return fp(what) }
	return q
}

func fp(what string) string {
	if i := strings.Index(what, "|"); i > 0 {
		return "proof:" + what[:i]
	}
	return "proof:" + vx.Norm(what, 40)
}

// shortStrings verifies every byte string up to maxLen as a proof for true and false claims on a
// three-leaf tree (no valid proof is that short: all must be rejected) and on a single-leaf tree
// (whose honest proof is the empty string).
func shortStrings(r *vx.Run, maxLen int) {
	type target struct {
		name      string
		root      []byte
		k, v      string
		claimTrue bool
		gen       string
	}
	var ts []target
	for _, cfg := range []mvx.Cfg{{Name: "plain"}, {Name: "prefix", Prefix: true}} {
		st := mvx.Open(cfg, "memdb", "")
		r1, _ := st.Set(&types.StoreSet{StateHash: drivers.EmptyRoot[:], KV: mvx.KV("a", "v1"), Height: 1}, true)
		r3, _ := st.Set(&types.StoreSet{StateHash: r1, KV: mvx.KV("ab", "v1", "b", "v2"), Height: 2}, true)
		p3, _ := mavldb.GetKVPairProof(st.GetDB(), r3, []byte("ab"), st.VerifTreeCfg())
		var d3 types.MAVLProof
		proto.Unmarshal(p3, &d3)
		ts = append(ts,
			target{cfg.Name + "/3-leaf/true-claim", r3, "ab", "v1", true, eff(&d3)},
			target{cfg.Name + "/3-leaf/false-claim", r3, "ab", "v2", false, eff(&d3)},
			target{cfg.Name + "/1-leaf/true-claim", r1, "a", "v1", true, ""},
			target{cfg.Name + "/1-leaf/false-claim", r1, "a", "v2", false, ""},
		)
	}
	var wg sync.WaitGroup
	for first := 0; first < 256; first++ {
		wg.Add(1)
		go func(first int) {
			defer wg.Done()
			var rec func(cur []byte)
			rec = func(cur []byte) {
				for _, t := range ts {
					if f := judge("bytes-len"+fmt.Sprint(len(cur)), t.claimTrue, t.gen, t.root, []byte(t.k), []byte(t.v), cur); f != "" {
						c := map[string]interface{}{"short": fmt.Sprintf("%x", cur), "target": t.name}
						bs := append([]byte(nil), cur...)
						r.Violate(fp(f), fmt.Sprintf("%s with proof bytes %x against %s", f, cur, t.name), c, func() string {
							return judge("replay", t.claimTrue, t.gen, t.root, []byte(t.k), []byte(t.v), bs)
						})
					}
				}
				if len(cur) == maxLen {
					return
				}
				for c := 0; c < 256; c++ {
					rec(append(cur, byte(c)))
				}
			}
			if first == 0 {
				for _, t := range ts { // the empty string
					if f := judge("bytes-len0", t.claimTrue, t.gen, t.root, []byte(t.k), []byte(t.v), nil); f != "" {
						r.Violate(fp(f), f+" with empty proof against "+t.name, map[string]interface{}{"short": "", "target": t.name}, nil)
					}
				}
			}
			if maxLen >= 1 {
				rec([]byte{byte(first)})
			}
		}(first)
	}
	wg.Wait()
}

func main() {
	r := vx.Start("C03", "exploration")
	run = r
	clog.SetLogLevel("crit")
	r.QuietStderr()
	debug.SetGCPercent(400)
	r.DistinctSet = "outcomes"
	r.Rule = "states = all trees reached by BFS over histories of single writes (+ some 2-write batches) with values v1/v2 over a colliding key alphabet on the real mavl Store under plain / prefix / prune configurations (dedup on roots+raw database). Per state: honest proof of every present key at every committed root must verify; at the newest root every listed single-field change of claim and proof, every proper prefix and single-byte substitutions of the proof bytes (all 255 values for a hash-selected 1/40 of the distinct proofs in quick and for all in thorough, 5 values per position otherwise); plus all byte strings up to the tier's length against true and false claims on 1- and 3-leaf trees. Ticket family: with the in-memory node caches on (memTree+memVal, with and without prefix) six ticket keys in all 8 closed/open assignments of the first three, a second batch, the honest proof of every key at both roots. A verification counts as one evaluation. Acceptance is legitimate only for a true claim with a decodable proof whose hashed path (height,size,side,last 32 sibling-hash bytes per node) equals the honest one. distinct = (mutation class, accepted-equivalent/rejected) classes observed"
	r.Assume = []string{"sha256 collisions do not occur", "changes confined to bytes that are not hashed (height prefix of a sibling hash, junk on the unused side of an inner node, non-canonical protobuf encodings) may legitimately still verify for the true claim; they must not crash and must never verify a false claim", "values are the non-empty strings v1/v2"}

	k5 := []string{"", "a", "ab", "a\xff", "b"}
	k4 := []string{"a", "ab", "a\xff", "b"}
	prune := mvx.Cfg{Name: "prune", Prefix: true, Prune: true, PruneHeight: 10000}
	hs := []harness{
		{"plain", mvx.Cfg{Name: "plain"}, k5, r.Pick(3, 5)},
		{"prefix", mvx.Cfg{Name: "prefix", Prefix: true}, k5, r.Pick(3, 4)},
		{"prune", prune, k4, r.Pick(3, 4)},
	}
	budget := &int32Budget{n: r.Pick(3, 1<<20)} // quick: proofs whose hash starts with a byte < 3 (about 1 in 85); thorough: all

	if raw, ok := r.Replaying(); ok {
		var c struct {
			Harness string
			Hist    []int
			Short   *string
		}
		json.Unmarshal(raw, &c)
		f := ""
		if c.Short != nil {
			fmt.Println("replay of a short-string case: re-running the short-string enumeration")
			shortStrings(r, 2)
		} else {
			for _, h := range hs {
				if h.name == c.Harness {
					f = h.seq(r, &int32Budget{n: 1 << 30}).ReplayHist(c.Hist)
				}
			}
			if f != "" {
				fmt.Println("replay: FAIL", f)
				r.Violate("replay", f, c, nil)
			} else {
				fmt.Println("replay: ok")
			}
		}
		r.Finish()
	}

	shortStrings(r, r.Pick(2, 3))
	if sh, _ := r.Shard(); sh == 0 {
		ticketFamily(r)
	}
	for _, h := range hs {
		if o := os.Getenv("C03_ONLY"); o != "" && o != h.name {
			continue
		}
		h.seq(r, budget).Explore()
	}
	flushCounts()
	if r.Counter("violating_cases") == 0 {
		r.Floors["outcomes"] = 30
		r.Floors["states"] = 300
		r.Floors["proofs"] = 100
	}
	r.Finish()
}

// ticketFamily: with the in-memory node caches on (enableMemTree + enableMemVal) leaves of closed tickets are
// served from a cache of their own. Six ticket keys (three closed, three open) are committed in every one of
// the 8 open/closed assignments of the first three, a second batch rewrites one open ticket (so the tree of
// the second root is built from cached nodes), and the honest proof of EVERY key at BOTH roots must verify.
func ticketFamily(r *vx.Run) {
	mkv := func(id string, closed bool) string {
		st := int32(1)
		if closed {
			st = ticket.StatusCloseTicket
		}
		return string(types.Encode(&ticket.Ticket{TicketId: id, Status: st}))
	}
	for _, cfg := range []mvx.Cfg{{Name: "memTree+memVal", MemTree: true, MemVal: true}, {Name: "prefix+memTree+memVal", Prefix: true, MemTree: true, MemVal: true}} {
		for mask := 0; mask < 8; mask++ {
			run := func() string {
				mvx.ResetGlobals(cfg)
				st := mvx.Open(cfg, "memdb", "")
				ids := []string{"a", "b", "c", "d", "e", "f"}
				var kv []string
				content := map[string]string{}
				for i, id := range ids {
					closed := i%2 == 0
					if i < 3 {
						closed = mask&(1<<i) != 0
					}
					k := string(ticket.TicketPrefix) + id
					kv = append(kv, k, mkv(id, closed))
					content[k] = mkv(id, closed)
				}
				r1, err := st.Set(&types.StoreSet{StateHash: drivers.EmptyRoot[:], KV: mvx.KV(kv...), Height: 1}, true)
				if err != nil {
					return "harness: first commit: " + err.Error()
				}
				k2 := string(ticket.TicketPrefix) + "f"
				v2 := mkv("f2", false)
				r2, err := st.Set(&types.StoreSet{StateHash: r1, KV: mvx.KV(k2, v2), Height: 2}, true)
				if err != nil {
					return "harness: second commit: " + err.Error()
				}
				for ri, root := range [][]byte{r1, r2} {
					for k, v := range content {
						if ri == 1 && k == k2 {
							v = v2
						}
						var proof []byte
						var err error
						if p := vx.Catch(func() { proof, err = mavldb.GetKVPairProof(st.GetDB(), root, []byte(k), st.VerifTreeCfg()) }); p != "" {
							return fmt.Sprintf("proof-panics| GetKVPairProof(root #%d, %q): %s", ri+1, k, p)
						}
						if err != nil || len(proof) == 0 {
							return fmt.Sprintf("no-proof-for-present-key| GetKVPairProof(root #%d, %q) = %v", ri+1, k, err)
						}
						ok := false
						if p := vx.Catch(func() {
							ok = mavldb.VerifyKVPairProof(nil, root, &types.KeyValue{Key: []byte(k), Value: []byte(v)}, proof)
						}); p != "" {
							return fmt.Sprintf("verify-panics| honest proof of %q at root #%d: %s", k, ri+1, p)
						}
						if !ok {
							return fmt.Sprintf("honest-proof-rejected:ticket-leaves| the proof the store produces for %q at root #%d does not verify (closed tickets among a,b,c: mask %03b)", k, ri+1, mask)
						}
						r.Count("proofs", 1)
						r.Count("evaluations", 1)
					}
				}
				return ""
			}
			f := run()
			r.Count("ticket_trees", 1)
			if strings.HasPrefix(f, "harness: ") {
				r.Note("ticket family: %s", f)
				continue
			}
			if f != "" {
				fp := f
				if i := strings.Index(f, "|"); i > 0 {
					fp = f[:i]
				}
				r.Violate(fp+":"+cfg.Name, cfg.Name+": "+f, map[string]interface{}{"harness": "tickets", "cfg": cfg.Name, "mask": mask}, func() string { return run() })
			}
		}
	}
	mvx.ResetGlobals(mvx.Cfg{Name: "plain"})
}
