// C34 — light blocks are rebuilt exactly or fall back.
package main

import (
	"bytes"
	"fmt"

	clog "github.com/33cn/chain33/common/log"
	"github.com/33cn/chain33/common/merkle"
	"github.com/33cn/chain33/system/p2p/dht/protocol/broadcast"
	"github.com/33cn/chain33/types"
	"verif/vnode/bcx"
	"verif/vrt"
	"verif/vrt/vtime"
	"verif/vx"
)

type item struct {
	members []*types.Transaction // as they appear in the block
	pool    *types.Transaction   // what the mempool holds for it
}

func shapes(maxMembers int) [][]int {
	var out [][]int
	var rec func(cur []int, left int)
	rec = func(cur []int, left int) {
		if len(cur) > 0 {
			out = append(out, append([]int{}, cur...))
		}
		for _, sz := range []int{1, 2, 3} {
			if sz <= left {
				rec(append(cur, sz), left-sz)
			}
		}
	}
	rec(nil, maxMembers)
	return out
}

func main() {
	r := vx.Start("C34", "model_checking")
	clog.SetLogLevel("crit")
	r.QuietStderr()
	r.Rule = "blocks = miner transaction followed by every sequence of items (single transaction, group of 2, group of 3) with <= M member transactions; pool = every subset of the items at first look-up; the missing items arrive either all before the first tick, or a proper subset does, or none (time-out); the real light-block code (addLtBlock, buildPendBlock, buildPendList, pendBlockLoop) runs under the controlled scheduler with a virtual ticker and clock. state = (shape, presence mask, arrival mask, step). distinct = (shape, #missing, #arriving, outcome) classes. Second part: two light blocks (heights 50..52 each) pending together for transactions that never arrive, the node height set to 49..52 before both pass the time-out in one tick: the sender is asked exactly once for every block still above the node height"
	r.Assume = []string{"the mempool and blockchain modules are scripted responders on the real queue; the libp2p pubsub has no peers (what the protocol publishes is read from its internal outgoing channel)"}
	if r.Fork(8) {
		r.Floors["executions"] = 30
		r.Floors["distinct"] = 8
		r.Finish()
	}
	e := bcx.NewEnv()
	_, _, _, ltTopic, peerPrefix := broadcast.VerifTopics()
	maxM := r.Pick(3, 4)
	idx := 0
	nextTx := 100
	for _, sh := range shapes(maxM) {
		// build the block
		var items []item
		txs := []*types.Transaction{bcx.Tx(1)} // miner tx
		for _, sz := range sh {
			if sz == 1 {
				t := bcx.Tx(nextTx)
				nextTx++
				items = append(items, item{[]*types.Transaction{t}, t})
				txs = append(txs, t)
			} else {
				ms, p := bcx.Group(e.Cfg, nextTx, sz)
				nextTx += sz
				items = append(items, item{ms, p})
				txs = append(txs, ms...)
			}
		}
		blk := &types.Block{Height: 50, BlockTime: 1700000000, ParentHash: bytes.Repeat([]byte{7}, 32), StateHash: bytes.Repeat([]byte{9}, 32), Txs: txs}
		blk.TxHash = merkle.CalcMerkleRoot(e.Cfg, blk.Height, blk.Txs)
		ni := len(items)
		for present := 0; present < 1<<ni; present++ {
			missing := ((1 << ni) - 1) &^ present
			// arrival masks: subsets of the missing items that arrive before the first tick
			for arrive := missing; ; arrive = (arrive - 1) & missing {
				idx++
				if r.Mine(idx) && !r.Expired("cases") {
					runCase(r, e, ltTopic, peerPrefix, sh, blk, items, present, arrive)
				}
				if arrive == 0 {
					break
				}
			}
		}
	}
	// two light blocks pending at once: both wait for a transaction that never arrives and pass the time-out in
	// the same tick; meanwhile the node's own height moves. Every (height of the first, height of the second,
	// node height at the time-out) combination; the sender must be asked for exactly the blocks still ahead.
	for _, h1 := range []int64{50, 51, 52} {
		for _, h2 := range []int64{50, 51, 52} {
			for _, c := range []int64{49, 50, 51, 52} {
				idx++
				if r.Mine(idx) && !r.Expired("pairs") {
					runPair(r, e, peerPrefix, ltTopic, h1, h2, c, &nextTx)
				} else {
					nextTx += 2
				}
			}
		}
	}
	r.Finish()
}

func runPair(r *vx.Run, e *bcx.Env, peerPrefix, ltTopic string, h1, h2, cur int64, nextTx *int) {
	name := fmt.Sprintf("pair heights=%d,%d node-height-at-timeout=%d", h1, h2, cur)
	kase := map[string]interface{}{"pair": []int64{h1, h2}, "height": cur}
	mkBlock := func(h int64, salt byte) *types.Block {
		t := bcx.Tx(*nextTx)
		*nextTx++
		b := &types.Block{Height: h, BlockTime: 1700000000 + int64(salt), ParentHash: bytes.Repeat([]byte{7 + salt}, 32), StateHash: bytes.Repeat([]byte{9}, 32), Txs: []*types.Transaction{bcx.Tx(1), t}}
		b.TxHash = merkle.CalcMerkleRoot(e.Cfg, b.Height, b.Txs)
		return b
	}
	b1, b2 := mkBlock(h1, 1), mkBlock(h2, 2)
	var bad string
	fail := func(f string, a ...interface{}) {
		if bad == "" {
			bad = fmt.Sprintf(f, a...)
		}
	}
	res := vrt.Execute(func() {
		e.Reset()
		v := e.New(1000)
		v.SetHeight(49)
		out := v.Outgoing()
		v.Receive(ltTopic, v.BuildLight(types.Clone(b1).(*types.Block)), e.Peer, e.Peer)
		v.Receive(ltTopic, v.BuildLight(types.Clone(b2).(*types.Block)), e.Peer, e.Peer)
		e.SyncBlockchain()
		if n := len(e.PostedBlocks()); n != 0 {
			fail("%d blocks were handed to the blockchain although transactions are missing", n)
			return
		}
		if v.PendLen() != 2 {
			r.Count("pairs_not_both_pending_not_judged", 1)
			return
		}
		v.SetHeight(cur)
		vtime.Sleep(1750 * vtime.Millisecond)
		e.SyncBlockchain()
		if n := len(e.PostedBlocks()); n != 0 {
			fail("%d blocks were handed to the blockchain although transactions never arrived", n)
		}
		got := map[int64]int{}
		for _, p := range bcx.Drain(v, out) {
			pm, ok := p.Msg.(*types.PeerPubSubMsg)
			var req types.ReqInt
			if !ok || p.Topic != peerPrefix+e.Peer.String() || pm.MsgID != broadcast.VerifBlockReqMsgID || types.Decode(pm.ProtoMsg, &req) != nil {
				fail("unexpected publication on topic %s", p.Topic)
				continue
			}
			got[req.Height]++
		}
		want := map[int64]int{}
		for _, h := range []int64{h1, h2} {
			if h > cur {
				want[h]++
			}
		}
		for h, n := range want {
			if got[h] != n {
				fail("after the time-out the sender was asked %d times for the full block of height %d (node height %d), expected %d", got[h], h, cur, n)
			}
		}
		for h, n := range got {
			if h > cur && want[h] != n {
				fail("after the time-out the sender was asked %d times for height %d, expected %d", n, h, want[h])
			}
		}
		if v.PendLen() != 0 {
			fail("%d timed-out light blocks are still pending", v.PendLen())
		}
	}, nil, 20000, false, nil)
	r.Count("executions", 1)
	r.Count("pair_executions", 1)
	r.Count("transitions", int64(res.Steps))
	r.Seen("states", name)
	if len(res.Panics) > 0 {
		bad = "panic: " + res.Panics[0]
	}
	if bad != "" {
		r.Violate("lightblock-pair:"+vx.Norm(bad, 60), name+": "+bad, kase, nil)
	}
	r.SampleN(5, kase)
}

func sameBlock(cfg *types.Chain33Config, a, b *types.Block) string {
	if !bytes.Equal(a.Hash(cfg), b.Hash(cfg)) {
		return "hash differs"
	}
	if len(a.Txs) != len(b.Txs) {
		return fmt.Sprintf("%d transactions instead of %d", len(a.Txs), len(b.Txs))
	}
	for i := range a.Txs {
		if a.Txs[i] == nil || !bytes.Equal(types.Encode(a.Txs[i]), types.Encode(b.Txs[i])) {
			return fmt.Sprintf("transaction at position %d differs", i)
		}
	}
	return ""
}

func runCase(r *vx.Run, e *bcx.Env, ltTopic, peerPrefix string, sh []int, blk *types.Block, items []item, present, arrive int) {
	ni := len(items)
	missing := ((1 << ni) - 1) &^ present
	name := fmt.Sprintf("shape%v present=%0*b arriving=%0*b", sh, ni, present, ni, arrive)
	kase := map[string]interface{}{"shape": sh, "present": present, "arriving": arrive}
	var bad string
	fail := func(f string, a ...interface{}) {
		if bad == "" {
			bad = fmt.Sprintf(f, a...)
		}
	}
	outcome := ""
	res := vrt.Execute(func() {
		e.Reset()
		v := e.New(1000)
		v.SetHeight(blk.Height - 1)
		out := v.Outgoing()
		for i, it := range items {
			if present&(1<<i) != 0 {
				e.PoolAdd(it.pool)
			}
		}
		lb := v.BuildLight(types.Clone(blk).(*types.Block))
		v.Receive(ltTopic, lb, e.Peer, e.Peer)
		e.SyncBlockchain()
		posted := e.PostedBlocks()
		if missing == 0 {
			outcome = "rebuilt-at-once"
			if len(posted) != 1 {
				fail("every transaction is in the pool but %d blocks were handed to the blockchain", len(posted))
			} else if w := sameBlock(e.Cfg, posted[0], blk); w != "" {
				fail("rebuilt block is not the original: %s", w)
			}
			return
		}
		if len(posted) != 0 {
			fail("a block was handed to the blockchain although transactions are missing (%s)", sameBlock(e.Cfg, posted[0], blk))
			return
		}
		for i, it := range items {
			if arrive&(1<<i) != 0 {
				e.PoolAdd(it.pool)
			}
		}
		// first tick
		vtime.Sleep(250 * vtime.Millisecond)
		e.SyncBlockchain()
		posted = e.PostedBlocks()
		if arrive == missing {
			outcome = "rebuilt-after-arrival"
			if len(posted) != 1 {
				fail("the missing transactions arrived before the time-out but %d blocks were handed over after the next tick", len(posted))
			} else if w := sameBlock(e.Cfg, posted[0], blk); w != "" {
				fail("block rebuilt after arrival is not the original: %s", w)
			}
			if p := bcx.Drain(v, out); len(p) != 0 {
				fail("a message was published to the network although the block was rebuilt")
			}
			return
		}
		if len(posted) != 0 {
			fail("a block was handed to the blockchain although transactions are still missing")
			return
		}
		if p := bcx.Drain(v, out); len(p) != 0 {
			fail("the full block was requested (or something published) before the time-out")
		}
		// run past the time-out
		vtime.Sleep(1500 * vtime.Millisecond)
		e.SyncBlockchain()
		outcome = "timeout-request"
		if posted = e.PostedBlocks(); len(posted) != 0 {
			fail("a block was handed to the blockchain although transactions never arrived")
		}
		pubs := bcx.Drain(v, out)
		nreq := 0
		for _, p := range pubs {
			pm, ok := p.Msg.(*types.PeerPubSubMsg)
			if !ok || p.Topic != peerPrefix+e.Peer.String() {
				fail("unexpected publication on topic %s", p.Topic)
				continue
			}
			var req types.ReqInt
			if pm.MsgID != broadcast.VerifBlockReqMsgID || types.Decode(pm.ProtoMsg, &req) != nil || req.Height != blk.Height {
				fail("publication to the sender is not a request for height %d", blk.Height)
				continue
			}
			nreq++
		}
		if nreq != 1 {
			fail("after the time-out %d full-block requests were sent to the sender, expected exactly one", nreq)
		}
		if v.PendLen() != 0 {
			fail("the timed-out light block is still pending")
		}
	}, nil, 20000, false, nil)
	r.Count("executions", 1)
	r.Count("transitions", int64(res.Steps))
	r.Seen("states", name)
	nm, na := 0, 0
	for i := 0; i < ni; i++ {
		if missing&(1<<i) != 0 {
			nm++
		}
		if arrive&(1<<i) != 0 {
			na++
		}
	}
	r.Seen("distinct", fmt.Sprintf("%v missing=%d arriving=%d %s", sh, nm, na, outcome))
	if len(res.Panics) > 0 {
		bad = "panic: " + res.Panics[0]
	}
	if bad != "" {
		r.Violate("lightblock:"+vx.Norm(bad, 60), name+": "+bad, kase, nil)
	}
	r.SampleN(5, kase)
}
