// C21 — mempool bookkeeping stays consistent (sequential part).
// Explicit-state BFS over event histories on a real mempool.Mempool (NewMempool + SimpleQueue,
// capacity 3, per-sender limit 2, latest-list length 2): submissions (PushTx) of 6 transactions
// from 2 senders incl. one group, explicit removals, block additions (real eventAddBlock), block
// rollbacks (real eventDelBlock, last header answered by a scripted "blockchain" responder),
// expiry sweeps at chosen (height,time) edges and pool-age steps. After every event the five
// bookkeeping structures are recomputed from the queue's contents and compared.
package main

import (
	"bytes"
	"encoding/json"
	"fmt"
	"runtime"
	"sort"
	"strings"
	"sync/atomic"

	"github.com/33cn/chain33/common"
	"github.com/33cn/chain33/common/address"
	"github.com/33cn/chain33/common/crypto"
	clog "github.com/33cn/chain33/common/log"
	"github.com/33cn/chain33/queue"
	_ "github.com/33cn/chain33/system/address"
	_ "github.com/33cn/chain33/system/crypto/init"
	cty "github.com/33cn/chain33/system/dapp/coins/types"
	"github.com/33cn/chain33/system/mempool"
	"github.com/33cn/chain33/types"
	"verif/vx"
)

// pool configuration of the harness being explored (set per harness before its Explore; the
// explorations run one after the other)
var capPool, capSender, capLast = 3, 2, 2

const (
	tExp = int64(4102444800) // 2100-01-01: block-time expiry of a3; header times sit around it
	hExp = int64(3)          // height expiry of a2: expired for next block when header height >= 2
)

var (
	cfg        *types.Chain33Config
	privA      crypto.PrivKey
	privB      crypto.PrivKey
	addrA      string
	addrB      string
	txs        []*types.Transaction // a1 a2 a3 b1 b2 g
	txName     = []string{"a1", "a2(exp h3)", "a3(exp T)", "b1", "b2", "g(B+A)"}
	groupParts []*types.Transaction
	universe   [][]byte // hashes of the main universe
	colliders  []*types.Transaction
	idOf       = map[string]string{} // hash -> short name
	blocks     []*types.Block
	blockName  = []string{"K1(h1,T-10;a1,b1)", "K2(h2,T-5;a2,g0,g1)", "K3(h3,T;b2,a3)", "K1'(h1,T-10;g0,g1,a3)", "K1''(h1,T-10;a1-signed-by-B)"}
	parentOf   = map[int64][2]int64{1: {0, tExp - 20}, 2: {1, tExp - 10}, 3: {2, tExp - 5}}
	sweepAt    = [][2]int64{{1, tExp - 1}, {2, tExp - 1}, {1, tExp}}
)

func key(hexk string) crypto.PrivKey {
	c, err := crypto.Load(types.GetSignName("", types.SECP256K1), -1)
	if err != nil {
		panic(err)
	}
	b, _ := common.FromHex(hexk)
	p, err := c.PrivKeyFromBytes(b)
	if err != nil {
		panic(err)
	}
	return p
}

func mkTx(nonce, fee, expire int64, to string) *types.Transaction {
	v := &cty.CoinsAction_Transfer{Transfer: &types.AssetsTransfer{Amount: 1e8}}
	act := &cty.CoinsAction{Value: v, Ty: cty.CoinsActionTransfer}
	return &types.Transaction{Execer: []byte("coins"), Payload: types.Encode(act), Fee: fee, Expire: expire, Nonce: nonce, To: to, ChainID: cfg.GetChainID()}
}

func setup() {
	clog.SetLogLevel("crit")
	queue.DisableLog()
	cfg = types.NewChain33Config(types.GetDefaultCfgstring())
	privA = key("CC38546E9E659D15E6B4893F0AB32A06D103931A8230B0BDE71459D2B27D6944")
	privB = key("4257D8692EF7FE13C68B65D6A52F03933DB2FA5CE8FAF210B5B8B80C721CED01")
	addrA = address.PubKeyToAddr(address.DefaultID, privA.PubKey().Bytes())
	addrB = address.PubKeyToAddr(address.DefaultID, privB.PubKey().Bytes())
	a1 := mkTx(1, 100000, 0, addrB)
	a2 := mkTx(2, 200000, hExp, addrB)
	a3 := mkTx(3, 300000, tExp, addrB)
	b1 := mkTx(4, 400000, 0, addrA)
	b2 := mkTx(5, 500000, 0, addrA)
	for _, t := range []*types.Transaction{a1, a2, a3} {
		t.Sign(types.SECP256K1, privA)
	}
	for _, t := range []*types.Transaction{b1, b2} {
		t.Sign(types.SECP256K1, privB)
	}
	a1x := types.Clone(a1).(*types.Transaction)
	a1x.Sign(types.SECP256K1, privB)
	if !bytes.Equal(a1x.Hash(), a1.Hash()) || a1x.From() == a1.From() {
		panic("twin of a1: expected the same hash and another sender")
	}
	g0, g1 := mkTx(6, 0, 0, addrA), mkTx(7, 0, 0, addrB)
	grp, err := types.CreateTxGroup([]*types.Transaction{g0, g1}, 100000)
	if err != nil {
		panic(err)
	}
	grp.SignN(0, types.SECP256K1, privB)
	grp.SignN(1, types.SECP256K1, privA)
	groupParts = grp.Txs
	g := grp.Tx()
	if err := g.Check(cfg, 1, 100000, 1e9); err != nil {
		panic("group does not check: " + err.Error())
	}
	txs = []*types.Transaction{a1, a2, a3, b1, b2, g}
	for i, t := range txs {
		idOf[string(t.Hash())] = strings.SplitN(txName[i], "(", 2)[0]
	}
	idOf[string(g1.Hash())] = "g1"
	for _, t := range txs {
		universe = append(universe, t.Hash())
	}
	universe = append(universe, g1.Hash())
	// two transactions whose hashes share the first 5 bytes (= the short hash); the nonces were found
	// by a birthday search over this very transaction template (the hash does not cover the signature)
	c1, c2 := mkTx(1099512535850, 100000, 0, addrB), mkTx(1099513404161, 100000, 0, addrB)
	c1.Sign(types.SECP256K1, privA)
	c2.Sign(types.SECP256K1, privB)
	colliders = []*types.Transaction{c1, c2}
	idOf[string(c1.Hash())], idOf[string(c2.Hash())] = "c1", "c2"
	blocks = []*types.Block{
		{Height: 1, BlockTime: tExp - 10, Txs: []*types.Transaction{a1, b1}},
		{Height: 2, BlockTime: tExp - 5, Txs: []*types.Transaction{a2, g0, g1}},
		{Height: 3, BlockTime: tExp, Txs: []*types.Transaction{b2, a3}},
		{Height: 1, BlockTime: tExp - 10, Txs: []*types.Transaction{g0, g1, a3}},
		// the hash of a transaction does not cover its signature: a block may carry a1's body signed by
		// another key (same hash, another sender) while the pool holds a1 itself
		{Height: 1, BlockTime: tExp - 10, Txs: []*types.Transaction{a1x}},
	}
}

// env is a queue with a scripted "blockchain" module answering EventGetLastHeader; environments
// are recycled between executions (the pool under test is always fresh).
type env struct {
	q    queue.Queue
	cli  queue.Client
	last atomic.Value // [2]int64
}

var envFree = make(chan *env, 256)

func getEnv() *env {
	select {
	case e := <-envFree:
		return e
	default:
	}
	e := &env{q: queue.New("channel")}
	e.q.SetConfig(cfg)
	e.cli = e.q.Client()
	e.last.Store([2]int64{0, tExp - 20})
	srv := e.q.Client()
	srv.Sub("blockchain")
	go func() {
		for msg := range srv.Recv() {
			if msg.Ty == types.EventGetLastHeader {
				l := e.last.Load().([2]int64)
				msg.Reply(srv.NewMessage("", types.EventHeader, &types.Header{Height: l[0], BlockTime: l[1]}))
			}
		}
	}()
	return e
}

type sys struct {
	e   *env
	mem *mempool.Mempool
	uni [][]byte // hashes every lookup is tried with
}

func newSys() *sys {
	e := getEnv()
	mc := *cfg.GetModuleConfig().Mempool
	mc.PoolCacheSize, mc.MaxTxNumPerAccount, mc.MaxTxLast, mc.MinTxFeeRate = int64(capPool), int64(capSender), int64(capLast), 100000
	mem := mempool.NewMempool(&mc)
	mem.SetQueueCache(mempool.NewSimpleQueue(mempool.SubConfig{PoolCacheSize: int64(capPool), ProperFee: 100000}))
	mempool.V21Attach(mem, e.cli)
	mempool.V21SetHeader(mem, 0, tExp-20)
	return &sys{e: e, mem: mem, uni: universe}
}

const (
	opPush    = 0
	opRemove  = opPush + 6
	opRemMany = opRemove + 6
	opAdd     = opRemMany + 1
	opDel     = opAdd + 5
	opSweep   = opDel + 5
	opSweepAt = opSweep + 1
	opTick300 = opSweepAt + 3
	opTick600 = opTick300 + 1
	numOps    = opTick600 + 1
)

func opName(i int) string {
	switch {
	case i < opRemove:
		return "Push(" + txName[i] + ")"
	case i < opRemMany:
		return "RemoveTxs(" + txName[i-opRemove] + ")"
	case i == opRemMany:
		return "RemoveTxs(a1,b1,g,absent)"
	case i < opDel:
		return "AddBlock " + blockName[i-opAdd]
	case i < opSweep:
		return "DelBlock " + blockName[i-opDel]
	case i == opSweep:
		return "removeExpired"
	case i < opTick300:
		h := sweepAt[i-opSweepAt]
		return fmt.Sprintf("header(h%d,T%+d)+removeExpired", h[0], h[1]-tExp)
	case i == opTick300:
		return "300s pass"
	}
	return "600s pass"
}

func main() {
	r := vx.Start("C21", "model_checking")
	r.QuietStderr()
	setup()
	r.Rule = "BFS over all histories of {PushTx x6 (3 per sender, one is a 2-member group, one expires by height, one by block time), RemoveTxs x7, eventAddBlock x5, eventDelBlock x5 (one block carries the body of a pooled transaction signed by another key: same hash, another sender), removeExpired at the current header and at 3 (height,time) edges, 300s/600s of pool age} on a real Mempool with capacity 3, per-sender limit 2, latest-list 2; states de-duplicated on (queue contents in order with age class, latest list, header); distinct = outcome classes of the events (push errors, sweeps that removed, effective/ignored rollbacks...)"
	r.Assume = []string{
		"concurrent part (conc.go): three threads of 1-2 operations each on the instrumented pool, every schedule within the deviation bound, invariants recomputed at quiescence; answers of concurrent queries are not judged",
		"submission = Mempool.PushTx (the admission checks in front of it are C22's subject)",
		"pool age is owned by shifting the EnterTime of every held item (the pool uses the clock only as Now-EnterTime); age steps are 300 s and 600 s so that sub-second timing never decides",
		"latest-transactions list is required to be a duplicate-free subset of the pool of at most MaxTxLast entries in arrival order, not 'the N newest' (DESIGN 3.0)",
		"short-hash collisions between distinct transactions are not generated",
	}
	r.DistinctSet = "outcomes"
	type pc struct{ pool, sender, last int }
	confs := []pc{{3, 2, 2}}
	if !r.Quick() {
		confs = append(confs, pc{2, 1, 1}, pc{4, 2, 3}, pc{3, 3, 1})
	}
	mk := func(c pc) *vx.Seq[*sys] {
		capPool, capSender, capLast = c.pool, c.sender, c.last
		q := &vx.Seq[*sys]{Run: r, Name: fmt.Sprintf("cap%d-sender%d-last%d", c.pool, c.sender, c.last), NumOps: numOps, MaxDepth: r.Pick(6, 14), Workers: runtime.NumCPU(), OpName: opName}
		q.New = newSys
		q.Close = func(s *sys) {
			select {
			case envFree <- s.e:
			default:
			}
		}
		q.Apply = apply(r)
		q.Check = check
		q.Canon = canon
		q.FP = func(what string, h []int) string { return "book:" + vx.Norm(what, 56) }
		return q
	}
	cq := mkCollide(r)
	if raw, ok := r.Replaying(); ok {
		var c struct {
			Harness string
			Hist    []int
		}
		json.Unmarshal(raw, &c)
		var f string
		if c.Harness == "collide" {
			capPool, capSender, capLast = 3, 2, 2
			f = cq.ReplayHist(c.Hist)
		} else {
			var k pc
			fmt.Sscanf(c.Harness, "cap%d-sender%d-last%d", &k.pool, &k.sender, &k.last)
			f = mk(k).ReplayHist(c.Hist)
		}
		if f != "" {
			fmt.Println("replay: FAIL", f)
			r.Violate("replay", f, c, nil)
		} else {
			fmt.Println("replay: ok")
		}
		r.Finish()
	}
	for _, c := range confs {
		mk(c).Explore()
	}
	if colliders != nil {
		capPool, capSender, capLast = 3, 2, 2
		cq.Explore()
	}
	concurrentPart(r)
	r.Floors["outcomes"] = 14
	r.Floors["states"] = 300
	r.Finish()
}

func apply(r *vx.Run) func(s *sys, i int) string {
	return func(s *sys, i int) string {
		mem := s.mem
		switch {
		case i < opRemove:
			t := txs[i]
			before := mempool.V21Contents(mem)
			err := mem.PushTx(t)
			after := mempool.V21Contents(mem)
			r.Seen("outcomes", fmt.Sprint("push:", err))
			if err == nil {
				if len(after) != len(before)+1 || !bytes.Equal(after[len(after)-1].Tx.Hash(), t.Hash()) {
					return "PushTx returned nil but the pool did not grow by exactly that transaction at the tail"
				}
			} else if len(after) != len(before) {
				return fmt.Sprintf("PushTx failed (%v) but the pool changed size %d -> %d", err, len(before), len(after))
			}
		case i < opRemMany:
			h := txs[i-opRemove].Hash()
			was := mempool.V21Exist(mem, h)
			mem.RemoveTxs(&types.TxHashList{Hashes: [][]byte{h}})
			r.Seen("outcomes", fmt.Sprint("remove:present=", was))
			if mempool.V21Exist(mem, h) {
				return "RemoveTxs left the transaction in the pool"
			}
		case i == opRemMany:
			mem.RemoveTxs(&types.TxHashList{Hashes: [][]byte{txs[0].Hash(), txs[3].Hash(), txs[5].Hash(), []byte("no such hash")}})
			for _, k := range []int{0, 3, 5} {
				if mempool.V21Exist(mem, txs[k].Hash()) {
					return "RemoveTxs (several) left a listed transaction in the pool"
				}
			}
		case i < opDel:
			b := blocks[i-opAdd]
			n0 := mem.Size()
			if b.Height > mem.Height() {
				s.e.last.Store([2]int64{b.Height, b.BlockTime})
			}
			mempool.V21EventAddBlock(mem, b)
			r.Seen("outcomes", fmt.Sprint("addblock:removed=", n0 != mem.Size()))
			for _, t := range b.Txs {
				if mempool.V21Exist(mem, t.Hash()) {
					return "transaction " + idOf[string(t.Hash())] + " of the added block is still in the pool"
				}
				for _, it := range mempool.V21Contents(mem) {
					if bytes.Equal(it.Tx.Hash(), t.Hash()) {
						return "transaction " + idOf[string(t.Hash())] + " of the added block is still in the queue"
					}
				}
			}
		case i < opSweep:
			b := blocks[i-opDel]
			hd := mem.GetHeader()
			eff := hd.GetHeight() == b.Height
			p := parentOf[b.Height]
			s.e.last.Store(p)
			n0 := mem.Size()
			mempool.V21EventDelBlock(mem, b)
			r.Seen("outcomes", fmt.Sprint("delblock:effective=", eff, " grew=", mem.Size() > n0))
			if !eff {
				s.e.last.Store([2]int64{hd.GetHeight(), hd.GetBlockTime()})
			}
		case i == opSweep:
			n0 := mem.Size()
			mempool.V21RemoveExpired(mem)
			r.Seen("outcomes", fmt.Sprint("sweep:removed=", n0-mem.Size() > 0))
		case i < opTick300:
			h := sweepAt[i-opSweepAt]
			mempool.V21SetHeader(mem, h[0], h[1])
			s.e.last.Store(h)
			n0 := mem.Size()
			mempool.V21RemoveExpired(mem)
			r.Seen("outcomes", fmt.Sprintf("sweepat%d:removed=%d", i-opSweepAt, n0-mem.Size()))
		case i == opTick300:
			mempool.V21ShiftClock(mem, 300)
		default:
			mempool.V21ShiftClock(mem, 600)
		}
		return ""
	}
}

func ageClass(enter int64) int64 {
	a := (types.Now().Unix() - enter) / 300
	if a > 2 {
		a = 2
	}
	return a
}

func canon(s *sys) string {
	var sb strings.Builder
	for _, it := range mempool.V21Contents(s.mem) {
		fmt.Fprintf(&sb, "%s/%d ", idOf[string(it.Tx.Hash())], ageClass(it.EnterTime))
	}
	sb.WriteString("| ")
	for _, t := range s.mem.GetLatestTx() {
		sb.WriteString(idOf[string(t.Hash())] + " ")
	}
	h := s.mem.GetHeader()
	fmt.Fprintf(&sb, "| h%d t%+d", h.GetHeight(), h.GetBlockTime()-tExp)
	return sb.String()
}

// check recomputes every bookkeeping structure from the queue's contents.
func check(s *sys) string {
	mem := s.mem
	items := mempool.V21Contents(mem)
	pos := map[string]int{}
	var bytesSum, feeSum int64
	perSender := map[string][]string{}
	for i, it := range items {
		h := string(it.Tx.Hash())
		if _, dup := pos[h]; dup {
			return "pool holds two transactions with the same hash (" + idOf[h] + ")"
		}
		pos[h] = i
		bytesSum += int64(types.Size(it.Tx))
		feeSum += it.Tx.Fee
		perSender[it.Tx.From()] = append(perSender[it.Tx.From()], h)
	}
	if len(items) > capPool {
		return fmt.Sprintf("pool holds %d transactions, capacity %d", len(items), capPool)
	}
	if mem.Size() != len(items) {
		return fmt.Sprintf("Size()=%d, the queue holds %d", mem.Size(), len(items))
	}
	for snd, l := range perSender {
		if len(l) > capSender {
			return fmt.Sprintf("pool holds %d transactions of one sender, limit %d", len(l), capSender)
		}
		if snd != addrA && snd != addrB {
			return "unexpected sender " + snd
		}
	}
	// per-sender index
	for _, snd := range []string{addrA, addrB} {
		want := perSender[snd]
		if n := mem.TxNumOfAccount(snd); n != int64(len(want)) {
			return fmt.Sprintf("TxNumOfAccount=%d, the pool holds %d transactions of that sender", n, len(want))
		}
		d := mem.GetAccTxs(&types.ReqAddrs{Addrs: []string{snd}})
		var got []string
		for _, x := range d.GetTxs() {
			got = append(got, string(x.Tx.Hash()))
			if x.Fromaddr != snd {
				return "GetAccTxs returns a transaction under a foreign sender"
			}
		}
		w := append([]string{}, want...)
		sort.Strings(w)
		sort.Strings(got)
		if strings.Join(w, "") != strings.Join(got, "") {
			return fmt.Sprintf("GetAccTxs lists %d transactions, the pool holds %d of that sender (or different ones)", len(got), len(want))
		}
	}
	for snd, n := range mempool.V21AccountKeys(mem) {
		if n != len(perSender[snd]) {
			return fmt.Sprintf("per-sender index holds %d entries for a sender with %d pool transactions", n, len(perSender[snd]))
		}
	}
	// latest list
	last := mem.GetLatestTx()
	if len(last) > capLast {
		return fmt.Sprintf("latest list holds %d entries, maximum %d", len(last), capLast)
	}
	prev := -1
	seen := map[string]bool{}
	for _, t := range last {
		h := string(t.Hash())
		p, ok := pos[h]
		if !ok {
			return "latest list holds " + idOf[h] + " which is not in the pool"
		}
		if seen[h] {
			return "latest list holds a transaction twice"
		}
		seen[h] = true
		if p < prev {
			return "latest list is not in arrival order"
		}
		prev = p
	}
	// hash lookups, long and short, for every transaction of the universe. Two transactions may
	// share a short hash (the "collide" harness forces that): the short lookup then has to return
	// some pool transaction with that short hash, and nothing when the pool holds none.
	var long, short []string
	uni := s.uni
	for _, h := range uni {
		long = append(long, string(h))
		short = append(short, types.CalcTxShortHash(h))
	}
	rl := mempool.V21GetTxListByHash(mem, &types.ReqTxHashList{Hashes: long})
	rs := mempool.V21GetTxListByHash(mem, &types.ReqTxHashList{Hashes: short, IsShortHash: true})
	if len(rl.Txs) != len(uni) || len(rs.Txs) != len(uni) {
		return "getTxListByHash reply length differs from the request"
	}
	shorts := map[string]bool{}
	for _, it := range items {
		shorts[types.CalcTxShortHash(it.Tx.Hash())] = true
	}
	for i, h := range uni {
		_, in := pos[string(h)]
		if t := rl.Txs[i]; in && (t == nil || !bytes.Equal(t.Hash(), h)) {
			return "hash lookup does not find " + idOf[string(h)] + " which is in the pool"
		} else if !in && t != nil {
			return "hash lookup returns " + idOf[string(h)] + " which is not in the pool"
		}
		t := rs.Txs[i]
		if t != nil {
			if _, ok := pos[string(t.Hash())]; !ok {
				return "short-hash lookup returns " + idOf[string(t.Hash())] + " which is not in the pool"
			}
			if types.CalcTxShortHash(t.Hash()) != short[i] {
				return "short-hash lookup returns a transaction with a different short hash"
			}
		}
		if in && t == nil {
			return "short-hash lookup does not find " + idOf[string(h)] + " which is in the pool"
		}
		if !in && t != nil && !shorts[short[i]] {
			return "short-hash lookup returns a transaction for a short hash nothing in the pool has"
		}
	}
	if n := mempool.V21ShortIndexSize(mem); n != len(shorts) {
		return fmt.Sprintf("short-hash index holds %d entries, the pool holds %d distinct short hashes", n, len(shorts))
	}
	if b := mem.GetTotalCacheBytes(); b != bytesSum {
		return fmt.Sprintf("GetTotalCacheBytes=%d, contents sum to %d", b, bytesSum)
	}
	if f := mempool.V21TotalFee(mem); f != feeSum {
		return fmt.Sprintf("TotalFee=%d, contents sum to %d", f, feeSum)
	}
	// remaining queries (must not crash; their content is C23's subject)
	for c := int64(1); c <= int64(capPool)+1; c++ {
		if l := mempool.V21GetTxList(mem, &types.TxHashList{Count: c}); int64(len(l)) > c {
			return "getTxList returns more than the requested count"
		}
	}
	if l := mempool.V21All(mem, true); len(l) != len(items) {
		return fmt.Sprintf("EventGetMempool(all) returns %d transactions, the pool holds %d", len(l), len(items))
	}
	mempool.V21All(mem, false)
	mem.GetProperFeeRate(nil)
	return ""
}

// mkCollide is a second, small harness: the same pool and the same oracle, over a universe of two
// transactions of different senders whose hashes share the 5-byte short hash, plus a1.
func mkCollide(r *vx.Run) *vx.Seq[*sys] {
	if types.CalcTxShortHash(colliders[0].Hash()) != types.CalcTxShortHash(colliders[1].Hash()) || bytes.Equal(colliders[0].Hash(), colliders[1].Hash()) {
		r.Note("the two prepared transactions no longer share a short hash (transaction encoding changed?): collision harness skipped")
		colliders = nil
		return nil
	}
	u := []*types.Transaction{colliders[0], colliders[1], txs[0]}
	names := []string{"c1", "c2", "a1"}
	blk := &types.Block{Height: 1, BlockTime: tExp - 10, Txs: []*types.Transaction{colliders[0]}}
	q := &vx.Seq[*sys]{Run: r, Name: "collide", NumOps: 7, MaxDepth: r.Pick(5, 8), Workers: 1}
	q.OpName = func(i int) string {
		switch {
		case i < 3:
			return "Push(" + names[i] + ")"
		case i < 6:
			return "RemoveTxs(" + names[i-3] + ")"
		}
		return "AddBlock(h1;c1)"
	}
	q.New = func() *sys {
		s := newSys()
		s.uni = [][]byte{u[0].Hash(), u[1].Hash(), u[2].Hash()}
		return s
	}
	q.Close = func(s *sys) {
		select {
		case envFree <- s.e:
		default:
		}
	}
	q.Apply = func(s *sys, i int) string {
		switch {
		case i < 3:
			err := s.mem.PushTx(u[i])
			r.Seen("outcomes", fmt.Sprint("collide-push:", err))
		case i < 6:
			s.mem.RemoveTxs(&types.TxHashList{Hashes: [][]byte{u[i-3].Hash()}})
		default:
			mempool.V21EventAddBlock(s.mem, blk)
			if mempool.V21Exist(s.mem, u[0].Hash()) {
				return "transaction c1 of the added block is still in the pool"
			}
		}
		return ""
	}
	q.Check = check
	q.Canon = func(s *sys) string {
		idx := "-"
		if l := mempool.V21GetTxListByHash(s.mem, &types.ReqTxHashList{Hashes: []string{types.CalcTxShortHash(u[0].Hash())}, IsShortHash: true}); l.Txs[0] != nil {
			idx = idOf[string(l.Txs[0].Hash())]
		}
		return canon(s) + " short->" + idx
	}
	q.FP = func(what string, h []int) string {
		// which of the two held the index entry when the last event removed one of them
		owner, in := -1, map[int]bool{}
		var before int
		for _, o := range h {
			before = owner
			t := -1
			switch {
			case o < 3:
				if !in[o] {
					in[o] = true
					if o < 2 && owner < 0 {
						owner = o
					}
				}
				continue
			case o < 6:
				t = o - 3
			default:
				t = 0
			}
			if in[t] {
				delete(in, t)
				if t < 2 {
					owner = -1 // the code deletes the short-hash key whoever owns it
				}
			}
		}
		last := h[len(h)-1]
		removed := -1
		if last >= 3 && last < 6 {
			removed = last - 3
		} else if last == 6 {
			removed = 0
		}
		if strings.Contains(what, "short-hash") && removed >= 0 && removed < 2 && in[1-removed] {
			if before == 1-removed {
				return "shorthash-collision:removing-the-unindexed-transaction-deletes-the-entry-of-the-indexed-one"
			}
			return "shorthash-collision:second-transaction-stays-unindexed-after-the-indexed-one-leaves"
		}
		return "book:collide:" + vx.Norm(what, 48)
	}
	return q
}
