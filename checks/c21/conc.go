package main

import (
	"fmt"
	"strings"

	"github.com/33cn/chain33/system/mempool"
	"github.com/33cn/chain33/types"
	"verif/vrt"
	"verif/vx"
)

// Concurrent part of C21: three threads issue pool operations on one real Mempool whose mutexes and
// atomics are scheduling points (system/mempool is instrumented, see instr.txt); every schedule with
// at most k deviations from the default scheduler is executed and the bookkeeping invariants are
// recomputed from the pool's contents at quiescence. Per-operation post-conditions of the sequential
// part are not applied here (another thread may legitimately re-submit a transaction).
func rawOp(s *sys, i int) {
	mem := s.mem
	switch {
	case i < opRemove:
		_ = mem.PushTx(txs[i])
	case i < opRemMany:
		mem.RemoveTxs(&types.TxHashList{Hashes: [][]byte{txs[i-opRemove].Hash()}})
	case i == opRemMany:
		mem.RemoveTxs(&types.TxHashList{Hashes: [][]byte{txs[0].Hash(), txs[3].Hash(), txs[5].Hash(), []byte("no such hash")}})
	case i < opDel:
		b := blocks[i-opAdd]
		if b.Height > mem.Height() {
			s.e.last.Store([2]int64{b.Height, b.BlockTime})
		}
		mempool.V21EventAddBlock(mem, b)
	case i < opSweep:
		b := blocks[i-opDel]
		s.e.last.Store(parentOf[b.Height])
		mempool.V21EventDelBlock(mem, b)
	case i == opSweep:
		mempool.V21RemoveExpired(mem)
	default:
		// queries: their answers are not judged here, they only have to be safe
		_ = mempool.V21GetTxList(mem, &types.TxHashList{Count: 10})
		_ = mem.Size()
		_ = mem.GetLatestTx()
	}
}

func concurrentPart(r *vx.Run) {
	capPool, capSender, capLast = 3, 2, 2
	programs := [][]int{
		{opPush + 0, opPush + 1}, {opPush + 2, opRemove + 0}, {opAdd + 0}, {opPush + 3, opSweep}, {opDel + 0},
		{opRemMany}, {opPush + 0, opAdd + 1}, {opPush + 4, opRemove + 1}, {opPush + 5, opAdd + 2}, {numOps, opPush + 1},
	}
	np := len(programs)
	bound := r.Pick(2, 3)
	idx := 0
	for a := 0; a < np; a++ {
		for b := a + 1; b < np; b++ {
			for c := b + 1; c < np; c++ {
				idx++
				if r.Quick() && idx%3 != 0 {
					continue // quick tier: every third triple (a fixed sub-family, not a sample drawn at run time)
				}
				if r.Expired("concurrent triples") {
					return
				}
				trip := [][]int{programs[a], programs[b], programs[c]}
				var names []string
				for _, p := range trip {
					var ns []string
					for _, o := range p {
						if o >= numOps {
							ns = append(ns, "queries")
						} else {
							ns = append(ns, opName(o))
						}
					}
					names = append(names, "["+strings.Join(ns, "; ")+"]")
				}
				name := "conc" + strings.Join(names, "|")
				var cur *sys
				q := &vx.Sched{Run: r, Name: name, MaxPreempt: bound, MaxSteps: 4000,
					Body: func() {
						cur = newSys()
						s := cur
						for ti, p := range trip {
							p := p
							vrt.GoNamed(fmt.Sprint("T", ti+1), func() {
								for _, o := range p {
									rawOp(s, o)
								}
							})
						}
					},
					Check: func(res *vrt.Result) string {
						s := cur
						defer func() {
							select {
							case envFree <- s.e:
							default:
							}
						}()
						if len(res.Panics) > 0 {
							return "panic: " + strings.SplitN(res.Panics[0], "\n", 2)[0]
						}
						if res.Deadlock {
							return "deadlock: " + strings.Join(res.Blocked, "; ")
						}
						r.Seen("outcomes", fmt.Sprintf("conc:size=%d", s.mem.Size()))
						return check(s)
					},
					FP: func(what string) string { return "conc:" + vx.Norm(what, 56) },
				}
				q.ExploreUnsharded()
				r.Count("concurrent_scenarios", 1)
			}
		}
	}
}
