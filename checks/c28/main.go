// C28 — the chain holds no replayed, expired or mis-signed transactions.
// Every sequence of up to 3 events from a menu of peer deliveries (a block repeating a transaction
// of its parent, of its own body, a reorganisation onto a branch that carries the same transaction,
// blocks carrying an expired / not-yet-valid height-bounded / mis-signed / wrong-chain-id / low-fee
// transaction, each crafted with the state root an accepting node would compute) and mempool
// submissions followed by local block production is applied to a fresh real node; afterwards every
// transaction of every block of the best chain is judged by an independent predicate.
package main

import (
	"fmt"
	"strings"
	"time"

	clog "github.com/33cn/chain33/common/log"
	"github.com/33cn/chain33/common/merkle"
	cty "github.com/33cn/chain33/system/dapp/coins/types"
	"github.com/33cn/chain33/types"
	"verif/vnode"
	"verif/vnode/treex"
	"verif/vx"
)

const minFee = 100000

func transfer(cfg *types.Chain33Config, to string, amount, fee, nonce, expire int64, chainID int32, sign bool) *types.Transaction {
	v := &cty.CoinsAction_Transfer{Transfer: &types.AssetsTransfer{Amount: amount, To: to}}
	act := &cty.CoinsAction{Value: v, Ty: cty.CoinsActionTransfer}
	tx := &types.Transaction{Execer: []byte("coins"), Payload: types.Encode(act), Fee: fee, To: to, Nonce: nonce, Expire: expire, ChainID: chainID}
	if sign {
		tx.Sign(types.SECP256K1, vnode.Key(vnode.GenesisKeyHex))
	}
	return tx
}

// judge is the independent predicate of the statement for one transaction in a block.
func judge(cfg *types.Chain33Config, tx *types.Transaction, height, blocktime int64) string {
	if !tx.CheckSign(height) {
		return "mis-signed"
	}
	e := tx.Expire
	switch {
	case e == 0:
	case e <= 1000000000:
		if e <= height {
			return "expired-by-height"
		}
	case e > types.TxHeightFlag:
		th := e - types.TxHeightFlag
		if height < th-types.LowAllowPackHeight || height > th+types.HighAllowPackHeight {
			return "outside-its-height-window"
		}
	default:
		if e <= blocktime {
			return "expired-by-time"
		}
	}
	if tx.ChainID != cfg.GetChainID() {
		return "wrong-chain-id"
	}
	if tx.Fee < minFee {
		return "fee-below-minimum"
	}
	return ""
}

type event struct {
	name string
	do   func(n *vnode.Node)
}

func main() {
	r := vx.Start("C28", "model_checking")
	clog.SetLogLevel("crit")
	r.QuietStderr()
	r.Rule = "all sequences of <= 3 events from the menu {valid block X with tx t; child of X repeating t (state root as an accepting node computes it); block with t twice; heavier sibling branch that also carries t (reorganisation); blocks carrying an expired-by-height, expired-by-time, not-yet-valid height-bounded, in-window height-bounded (+ its repetition in the child), mis-signed, wrong-chain-id or low-fee transaction, crafted from a valid twin so that only the one check can reject them; mempool submissions of the same kinds followed by local block production} on a fresh real node; then every transaction of every best-chain block is judged. state = event sequence. distinct = (event sequence class, final height, offending kinds seen rejected) classes"
	r.Assume = []string{"coins transfers only (their state effect does not depend on expiry, chain id or signature bytes, which is what makes the 'twin' crafting consistent)", "minimum fee 100000 as configured", "local production uses the real solo consensus with a 10 ms poll; the check waits (bounded) for the block to appear"}
	if r.Fork(16) {
		r.Floors["executions"] = 100
		r.Floors["distinct"] = 10
		r.Finish()
	}
	edit := func(s string) string {
		return strings.Replace(strings.Replace(s, "waitTxMs=20\n", "waitTxMs=10\n", 1), "minerstart=false\n", "minerstart=true\n", 1)
	}
	env, err := treex.NewEnv(edit)
	if err != nil {
		fmt.Println("HARNESS-ERROR", err)
		r.Finish()
	}
	defer env.P.Close()
	cfg := env.Cfg
	tip := env.Trunk[treex.TrunkLen]
	rcv := treex.Receivers
	cid := cfg.GetChainID()
	mk := func(parent *types.Block, txs []*types.Transaction, bits uint32) *types.Block {
		b, err := env.MakeWith(parent, txs, bits, 0)
		if err != nil {
			panic(fmt.Sprint("producer: ", err))
		}
		return b
	}
	// replace the valid twin at position i by the offending transaction, keeping the declared state root
	craft := func(b *types.Block, i int, bad *types.Transaction) *types.Block {
		c := types.Clone(b).(*types.Block)
		c.Txs[i] = bad
		c.TxHash = merkle.CalcMerkleRoot(cfg, c.Height, types.TransactionSort(c.Txs))
		return c
	}
	t := transfer(cfg, rcv[0], 5000, 1000000, 9001, 0, cid, true)
	X := mk(tip, []*types.Transaction{t}, treex.Bits[0])
	Y := mk(X, []*types.Transaction{t, transfer(cfg, rcv[1], 1, 1000000, 9002, 0, cid, true)}, treex.Bits[0]) // repeats t (the producer does not know X)
	A := mk(tip, []*types.Transaction{transfer(cfg, rcv[2], 7, 1000000, 9003, 0, cid, true)}, treex.Bits[0])
	Bt := mk(A, []*types.Transaction{t}, treex.Bits[1]) // heavier branch carrying t as well
	twin := func(nonce int64) *types.Transaction { return transfer(cfg, rcv[3], 11, 1000000, nonce, 0, cid, true) }
	// blocks whose only defect is one transaction
	type badKind struct {
		name string
		tx   *types.Transaction
	}
	th := types.TxHeightFlag
	bads := []badKind{
		{"expired-by-height", transfer(cfg, rcv[3], 11, 1000000, 9101, 13, cid, true)},
		{"expired-by-time", transfer(cfg, rcv[3], 11, 1000000, 9102, tip.BlockTime, cid, true)},
		{"height-window-not-open", transfer(cfg, rcv[3], 11, 1000000, 9103, th+300, cid, true)},
		{"mis-signed", func() *types.Transaction {
			x := transfer(cfg, rcv[3], 11, 1000000, 9104, 0, cid, true)
			x.Signature.Signature[10] ^= 1
			return x
		}()},
		{"wrong-chain-id", transfer(cfg, rcv[3], 11, 1000000, 9105, 0, cid+1, true)},
	}
	var events []event
	dl := func(name string, b *types.Block) {
		events = append(events, event{name, func(n *vnode.Node) { _ = n.Deliver(vnode.Broadcast, b, "peer") }})
	}
	dl("X(t)", X)
	dl("Y=child-of-X-repeating-t", Y)
	dl("A", A)
	dl("Bt=child-of-A-with-t-heavier", Bt)
	for i, bk := range bads {
		base := mk(tip, []*types.Transaction{twin(int64(9200 + i)), transfer(cfg, rcv[4], 3, 1000000, int64(9300+i), 0, cid, true)}, treex.Bits[0])
		// the twin's position after sorting
		pos := 0
		for j, x := range base.Txs {
			if x.Nonce == int64(9200+i) {
				pos = j
			}
		}
		dl("block-with-"+bk.name+"-tx", craft(base, pos, bk.tx))
		baseX := mk(X, []*types.Transaction{twin(int64(9400 + i))}, treex.Bits[0])
		dl("child-of-X-with-"+bk.name+"-tx", craft(baseX, 0, bk.tx))
	}
	// low fee: the state root cannot be made consistent (the fee is part of the state effect)
	{
		base := mk(tip, []*types.Transaction{twin(9500)}, treex.Bits[0])
		dl("block-with-low-fee-tx", craft(base, 0, transfer(cfg, rcv[3], 11, 10, 9500, 0, cid, true)))
	}
	// a group whose SECOND member is expired (by height / by time) while its head is not, built from a twin
	// group that differs only in that expiry
	{
		mkGroup := func(nonce int64, exp2 int64) []*types.Transaction {
			a := transfer(cfg, rcv[1], 21, 1000000, nonce, 0, cid, false)
			b := transfer(cfg, rcv[2], 22, 1000000, nonce+1, exp2, cid, false)
			g, err := types.CreateTxGroup([]*types.Transaction{a, b}, cfg.GetMinTxFeeRate())
			if err != nil {
				panic(fmt.Sprint("group: ", err))
			}
			for i := range g.Txs {
				g.SignN(i, types.SECP256K1, vnode.Key(vnode.GenesisKeyHex))
			}
			return g.GetTxs()
		}
		for i, exp2 := range []int64{13, tip.BlockTime} {
			base := mk(tip, mkGroup(int64(9850+10*i), 0), treex.Bits[0])
			c := types.Clone(base).(*types.Block)
			c.Txs = mkGroup(int64(9850+10*i), exp2)
			c.TxHash = merkle.CalcMerkleRoot(cfg, c.Height, c.Txs)
			dl(fmt.Sprintf("block-with-group-whose-second-member-is-%s", []string{"expired-by-height", "expired-by-time"}[i]), c)
		}
	}
	// same transaction twice in one body
	{
		base := mk(tip, []*types.Transaction{twin(9600), twin(9601)}, treex.Bits[0])
		dl("block-with-one-tx-twice", craft(base, 1, base.Txs[0]))
	}
	// height-bounded transaction inside its window, and its repetition in the next block
	{
		tw := transfer(cfg, rcv[0], 13, 1000000, 9700, th+14, cid, true)
		W := mk(tip, []*types.Transaction{tw}, treex.Bits[0])
		W2 := mk(W, []*types.Transaction{tw}, treex.Bits[0])
		dl("W(height-bounded-tx)", W)
		dl("W2=child-of-W-repeating-it", W2)
	}
	// mempool submissions + local production
	subm := []*types.Transaction{t, t, bads[0].tx, bads[3].tx, bads[4].tx, transfer(cfg, rcv[3], 11, 10, 9800, 0, cid, true), transfer(cfg, rcv[1], 2, 1000000, 9801, 0, cid, true)}
	events = append(events, event{"submit-mixed-txs-and-produce", func(n *vnode.Node) {
		h0 := n.Chain.GetBlockHeight()
		for _, x := range subm {
			_, _ = n.API.SendTx(x)
		}
		n.WaitHeight(h0+1, 2*time.Second)
	}})
	// judgeChain applies the independent predicate to every transaction of every best-chain block above the trunk
	judgeChain := func(n *vnode.Node, names []string) int64 {
		h := n.Chain.GetBlockHeight()
		seen := map[string]int64{}
		for i := int64(treex.TrunkLen + 1); i <= h; i++ {
			d, err := n.Chain.GetBlock(i)
			if err != nil {
				r.Violate("chain-unreadable", fmt.Sprintf("%v: block %d unreadable: %v", names, i, err), names, nil)
				break
			}
			for ti, tx := range d.Block.Txs {
				k := string(tx.Hash())
				if prev, ok := seen[k]; ok {
					r.Violate("replayed-transaction-on-best-chain", fmt.Sprintf("after %v the best chain holds the same transaction at heights %d and %d", names, prev, i), map[string]interface{}{"events": names}, nil)
				}
				seen[k] = i
				if w := judge(cfg, tx, d.Block.Height, d.Block.BlockTime); w != "" {
					r.Violate("invalid-transaction-on-best-chain:"+w, fmt.Sprintf("after %v the best chain holds a %s transaction (height %d, index %d)", names, w, i, ti), map[string]interface{}{"events": names}, nil)
				}
			}
		}
		return h
	}
	ne := len(events)
	r.Note("%d events in the menu", ne)
	item := 0
	var rec func(seq []int)
	run := func(seq []int) {
		item++
		if !r.Mine(item) || r.Expired("event sequences") {
			return
		}
		n := env.Fresh()
		var names []string
		for _, e := range seq {
			events[e].do(n)
			names = append(names, events[e].name)
		}
		r.Count("executions", 1)
		r.Count("transitions", int64(len(seq)))
		r.Seen("states", fmt.Sprint(seq))
		h := judgeChain(n, names)
		r.Seen("distinct", fmt.Sprintf("len=%d final-height=%d first=%s", len(seq), h, strings.SplitN(names[0], "-", 2)[0]))
		n.Close()
		n.Forget()
		r.SampleN(4, names)
	}
	maxLen := r.Pick(2, 3)
	rec = func(seq []int) {
		if len(seq) > 0 {
			run(seq)
		}
		if len(seq) == maxLen {
			return
		}
		for e := 0; e < ne; e++ {
			rec(append(append([]int{}, seq...), e))
		}
	}
	rec(nil)
	// part B — replays across a restart. The node keeps only its last few blocks in memory
	// (defCacheSize=2, a legal configuration); a transaction mined k blocks ago is offered again, in a
	// peer's block or through the pool, with and without a restart in between.
	{
		editB := func(s string) string { return strings.Replace(edit(s), "defCacheSize=128\n", "defCacheSize=2\n", 1) }
		var envB *treex.Env
		for _, hb := range []bool{true, false} {
			for k := 0; k <= r.Pick(4, 8); k++ {
				for _, restart := range []bool{false, true} {
					for _, viaPool := range []bool{false, true} {
						item++
						if !r.Mine(item) || r.Expired("restart scenarios") {
							continue
						}
						if envB == nil {
							var err error
							if envB, err = treex.NewEnv(editB); err != nil {
								fmt.Println("HARNESS-ERROR", err)
								r.Finish()
							}
							defer envB.P.Close()
						}
						tipB := envB.Trunk[treex.TrunkLen]
						tx := transfer(cfg, rcv[0], 17, 1000000, int64(9900+k), 0, cid, true)
						if hb {
							tx = transfer(cfg, rcv[0], 17, 1000000, int64(9950+k), th+14, cid, true)
						}
						mkB := func(parent *types.Block, txs []*types.Transaction) *types.Block {
							b, err := envB.MakeWith(parent, txs, treex.Bits[0], 0)
							if err != nil {
								panic(fmt.Sprint("producer: ", err))
							}
							return b
						}
						chain := []*types.Block{mkB(tipB, []*types.Transaction{tx})}
						for i := 0; i < k; i++ {
							b, err := envB.Make(chain[len(chain)-1], 1, treex.Bits[0])
							if err != nil {
								panic(fmt.Sprint("producer: ", err))
							}
							chain = append(chain, b)
						}
						names := []string{fmt.Sprintf("W(height-bounded=%v)", hb), fmt.Sprintf("%d-more-blocks", k)}
						n := envB.Fresh()
						for _, b := range chain {
							_ = n.Deliver(vnode.Broadcast, b, "peer")
						}
						h0 := n.Chain.GetBlockHeight()
						if restart {
							snap := n.Snapshot()
							n.Close()
							n.Forget()
							n = vnode.New(vnode.Options{Snap: snap, CfgEdit: editB})
							n.WaitHeight(h0, 5*time.Second)
							names = append(names, "restart")
						}
						if viaPool {
							_, _ = n.API.SendTx(tx)
							_, _ = n.API.SendTx(transfer(cfg, rcv[1], 3, 1000000, int64(9980+k), 0, cid, true))
							n.WaitHeight(h0+1, 2*time.Second)
							names = append(names, "submit-it-again-and-produce")
						} else {
							rep := mkB(chain[len(chain)-1], []*types.Transaction{tx, transfer(cfg, rcv[1], 3, 1000000, int64(9990+k), 0, cid, true)})
							_ = n.Deliver(vnode.Broadcast, rep, "peer")
							names = append(names, "peer-block-repeating-it")
						}
						r.Count("executions", 1)
						r.Count("restart_scenarios", 1)
						r.Count("transitions", int64(len(chain)+2))
						r.Seen("states", fmt.Sprint(names))
						h := judgeChain(n, names)
						r.Seen("distinct", fmt.Sprintf("restart-part hb=%v restart=%v pool=%v grew=%v", hb, restart, viaPool, h > h0))
						n.Close()
						n.Forget()
					}
				}
			}
		}
	}
	r.Finish()
}
