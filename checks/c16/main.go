// C16 — transaction hash and signature bind every signed field.
// Flat exhaustive enumeration driven by the protobuf descriptor of types.Transaction: every field is
// mutated in turn (so a field added later is covered), for every registered signature type x
// address format, at heights below / at / above the type's enable height; every 1-bit flip and
// length change of the public key and signature bytes, plus the classic structured alterations
// (trailing bytes, S -> N-S, S -> S+L, alternative key encodings).
package main

import (
	"bytes"
	"encoding/json"
	"fmt"
	"math/big"
	"os"
	"sort"
	"strings"

	"github.com/33cn/chain33/common/address"
	"github.com/33cn/chain33/common/crypto"
	clog "github.com/33cn/chain33/common/log"
	_ "github.com/33cn/chain33/system/address"
	_ "github.com/33cn/chain33/system/crypto/init"
	"github.com/33cn/chain33/types"
	"google.golang.org/protobuf/proto"
	"google.golang.org/protobuf/reflect/protoreflect"
	"verif/vx"
)

var (
	r   *vx.Run
	cfg *types.Chain33Config
)

// ---- descriptor-driven population and mutation -----------------------------------------------------

func populate(m protoreflect.Message, depth int) {
	fds := m.Descriptor().Fields()
	for i := 0; i < fds.Len(); i++ {
		fd := fds.Get(i)
		n := int(fd.Number())
		if fd.IsList() || fd.IsMap() {
			r.Note("field %s is repeated/map: left empty in the populated transaction", fd.FullName())
			continue
		}
		switch fd.Kind() {
		case protoreflect.BytesKind:
			m.Set(fd, protoreflect.ValueOfBytes([]byte{byte(0xa0 + n), byte(n), 0x7f, byte(depth)}))
		case protoreflect.StringKind:
			m.Set(fd, protoreflect.ValueOfString(fmt.Sprintf("s%d", n)))
		case protoreflect.Int32Kind, protoreflect.Sint32Kind, protoreflect.Sfixed32Kind:
			m.Set(fd, protoreflect.ValueOfInt32(int32(100+n)))
		case protoreflect.Int64Kind, protoreflect.Sint64Kind, protoreflect.Sfixed64Kind:
			m.Set(fd, protoreflect.ValueOfInt64(int64(1000+n)))
		case protoreflect.Uint32Kind, protoreflect.Fixed32Kind:
			m.Set(fd, protoreflect.ValueOfUint32(uint32(100+n)))
		case protoreflect.Uint64Kind, protoreflect.Fixed64Kind:
			m.Set(fd, protoreflect.ValueOfUint64(uint64(1000+n)))
		case protoreflect.BoolKind:
			m.Set(fd, protoreflect.ValueOfBool(true))
		case protoreflect.EnumKind:
			m.Set(fd, protoreflect.ValueOfEnum(1))
		case protoreflect.FloatKind:
			m.Set(fd, protoreflect.ValueOfFloat32(1.5))
		case protoreflect.DoubleKind:
			m.Set(fd, protoreflect.ValueOfFloat64(1.5))
		case protoreflect.MessageKind, protoreflect.GroupKind:
			if depth < 3 {
				populate(m.Mutable(fd).Message(), depth+1)
			}
		}
	}
}

type fmut struct {
	Path string // e.g. "fee", "signature.pubkey"
	Kind string // e.g. "flip-bit-17", "truncate"
	set  func(tx *types.Transaction)
}

func flipBit(b []byte, bit int) []byte {
	o := append([]byte{}, b...)
	if bit/8 < len(o) { // signatures of the randomised drivers vary in length between runs
		o[bit/8] ^= 1 << uint(bit%8)
	}
	return o
}

// fieldMuts lists the alterations of every field reachable from the descriptor. allBits: every
// 1-bit flip of bytes fields (used for pubkey/signature), otherwise first/last only.
func fieldMuts(tx *types.Transaction, allBits func(path string) bool) []fmut {
	var out []fmut
	var walk func(m protoreflect.Message, path []protoreflect.FieldDescriptor, name string)
	walk = func(m protoreflect.Message, path []protoreflect.FieldDescriptor, name string) {
		fds := m.Descriptor().Fields()
		for i := 0; i < fds.Len(); i++ {
			fd := fds.Get(i)
			p := append(append([]protoreflect.FieldDescriptor{}, path...), fd)
			pn := name + string(fd.Name())
			add := func(kind string, val func(cur protoreflect.Value) protoreflect.Value) {
				out = append(out, fmut{Path: pn, Kind: kind, set: func(t *types.Transaction) {
					mm := t.ProtoReflect()
					for _, f := range p[:len(p)-1] {
						mm = mm.Mutable(f).Message()
					}
					if val == nil {
						mm.Clear(fd)
						return
					}
					mm.Set(fd, val(mm.Get(fd)))
				}})
			}
			if fd.IsList() || fd.IsMap() {
				add("clear", nil)
				continue
			}
			intBits := func(bits int, mk func(v int64) protoreflect.Value) {
				for b := 0; b < bits; b++ {
					b := b
					add(fmt.Sprintf("flip-bit-%d", b), func(c protoreflect.Value) protoreflect.Value { return mk(c.Int() ^ (1 << uint(b))) })
				}
				add("clear", nil)
			}
			switch fd.Kind() {
			case protoreflect.BytesKind:
				cur := m.Get(fd).Bytes()
				if len(cur) > 0 {
					if allBits(pn) {
						for b := 0; b < len(cur)*8; b++ {
							b := b
							add(fmt.Sprintf("flip-bit-%d", b), func(c protoreflect.Value) protoreflect.Value {
								return protoreflect.ValueOfBytes(flipBit(c.Bytes(), b))
							})
						}
					} else {
						add("flip-bit-0", func(c protoreflect.Value) protoreflect.Value { return protoreflect.ValueOfBytes(flipBit(c.Bytes(), 0)) })
						last := len(cur)*8 - 1
						add(fmt.Sprintf("flip-bit-%d", last), func(c protoreflect.Value) protoreflect.Value {
							return protoreflect.ValueOfBytes(flipBit(c.Bytes(), last))
						})
					}
					add("truncate-1", func(c protoreflect.Value) protoreflect.Value {
						return protoreflect.ValueOfBytes(append([]byte{}, c.Bytes()[:len(c.Bytes())-1]...))
					})
					add("clear", nil)
				}
				add("append-00", func(c protoreflect.Value) protoreflect.Value {
					return protoreflect.ValueOfBytes(append(append([]byte{}, c.Bytes()...), 0))
				})
				add("append-ff", func(c protoreflect.Value) protoreflect.Value {
					return protoreflect.ValueOfBytes(append(append([]byte{}, c.Bytes()...), 0xff))
				})
			case protoreflect.StringKind:
				if m.Get(fd).String() != "" {
					add("change-first", func(c protoreflect.Value) protoreflect.Value {
						s := []byte(c.String())
						s[0] ^= 1
						return protoreflect.ValueOfString(string(s))
					})
					add("clear", nil)
				}
				add("append", func(c protoreflect.Value) protoreflect.Value { return protoreflect.ValueOfString(c.String() + "x") })
			case protoreflect.Int32Kind, protoreflect.Sint32Kind, protoreflect.Sfixed32Kind:
				intBits(32, func(v int64) protoreflect.Value { return protoreflect.ValueOfInt32(int32(v)) })
			case protoreflect.Int64Kind, protoreflect.Sint64Kind, protoreflect.Sfixed64Kind:
				intBits(64, func(v int64) protoreflect.Value { return protoreflect.ValueOfInt64(v) })
			case protoreflect.Uint32Kind, protoreflect.Fixed32Kind:
				add("add-1", func(c protoreflect.Value) protoreflect.Value { return protoreflect.ValueOfUint32(uint32(c.Uint()) + 1) })
			case protoreflect.Uint64Kind, protoreflect.Fixed64Kind:
				add("add-1", func(c protoreflect.Value) protoreflect.Value { return protoreflect.ValueOfUint64(c.Uint() + 1) })
			case protoreflect.BoolKind:
				add("negate", func(c protoreflect.Value) protoreflect.Value { return protoreflect.ValueOfBool(!c.Bool()) })
			case protoreflect.EnumKind:
				add("add-1", func(c protoreflect.Value) protoreflect.Value { return protoreflect.ValueOfEnum(c.Enum() + 1) })
			case protoreflect.MessageKind, protoreflect.GroupKind:
				if m.Has(fd) {
					add("clear", nil)
					walk(m.Get(fd).Message(), p, pn+".")
				}
			default:
				add("clear", nil)
			}
		}
	}
	walk(tx.ProtoReflect(), nil, "")
	return out
}

func cloneTx(tx *types.Transaction) *types.Transaction { return proto.Clone(tx).(*types.Transaction) }

func top(path string) string {
	if i := strings.IndexByte(path, '.'); i >= 0 {
		return path[:i]
	}
	return path
}

// ---- part 1: hash binding and cloning ---------------------------------------------------------------

type kase struct {
	Part   string `json:"part"`
	Driver string `json:"driver,omitempty"`
	AddrID int32  `json:"addr_id,omitempty"`
	Height int64  `json:"height,omitempty"`
	Field  string `json:"field,omitempty"`
	Kind   string `json:"kind,omitempty"`
	Plain  bool   `json:"plain,omitempty"` // base transaction with groupCount 0 (next and header still carried)
}

// plainBase selects the second base transaction: not a group member (groupCount 0) but still carrying
// next and header bytes, which the wire format allows.
var plainBase bool

func baseTx() *types.Transaction {
	tx := &types.Transaction{}
	populate(tx.ProtoReflect(), 0)
	if plainBase {
		tx.GroupCount = 0
	}
	tx.Execer = []byte("coins") // an execer without its own crypto table: the system drivers decide
	return tx
}

func hashCase(c kase) string {
	plainBase = c.Plain
	tx := baseTx()
	switch c.Kind {
	case "Clone", "CloneTx":
		var cl *types.Transaction
		if c.Kind == "Clone" {
			cl = tx.Clone()
		} else {
			cl = types.CloneTx(tx)
		}
		if !bytes.Equal(cl.Hash(), tx.Hash()) {
			return c.Kind + " changes Hash"
		}
		if !bytes.Equal(cl.FullHash(), tx.FullHash()) {
			return c.Kind + " changes FullHash"
		}
		// the clone really is the same transaction: nothing the wire format carries got lost
		if !bytes.Equal(types.Encode(cl), types.Encode(tx)) {
			return c.Kind + " does not preserve the transaction (its encoding differs), so hash preservation would be vacuous"
		}
		return ""
	}
	for _, m := range fieldMuts(tx, func(string) bool { return false }) {
		if m.Path != c.Field || m.Kind != c.Kind {
			continue
		}
		mt := cloneTx(tx)
		m.set(mt)
		if bytes.Equal(types.Encode(mt), types.Encode(tx)) {
			return ""
		}
		same := bytes.Equal(mt.Hash(), tx.Hash())
		ignored := top(c.Field) == "signature" || top(c.Field) == "header"
		if ignored && !same {
			return "Hash depends on " + top(c.Field) + " (must be ignored)"
		}
		if !ignored && same {
			return "Hash does not change when " + c.Field + " changes"
		}
		r.Seen("distinct", "hash:"+c.Field+fmt.Sprint(same))
		return ""
	}
	return "no such mutation"
}

func partHash() {
	tx := baseTx()
	try := func(c kase) {
		c.Plain = plainBase
		r.Count("evaluations", 1)
		if f := hashCase(c); f != "" {
			r.Violate("hash:"+vx.Norm(f, 60), fmt.Sprintf("%s (%s)", f, vx.J(c)), c, func() string { return hashCase(c) })
		}
	}
	try(kase{Part: "hash", Kind: "Clone"})
	try(kase{Part: "hash", Kind: "CloneTx"})
	for _, m := range fieldMuts(tx, func(string) bool { return false }) {
		r.Seen("fields", m.Path)
		try(kase{Part: "hash", Field: m.Path, Kind: m.Kind})
	}
	r.SampleN(1, kase{Part: "hash", Field: "chainID", Kind: "flip-bit-3"})
}

// ---- part 2: signatures ---------------------------------------------------------------------------

type drv struct {
	name string
	id   int32
	eh   int64 // configured enable height; -1 = never enabled
	priv crypto.PrivKey
}

var drivers []*drv
var addrIDs []int32

var wantHeights = map[string]int64{"secp256k1": 0, "secp256r1": 3, "ed25519": 5, "sm2": 7, "secp256k1eth": 9}

func setupCrypto() {
	names, ids := crypto.GetCryptoList()
	eh := map[string]int64{}
	for i, n := range names {
		d := &drv{name: n, id: ids[i]}
		if n == "none" {
			d.eh = -1 // registered disabled; an enableHeight entry must not enable it
			eh[n] = 0
		} else if h, ok := wantHeights[n]; ok {
			d.eh = h
			eh[n] = h
		} else {
			d.eh = 4
			eh[n] = 4
		}
		drivers = append(drivers, d)
	}
	sort.Slice(drivers, func(i, j int) bool { return drivers[i].id < drivers[j].id })
	crypto.Init(&crypto.Config{EnableHeight: eh}, cfg.GetSubConfig().Crypto)
	for _, d := range drivers {
		c, err := crypto.Load(d.name, -1)
		if err != nil {
			continue
		}
		seed := bytes.Repeat([]byte{byte(d.id)*7 + 3}, 32)
		seed[0] = 1
		if p := vx.Catch(func() { d.priv, _ = c.PrivKeyFromBytes(seed) }); p != "" {
			d.priv = nil
		}
		if d.priv == nil && d.name != "none" {
			r.Note("driver %s cannot make a key from 32 bytes: honest-signature clauses skipped for it", d.name)
		}
	}
	for id := range address.GetDriverList() {
		addrIDs = append(addrIDs, id)
	}
	sort.Slice(addrIDs, func(i, j int) bool { return addrIDs[i] < addrIDs[j] })
}

func findDrv(name string) *drv {
	for _, d := range drivers {
		if d.name == name {
			return d
		}
	}
	return nil
}

func heightsOf(d *drv) []int64 {
	hs := map[int64]bool{0: true, 1 << 40: true}
	if d.eh >= 0 {
		for _, h := range []int64{d.eh - 1, d.eh, d.eh + 1} {
			if h >= 0 {
				hs[h] = true
			}
		}
	} else {
		hs[1], hs[10] = true, true
	}
	var out []int64
	for h := range hs {
		out = append(out, h)
	}
	sort.Slice(out, func(i, j int) bool { return out[i] < out[j] })
	return out
}

func signed(d *drv, addrID int32) *types.Transaction {
	tx := baseTx()
	ty := types.EncodeSignID(d.id, addrID)
	if d.priv == nil { // "none": nothing to sign with; any bytes
		tx.Signature = &types.Signature{Ty: ty, Pubkey: []byte{1, 2, 3}, Signature: []byte{4, 5, 6}}
		return tx
	}
	tx.Sign(ty, d.priv)
	if d.name == "ed25519" {
		// deterministic search (fixed key, nonce = 1001, 1002, ...) for a signature ending in 0x00,
		// so that the fixed-size copy in SignatureFromBytes can be probed with a shortened signature
		for i := 0; i < 400 && tx.Signature.Signature[len(tx.Signature.Signature)-1] != 0; i++ {
			tx.Nonce++
			tx.Sign(ty, d.priv)
		}
	}
	return tx
}

var (
	nK1, _  = new(big.Int).SetString("fffffffffffffffffffffffffffffffebaaedce6af48a03bbfd25e8cd0364141", 16)
	nR1, _  = new(big.Int).SetString("ffffffff00000000ffffffffffffffffbce6faada7179e84f3b9cac2fc632551", 16)
	nSM2, _ = new(big.Int).SetString("fffffffeffffffffffffffffffffffff7203df6b21c6052b53bbf40939d54123", 16)
	lEd, _  = new(big.Int).SetString("1000000000000000000000000000000014def9dea2f79cd65812631a5cf5d3ed", 16)
)

func derInt(v *big.Int) []byte {
	b := v.Bytes()
	if len(b) == 0 || b[0]&0x80 != 0 {
		b = append([]byte{0}, b...)
	}
	return append([]byte{2, byte(len(b))}, b...)
}

// derNegS re-encodes a DER (r,s) signature as (r, n-s); nil if sig is not plain DER.
func derNegS(sig []byte, n *big.Int) []byte {
	if len(sig) < 8 || sig[0] != 0x30 || int(sig[1])+2 != len(sig) || sig[2] != 2 {
		return nil
	}
	rl := int(sig[3])
	if 4+rl+2 > len(sig) || sig[4+rl] != 2 {
		return nil
	}
	sl := int(sig[5+rl])
	if 6+rl+sl != len(sig) {
		return nil
	}
	rr := new(big.Int).SetBytes(sig[4 : 4+rl])
	s := new(big.Int).SetBytes(sig[6+rl:])
	body := append(derInt(rr), derInt(new(big.Int).Sub(n, s))...)
	return append([]byte{0x30, byte(len(body))}, body...)
}

// structured alterations of signature / public key bytes, per driver family
func structured(d *drv, sig *types.Signature) []fmut {
	var out []fmut
	setSig := func(kind string, nb []byte) {
		if nb == nil || bytes.Equal(nb, sig.Signature) {
			return
		}
		out = append(out, fmut{Path: "signature.signature", Kind: kind, set: func(t *types.Transaction) { t.Signature.Signature = nb }})
	}
	setPub := func(kind string, nb []byte) {
		if nb == nil || bytes.Equal(nb, sig.Pubkey) {
			return
		}
		out = append(out, fmut{Path: "signature.pubkey", Kind: kind, set: func(t *types.Transaction) { t.Signature.Pubkey = nb }})
	}
	switch d.name {
	case "secp256k1":
		setSig("S-to-N-minus-S", derNegS(sig.Signature, nK1))
	case "secp256r1":
		setSig("S-to-N-minus-S", derNegS(sig.Signature, nR1))
	case "sm2":
		setSig("S-to-N-minus-S", derNegS(sig.Signature, nSM2))
	case "secp256k1eth":
		if len(sig.Signature) == 65 {
			nb := append([]byte{}, sig.Signature...)
			s := new(big.Int).Sub(nK1, new(big.Int).SetBytes(nb[32:64]))
			s.FillBytes(nb[32:64])
			nb[64] ^= 1
			setSig("S-to-N-minus-S-and-V-flipped", nb)
		}
	case "ed25519":
		if len(sig.Signature) == 64 {
			le := append([]byte{}, sig.Signature[32:]...)
			for i, j := 0, len(le)-1; i < j; i, j = i+1, j-1 {
				le[i], le[j] = le[j], le[i]
			}
			s := new(big.Int).Add(new(big.Int).SetBytes(le), lEd)
			if s.BitLen() <= 256 {
				be := s.FillBytes(make([]byte, 32))
				nb := append([]byte{}, sig.Signature[:32]...)
				for i := 31; i >= 0; i-- {
					nb = append(nb, be[i])
				}
				setSig("S-to-S-plus-L", nb)
			}
		}
	}
	// a signature that ends in zero bytes, with those bytes cut off (signed() picks a nonce that makes one)
	if n := len(bytes.TrimRight(sig.Signature, "\x00")); d.name == "ed25519" && n < len(sig.Signature) {
		setSig("cut-trailing-zero-bytes", append([]byte{}, sig.Signature[:n]...))
	}
	// a compressed key padded to the uncompressed length (33 -> 65 bytes)
	if len(sig.Pubkey) == 33 {
		setPub("pad-to-65-bytes", append(append([]byte{}, sig.Pubkey...), make([]byte, 32)...))
	}
	// many trailing bytes
	setSig("append-32-zero-bytes", append(append([]byte{}, sig.Signature...), make([]byte, 32)...))
	return out
}

func sigMuts(d *drv, tx *types.Transaction) []fmut {
	ms := fieldMuts(tx, func(p string) bool { return p == "signature.pubkey" || p == "signature.signature" })
	return append(ms, structured(d, tx.Signature)...)
}

// altClass groups accepted alterations into finding classes.
func altClass(c kase) string {
	k := c.Kind
	if strings.HasPrefix(k, "append-") {
		return "trailing-bytes"
	}
	if c.Field == "signature.signature" && (k == "truncate-1" || k == "cut-trailing-zero-bytes") {
		return "short-zero-padded"
	}
	if strings.HasPrefix(k, "flip-bit-") {
		var b int
		fmt.Sscanf(k, "flip-bit-%d", &b)
		if c.Field == "signature.pubkey" || c.Field == "signature.signature" {
			k = fmt.Sprintf("bitflip-in-byte-%d", b/8)
			if b/8 > 0 {
				k = "bitflip-after-byte-0"
			}
		} else {
			k = "bitflip"
		}
	}
	return k
}

func sigCase(c kase) string {
	plainBase = c.Plain
	d := findDrv(c.Driver)
	if d == nil {
		return "no such driver"
	}
	tx := signed(d, c.AddrID)
	if tx.Signature == nil {
		return ""
	}
	enabled := d.eh >= 0 && c.Height >= d.eh
	switch c.Kind {
	case "honest":
		if d.priv == nil {
			if tx.CheckSign(c.Height) {
				return "signature of a disabled type verifies"
			}
			return ""
		}
		got := tx.CheckSign(c.Height)
		if enabled && !got {
			return "honest signature does not verify at an enabled height"
		}
		if !enabled && got {
			return "signature verifies at a height where the type is disabled"
		}
		r.Seen("distinct", fmt.Sprintf("honest:%s:%v", c.Driver, enabled))
		return ""
	}
	if d.priv == nil || !enabled {
		return ""
	}
	for _, m := range sigMuts(d, tx) {
		if m.Path == c.Field && m.Kind == c.Kind {
			return evalMut(d, tx, m, c)
		}
	}
	return "no such mutation"
}

func evalMut(d *drv, tx *types.Transaction, m fmut, c kase) string {
	mt := cloneTx(tx)
	m.set(mt)
	if bytes.Equal(types.Encode(mt), types.Encode(tx)) {
		return ""
	}
	var ok bool
	if p := vx.Catch(func() { ok = mt.CheckSign(c.Height) }); p != "" {
		return "CheckSign panics on an altered transaction: " + p
	}
	if c.Field == "signature.ty" || c.Field == "signature" {
		// not a signed field, not key or signature bytes: outside the statement; observed only
		if ok {
			r.Seen("observed_ty_alterations_accepted", c.Driver+":"+c.Kind)
		}
		return ""
	}
	if ok {
		switch top(c.Field) {
		case "signature":
			return fmt.Sprintf("CheckSign accepts altered %s bytes", strings.TrimPrefix(c.Field, "signature."))
		default:
			return "CheckSign accepts an altered signed field " + c.Field
		}
	}
	r.Seen("distinct", fmt.Sprintf("reject:%s:%s:%s", c.Driver, c.Field, altClass(c)))
	return ""
}

func partSig() {
	for _, d := range drivers {
		for _, a := range addrIDs {
			if r.Expired("signatures") {
				return
			}
			var fast func(c kase) string
			try := func(c kase) {
				c.Part, c.Driver, c.AddrID = "sig", d.name, a
				c.Plain = plainBase
				r.Count("evaluations", 1)
				f := ""
				if fast != nil {
					f = fast(c)
				} else {
					f = sigCase(c)
				}
				if f != "" {
					fp := fmt.Sprintf("sig:%s:%s", d.name, vx.Norm(f, 60))
					if c.Kind != "honest" {
						fp = fmt.Sprintf("sig:%s:%s:%s-accepted", d.name, c.Field, altClass(c))
						if strings.Contains(f, "panics") {
							fp = fmt.Sprintf("sig:%s:%s:panic", d.name, c.Field)
						}
					}
					r.Violate(fp, fmt.Sprintf("%s: driver %s, %s %s at height %d (%s)", f, d.name, c.Field, c.Kind, c.Height, vx.J(c)), c, func() string { return sigCase(c) })
				}
			}
			for _, h := range heightsOf(d) {
				try(kase{Kind: "honest", Height: h})
			}
			if d.priv == nil || d.eh < 0 {
				continue
			}
			h := d.eh + 1
			tx := signed(d, a)
			for _, m := range sigMuts(d, tx) {
				m := m
				fast = func(c kase) string { return evalMut(d, tx, m, c) } // same verdict as sigCase(c), without the lookup
				try(kase{Field: m.Path, Kind: m.Kind, Height: h})
			}
			r.Seen("sigtypes", fmt.Sprintf("%s/addr%d", d.name, a))
		}
	}
	r.SampleN(3, kase{Part: "sig", Driver: "ed25519", AddrID: 0, Height: 6, Field: "signature.signature", Kind: "flip-bit-511"})
	r.SampleN(4, kase{Part: "sig", Driver: "secp256k1", AddrID: 2, Height: 1, Field: "header", Kind: "flip-bit-0"})
	r.SampleN(5, kase{Part: "sig", Driver: "sm2", AddrID: 0, Height: 6, Kind: "honest"})
}

func main() {
	clog.SetLogLevel("crit")
	r = vx.Start("C16", "exploration")
	r.Rule = "a transaction with every field of the protobuf descriptor populated; every field (recursively) altered in turn: bytes (first/last bit, truncate, clear, append 00/ff), strings, every single bit of every integer, message cleared -> Hash must change except for signature/header where it must not; Clone/CloneTx keep Hash, FullHash and the encoding. For every registered crypto driver x every registered address format: honest signature at heights {0, eh-1, eh, eh+1, 2^40}; at eh+1 every such alteration of every signed field, EVERY 1-bit flip and length change of public key and signature bytes, and structured alterations (N-S, S+L, trailing bytes, padded key) -> CheckSign must be false. distinct = distinct (driver, field, alteration class, verdict) classes"
	r.Assume = []string{
		"enable heights are set with crypto.Init (secp256k1=0, secp256r1=3, ed25519=5, sm2=7, secp256k1eth=9; none stays disabled) once per process",
		"signature.ty is not a signed field nor key/signature bytes: accepted alterations of it (address-format bits 12-14, unused bits 30-31) are only counted as observations",
		"sm2 and secp256r1 sign with crypto/rand; no verdict depends on the drawn nonce (every asserted rejection/acceptance is a property of parsing or of any valid signature)",
		"cert-carrying sm2/secp256r1 signatures (authority enabled) and ETH-format payloads of secp256k1eth are not exercised",
	}
	r.QuietStderr()
	cfg = types.NewChain33Config(types.GetDefaultCfgstring())
	setupCrypto()
	if raw, ok := r.Replaying(); ok {
		var c kase
		json.Unmarshal(raw, &c)
		f := ""
		if c.Part == "hash" {
			f = hashCase(c)
		} else {
			f = sigCase(c)
		}
		if f != "" {
			fmt.Println("replay: FAIL", f)
			r.Violate("replay", f, c, nil)
		} else {
			fmt.Println("replay: ok")
		}
		r.Finish()
	}
	if len(drivers) < 6 || len(addrIDs) < 2 {
		fmt.Println("HARNESS-ERROR expected >=6 crypto drivers and >=2 address formats, got", len(drivers), len(addrIDs))
		os.Exit(2)
	}
	for _, pb := range []bool{false, true} {
		plainBase = pb
		partHash()
		partSig()
	}
	fmt.Println()
	r.Floors["fields"] = 13
	r.Floors["sigtypes"] = 10
	r.Floors["distinct"] = 60
	r.Finish()
}
