// C30 — produced blocks respect size, count and group limits.
//
// Flat exhaustive enumeration of generated pool outputs fed to the real BaseClient.AddTxsToBlock
// and BaseClient.CheckTxExpire (system/consensus/base.go) under a configuration whose per-height
// transaction limit is small and changes twice ([mver.consensus] maxTxNumber 5, ForkChainParamV1
// -> 3, ForkChainParamV2 -> 6) and whose account blacklist becomes active at a height in between.
//
//	part A (count / groups / order / blacklist): every sequence  k singles ++ tail  where the tail
//	        is every word of length <= 2 (quick) / 3 (thorough) over {single, blacklisted single
//	        (from|to x base58|0x), group of 2..5, group of 2..5 with a blacklisted member at every
//	        position}, for every height around the two limit changes and around the blacklist
//	        activation, for 0..2 transactions already in the block.
//	part B (size): a ~19.9 MB filler leaves R bytes of the production budget
//	        (MaxBlockSize-100000); singles, pairs and groups of 2..5 whose encoded sizes place the
//	        running size at budget-1, budget, budget+1 (a group whose last member straddles it).
//	part C (expiry): every word of length <= 2 / 3 over {single, group of 2..5} x {no member
//	        expired, member p expired (height based | time based) for every p, all expired},
//	        expanded as in a block, fed to CheckTxExpire; and the same words in pool form pushed
//	        through AddTxsToBlock and then CheckTxExpire (the order the ticket consensus uses).
//
// The oracle is the statement, nothing more: count <= limit of that height, size within the bound,
// a group is in the block whole and contiguous or not at all, the block is an order-preserving
// selection of the offered items, nothing touching a blacklisted account at heights where the rule
// is active, an expired transaction never survives CheckTxExpire and never takes only part of its
// group with it.
package main

import (
	"bytes"
	"encoding/json"
	"fmt"
	"runtime"
	"strings"
	"sync"

	"github.com/33cn/chain33/common/address"
	"github.com/33cn/chain33/common/crypto"
	clog "github.com/33cn/chain33/common/log"
	"github.com/33cn/chain33/queue"
	_ "github.com/33cn/chain33/system/address"
	consensus "github.com/33cn/chain33/system/consensus"
	_ "github.com/33cn/chain33/system/crypto/secp256k1"
	"github.com/33cn/chain33/types"
	"verif/vx"
)

// configured by this harness (and therefore known to the oracle independently of cfg.GetP)
const (
	h1        = 10 // ForkChainParamV1: limit 5 -> 3
	h2        = 20 // ForkChainParamV2: limit 3 -> 6
	hb        = 15 // ForkAccountBlacklist
	lim0      = 5
	lim1      = 3
	lim2      = 6
	budget    = types.MaxBlockSize - 100000 // what AddTxsToBlock may fill
	hardBound = types.MaxBlockSize          // what CheckBlock accepts
	blockTime = int64(1700000000)
)

func limitAt(h int64) int {
	switch {
	case h >= h2:
		return lim2
	case h >= h1:
		return lim1
	}
	return lim0
}

var stats *vx.Run

var (
	cfg      *types.Chain33Config
	bc       *consensus.BaseClient
	pubs     [][]byte // 0: normal sender, 1: blacklisted as base58, 2: blacklisted as 0x
	addrOK   string
	addrB58  string
	addr0x   string
	fromB58  []byte
	from0x   []byte
	ethSigTy int32
)

// spec names one offered item; it is all a replay needs to rebuild it.
type spec struct {
	N     int    `json:"n"`               // 1 = single, 2..5 = group
	Black string `json:"black,omitempty"` // "", to-b58, to-0x, from-b58, from-0x
	BPos  int    `json:"bpos,omitempty"`  // member touching the blacklisted account
	Exp   string `json:"exp,omitempty"`   // "", h (height based), t (time based)
	EPos  int    `json:"epos,omitempty"`  // expired member, -1 = all
	Size  int    `json:"size,omitempty"`  // exact total of tx.Size() over the members (0 = whatever)
}

func (s spec) String() string {
	n := "S"
	if s.N > 1 {
		n = fmt.Sprintf("G%d", s.N)
	}
	if s.Black != "" {
		n += fmt.Sprintf(":%s@%d", s.Black, s.BPos)
	}
	if s.Exp != "" {
		n += fmt.Sprintf("!%s@%d", s.Exp, s.EPos)
	}
	if s.Size > 0 {
		n += fmt.Sprintf("#%d", s.Size)
	}
	return n
}

type item struct {
	sp      spec
	pool    *types.Transaction   // what the pool hands out (single, or head carrying the encoded group)
	mem     []*types.Transaction // expanded members as they appear in a block
	enc     [][]byte
	size    int
	expired bool
}

func rawTx(slot, m int, payload int, nonceExtra int64) *types.Transaction {
	p := make([]byte, payload)
	for i := range p {
		p[i] = byte(slot*7 + m*3 + i)
	}
	return &types.Transaction{
		Execer:  []byte("none"),
		Payload: p,
		Fee:     100000,
		Nonce:   int64(slot*100+m+1) + nonceExtra,
		To:      addrOK,
		// nothing in AddTxsToBlock/CheckTxExpire verifies signatures; From() only needs type and key
		Signature: &types.Signature{Ty: types.SECP256K1, Pubkey: pubs[0], Signature: make([]byte, 64)},
	}
}

func build(sp spec, slot int, h int64, payloads []int, nonceExtra int64) *item {
	txs := make([]*types.Transaction, sp.N)
	for m := 0; m < sp.N; m++ {
		pl := 10
		if payloads != nil {
			pl = payloads[m]
		}
		tx := rawTx(slot, m, pl, nonceExtra)
		if sp.Black != "" && m == sp.BPos {
			switch sp.Black {
			case "to-b58":
				tx.To = addrB58
			case "to-0x":
				tx.To = addr0x
			case "from-b58":
				tx.Signature.Pubkey = pubs[1]
			case "from-0x":
				tx.Signature.Pubkey = pubs[2]
				tx.Signature.Ty = ethSigTy
			}
		}
		if sp.Exp != "" && (sp.EPos < 0 || sp.EPos == m) {
			if sp.Exp == "h" {
				tx.Expire = h - 1
			} else {
				tx.Expire = blockTime - 1
			}
		} else if sp.Exp != "" {
			// the other members are explicitly alive, in both encodings
			if m%2 == 0 {
				tx.Expire = h + 5
			} else {
				tx.Expire = blockTime + 100
			}
		}
		txs[m] = tx
	}
	it := &item{sp: sp, expired: sp.Exp != ""}
	if sp.N == 1 {
		it.pool = txs[0]
		it.mem = txs
	} else {
		g, err := types.CreateTxGroup(txs, 100000)
		if err != nil {
			panic("HARNESS: CreateTxGroup: " + err.Error())
		}
		it.pool = g.Tx()
		it.mem = g.Txs
	}
	for _, tx := range it.mem {
		it.enc = append(it.enc, types.Encode(tx))
		it.size += tx.Size()
	}
	return it
}

// sized builds an item whose members' tx.Size() add up to exactly want.
func sized(sp spec, slot int, h int64) *item {
	want := sp.Size
	pl := make([]int, sp.N)
	for i := range pl {
		pl[i] = 10
	}
	for extra := int64(0); extra < 4; extra++ {
		ne := int64(0)
		if extra > 0 {
			ne = 1 << (7 * uint(extra+1)) // widen the nonce varint: shifts every member by one byte per step
		}
		for i := range pl {
			pl[i] = 10
		}
		for iter := 0; iter < 12; iter++ {
			it := build(sp, slot, h, pl, ne)
			d := want - it.size
			if d == 0 {
				return it
			}
			if pl[sp.N-1]+d < 0 {
				break
			}
			pl[sp.N-1] += d
		}
	}
	panic(fmt.Sprintf("HARNESS: cannot build %v with total size %d", sp, want))
}

var (
	cacheMu sync.Mutex
	cache   = map[string]*item{}
)

func get(sp spec, slot int, h int64) *item {
	k := fmt.Sprintf("%v/%d/%d", sp, slot, h)
	cacheMu.Lock()
	it := cache[k]
	cacheMu.Unlock()
	if it != nil {
		return it
	}
	if sp.Size > 0 {
		it = sized(sp, slot, h)
	} else {
		it = build(sp, slot, h, nil, 0)
	}
	cacheMu.Lock()
	cache[k] = it
	cacheMu.Unlock()
	return it
}

// kase is one evaluation, replayable.
type kase struct {
	Part   string `json:"part"`
	Height int64  `json:"height"`
	Pre    int    `json:"pre"`              // ordinary transactions already in the block
	Filler int    `json:"filler,omitempty"` // bytes of production budget left free by a filler already in the block (part B)
	FillIn bool   `json:"fill_in,omitempty"` // the filler is offered as the first pool item instead
	Items  []spec `json:"items"`
}

type verdict struct{ fp, what string }

var (
	fillMu  sync.Mutex
	fillers = map[int]*types.Transaction{}
)

func filler(size int) *types.Transaction {
	fillMu.Lock()
	defer fillMu.Unlock()
	if f := fillers[size]; f != nil {
		return f
	}
	tx := rawTx(90, 0, 0, 0)
	tx.Payload = make([]byte, size, size+64)
	for i := 0; i < 8 && tx.Size() != size; i++ {
		tx.Payload = tx.Payload[:len(tx.Payload)+size-tx.Size()]
	}
	if tx.Size() != size {
		panic("HARNESS: filler size")
	}
	fillers[size] = tx
	return tx
}

func preTxs(k kase) []*types.Transaction {
	var pre []*types.Transaction
	for i := 0; i < k.Pre; i++ {
		pre = append(pre, get(spec{N: 1}, 80+i, k.Height).pool)
	}
	return pre
}

func materialise(k kase) (block *types.Block, offered []*item, pool []*types.Transaction) {
	block = &types.Block{Height: k.Height, ParentHash: make([]byte, 32)}
	block.Txs = preTxs(k)
	for i, sp := range k.Items {
		it := get(sp, i, k.Height)
		offered = append(offered, it)
	}
	if k.Filler > 0 {
		// filler sized so that exactly k.Filler bytes of the budget remain
		base := block.Size()
		if k.FillIn {
			f := filler(budget - base - k.Filler)
			offered = append([]*item{{sp: spec{N: 1, Size: f.Size()}, pool: f, mem: []*types.Transaction{f}, size: f.Size()}}, offered...)
		} else {
			// inside the block the filler also costs its field tag and length prefix
			f := filler(budget - base - k.Filler - 5)
			block.Txs = append(block.Txs, f)
			if block.Size() != budget-k.Filler {
				panic(fmt.Sprintf("HARNESS: block with filler is %d bytes, wanted %d", block.Size(), budget-k.Filler))
			}
		}
	}
	for _, it := range offered {
		pool = append(pool, it.pool)
	}
	return
}

func same(tx *types.Transaction, it *item, m int) bool {
	if it.enc == nil { // the filler: identity is enough and encoding 20 MB per comparison is not
		return tx == it.mem[m]
	}
	return bytes.Equal(types.Encode(tx), it.enc[m])
}

// checkAdd runs the real AddTxsToBlock on one case and judges the block.
func checkAdd(k kase) (v *verdict, outcome string, taken []*item, block *types.Block) {
	block, offered, pool := materialise(k)
	nPre := len(block.Txs)
	size0 := block.Size()
	limit := limitAt(k.Height)
	if p := vx.Catch(func() { bc.AddTxsToBlock(block, pool) }); p != "" {
		return &verdict{"add:panic", "AddTxsToBlock " + p}, "", nil, block
	}
	out := block.Txs
	if len(out) < nPre {
		return &verdict{"add:drops-existing-txs", "transactions already in the block disappeared"}, "", nil, block
	}
	added := out[nPre:]
	// groups whole or absent, order preserved: the appended part must be a concatenation of whole
	// offered items taken in the offered order.
	next := 0
	running := size0
	for p := 0; p < len(added); {
		found := -1
		for j := next; j < len(offered); j++ {
			if same(added[p], offered[j], 0) {
				found = j
				break
			}
		}
		if found < 0 {
			for j := 0; j < len(offered); j++ {
				for m := range offered[j].mem {
					if same(added[p], offered[j], m) {
						if m > 0 {
							return &verdict{"group:member-without-its-head", fmt.Sprintf("block position %d holds member %d of offered item %d (%v) without the members before it", nPre+p, m, j, offered[j].sp)}, "", nil, block
						}
						return &verdict{"order:not-the-offered-order", fmt.Sprintf("block position %d holds offered item %d (%v) after a later item", nPre+p, j, offered[j].sp)}, "", nil, block
					}
				}
			}
			return &verdict{"order:foreign-transaction", fmt.Sprintf("block position %d holds a transaction that was not offered", nPre+p)}, "", nil, block
		}
		it := offered[found]
		for m := range it.mem {
			if p+m >= len(added) || !same(added[p+m], it, m) {
				return &verdict{fmt.Sprintf("group:split-after-member-%d-of-%d", m, len(it.mem)), fmt.Sprintf("offered item %d (%v) is only partly in the block (members 0..%d)", found, it.sp, m-1)}, "", nil, block
			}
		}
		taken = append(taken, it)
		running += it.size
		p += len(it.mem)
		next = found + 1
	}
	if len(added) > 0 && len(out) > limit {
		return &verdict{"count:exceeds-height-limit", fmt.Sprintf("height %d allows %d transactions, block has %d (%d were there, %d added)", k.Height, limit, len(out), nPre, len(added))}, "", taken, block
	}
	if len(added) > 0 && running > budget {
		return &verdict{"size:exceeds-production-budget", fmt.Sprintf("block bytes + transaction bytes = %d > MaxBlockSize-100000 = %d", running, budget)}, "", taken, block
	}
	if len(added) > 0 && block.Size() > hardBound {
		return &verdict{"size:encoded-block-exceeds-MaxBlockSize", fmt.Sprintf("encoded block is %d bytes", block.Size())}, "", taken, block
	}
	if k.Height >= hb {
		for _, it := range taken {
			if it.sp.Black != "" {
				kind := "single"
				if it.sp.N > 1 {
					kind = "group-member"
				}
				return &verdict{"blacklist:" + kind + "-" + it.sp.Black + "-included-after-activation", fmt.Sprintf("height %d >= %d: item %v touching a blacklisted account is in the block", k.Height, hb, it.sp)}, "", taken, block
			}
		}
	}
	// outcome class (for vacuity accounting only)
	var oc []string
	switch {
	case len(taken) == len(offered):
		oc = append(oc, "all")
	default:
		// why did it stop / skip?
		nb, other := 0, 0
		ti := 0
		for _, it := range offered {
			if ti < len(taken) && taken[ti] == it {
				ti++
				continue
			}
			if it.sp.Black != "" && k.Height >= hb {
				nb++
			} else {
				other++
			}
		}
		if nb > 0 {
			oc = append(oc, "skipped-blacklisted")
		}
		if other > 0 {
			oc = append(oc, "left-out")
		}
	}
	if len(out) == limit {
		oc = append(oc, "count=limit")
	}
	if running == budget {
		oc = append(oc, "size=budget")
	} else if k.Filler > 0 {
		oc = append(oc, "near-budget")
	}
	for _, it := range taken {
		if it.sp.N > 1 {
			oc = append(oc, "group-in")
			break
		}
	}
	for _, it := range taken {
		if it.sp.Black != "" {
			oc = append(oc, "blacklisted-in-before-activation")
			break
		}
	}
	ocs := strings.Join(oc, ",")
	hit := func(c string, cond bool) {
		if cond {
			stats.Count(c, 1)
		}
	}
	leftOut := strings.Contains(ocs, "left-out")
	hit("hit_count_eq_limit", len(out) == limit && len(added) > 0)
	hit("hit_size_eq_budget", running == budget)
	hit("hit_left_out_at_budget_plus_1", leftOut && k.Filler > 0 && len(taken) < len(offered) && running+offered[len(taken)].size == budget+1)
	hit("hit_left_out_at_limit_plus_1", leftOut && k.Filler == 0)
	hit("hit_skipped_blacklisted", strings.Contains(ocs, "skipped-blacklisted"))
	hit("hit_blacklisted_taken_before_activation", strings.Contains(ocs, "blacklisted-in-before"))
	hit("hit_group_taken", strings.Contains(ocs, "group-in"))
	return nil, ocs, taken, block
}

// checkExpire feeds txs (expanded items) to the real CheckTxExpire and judges the result.
func checkExpire(h int64, items []*item, txs []*types.Transaction) (*verdict, string) {
	in := append([]*types.Transaction(nil), txs...)
	var out []*types.Transaction
	if p := vx.Catch(func() { out = bc.CheckTxExpire(in, h, blockTime) }); p != "" {
		return &verdict{"expire:panic", "CheckTxExpire " + p}, ""
	}
	pos := map[*types.Transaction]int{}
	for i, tx := range txs {
		pos[tx] = i
	}
	last := -1
	present := map[*types.Transaction]bool{}
	for _, tx := range out {
		if tx == nil {
			return &verdict{"expire:nil-in-result", "result contains nil"}, ""
		}
		i, ok := pos[tx]
		if !ok {
			return &verdict{"expire:foreign-transaction", "result holds a transaction that was not given"}, ""
		}
		if i <= last {
			return &verdict{"expire:order-changed", "result is not in the given order"}, ""
		}
		last = i
		present[tx] = true
	}
	kept, dropped, droppedAlive := 0, 0, 0
	for j, it := range items {
		n := 0
		for _, tx := range it.mem {
			if present[tx] {
				n++
			}
		}
		if n != 0 && n != len(it.mem) {
			return &verdict{fmt.Sprintf("expire:group-of-%d-partly-removed", len(it.mem)), fmt.Sprintf("item %d (%v): %d of %d members survive", j, it.sp, n, len(it.mem))}, ""
		}
		if it.expired && n != 0 {
			w := "single"
			if it.sp.N > 1 {
				w = "group"
			}
			return &verdict{"expire:expired-" + w + "-survives", fmt.Sprintf("item %d (%v) has an expired member and is still there", j, it.sp)}, ""
		}
		switch {
		case n > 0:
			kept++
		case it.expired:
			dropped++
		default:
			droppedAlive++
		}
	}
	oc := fmt.Sprintf("kept=%v,dropped=%v,dropped-alive=%v", kept > 0, dropped > 0, droppedAlive > 0)
	for _, it := range items {
		if it.sp.N > 1 && it.expired {
			stats.Count("hit_expired_group_dropped", 1)
		}
		if it.sp.N > 1 && !it.expired && present[it.mem[0]] {
			stats.Count("hit_alive_group_kept", 1)
		}
	}
	return nil, oc
}

func runCase(r *vx.Run, k kase) *verdict {
	switch k.Part {
	case "A", "B":
		v, oc, _, _ := checkAdd(k)
		if v == nil {
			r.Seen("outcomes", k.Part+":"+oc)
		}
		return v
	case "C":
		var items []*item
		var txs []*types.Transaction
		for i, sp := range k.Items {
			it := get(sp, i, k.Height)
			items = append(items, it)
			txs = append(txs, it.mem...)
		}
		v, oc := checkExpire(k.Height, items, txs)
		if v == nil {
			r.Seen("outcomes", "C:"+oc)
		}
		return v
	case "AC":
		v, _, taken, block := checkAdd(k)
		if v != nil {
			return v
		}
		// the members now in the block are fresh decodes of the group header: judge them as they are
		var items []*item
		p := k.Pre
		for _, it := range taken {
			c := &item{sp: it.sp, expired: it.expired, mem: block.Txs[p : p+len(it.mem)]}
			items = append(items, c)
			p += len(it.mem)
		}
		v, oc := checkExpire(k.Height, items, block.Txs[k.Pre:])
		if v == nil {
			r.Seen("outcomes", "AC:"+oc)
		}
		return v
	}
	panic("HARNESS: unknown part " + k.Part)
}

func report(r *vx.Run, k kase, v *verdict) {
	kk := k
	r.Violate(v.fp, v.what+"  case="+vx.J(kk), kk, func() string {
		// fresh objects: drop every cached item this case uses
		cacheMu.Lock()
		cache = map[string]*item{}
		cacheMu.Unlock()
		if w := runCase(r, kk); w != nil {
			return w.fp + "|" + w.what
		}
		return ""
	})
}

func setup() {
	clog.SetLogLevel("crit")
	c, err := crypto.Load("secp256k1", -1)
	if err != nil {
		panic(err)
	}
	for i := byte(1); i <= 3; i++ {
		kb := bytes.Repeat([]byte{i}, 32)
		priv, err := c.PrivKeyFromBytes(kb)
		if err != nil {
			panic(err)
		}
		pubs = append(pubs, priv.PubKey().Bytes())
	}
	ethSigTy = types.EncodeSignID(types.SECP256K1, 2)
	addrOK = address.PubKeyToAddr(0, bytes.Repeat([]byte{9}, 33))
	addrB58 = address.PubKeyToAddr(0, pubs[1])
	addr0x = address.PubKeyToAddr(2, pubs[2])
	s := types.GetDefaultCfgstring()
	s = strings.Replace(s, `Title="local"`, "Title=\"verifc30\"\ndisableForkCheck=true", 1)
	if strings.Count(s, "maxTxNumber = 10000") != 2 {
		panic("HARNESS: default configuration changed shape")
	}
	s = strings.Replace(s, "maxTxNumber = 10000", fmt.Sprintf("maxTxNumber = %d", lim0), 1)
	s = strings.Replace(s, "maxTxNumber = 10000", fmt.Sprintf("maxTxNumber = %d", lim1), 1)
	s = strings.Replace(s, "[mver.consensus.ForkChainParamV2]", fmt.Sprintf("[mver.consensus.ForkChainParamV2]\nmaxTxNumber = %d", lim2), 1)
	s += fmt.Sprintf("\n[fork.system]\nForkChainParamV1=%d\nForkChainParamV2=%d\nForkAccountBlacklist=%d\nForkTxHeight=0\n", h1, h2, hb)
	s += fmt.Sprintf("\n[blacklist]\naccountBlacklist=[%q,%q]\n", addrB58, addr0x)
	cfg = types.NewChain33Config(s)
	q := queue.New("channel")
	q.SetConfig(cfg)
	bc = consensus.NewBaseClient(cfg.GetModuleConfig().Consensus)
	bc.VerifSetClient(q.Client())
}

// advisoryManySmall is NOT part of the verdict (the property quantifies over pool outputs, not over
// configurations): with maxTxNumber at the hard constant types.MaxTxsPerBlock, the accumulation, which
// adds tx.Size() but not the 3-4 bytes of field framing each transaction costs inside a block, can
// pass its own budget check while the encoded block is larger than MaxBlockSize.
func advisoryManySmall(r *vx.Run) {
	s := types.GetDefaultCfgstring()
	s = strings.Replace(s, "maxTxNumber = 10000", fmt.Sprintf("maxTxNumber = %d", types.MaxTxsPerBlock), 2)
	c2 := types.NewChain33Config(s)
	q := queue.New("channel")
	q.SetConfig(c2)
	b2 := consensus.NewBaseClient(c2.GetModuleConfig().Consensus)
	b2.VerifSetClient(q.Client())
	n := int(types.MaxTxsPerBlock)
	per := budget/n - 1
	one := sized(spec{N: 1, Size: per}, 0, 5).pool
	txs := make([]*types.Transaction, n)
	for i := range txs {
		t := *one
		t.Nonce = int64(1<<20 + i) // same varint width for every i
		txs[i] = &t
	}
	block := &types.Block{Height: 5, ParentHash: make([]byte, 32)}
	b2.AddTxsToBlock(block, txs)
	r.Note("advisory (not judged; configuration outside the quantifier): maxTxNumber=%d, %d transactions of %d bytes offered: %d taken, encoded block %d bytes, MaxBlockSize %d, over=%v",
		types.MaxTxsPerBlock, n, per, len(block.Txs), block.Size(), hardBound, block.Size() > hardBound)
}

func alphabetA() []spec {
	a := []spec{{N: 1}}
	for _, b := range []string{"to-b58", "to-0x", "from-b58", "from-0x"} {
		a = append(a, spec{N: 1, Black: b})
	}
	for n := 2; n <= 5; n++ {
		a = append(a, spec{N: n})
		for p := 0; p < n; p++ {
			a = append(a, spec{N: n, Black: "to-b58", BPos: p})
			a = append(a, spec{N: n, Black: "from-0x", BPos: p})
		}
	}
	// the two remaining kinds once per group size, at the last position
	for n := 2; n <= 5; n++ {
		a = append(a, spec{N: n, Black: "to-0x", BPos: n - 1}, spec{N: n, Black: "from-b58", BPos: n - 1})
	}
	return a
}

func alphabetC() []spec {
	a := []spec{{N: 1}, {N: 1, Exp: "h"}, {N: 1, Exp: "t"}}
	for n := 2; n <= 5; n++ {
		a = append(a, spec{N: n})
		for p := 0; p < n; p++ {
			a = append(a, spec{N: n, Exp: "h", EPos: p}, spec{N: n, Exp: "t", EPos: p})
		}
		a = append(a, spec{N: n, Exp: "h", EPos: -1})
	}
	return a
}

func words(alpha []spec, maxLen int, emit func([]spec)) {
	var rec func(prefix []spec)
	rec = func(prefix []spec) {
		emit(append([]spec(nil), prefix...))
		if len(prefix) == maxLen {
			return
		}
		for _, s := range alpha {
			rec(append(prefix, s))
		}
	}
	rec(nil)
}

func main() {
	r := vx.Start("C30", "exploration")
	r.DistinctSet = "outcomes"
	stats = r
	r.Rule = "flat enumeration. A: heights {h-1,h,h+1} around both limit changes (5->3 at 10, 3->6 at 20) and the blacklist activation (15) x 0..2 txs already in the block x k singles (k=0..limit+2) ++ every word of length <=2 (quick) / <=3 (thorough) over 43 item kinds (single, blacklisted single x4, group of 2..5, group with a blacklisted member at every position); B: filler leaving R in {1500,4000} bytes of the budget x {single, pair, group of 2..5, single+group} sized to budget-1/budget/budget+1, filler in the block or offered first, before and after blacklist activation; C: every word of length <=2 / <=3 over 51 expiry kinds (member p expired by height or by time, all, none) given expanded to CheckTxExpire, and in pool form through AddTxsToBlock then CheckTxExpire. distinct = outcome classes (what was taken / skipped / where it stopped / exact fits)"
	r.Assume = []string{
		"signatures are placeholders of the real length (neither function verifies them)",
		"'expired' is used only for values that are unambiguously past (height-1, blocktime-1) or future; the boundary value itself belongs to C28",
		"the size bound is checked both as the production budget MaxBlockSize-100000 on block bytes + transaction bytes (what the accumulation promises) and as MaxBlockSize on the encoded block (what CheckBlock enforces)",
		"pool outputs are well formed (a group head carries its encoded group); malformed heads are C33's subject",
	}
	setup()
	// sanity of the harness' own view of the configuration (a harness error if wrong, never a violation)
	if raw, ok := r.Replaying(); ok {
		var k kase
		if err := json.Unmarshal(raw, &k); err != nil {
			fmt.Println("REPLAY-ERROR", err)
			r.Finish()
		}
		if v := runCase(r, k); v != nil {
			fmt.Println("replay: FAIL", v.fp, v.what)
			r.Violate(v.fp, v.what, k, nil)
		} else {
			fmt.Println("replay: ok")
		}
		r.Finish()
	}
	heights := []int64{h1 - 1, h1, h1 + 1, hb - 1, hb, hb + 1, h2 - 1, h2, h2 + 1}
	tailLen := r.Pick(2, 3)
	alphaA := alphabetA()
	alphaC := alphabetC()

	type job func()
	jobs := make(chan job, 256)
	var wg sync.WaitGroup
	for w := 0; w < runtime.NumCPU(); w++ {
		wg.Add(1)
		go func() {
			defer wg.Done()
			for j := range jobs {
				j()
			}
		}()
	}
	eval := func(k kase) {
		r.Count("evaluations", 1)
		r.Count("part_"+k.Part, 1)
		if v := runCase(r, k); v != nil {
			report(r, k, v)
		}
	}
	// part A
	for _, h := range heights {
		for pre := 0; pre <= 2; pre++ {
			for k := 0; k <= limitAt(h)+2; k++ {
				h, pre, k := h, pre, k
				jobs <- func() {
					if r.Expired("part A") {
						return
					}
					words(alphaA, tailLen, func(tail []spec) {
						items := make([]spec, 0, k+len(tail))
						for i := 0; i < k; i++ {
							items = append(items, spec{N: 1})
						}
						items = append(items, tail...)
						eval(kase{Part: "A", Height: h, Pre: pre, Items: items})
					})
				}
			}
		}
	}
	// part B
	for _, h := range []int64{h1 - 1, h2 + 1} { // limit 5 / blacklist off, limit 6 / blacklist on
		for _, room := range []int{1500, 4000} {
			for d := -1; d <= 1; d++ {
				for _, fillIn := range []bool{false, true} {
					var cases [][]spec
					cases = append(cases, []spec{{N: 1, Size: room + d}})
					cases = append(cases, []spec{{N: 1, Size: 300}, {N: 1, Size: room - 300 + d}})
					cases = append(cases, []spec{{N: 1, Size: room + d}, {N: 1}})
					for n := 2; n <= 5; n++ {
						if fillIn && n > 4 { // the filler takes one of the 5/6 places
							continue
						}
						cases = append(cases, []spec{{N: n, Size: room + d}})
						cases = append(cases, []spec{{N: n, Size: room + d, Black: "to-b58", BPos: n - 1}, {N: 1}})
						if n <= 3 {
							cases = append(cases, []spec{{N: 1, Size: 300}, {N: n, Size: room - 300 + d}})
						}
					}
					for _, c := range cases {
						h, room, fillIn, c := h, room, fillIn, c
						jobs <- func() { eval(kase{Part: "B", Height: h, Filler: room, FillIn: fillIn, Items: c}) }
					}
				}
			}
		}
	}
	// part C and AC
	for _, h := range []int64{h1 + 1, h2 + 30} {
		h := h
		for _, first := range alphaC {
			first := first
			jobs <- func() {
				if r.Expired("part C") {
					return
				}
				words(alphaC, tailLen-1, func(tail []spec) {
					items := append([]spec{first}, tail...)
					eval(kase{Part: "C", Height: h, Items: items})
					if h > h2 { // limit 6 there; AddTxsToBlock will stop where it must, CheckTxExpire judges what it took
						eval(kase{Part: "AC", Height: h, Items: items})
					}
				})
			}
		}
	}
	jobs <- func() { eval(kase{Part: "C", Height: h1, Items: nil}) }
	close(jobs)
	wg.Wait()

	advisoryManySmall(r)
	r.Note("limits as configured by the harness: height<%d:%d, <%d:%d, else %d; cfg.GetP answers %d/%d/%d; blacklist active from %d (cfg.IsFork: %v/%v)",
		h1, lim0, h2, lim1, lim2, cfg.GetP(h1-1).MaxTxNumber, cfg.GetP(h1).MaxTxNumber, cfg.GetP(h2).MaxTxNumber, hb,
		cfg.IsFork(hb-1, types.ForkAccountBlacklist), cfg.IsFork(hb, types.ForkAccountBlacklist))
	for _, k := range []kase{
		{Part: "A", Height: h1, Pre: 1, Items: []spec{{N: 1}, {N: 2}, {N: 1}}},
		{Part: "A", Height: hb, Items: []spec{{N: 3, Black: "from-0x", BPos: 2}, {N: 1}}},
		{Part: "B", Height: h1 - 1, Filler: 1500, Items: []spec{{N: 3, Size: 1500}}},
		{Part: "B", Height: h1 - 1, Filler: 1500, Items: []spec{{N: 3, Size: 1501}}},
	} {
		_, oc, taken, block := checkAdd(k)
		var names []string
		for _, it := range taken {
			names = append(names, it.sp.String())
		}
		r.Sample(map[string]interface{}{"case": k, "limit": limitAt(k.Height), "block_txs": len(block.Txs), "taken": names, "outcome": oc})
	}
	r.Floors["outcomes"] = 20
	// every interesting boundary must really have been hit (else the run proves nothing: exit 2)
	for _, c := range []string{"hit_count_eq_limit", "hit_size_eq_budget", "hit_left_out_at_budget_plus_1", "hit_skipped_blacklisted", "hit_blacklisted_taken_before_activation", "hit_group_taken", "hit_left_out_at_limit_plus_1", "hit_expired_group_dropped", "hit_alive_group_kept"} {
		r.Floors[c] = 1
	}
	r.Finish()
}
