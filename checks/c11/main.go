// C11 — failed transactions leave only their fee behind.
//
// Every block made of <= 3 (quick) / <= 4 (thorough) items of an alphabet of synthetic-executor programs
// (single transactions that write state / local data and then succeed, fail, panic, fail in ExecLocal, leave
// a write unreported, write a foreign key; readers and listers that report what they see; transaction
// groups of 2-3 members with the failing member at every position) is executed by the REAL executor module
// through EventExecTxList on a long-lived real node (queue + executor + mavl store + blockchain), from two
// parent states (keys absent / keys holding older values), followed by the real store commit and the real
// EventAddBlock local-data pass; short blocks are additionally produced and delivered to a fresh node
// through the blockchain module. A reference interpreter written from the property text, whose only rule
// for a failed transaction or group is "charge the fee, nothing else", predicts receipt types, everything
// later readers observe, the state after the block and the local data.
package main

import (
	"encoding/json"
	"fmt"
	"sort"
	"strings"
	"time"

	"github.com/33cn/chain33/common/crypto"
	clog "github.com/33cn/chain33/common/log"
	"github.com/33cn/chain33/types"
	"github.com/33cn/chain33/util"
	"verif/vnode"
	"verif/vnode/vfx"
	"verif/vx"
)

// ---------------------------------------------------------------- alphabet

const (
	keyS  = "mavl-vfx-a" // state key of the vfx writers
	keySy = "mavl-vfy-a" // state key of the vfy writers
	keyL  = "LODB-vfx-a" // local key of the vfx writers
	keyLb = "LODB-vfx-b" // second local key of the vfx writers
	keyLy = "LODB-vfy-a" // local key of the vfy writers (produced at block end only)
	pfxL  = "LODB-vfx-"
	fee   = 100000
	bits  = 0x1f00ffff
)

// member kind: executor name and program (built for a value).
type kind struct {
	Exec string
	Prog func(v string) *vfx.Prog
}

func st(op, k, v string) vfx.Step { return vfx.Step{Op: op, K: k, V: v} }

var kinds = map[string]kind{
	// succeeds: writes state and (ExecLocal at the same time) local data
	"W": {"vfx", func(v string) *vfx.Prog {
		return &vfx.Prog{Exec: []vfx.Step{st("set", keyS, v)}, Local: []vfx.Step{st("setl", keyL, v)}}
	}},
	// writes state, then Exec returns an error
	"WF": {"vfx", func(v string) *vfx.Prog {
		return &vfx.Prog{Exec: []vfx.Step{st("set", keyS, v), st("fail", "", "")}, Local: []vfx.Step{st("setl", keyL, v)}}
	}},
	// writes state, then Exec panics
	"WP": {"vfx", func(v string) *vfx.Prog {
		return &vfx.Prog{Exec: []vfx.Step{st("set", keyS, v), st("panic", "", "")}}
	}},
	// Exec succeeds, ExecLocal writes local data and then fails
	"LF": {"vfx", func(v string) *vfx.Prog {
		return &vfx.Prog{Exec: []vfx.Step{st("set", keyS, v)}, Local: []vfx.Step{st("setl", keyL, v), st("fail", "", "")}}
	}},
	// as LF, but lists (which hands the buffered local writes to the chain's local transaction) before failing
	"LLF": {"vfx", func(v string) *vfx.Prog {
		return &vfx.Prog{Exec: []vfx.Step{st("set", keyS, v)}, Local: []vfx.Step{st("setl", keyL, v), st("list", pfxL, ""), st("fail", "", "")}}
	}},
	// as LLF, but writes a second local key AFTER the list (buffered again while the chain-side local
	// transaction is already open) before failing
	"LLSF": {"vfx", func(v string) *vfx.Prog {
		return &vfx.Prog{Exec: []vfx.Step{st("set", keyS, v)}, Local: []vfx.Step{st("setl", keyL, v), st("list", pfxL, ""), st("setl", keyLb, v+"b"), st("fail", "", "")}}
	}},
	// writes state without reporting the key in the receipt
	"U": {"vfx", func(v string) *vfx.Prog {
		return &vfx.Prog{Exec: []vfx.Step{st("omit", keyS, v)}, Local: []vfx.Step{st("setl", keyL, v)}}
	}},
	// ExecLocal writes local data without returning the key
	"UL": {"vfx", func(v string) *vfx.Prog {
		return &vfx.Prog{Exec: []vfx.Step{st("set", keyS, v)}, Local: []vfx.Step{st("omitl", keyL, v)}}
	}},
	// writes (and reports) a key of another executor's namespace
	"F": {"vfx", func(v string) *vfx.Prog {
		return &vfx.Prog{Exec: []vfx.Step{st("set", keyS, v), st("set", keySy, v)}, Local: []vfx.Step{st("setl", keyL, v)}}
	}},
	// reader: reports the state keys and the local key
	"R": {"vfx", func(v string) *vfx.Prog {
		return &vfx.Prog{Exec: []vfx.Step{st("get", keyS, ""), st("get", keySy, ""), st("getl", keyL, "")}, Tag: v}
	}},
	// lister: reports the local keys under the prefix
	"Ls": {"vfx", func(v string) *vfx.Prog {
		return &vfx.Prog{Exec: []vfx.Step{st("list", pfxL, "")}, Tag: v}
	}},
	// ordinary-order executor: succeeds, local data only at block end
	"Wy": {"vfy", func(v string) *vfx.Prog {
		return &vfx.Prog{Exec: []vfx.Step{st("set", keySy, v)}, Local: []vfx.Step{st("setl", keyLy, v)}}
	}},
	// ordinary-order executor: writes then fails
	"WFy": {"vfy", func(v string) *vfx.Prog {
		return &vfx.Prog{Exec: []vfx.Step{st("set", keySy, v), st("fail", "", "")}, Local: []vfx.Step{st("setl", keyLy, v)}}
	}},
}

// item: a single transaction or a group.
type item struct {
	Name    string
	Members []string
}

func alphabet() []item {
	var a []item
	for _, k := range []string{"W", "WF", "WP", "LF", "LLF", "LLSF", "U", "UL", "F", "R", "Ls", "Wy", "WFy"} {
		a = append(a, item{k, []string{k}})
	}
	grp := func(ms ...string) { a = append(a, item{"G[" + strings.Join(ms, " ") + "]", ms}) }
	grp("W", "W")
	grp("W", "Wy", "W")
	grp("LLSF", "W")
	grp("W", "LLSF")
	// an earlier member writes ANOTHER key than the member that fails later
	grp("Wy", "WF")
	grp("Wy", "W", "LLF")
	for _, f := range []string{"WF", "LLF"} {
		grp(f, "W")
		grp("W", f)
		grp(f, "W", "W")
		grp("W", f, "W")
		grp("W", "W", f)
	}
	return a
}

func val(slot, member int) string { return fmt.Sprintf("s%dm%d", slot, member) }

// ---------------------------------------------------------------- reference interpreter

const notFound = "ErrNotFound"

// txOutcome is what the reference predicts for one transaction.
type txOutcome struct {
	OK       bool
	Obs      []vfx.Obs
	EndLocal [][2]string // local pairs the executor hands over at block end
}

func copyMap(m map[string]string) map[string]string {
	c := make(map[string]string, len(m))
	for k, v := range m {
		c[k] = v
	}
	return c
}

// runProg interprets one program on tentative copies of the state and of the local data visible inside
// the block. It returns false when the transaction fails. lw records, for fingerprints only, whether a
// locally written value is still buffered in the executor or was already handed to the chain.
func runProg(exec string, p *vfx.Prog, state, local map[string]string, out *txOutcome, lw map[string]string) bool {
	sameTime := exec == vfx.NameX
	for _, s := range p.Exec {
		switch s.Op {
		case "set", "omit":
			state[s.K] = s.V
		case "get", "getl":
			src := state
			if s.Op == "getl" {
				src = local
			}
			o := vfx.Obs{Op: s.Op, K: s.K}
			if v, ok := src[s.K]; ok {
				o.V = v
			} else {
				o.Err = notFound
			}
			out.Obs = append(out.Obs, o)
		case "list":
			o := vfx.Obs{Op: s.Op, K: s.K}
			var ks []string
			for k := range local {
				if strings.HasPrefix(k, s.K) {
					ks = append(ks, k)
				}
			}
			sort.Sort(sort.Reverse(sort.StringSlice(ks)))
			for _, k := range ks {
				o.L = append(o.L, local[k])
			}
			if len(ks) == 0 {
				o.Err = notFound
			}
			out.Obs = append(out.Obs, o)
		case "fail", "panic":
			return false
		}
	}
	// a write that is not reported, or a reported key outside the executor's own namespace, fails the transaction
	for _, s := range p.Exec {
		if s.Op == "omit" || (s.Op == "set" && !strings.HasPrefix(s.K, "mavl-"+exec+"-")) {
			return false
		}
	}
	var end [][2]string
	for _, s := range p.Local {
		switch s.Op {
		case "setl":
			end = append(end, [2]string{s.K, s.V})
			if sameTime {
				local[s.K] = s.V
				lw[s.V] = "buffered"
			}
		case "omitl":
			if sameTime {
				lw[s.V] = "buffered"
				return false
			}
		case "list":
			if sameTime {
				for v := range lw {
					lw[v] = "saved"
				}
			}
		case "fail":
			if sameTime {
				return false
			}
		}
	}
	out.EndLocal = end
	return true
}

// expect is the reference outcome of one block.
type expect struct {
	Out         []txOutcome
	ItemOf      []int
	State       map[string]string // modelled state keys after the block
	Local       map[string]string // local data visible at the end of EventExecTxList
	EndLocal    [][2]string       // pairs handed over at block end, in order
	Paid        int64
	FailedState map[string]string // value -> item name
	FailedLocal map[string]string // value -> "buffered"/"saved"
	GoodVal     map[string]bool
	FailedItems int
	ReadsAfter  int // read steps placed after a failed item
}

func reference(w *world, al []item, seq []int) *expect {
	e := &expect{FailedState: map[string]string{}, FailedLocal: map[string]string{}, GoodVal: map[string]bool{}}
	state, local := copyMap(w.mstate), copyMap(w.mlocal)
	failedBefore := false
	for slot, idx := range seq {
		it := al[idx]
		ts, tl := copyMap(state), copyMap(local)
		lw := map[string]string{}
		outs := make([]txOutcome, len(it.Members))
		ok := true
		for j, kn := range it.Members {
			e.Paid += fee
			e.ItemOf = append(e.ItemOf, slot)
			if !ok {
				continue
			}
			k := kinds[kn]
			if !runProg(k.Exec, k.Prog(val(slot, j)), ts, tl, &outs[j], lw) {
				ok = false
			}
			if failedBefore {
				e.ReadsAfter += len(outs[j].Obs)
			}
		}
		if ok {
			state, local = ts, tl
			for j := range outs {
				outs[j].OK = true
				for _, p := range outs[j].EndLocal {
					e.EndLocal = append(e.EndLocal, p)
				}
				e.GoodVal[val(slot, j)] = true
			}
		} else {
			// the only rule for a failed transaction or group: the fee is charged, nothing else
			for j := range outs {
				outs[j] = txOutcome{}
				e.FailedState[val(slot, j)] = it.Name
			}
			for v, c := range lw {
				e.FailedLocal[v] = c
			}
			e.FailedItems++
			failedBefore = true
		}
		e.Out = append(e.Out, outs...)
	}
	e.State, e.Local = state, local
	return e
}

// ---------------------------------------------------------------- worlds (parent states)

type world struct {
	name   string
	n      *vnode.Node
	parent *types.Block
	snap   vnode.Snapshot
	full   map[string]string // whole parent state
	mstate map[string]string // modelled state keys
	mlocal map[string]string // modelled local keys
	acct   string
	bal    int64
}

var (
	gkey crypto.PrivKey
	gcfg *types.Chain33Config
)

func balanceOf(v string) (int64, int64, bool) {
	var a types.Account
	if err := types.Decode([]byte(v), &a); err != nil {
		return 0, 0, false
	}
	return a.Balance, a.Frozen, true
}

// newWorld starts a node; with snap == nil it builds the parent chain, otherwise it starts from the snapshot.
func newWorld(name string, from *world) (*world, error) {
	w := &world{name: name}
	if from != nil {
		*w = *from
		w.n = vnode.New(vnode.Options{Snap: from.snap})
		if !w.n.WaitHeight(from.parent.Height, 10*time.Second) {
			return nil, fmt.Errorf("node from snapshot does not reach height %d", from.parent.Height)
		}
		return w, nil
	}
	w.n = vnode.New(vnode.Options{})
	if gcfg == nil {
		gcfg = w.n.Cfg
		gkey = vnode.Key(vnode.GenesisKeyHex)
	}
	if !w.n.WaitHeight(0, 10*time.Second) {
		return nil, fmt.Errorf("no genesis block")
	}
	g, err := w.n.Chain.GetBlock(0)
	if err != nil {
		return nil, err
	}
	w.parent = g.Block
	w.mlocal = map[string]string{}
	if name == "present" {
		txs := []*types.Transaction{
			vfx.SignedTx(gcfg, "vfx", &vfx.Prog{Exec: []vfx.Step{st("set", keyS, "old")}, Local: []vfx.Step{st("setl", keyL, "old")}}, fee, 9001, gkey),
			vfx.SignedTx(gcfg, "vfy", &vfx.Prog{Exec: []vfx.Step{st("set", keySy, "oldy")}, Local: []vfx.Step{st("setl", keyLy, "oldy")}}, fee, 9002, gkey),
		}
		b, err := vnode.MakeBlock(w.n, w.parent, txs, bits, 0)
		if err != nil {
			return nil, fmt.Errorf("setup block: %v", err)
		}
		if err := w.n.Deliver(vnode.Broadcast, b, "setup"); err != nil {
			return nil, fmt.Errorf("setup block refused: %v", err)
		}
		w.parent = b
		w.mlocal = map[string]string{keyL: "old", keyLy: "oldy"}
	}
	w.snap = w.n.Snapshot()
	w.full = w.n.StateAt(w.parent.StateHash)
	w.mstate = map[string]string{}
	for _, k := range []string{keyS, keySy} {
		if v, ok := w.full[k]; ok {
			w.mstate[k] = v
		}
	}
	w.acct = "mavl-coins-bty-" + vnode.Addr(gkey)
	b, _, ok := balanceOf(w.full[w.acct])
	if !ok || b <= 0 {
		return nil, fmt.Errorf("sender account %s not found in the parent state", w.acct)
	}
	w.bal = b
	// the parent's local data as the chain answers it
	for k, want := range map[string]string{keyL: w.mlocal[keyL], keyLy: w.mlocal[keyLy]} {
		if got := localGet(w.n, k); got != want {
			return nil, fmt.Errorf("world %s: local %s = %q, want %q", name, k, got, want)
		}
	}
	return w, nil
}

func (w *world) close() {
	w.n.Close()
	w.n.Forget()
}

func localGet(n *vnode.Node, k string) string {
	r, err := n.API.LocalGet(&types.LocalDBGet{Keys: [][]byte{[]byte(k)}})
	if err != nil || r == nil || len(r.Values) == 0 {
		return ""
	}
	return string(r.Values[0])
}

func localList(n *vnode.Node, prefix string) []string {
	r, err := n.API.LocalList(&types.LocalDBList{Prefix: []byte(prefix)})
	if err != nil || r == nil {
		return nil
	}
	var out []string
	for _, v := range r.Values {
		out = append(out, string(v))
	}
	return out
}

// ---------------------------------------------------------------- transactions of a block

var txCache = map[[2]int][]*types.Transaction{}

func itemTxs(al []item, idx, slot int) []*types.Transaction {
	if t, ok := txCache[[2]int{idx, slot}]; ok {
		return t
	}
	it := al[idx]
	var txs []*types.Transaction
	for j, kn := range it.Members {
		k := kinds[kn]
		nonce := int64(idx*1000 + slot*10 + j + 1)
		txs = append(txs, vfx.NewTx(gcfg, k.Exec, k.Prog(val(slot, j)), fee, nonce))
	}
	if len(txs) == 1 {
		txs[0].Sign(types.SECP256K1, gkey)
	} else {
		g, err := vfx.Group(gcfg, txs, gkey)
		if err != nil {
			panic(err)
		}
		txs = g
	}
	txCache[[2]int{idx, slot}] = txs
	return txs
}

func blockTxs(al []item, seq []int) []*types.Transaction {
	var txs []*types.Transaction
	for slot, idx := range seq {
		txs = append(txs, itemTxs(al, idx, slot)...)
	}
	return txs
}

// ---------------------------------------------------------------- real execution and comparison

type finding struct{ FP, What string }

func execTxList(n *vnode.Node, parent *types.Block, txs []*types.Transaction) (*types.Receipts, error) {
	list := &types.ExecTxList{
		StateHash: parent.StateHash, ParentHash: parent.Hash(n.Cfg), Txs: txs,
		BlockTime: parent.BlockTime + 1, Height: parent.Height + 1, Difficulty: bits,
	}
	msg := n.Client.NewMessage("execs", types.EventExecTxList, list)
	if err := n.Client.Send(msg, true); err != nil {
		return nil, err
	}
	resp, err := n.Client.Wait(msg)
	if err != nil {
		return nil, err
	}
	switch d := resp.GetData().(type) {
	case *types.Receipts:
		return d, nil
	case error:
		return nil, d
	}
	return nil, fmt.Errorf("unexpected reply %T", resp.GetData())
}

func addBlockLocal(n *vnode.Node, d *types.BlockDetail) (*types.LocalDBSet, error) {
	msg := n.Client.NewMessage("execs", types.EventAddBlock, d)
	if err := n.Client.Send(msg, true); err != nil {
		return nil, err
	}
	resp, err := n.Client.Wait(msg)
	if err != nil {
		return nil, err
	}
	switch d := resp.GetData().(type) {
	case *types.LocalDBSet:
		return d, nil
	case error:
		return nil, d
	}
	return nil, fmt.Errorf("unexpected reply %T", resp.GetData())
}

func seqNames(al []item, seq []int) []string {
	var out []string
	for _, i := range seq {
		out = append(out, al[i].Name)
	}
	return out
}

func obsText(o []vfx.Obs) string {
	if len(o) == 0 {
		return "[]"
	}
	b, _ := json.Marshal(o)
	return string(b)
}

// classify names the class of a wrong observation for the fingerprint.
func (e *expect) classifyObs(op string, got vfx.Obs, want vfx.Obs) string {
	seen := append([]string{}, got.L...)
	if got.V != "" {
		seen = append(seen, got.V)
	}
	via := map[string]string{"get": "get", "getl": "local-get", "list": "local-list"}[op]
	for _, v := range seen {
		if op == "get" {
			if it, ok := e.FailedState[v]; ok {
				return "state-write-of-failed-item-visible-to-later-" + via + ":" + it
			}
		} else if c, ok := e.FailedLocal[v]; ok {
			return "local-write-of-failed-item-visible-to-later-" + via + ":" + c + "-at-rollback"
		} else if _, ok := e.FailedState[v]; ok {
			return "local-write-of-failed-item-visible-to-later-" + via + ":never-written-per-reference"
		}
	}
	if got.Err != "" && got.Err != notFound {
		return "later-" + via + "-fails:" + vx.Norm(got.Err, 40)
	}
	return "later-" + via + "-misses-or-misreads-a-surviving-write"
}

// checkBlock executes the block on node n (whose chain tip is w.parent) and compares with the reference.
func checkBlock(r *vx.Run, w *world, n *vnode.Node, al []item, seq []int, deliver bool) (out []finding) {
	add := func(fp, f string, a ...interface{}) { out = append(out, finding{fp, fmt.Sprintf(f, a...)}) }
	e := reference(w, al, seq)
	txs := blockTxs(al, seq)
	var sum int64
	for _, tx := range txs {
		sum += tx.Fee
	}
	if sum != e.Paid {
		add("HARNESS", "fees of the built transactions %d differ from the reference %d", sum, e.Paid)
		return
	}
	var rc *types.Receipts
	var err error
	if p := vx.Catch(func() { rc, err = execTxList(n, w.parent, txs) }); p != "" {
		err = fmt.Errorf("%s", p)
	}
	if err != nil {
		add("exec-tx-list-fails:"+vx.Norm(err.Error(), 40), "EventExecTxList answered %v", err)
		return
	}
	if len(rc.Receipts) != len(txs) {
		add("receipt-count", "%d receipts for %d transactions", len(rc.Receipts), len(txs))
		return
	}
	if r != nil {
		r.Count("executions", 1)
		r.Count("transitions", int64(len(txs)))
		r.Count("failed_items", int64(e.FailedItems))
		r.Count("reads_after_a_failed_item", int64(e.ReadsAfter))
	}
	var kvset []*types.KeyValue
	var rdata []*types.ReceiptData
	var tys []string
	for i, rcp := range rc.Receipts {
		it := al[seq[e.ItemOf[i]]]
		want := int32(types.ExecPack)
		if e.Out[i].OK {
			want = types.ExecOk
		}
		tys = append(tys, fmt.Sprint(rcp.Ty))
		if rcp.Ty != want {
			add(fmt.Sprintf("receipt-type:%s:want%d-got%d", it.Name, want, rcp.Ty), "transaction %d (item %s): receipt type %d, reference %d; logs %s", i, it.Name, rcp.Ty, want, logText(rcp.Logs))
		}
		if !e.Out[i].OK {
			for _, kv := range rcp.KV {
				if string(kv.Key) != w.acct {
					add("failed-receipt-carries-a-write:"+it.Name, "transaction %d (item %s) failed but its receipt carries key %q", i, it.Name, kv.Key)
				}
			}
		}
		got := vfx.ObsOf(rcp.Logs)
		if obsText(got) != obsText(e.Out[i].Obs) {
			fp := "observations-differ"
			for k := range got {
				if k < len(e.Out[i].Obs) && vx.J(got[k]) != vx.J(e.Out[i].Obs[k]) {
					fp = e.classifyObs(got[k].Op, got[k], e.Out[i].Obs[k])
					break
				}
			}
			if len(got) != len(e.Out[i].Obs) {
				fp = "observation-count:" + it.Name
			}
			add(fp, "transaction %d (item %s) observed %s, reference %s", i, it.Name, obsText(got), obsText(e.Out[i].Obs))
		}
		if rcp.Ty != types.ExecErr {
			kvset = append(kvset, rcp.KV...)
			rdata = append(rdata, &types.ReceiptData{Ty: rcp.Ty, Logs: rcp.Logs})
		}
	}
	if len(rdata) != len(txs) {
		return // an ExecErr receipt was already reported above
	}
	// the state after the block, through the real store
	kvset = util.DelDupKey(kvset)
	root, err := util.ExecKVMemSet(n.Client, w.parent.StateHash, w.parent.Height+1, kvset, true, false)
	if err == nil {
		err = util.ExecKVSetCommit(n.Client, root, false)
	}
	if err != nil {
		add("HARNESS", "store refused the write set: %v", err)
		return
	}
	wantState := copyMap(w.full)
	for k, v := range e.State {
		wantState[k] = v
	}
	gotState := n.StateAt(root)
	out = append(out, e.compareState(w, gotState, wantState, "state-after-block")...)
	// local data handed over at block end (EventAddBlock as the blockchain module sends it)
	blk := &types.Block{Height: w.parent.Height + 1, ParentHash: w.parent.Hash(n.Cfg), BlockTime: w.parent.BlockTime + 1, Txs: txs, StateHash: root, Difficulty: bits}
	detail := &types.BlockDetail{Block: blk, Receipts: rdata, KV: kvset, PrevStatusHash: w.parent.StateHash}
	var lset *types.LocalDBSet
	if p := vx.Catch(func() { lset, err = addBlockLocal(n, detail) }); p != "" {
		err = fmt.Errorf("%s", p)
	}
	if err != nil {
		add("add-block-fails:"+vx.Norm(err.Error(), 40), "EventAddBlock answered %v", err)
	} else {
		var got [][2]string
		for _, kv := range lset.KV {
			if strings.HasPrefix(string(kv.Key), "LODB-vfx-") || strings.HasPrefix(string(kv.Key), "LODB-vfy-") {
				got = append(got, [2]string{string(kv.Key), string(kv.Value)})
			}
		}
		if vx.J(got) != vx.J(e.EndLocal) {
			fp := "block-end-local-data-differs"
			for _, p := range got {
				if _, bad := e.FailedState[p[1]]; bad {
					fp = "block-end-local-data-of-failed-item:" + e.FailedState[p[1]]
				}
			}
			add(fp, "EventAddBlock returns local pairs %v, reference %v", got, e.EndLocal)
		}
	}
	if r != nil {
		r.Seen("states", vx.H(w.name, vx.J(gotState[keyS]), vx.J(gotState[keySy]), gotState[w.acct]))
		r.Seen("distinct", vx.H(w.name, strings.Join(tys, ","), func() string {
			var sb strings.Builder
			for _, rcp := range rc.Receipts {
				sb.WriteString(obsText(vfx.ObsOf(rcp.Logs)))
			}
			return sb.String()
		}()))
	}
	if !deliver {
		return
	}
	// the same block produced and delivered through the blockchain module on a fresh node
	fn, err := newWorld(w.name, w)
	if err != nil {
		add("HARNESS", "fresh node: %v", err)
		return
	}
	defer fn.close()
	var b *types.Block
	if p := vx.Catch(func() { b, err = vnode.MakeBlock(fn.n, w.parent, txs, bits, 0) }); p != "" {
		err = fmt.Errorf("%s", p)
	}
	if err != nil {
		add("delivered:block-not-produced:"+vx.Norm(err.Error(), 40), "producing the block on a fresh node: %v", err)
		return
	}
	if err := fn.n.Deliver(vnode.Broadcast, b, "peer"); err != nil {
		add("delivered:block-refused:"+vx.Norm(err.Error(), 40), "the produced block is refused: %v", err)
		return
	}
	if r != nil {
		r.Count("delivered_blocks", 1)
	}
	d, err := fn.n.Chain.GetBlock(w.parent.Height + 1)
	if err != nil || d == nil || len(d.Receipts) != len(txs) {
		add("delivered:block-not-on-chain", "block at height %d: %v", w.parent.Height+1, err)
		return
	}
	for i, rd := range d.Receipts {
		if rd.Ty != rc.Receipts[i].Ty {
			add("delivered:receipt-type-differs", "delivered block: receipt %d type %d, EventExecTxList gave %d", i, rd.Ty, rc.Receipts[i].Ty)
		}
	}
	out = append(out, e.compareState(w, fn.n.StateAt(d.Block.StateHash), wantState, "delivered:state-at-tip")...)
	endLocal := copyMap(w.mlocal)
	for _, p := range e.EndLocal {
		endLocal[p[0]] = p[1]
	}
	for _, k := range []string{keyL, keyLy} {
		if got := localGet(fn.n, k); got != endLocal[k] {
			fp := "delivered:local-data-differs"
			if it, bad := e.FailedState[got]; bad {
				fp = "delivered:local-data-of-failed-item-stored:" + it
			}
			add(fp, "after the block the chain answers local %s = %q, reference %q", k, got, endLocal[k])
		}
	}
	var wl []string
	if v, ok := endLocal[keyL]; ok {
		wl = append(wl, v)
	}
	if got := localList(fn.n, pfxL); vx.J(got) != vx.J(wl) {
		add("delivered:local-list-differs", "after the block the chain lists %v under %s, reference %v", got, pfxL, wl)
	}
	return
}

func logText(logs []*types.ReceiptLog) string {
	var out []string
	for _, l := range logs {
		if l.Ty == types.TyLogErr {
			out = append(out, string(l.Log))
		}
	}
	return strings.Join(out, "; ")
}

func (e *expect) compareState(w *world, got, want map[string]string, where string) (out []finding) {
	keys := map[string]bool{}
	for k := range got {
		keys[k] = true
	}
	for k := range want {
		keys[k] = true
	}
	var ks []string
	for k := range keys {
		ks = append(ks, k)
	}
	sort.Strings(ks)
	for _, k := range ks {
		g, gok := got[k]
		x, xok := want[k]
		if k == w.acct {
			gb, gf, ok := balanceOf(g)
			_, wf, _ := balanceOf(x)
			if !ok || gb != w.bal-e.Paid || gf != wf {
				out = append(out, finding{where + ":sender-balance-is-not-previous-minus-fees", fmt.Sprintf("sender balance %d (frozen %d), reference %d - %d = %d", gb, gf, w.bal, e.Paid, w.bal-e.Paid)})
			}
			continue
		}
		if gok == xok && g == x {
			continue
		}
		fp := where + ":differs"
		if it, bad := e.FailedState[g]; bad && gok {
			fp = where + ":write-of-failed-item-survives:" + it
		} else if e.GoodVal[x] {
			fp = where + ":write-of-successful-item-lost"
		} else if !xok {
			fp = where + ":unexpected-key"
		}
		out = append(out, finding{fp, fmt.Sprintf("state key %q = %q (present %v), reference %q (present %v)", k, g, gok, x, xok)})
	}
	return
}

// ---------------------------------------------------------------- driver

type kase struct {
	World   string   `json:"world"`
	Seq     []string `json:"seq"`
	Deliver bool     `json:"deliver"`
}

func idxOf(al []item, names []string) []int {
	var out []int
	for _, nm := range names {
		for i, it := range al {
			if it.Name == nm {
				out = append(out, i)
			}
		}
	}
	return out
}

func main() {
	r := vx.Start("C11", "model_checking")
	clog.SetLogLevel("crit")
	r.QuietStderr()
	al := alphabet()
	maxLen := r.Pick(3, 4)
	deliverLen := r.Pick(1, 2)
	r.Rule = fmt.Sprintf("all blocks of 1..%d items over an alphabet of %d items (12 single vfx/vfy programs: write-ok, write-then-Fail, write-then-Panic, local-write-then-Fail (with and without a List before the failure), unreported state write, unreported local write, foreign-key write, reader, lister, ordinary-order write-ok / write-then-Fail; 12 groups of 2-3 members: all succeed, failing member (Exec failure, ExecLocal failure) at every position) x 2 parent states (keys absent, keys holding older values); all writers collide on one state key and one local key per executor; every block executed through EventExecTxList + store commit + EventAddBlock on a real node; blocks of <= %d items also produced and delivered to a fresh node. state = (parent, resulting values of the modelled keys, balance); distinct = (parent, receipt types, observations) classes", maxLen, len(al), deliverLen)
	r.Assume = []string{
		"which items fail is an input (returns an error, panics, leaves a write unreported, reports a foreign key, ExecLocal fails); the rules deciding that are C12's",
		"the synthetic executors produce local data only for ExecOk receipts, as the built-in executors do",
		"all forks active from height 0 (default local configuration); fee 100000 per transaction, one sender",
	}
	if c, ok := r.Replaying(); ok {
		var k kase
		if err := json.Unmarshal(c, &k); err != nil {
			fmt.Println("REPLAY-ERROR", err)
			r.Finish()
		}
		w, err := newWorld(k.World, nil)
		if err != nil {
			fmt.Println("HARNESS-ERROR", err)
			r.Finish()
		}
		for _, f := range checkBlock(r, w, w.n, al, idxOf(al, k.Seq), k.Deliver) {
			fmt.Printf("replay: %s: %s\n", f.FP, f.What)
			r.Violate(f.FP, f.What, k, nil)
		}
		w.close()
		r.Finish()
	}
	nshard := 8
	if r.Fork(nshard) {
		r.Floors["executions"] = 1000
		r.Floors["distinct"] = 50
		r.Floors["failed_items"] = 1000
		r.Floors["reads_after_a_failed_item"] = 500
		r.Floors["delivered_blocks"] = 20
		r.Finish()
	}
	var worlds []*world
	for _, nm := range []string{"absent", "present"} {
		w, err := newWorld(nm, nil)
		if err != nil {
			fmt.Println("HARNESS-ERROR", err)
			r.Note("HARNESS-ERROR %v", err)
			r.Cap("harness error: " + err.Error())
			r.Finish()
		}
		worlds = append(worlds, w)
	}
	shard, n := r.Shard()
	work := 0
	run := func(seq []int) {
		// short blocks go to shard 0 (whose findings are merged first: the shortest failing block is the one reported)
		mine := true
		if n > 1 {
			if len(seq) <= 2 {
				mine = shard == 0
			} else {
				work++
				mine = 1+work%(n-1) == shard
			}
		}
		if !mine {
			return
		}
		for _, w := range worlds {
			if r.Expired("block enumeration") {
				return
			}
			deliver := len(seq) <= deliverLen
			k := kase{w.name, seqNames(al, seq), deliver}
			for _, f := range checkBlock(r, w, w.n, al, seq, deliver) {
				f := f
				if f.FP == "HARNESS" {
					r.Note("HARNESS-ERROR %s: %s", vx.J(k), f.What)
					r.Cap("harness error")
					continue
				}
				s := append([]int{}, seq...)
				r.Violate(f.FP, fmt.Sprintf("parent %s, block %v: %s", w.name, k.Seq, f.What), k, func() string {
					fw, err := newWorld(w.name, w)
					if err != nil {
						return ""
					}
					defer fw.close()
					for _, g := range checkBlock(nil, w, fw.n, al, s, deliver) {
						if g.FP == f.FP {
							return g.What
						}
					}
					return ""
				})
			}
			r.SampleN(3, k)
		}
	}
	// breadth first: all blocks of 1 item, then 2, ...
	for l := 1; l <= maxLen; l++ {
		seq := make([]int, l)
		var gen func(p int)
		gen = func(p int) {
			if p == l {
				run(seq)
				return
			}
			for i := range al {
				seq[p] = i
				gen(p + 1)
			}
		}
		gen(0)
	}
	for _, w := range worlds {
		w.close()
	}
	r.Finish()
}
