// C11 — failed transactions leave only their fee behind.
//
// Every block made of <= 3 (quick) / <= 4 (thorough) items of an alphabet of synthetic-executor programs
// (single transactions that write state / local data and then succeed, fail, panic, fail in ExecLocal, leave
// a write unreported, write a foreign key; readers and listers that report what they see; transaction
// groups of 2-3 members with the failing member at every position) is executed by the REAL executor module
// through EventExecTxList on a long-lived real node (queue + executor + mavl store + blockchain), from two
// parent states (keys absent / keys holding older values), followed by the real store commit and the real
// EventAddBlock local-data pass; short blocks are additionally produced and delivered to a fresh node
// through the blockchain module. A reference interpreter written from the property text, whose only rule
// for a failed transaction or group is "charge the fee, nothing else", predicts receipt types, everything
// later readers observe, the state after the block and the local data.
package main

import (
	"encoding/json"
	"fmt"
	"sort"
	"strings"
	"time"

	clog "github.com/33cn/chain33/common/log"
	"github.com/33cn/chain33/queue"
	"github.com/33cn/chain33/types"
	"github.com/33cn/chain33/util"
	"verif/vnode"
	"verif/vnode/vfx"
	"verif/vx"
)

// ---------------------------------------------------------------- alphabet

const (
	keyS  = "mavl-vfx-a" // state key of the vfx writers
	keySy = "mavl-vfy-a" // state key of the vfy writers
	keyL  = "LODB-vfx-a" // local key of the vfx writers
	keyLy = "LODB-vfy-a" // local key of the vfy writers (written at block end only)
	pfxL  = "LODB-vfx-"
	fee   = 100000
	bits  = 0x1f00ffff
)

// member is one transaction of an item: executor name and program (built for a value).
type member struct {
	Exec string
	Kind string
	Prog func(v string) *vfx.Prog
}

func st(op, k, v string) vfx.Step { return vfx.Step{Op: op, K: k, V: v} }

// the member kinds
var kinds = map[string]member{
	// succeeds: writes state and (ExecLocal, same time) local data
	"W": {"vfx", "W", func(v string) *vfx.Prog {
		return &vfx.Prog{Exec: []vfx.Step{st("set", keyS, v)}, Local: []vfx.Step{st("setl", keyL, v)}}
	}},
	// writes state, then Exec returns an error
	"WF": {"vfx", "WF", func(v string) *vfx.Prog {
		return &vfx.Prog{Exec: []vfx.Step{st("set", keyS, v), st("fail", "", "")}, Local: []vfx.Step{st("setl", keyL, v)}}
	}},
	// writes state, then Exec panics
	"WP": {"vfx", "WP", func(v string) *vfx.Prog {
		return &vfx.Prog{Exec: []vfx.Step{st("set", keyS, v), st("panic", "", "")}}
	}},
	// Exec succeeds, ExecLocal writes local data and then fails
	"LF": {"vfx", "LF", func(v string) *vfx.Prog {
		return &vfx.Prog{Exec: []vfx.Step{st("set", keyS, v)}, Local: []vfx.Step{st("setl", keyL, v), st("fail", "", "")}}
	}},
	// as LF, but lists (which saves the buffered local writes into the chain's local transaction) before failing
	"LLF": {"vfx", "LLF", func(v string) *vfx.Prog {
		return &vfx.Prog{Exec: []vfx.Step{st("set", keyS, v)}, Local: []vfx.Step{st("setl", keyL, v), st("list", pfxL, ""), st("fail", "", "")}}
	}},
	// writes state without reporting the key in the receipt
	"U": {"vfx", "U", func(v string) *vfx.Prog {
		return &vfx.Prog{Exec: []vfx.Step{st("omit", keyS, v)}, Local: []vfx.Step{st("setl", keyL, v)}}
	}},
	// ExecLocal writes local data without returning the key
	"UL": {"vfx", "UL", func(v string) *vfx.Prog {
		return &vfx.Prog{Exec: []vfx.Step{st("set", keyS, v)}, Local: []vfx.Step{st("omitl", keyL, v)}}
	}},
	// writes (and reports) a key of another executor's namespace
	"F": {"vfx", "F", func(v string) *vfx.Prog {
		return &vfx.Prog{Exec: []vfx.Step{st("set", keyS, v), st("set", keySy, v)}, Local: []vfx.Step{st("setl", keyL, v)}}
	}},
	// reader: reports the state keys and the local key
	"R": {"vfx", "R", func(v string) *vfx.Prog {
		return &vfx.Prog{Exec: []vfx.Step{st("get", keyS, ""), st("get", keySy, ""), st("getl", keyL, "")}, Tag: v}
	}},
	// lister: reports the local keys under the prefix
	"Ls": {"vfx", "Ls", func(v string) *vfx.Prog {
		return &vfx.Prog{Exec: []vfx.Step{st("list", pfxL, "")}, Tag: v}
	}},
	// ordinary-order executor: succeeds, local data only at block end
	"Wy": {"vfy", "Wy", func(v string) *vfx.Prog {
		return &vfx.Prog{Exec: []vfx.Step{st("set", keySy, v)}, Local: []vfx.Step{st("setl", keyLy, v)}}
	}},
	// ordinary-order executor: writes then fails
	"WFy": {"vfy", "WFy", func(v string) *vfx.Prog {
		return &vfx.Prog{Exec: []vfx.Step{st("set", keySy, v), st("fail", "", "")}, Local: []vfx.Step{st("setl", keyLy, v)}}
	}},
}

// item: a single transaction or a group.
type item struct {
	Name    string
	Members []string
}

func alphabet() []item {
	var a []item
	for _, k := range []string{"W", "WF", "WP", "LF", "LLF", "U", "UL", "F", "R", "Ls", "Wy", "WFy"} {
		a = append(a, item{k, []string{k}})
	}
	grp := func(ms ...string) { a = append(a, item{"G[" + strings.Join(ms, ",") + "]", ms}) }
	grp("W", "W")
	grp("W", "Wy", "W")
	for _, f := range []string{"WF", "LLF"} {
		grp(f, "W")
		grp("W", f)
		grp(f, "W", "W")
		grp("W", f, "W")
		grp("W", "W", f)
	}
	return a
}

// ---------------------------------------------------------------- reference interpreter

// model is the reference: plain maps.
type model struct {
	state map[string]string
	local map[string]string // local data visible to transactions of the block
	paid  int64
}

func copyMap(m map[string]string) map[string]string {
	c := make(map[string]string, len(m))
	for k, v := range m {
		c[k] = v
	}
	return c
}

// txOutcome is what the reference predicts for one transaction.
type txOutcome struct {
	OK  bool
	Obs []vfx.Obs
	// local pairs the executor hands over at block end
	EndLocal [][2]string
}

const notFound = "ErrNotFound"

// runProg interprets one program on tentative copies. It returns false when the transaction fails.
func runProg(exec string, p *vfx.Prog, state, local map[string]string, out *txOutcome, unsaved map[string]bool) bool {
	sameTime := exec == "vfx"
	for _, s := range p.Exec {
		switch s.Op {
		case "set":
			state[s.K] = s.V
			if !strings.HasPrefix(s.K, "mavl-"+exec+"-") {
				defer func() {}() // (kept simple) a foreign key makes the transaction fail, see below
			}
		case "omit":
			state[s.K] = s.V
		case "get":
			o := vfx.Obs{Op: s.Op, K: s.K}
			if v, ok := state[s.K]; ok {
				o.V = v
			} else {
				o.Err = notFound
			}
			out.Obs = append(out.Obs, o)
		case "getl":
			o := vfx.Obs{Op: s.Op, K: s.K}
			if v, ok := local[s.K]; ok {
				o.V = v
			} else {
				o.Err = notFound
			}
			out.Obs = append(out.Obs, o)
		case "list":
			o := vfx.Obs{Op: s.Op, K: s.K}
			var ks []string
			for k := range local {
				if strings.HasPrefix(k, s.K) {
					ks = append(ks, k)
				}
			}
			sort.Sort(sort.Reverse(sort.StringSlice(ks)))
			for _, k := range ks {
				o.L = append(o.L, local[k])
			}
			if len(ks) == 0 {
				o.Err = notFound
			}
			out.Obs = append(out.Obs, o)
		case "fail", "panic":
			return false
		}
	}
	// a write that is not reported, or a reported key outside the executor's own namespace, fails the transaction
	for _, s := range p.Exec {
		if s.Op == "omit" {
			return false
		}
		if s.Op == "set" && !strings.HasPrefix(s.K, "mavl-"+exec+"-") {
			return false
		}
	}
	for _, s := range p.Local {
		switch s.Op {
		case "setl":
			out.EndLocal = append(out.EndLocal, [2]string{s.K, s.V})
			if sameTime {
				local[s.K] = s.V
				unsaved[s.V] = true
			}
		case "omitl":
			if sameTime {
				return false
			}
		case "list":
			if sameTime {
				for v := range unsaved {
					delete(unsaved, v)
				}
			}
		case "fail":
			if sameTime {
				return false
			}
		}
	}
	return true
}

// blockPlan: the concrete transactions of a block and the reference outcome.
type blockPlan struct {
	Seq      []string
	Txs      []*types.Transaction
	TxItem   []int    // item slot of each transaction
	TxKind   []string // member kind
	Outcomes []txOutcome
	// origin of every value written by the block: value -> "slot:kind"; leak class of failed writers
	Origin    map[string]string
	FailedVal map[string]string // value written by a failed item -> "buffered"/"saved" (local) or "state"
	ItemFails []bool
	After     model
}

// ---------------------------------------------------------------- environment

type parentEnv struct {
	name   string
	n      *vnode.Node
	parent *types.Block
	snap   vnode.Snapshot
	base   model // state: only the modelled keys; balance handled separately
	bal    int64
	full   map[string]string // full parent state
}

type env struct {
	cfg     *types.Chain33Config
	key     = struct{}{}
}
