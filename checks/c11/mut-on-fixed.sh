#!/bin/bash
# usage: checks/c11/mut-on-fixed.sh <ID> <fixdiff> <file-in-repo> <python-regex> <replacement>
# Like tools/mut.sh, but the scratch worktree first gets <fixdiff> applied (the proposed fix of the genuine
# defect the check reports on the unchanged tree), so that the mutant is judged against a clean baseline;
# prints the fingerprints the check reports. Nothing is written to /repo; the worktree is removed.
ID=$1; FIX=$2; F=$3; PAT=$4; REP=$5
export GOFLAGS=-mod=mod GOPROXY=off GOSUMDB=off GOTOOLCHAIN=local
id=$(echo "$ID" | tr 'A-Z' 'a-z')
WT=/tmp/vmutfix-$$
git -C /repo worktree add -q --detach $WT HEAD || exit 9
trap 'git -C /repo worktree remove --force $WT; rm -rf /verif/.work/'$id'/mut_tmp_vmutfix-'$$' /verif/bin/*-mut_tmp_vmutfix-'$$ EXIT
if [ -n "$FIX" ] && [ "$FIX" != "-" ]; then git -C $WT apply "$FIX" || exit 8; fi
if [ -n "$F" ]; then
python3 - "$WT/$F" "$PAT" "$REP" <<'PY'
import re,sys
f,p,r=sys.argv[1:4]
s=open(f).read()
n=len(re.findall(p,s,flags=re.S))
if n!=1: print("pattern matches",n,"times"); sys.exit(3)
open(f,'w').write(re.sub(p,r,s,count=1,flags=re.S))
PY
[ $? -eq 0 ] || exit 3
fi
git -C $WT diff --stat | tail -1
cd /verif && VERIF_REPO=$WT ./run.sh $ID quick > .work/$id/mutfix-$$.out 2>&1; rc=$?
grep -v '^badger' .work/$id/mutfix-$$.out | grep -v '^  what:' | grep -v '^VIOLATION' | tail -3 | cut -c1-300
grep -h '"fingerprint"' .work/$id/mut_tmp_vmutfix-$$/mut-evidence/replay/*.json 2>/dev/null | sort | uniq -c | head -40
rm -f .work/$id/mutfix-$$.out
echo "mutant exit=$rc"
