// C17 — transaction groups are tamper-evident.
// Flat exhaustive enumeration of structural and field mutations of signed groups built with the
// client library (CreateTxGroup / SetExpire+RebuiltGroup / SignN): the untouched group must pass
// Check and CheckSign, every tampered group must fail one of them.
package main

import (
	"bytes"
	"encoding/json"
	"fmt"
	"os"
	"strings"
	"sync"
	"time"

	"github.com/33cn/chain33/common/crypto"
	clog "github.com/33cn/chain33/common/log"
	_ "github.com/33cn/chain33/system/crypto/init"
	"github.com/33cn/chain33/types"
	"google.golang.org/protobuf/reflect/protoreflect"
	"verif/vx"
)

var (
	r       *vx.Run
	cfg     *types.Chain33Config
	minFee  int64
	maxFee  int64
	keys    []crypto.PrivKey
	keyTy   []int32
	keyName []string
)

const height = 10
const sameTailSalt = 77

func mkKey(name string, ty int32, seed byte) {
	c, err := crypto.Load(name, -1)
	if err != nil {
		fmt.Println("HARNESS-ERROR load", name, err)
		os.Exit(2)
	}
	b := bytes.Repeat([]byte{seed}, 32)
	b[0] = 1
	k, err := c.PrivKeyFromBytes(b)
	if err != nil {
		fmt.Println("HARNESS-ERROR key", name, err)
		os.Exit(2)
	}
	keys = append(keys, k)
	keyTy = append(keyTy, ty)
	keyName = append(keyName, name)
}

// ---- group construction ------------------------------------------------------------------------

type variant struct {
	Name   string
	Para   bool  // all members on one parachain
	Expire int64 // 0 none, <1e9 height, >1e9 time
	Client bool  // expiry set through Transactions.SetExpire + RebuiltGroup after CreateTxGroup
	Big    bool  // one member with a payload above 1000 bytes (fee of more than one unit)
}

var variants = []variant{
	{Name: "main", Expire: 0},
	{Name: "para-expheight", Para: true, Expire: 5000},
	{Name: "main-exptime-big", Expire: 1893456000, Big: true},
	{Name: "main-clientexpire", Expire: 700, Client: true},
}

func rawTxs(n int, v variant, salt int64) []*types.Transaction {
	txs := make([]*types.Transaction, n)
	headSalt := salt
	if salt == sameTailSalt { // same members as salt 1 except for the head
		salt = 1
	}
	for i := range txs {
		salt := salt
		if i == 0 {
			salt = headSalt
		}
		exec := []string{"coins", "none", "token", "user.write"}[i%4]
		if v.Para {
			exec = "user.p.vx." + []string{"coins", "token", "none"}[i%3]
		}
		pl := []byte(fmt.Sprintf("payload-%d-%d", i, salt))
		if v.Big && i == n-1 {
			pl = append(pl, bytes.Repeat([]byte{0x5a}, 1500)...)
		}
		tx := &types.Transaction{Execer: []byte(exec), Payload: pl, Fee: int64(100000 * (i % 2)), Nonce: salt*1000 + int64(i) + 1,
			To: "1CbEVT9RnM5oZhWMj4fxUrJX94VtRotzvs", ChainID: cfg.GetChainID()}
		if !v.Client {
			tx.Expire = v.Expire
		}
		txs[i] = tx
	}
	return txs
}

// build makes a signed group the way a client does.
func build(n int, v variant, salt int64) (*types.Transactions, string) {
	g, err := types.CreateTxGroup(rawTxs(n, v, salt), minFee)
	if err != nil {
		return nil, "CreateTxGroup: " + err.Error()
	}
	if v.Client {
		for i := 0; i < n; i++ {
			g.SetExpire(cfg, i, time.Duration(v.Expire+int64(i)))
		}
		g.RebuiltGroup()
	}
	for i := 0; i < n; i++ {
		if err := g.SignN(i, keyTy[i%len(keys)], keys[i%len(keys)]); err != nil {
			return nil, "SignN: " + err.Error()
		}
	}
	return g, ""
}

func resign(g *types.Transactions) {
	for i := range g.Txs {
		g.SignN(i, keyTy[i%len(keys)], keys[i%len(keys)])
	}
}

func clone(enc []byte) *types.Transactions {
	var g types.Transactions
	if err := types.Decode(enc, &g); err != nil {
		panic(err)
	}
	return &g
}

// verdict: "" when the group is accepted by BOTH validation and signature checking on the direct
// route and (when it can be packed) on the packed route; otherwise the rejecting mechanism.
func verdict(g *types.Transactions) (direct, packed string) { return verdictAt(g, minFee) }

// verdictAt judges under a given minimum fee rate (a chain may be configured with rate 0).
func verdictAt(g *types.Transactions, minFee int64) (direct, packed string) {
	direct = "accepted"
	if p := vx.Catch(func() {
		if err := g.Check(cfg, height, minFee, maxFee); err != nil {
			direct = "check:" + err.Error()
		} else if !g.CheckSign(height) {
			direct = "sign"
		}
	}); p != "" {
		direct = p
	}
	packed = "n/a"
	if p := vx.Catch(func() {
		tx := g.Tx()
		if tx == nil {
			return
		}
		// what travels on the wire and is checked by mempool/executor: decode again
		var w types.Transaction
		if err := types.Decode(types.Encode(tx), &w); err != nil {
			packed = "decode:" + err.Error()
			return
		}
		c := types.NewTransactionCache(&w)
		if err := c.Check(cfg, height, minFee, maxFee); err != nil {
			packed = "check:" + err.Error()
		} else if !c.CheckSign(height) {
			packed = "sign"
		} else {
			packed = "accepted"
		}
	}); p != "" {
		packed = p
	}
	return
}

// ---- descriptor-driven field mutations -----------------------------------------------------------

type fmut struct {
	Path string
	Kind string
	set  func(tx *types.Transaction)
}

func flip(b []byte, i int, bit byte) []byte {
	o := append([]byte{}, b...)
	o[i] ^= bit
	return o
}

func fieldMuts(tx *types.Transaction) []fmut {
	var out []fmut
	var walk func(m protoreflect.Message, path []protoreflect.FieldDescriptor, name string)
	walk = func(m protoreflect.Message, path []protoreflect.FieldDescriptor, name string) {
		fds := m.Descriptor().Fields()
		for i := 0; i < fds.Len(); i++ {
			fd := fds.Get(i)
			p := append(append([]protoreflect.FieldDescriptor{}, path...), fd)
			pn := name + string(fd.Name())
			add := func(kind string, val func(cur protoreflect.Value) (protoreflect.Value, bool)) {
				out = append(out, fmut{Path: pn, Kind: kind, set: func(t *types.Transaction) {
					mm := t.ProtoReflect()
					for _, f := range p[:len(p)-1] {
						mm = mm.Mutable(f).Message()
					}
					if val == nil {
						mm.Clear(fd)
						return
					}
					if nv, ok := val(mm.Get(fd)); ok {
						mm.Set(fd, nv)
					}
				}})
			}
			if fd.IsList() || fd.IsMap() {
				add("clear", nil) // no such field today; a future one gets at least this
				r.Note("field %s is repeated/map: only 'clear' mutation generated", pn)
				continue
			}
			switch fd.Kind() {
			case protoreflect.BytesKind:
				cur := m.Get(fd).Bytes()
				if len(cur) > 0 {
					add("flip-first-low", func(c protoreflect.Value) (protoreflect.Value, bool) {
						return protoreflect.ValueOfBytes(flip(c.Bytes(), 0, 1)), true
					})
					add("flip-last-high", func(c protoreflect.Value) (protoreflect.Value, bool) {
						return protoreflect.ValueOfBytes(flip(c.Bytes(), len(c.Bytes())-1, 0x80)), true
					})
					add("truncate", func(c protoreflect.Value) (protoreflect.Value, bool) {
						return protoreflect.ValueOfBytes(append([]byte{}, c.Bytes()[:len(c.Bytes())-1]...)), true
					})
					add("clear", nil)
				}
				add("append-zero", func(c protoreflect.Value) (protoreflect.Value, bool) {
					return protoreflect.ValueOfBytes(append(append([]byte{}, c.Bytes()...), 0)), true
				})
			case protoreflect.StringKind:
				if m.Get(fd).String() != "" {
					add("change-first", func(c protoreflect.Value) (protoreflect.Value, bool) {
						s := []byte(c.String())
						s[0] ^= 1
						return protoreflect.ValueOfString(string(s)), true
					})
					add("clear", nil)
				}
				add("append", func(c protoreflect.Value) (protoreflect.Value, bool) {
					return protoreflect.ValueOfString(c.String() + "x"), true
				})
			case protoreflect.Int32Kind, protoreflect.Sint32Kind, protoreflect.Sfixed32Kind:
				for b := 0; b < 32; b++ { // every single bit
					b := b
					add(fmt.Sprintf("flip-bit-%d", b), func(c protoreflect.Value) (protoreflect.Value, bool) {
						return protoreflect.ValueOfInt32(int32(c.Int()) ^ int32(1<<uint(b))), true
					})
				}
				if m.Get(fd).Int() != 0 {
					add("clear", nil)
				}
			case protoreflect.Int64Kind, protoreflect.Sint64Kind, protoreflect.Sfixed64Kind:
				for b := 0; b < 64; b++ {
					b := b
					if r.Quick() && b > 1 && b%8 != 0 && b%8 != 7 { // quick tier: byte-boundary bits of 64-bit integers
						continue
					}
					add(fmt.Sprintf("flip-bit-%d", b), func(c protoreflect.Value) (protoreflect.Value, bool) {
						return protoreflect.ValueOfInt64(c.Int() ^ int64(1)<<uint(b)), true
					})
				}
				if m.Get(fd).Int() != 0 {
					add("clear", nil)
				}
			case protoreflect.Uint32Kind, protoreflect.Fixed32Kind:
				add("add+1", func(c protoreflect.Value) (protoreflect.Value, bool) {
					return protoreflect.ValueOfUint32(uint32(c.Uint()) + 1), true
				})
			case protoreflect.Uint64Kind, protoreflect.Fixed64Kind:
				add("add+1", func(c protoreflect.Value) (protoreflect.Value, bool) {
					return protoreflect.ValueOfUint64(c.Uint() + 1), true
				})
			case protoreflect.BoolKind:
				add("negate", func(c protoreflect.Value) (protoreflect.Value, bool) {
					return protoreflect.ValueOfBool(!c.Bool()), true
				})
			case protoreflect.EnumKind:
				add("add+1", func(c protoreflect.Value) (protoreflect.Value, bool) {
					return protoreflect.ValueOfEnum(c.Enum() + 1), true
				})
			case protoreflect.MessageKind, protoreflect.GroupKind:
				if m.Has(fd) {
					add("clear", nil)
					walk(m.Get(fd).Message(), p, pn+".")
				}
			default:
				add("clear", nil)
				r.Note("field %s has kind %v: only 'clear' mutation generated", pn, fd.Kind())
			}
		}
	}
	walk(tx.ProtoReflect(), nil, "")
	return out
}

// ---- cases ---------------------------------------------------------------------------------------

type kase struct {
	N       int    `json:"n"`
	Variant int    `json:"variant"`
	Kind    string `json:"kind"`
	I       int    `json:"i"`
	J       int    `json:"j"`
	Field   string `json:"field,omitempty"`
	FKind   string `json:"fkind,omitempty"`
}

type world struct {
	n      int
	v      variant
	enc    []byte              // the honest group
	sib    *types.Transactions // same shape, other payloads/nonces, same signers
	bigger *types.Transactions // size n+1 (nil when n == 20)
	other  *types.Transactions // another honest group whose non-head members have the same content (same hashes) but another head, hence another header
	alone  *types.Transaction  // a signed stand-alone transaction
}

func mkWorld(n, vi int) (*world, string) {
	v := variants[vi]
	g, f := build(n, v, 1)
	if f != "" {
		return nil, f
	}
	w := &world{n: n, v: v, enc: types.Encode(g)}
	if w.sib, f = build(n, v, 2); f != "" {
		return nil, f
	}
	if w.other, f = build(n, v, sameTailSalt); f != "" {
		return nil, f
	}
	if n < int(types.MaxTxGroupSize) {
		if w.bigger, f = build(n+1, v, 1); f != "" {
			return nil, f
		}
	}
	w.alone = rawTxs(1, v, 3)[0]
	w.alone.Fee = 10 * minFee
	w.alone.Sign(keyTy[0], keys[0])
	return w, ""
}

func insertAt(txs []*types.Transaction, i int, t *types.Transaction) []*types.Transaction {
	o := append([]*types.Transaction{}, txs[:i]...)
	o = append(o, t)
	return append(o, txs[i:]...)
}

// tamper returns the tampered group for a case; ok=false when the case does not apply or the
// mutation did not change anything (then nothing is claimed).
func (w *world) tamper(c kase) (g *types.Transactions, ok bool) {
	g = clone(w.enc)
	orig := clone(w.enc)
	n := w.n
	switch c.Kind {
	case "none":
		return g, true
	case "swap":
		g.Txs[c.I], g.Txs[c.J] = g.Txs[c.J], g.Txs[c.I]
	case "reverse":
		for a, b := 0, n-1; a < b; a, b = a+1, b-1 {
			g.Txs[a], g.Txs[b] = g.Txs[b], g.Txs[a]
		}
	case "rotate":
		g.Txs = append(g.Txs[1:], g.Txs[0])
	case "drop":
		g.Txs = append(g.Txs[:c.I:c.I], g.Txs[c.I+1:]...)
	case "drop-fixcount": // drop and let the attacker adjust every GroupCount
		g.Txs = append(g.Txs[:c.I:c.I], g.Txs[c.I+1:]...)
		for _, t := range g.Txs {
			t.GroupCount = int32(len(g.Txs))
		}
	case "insert-alone":
		g.Txs = insertAt(g.Txs, c.I, w.alone.Clone())
	case "insert-sibling":
		g.Txs = insertAt(g.Txs, c.I, w.sib.Txs[c.J].Clone())
	case "insert-bigger": // a member of a valid group of size n+1 (its GroupCount equals the new length)
		if w.bigger == nil {
			return nil, false
		}
		g.Txs = insertAt(g.Txs, c.I, w.bigger.Txs[c.J].Clone())
	case "insert-dup":
		g.Txs = insertAt(g.Txs, c.I, g.Txs[c.J].Clone())
	case "subst-alone":
		g.Txs[c.I] = w.alone.Clone()
	case "subst-foreign-fitted": // a foreign transaction dressed with the replaced member's group fields and freshly signed by its own sender
		f := w.alone.Clone()
		o := g.Txs[c.I]
		f.GroupCount, f.Header, f.Next = o.GroupCount, o.Header, o.Next
		if c.I > 0 {
			f.Fee = 0
		} else {
			f.Fee = o.Fee
		}
		f.Signature = nil
		f.Sign(keyTy[0], keys[0])
		g.Txs[c.I] = f
	case "subst-sibling":
		g.Txs[c.I] = w.sib.Txs[c.J].Clone()
	case "subst-bigger":
		if w.bigger == nil {
			return nil, false
		}
		g.Txs[c.I] = w.bigger.Txs[c.J].Clone()
	case "subst-other-header": // same content and hash, signed by the same key for ANOTHER group
		if c.I == 0 || !bytes.Equal(g.Txs[c.I].Hash(), w.other.Txs[c.I].Hash()) {
			return nil, false
		}
		g.Txs[c.I] = w.other.Txs[c.I].Clone()
	case "subst-other-header-all-tail":
		for i := 1; i < n; i++ {
			g.Txs[i] = w.other.Txs[i].Clone()
		}
	case "subst-dup":
		if c.I == c.J {
			return nil, false
		}
		g.Txs[c.I] = g.Txs[c.J].Clone()
	case "field", "field-rebuild":
		found := false
		for _, m := range fieldMuts(g.Txs[c.I]) {
			if m.Path == c.Field && m.Kind == c.FKind {
				m.set(g.Txs[c.I])
				found = true
			}
		}
		if !found {
			return nil, false
		}
		if c.Kind == "field-rebuild" {
			if g.Txs[c.I].Signature == nil { // RebuiltGroup is about the chain, keep the case meaningful
				return nil, false
			}
			g.RebuiltGroup()
		}
	case "head-fee-1":
		g.Txs[0].Fee--
	case "tail-fee+1":
		g.Txs[c.I].Fee++
	default:
		return nil, false
	}
	if bytes.Equal(types.Encode(g), types.Encode(orig)) {
		return nil, false
	}
	return g, true
}

// feeCase: groups an honest member set could produce and sign, which the fee rules must reject.
func (w *world) feeCase(c kase) (g *types.Transactions, ok bool) {
	g = clone(w.enc)
	required := func() int64 {
		var s int64
		for _, t := range g.Txs {
			f, _ := t.GetRealFee(minFee)
			s += f
		}
		return s
	}
	switch c.Kind {
	case "signed-head-fee-below-required":
		g.Txs[0].Fee = required() - 1
		g.RebuiltGroup()
		resign(g)
		if g.Txs[0].Fee >= required() { // size step moved the requirement: the statement does not apply
			return nil, false
		}
	case "signed-tail-fee-nonzero":
		g.Txs[c.I].Fee = int64(c.J)
		if c.J > 0 {
			g.Txs[0].Fee += int64(c.J) // the head still covers everything
		}
		g.RebuiltGroup()
		resign(g)
	default:
		return nil, false
	}
	return g, true
}

func (w *world) run(c kase) string {
	var g *types.Transactions
	var ok bool
	fee := c.Kind == "signed-head-fee-below-required" || c.Kind == "signed-tail-fee-nonzero"
	if fee {
		g, ok = w.feeCase(c)
	} else {
		g, ok = w.tamper(c)
	}
	if !ok {
		r.Count("not_applicable", 1)
		return ""
	}
	d, p := verdict(g)
	r.Count("evaluations", 1)
	if c.Kind == "none" {
		if d != "accepted" {
			return "untouched group rejected on the direct route: " + d
		}
		if p != "accepted" {
			return "untouched group rejected on the packed route: " + p
		}
		r.Seen("distinct", "accepted")
		return ""
	}
	if fee {
		// the statement names the mechanism: validation (Check) must reject, signatures are honest
		if len(d) < 6 || d[:6] != "check:" {
			return "group with bad fees but honest signatures is not rejected by validation (direct route): " + d
		}
		if p != "n/a" && (len(p) < 6 || p[:6] != "check:") {
			return "group with bad fees but honest signatures is not rejected by validation (packed route): " + p
		}
	} else {
		if d == "accepted" {
			return "tampered group passes Check and CheckSign (direct route)"
		}
		if p == "accepted" {
			return "tampered group passes Check and CheckSign (packed route)"
		}
		// the same tampering on a chain configured with a minimum fee rate of 0
		d0, p0 := verdictAt(g, 0)
		r.Count("evaluations_at_fee_rate_0", 1)
		if d0 == "accepted" {
			return "tampered group passes Check and CheckSign when the minimum fee rate is 0 (direct route)"
		}
		if p0 == "accepted" {
			return "tampered group passes Check and CheckSign when the minimum fee rate is 0 (packed route)"
		}
	}
	kind := c.Kind
	if c.Kind == "field" || c.Kind == "field-rebuild" {
		kind += ":" + c.Field
	}
	r.Seen("distinct", kind+" -> "+vx.Norm(d, 40))
	r.Seen("mechanisms", vx.Norm(d, 40))
	return ""
}

func fp(c kase, what string) string {
	if len(c.Field) > 10 && c.Field[:10] == "signature." && (c.Kind == "field" || c.Kind == "field-rebuild") {
		// class = which driver tolerates which alteration of which signature sub-field
		if c.Field == "signature.ty" {
			var b int
			if n, _ := fmt.Sscanf(c.FKind, "flip-bit-%d", &b); n == 1 {
				cls := fmt.Sprintf("bit-%d", b)
				if b >= 12 && b <= 14 {
					cls = "address-format-bits"
				} else if b >= 30 {
					cls = "unused-high-bits"
				}
				return fmt.Sprintf("group:altered-signature.ty-accepted:%s", cls)
			}
		}
		return fmt.Sprintf("group:altered-%s-accepted:%s:%s", c.Field, keyName[c.I%len(keys)], c.FKind)
	}
	k := c.Kind
	if c.Field != "" {
		k += ":" + c.Field + ":" + c.FKind
	}
	pos := "mid"
	if c.I == 0 {
		pos = "head"
	} else if c.I == c.N-1 {
		pos = "tail"
	}
	return fmt.Sprintf("group:%s:%s:%s", k, pos, vx.Norm(what, 40))
}

func explore(n, vi int) {
	w, f := mkWorld(n, vi)
	if f != "" {
		r.Violate("group:build:"+vx.Norm(f, 40), "client library cannot build the group: "+f, kase{N: n, Variant: vi, Kind: "none"}, nil)
		return
	}
	var cases []kase
	try := func(c kase) {
		c.N, c.Variant = n, vi
		cases = append(cases, c)
	}
	exec := func(c kase) {
		if f := w.run(c); f != "" {
			if c.Kind == "field" || c.Kind == "field-rebuild" {
				f += fmt.Sprintf("; altered %s (%s) of member %d signed with driver %s", c.Field, c.FKind, c.I, keyName[c.I%len(keys)])
			}
			r.Violate(fp(c, f), fmt.Sprintf("%s (size %d, variant %s, case %s)", f, n, w.v.Name, vx.J(c)), c, func() string {
				w2, f2 := mkWorld(c.N, c.Variant)
				if f2 != "" {
					return ""
				}
				return w2.run(c)
			})
		}
	}
	try(kase{Kind: "none"})
	for i := 0; i < n; i++ {
		for j := i + 1; j < n; j++ {
			try(kase{Kind: "swap", I: i, J: j})
		}
	}
	try(kase{Kind: "subst-other-header-all-tail"})
	try(kase{Kind: "reverse"})
	try(kase{Kind: "rotate"})
	for i := 0; i < n; i++ {
		try(kase{Kind: "drop", I: i})
		try(kase{Kind: "drop-fixcount", I: i})
		try(kase{Kind: "subst-alone", I: i})
		try(kase{Kind: "subst-foreign-fitted", I: i})
		try(kase{Kind: "subst-other-header", I: i})
		for j := 0; j < n; j++ {
			try(kase{Kind: "subst-sibling", I: i, J: j})
			try(kase{Kind: "subst-dup", I: i, J: j})
		}
		for j := 0; j <= n; j++ {
			try(kase{Kind: "subst-bigger", I: i, J: j})
		}
	}
	for i := 0; i <= n; i++ {
		try(kase{Kind: "insert-alone", I: i})
		for j := 0; j < n; j++ {
			try(kase{Kind: "insert-sibling", I: i, J: j})
			try(kase{Kind: "insert-dup", I: i, J: j})
		}
		for j := 0; j <= n; j++ {
			try(kase{Kind: "insert-bigger", I: i, J: j})
		}
	}
	honest := clone(w.enc)
	for i := 0; i < n; i++ {
		for _, m := range fieldMuts(honest.Txs[i]) {
			r.Seen("fields", m.Path)
			try(kase{Kind: "field", I: i, Field: m.Path, FKind: m.Kind})
			if !strings.HasPrefix(m.Path, "signature") { // hashes ignore the signature: re-chaining would change nothing
				try(kase{Kind: "field-rebuild", I: i, Field: m.Path, FKind: m.Kind})
			}
		}
	}
	try(kase{Kind: "head-fee-1"})
	try(kase{Kind: "signed-head-fee-below-required"})
	for i := 1; i < n; i++ {
		try(kase{Kind: "tail-fee+1", I: i})
		try(kase{Kind: "signed-tail-fee-nonzero", I: i, J: 1})
		try(kase{Kind: "signed-tail-fee-nonzero", I: i, J: int(minFee)})
		try(kase{Kind: "signed-tail-fee-nonzero", I: i, J: -1}) // a fee is a signed number: "carries a fee" includes a negative one
		try(kase{Kind: "signed-tail-fee-nonzero", I: i, J: -int(minFee)})
	}
	// every case is independent (fresh decoded copy of the honest group): run them on a worker pool
	var wg sync.WaitGroup
	ch := make(chan kase, 64)
	for k := 0; k < 8; k++ {
		wg.Add(1)
		go func() {
			defer wg.Done()
			for c := range ch {
				exec(c)
			}
		}()
	}
	for _, c := range cases {
		ch <- c
	}
	close(ch)
	wg.Wait()
	// observation only (not part of the verdict): a member re-signed by another key keeps the
	// group valid, because hashes deliberately ignore the signature (see C16)
	g := clone(w.enc)
	g.SignN(n-1, keyTy[(n)%len(keys)], keys[(n)%len(keys)])
	if d, _ := verdict(g); d == "accepted" {
		r.Count("observed_resigned_member_accepted", 1)
	}
}

func main() {
	clog.SetLogLevel("crit")
	r = vx.Start("C17", "exploration")
	r.Rule = "for every group size (quick 2,3,4,20; thorough 2..20) x 4 variants (main chain, one parachain + height expiry, time expiry + >1000-byte member, expiry set by the client SetExpire/RebuiltGroup path): the untouched signed group, every transposition, reversal, rotation, every drop (also with adjusted counts), insertion at every position of (stand-alone tx | every member of a sibling group | every member of a valid group one larger | a duplicate of every member), substitution of every member by a foreign transaction (as it is, and dressed with the replaced member's group count, header, next-hash and fee and freshly signed by its own sender), by the same (and by the equal-hash member of another honest group with a different head), every descriptor-derived field mutation of every member (bytes: first/last bit, truncate, clear, append; every single bit of every integer) (with and without the attacker re-chaining the group), head fee-1, tail fee+1, and honestly re-signed groups with head fee below the requirement / non-zero tail fee (1, the minimum fee, -1, minus the minimum fee). Tampered groups are judged under the configured minimum fee rate and under rate 0. Both the direct route (Transactions.Check/CheckSign) and the packed wire route (Transactions.Tx -> TransactionCache.Check/CheckSign) are evaluated. distinct = distinct (mutation kind[:field] -> rejecting mechanism) classes"
	r.Assume = []string{
		"a member re-signed with a different key but identical content is not counted as a substituted member: hashes ignore the signature by design (C16), observed and counted as observed_resigned_member_accepted",
		"expiry of groups (IsExpire) is not part of Check/CheckSign and is not asserted here",
		"secp256k1/ed25519/sm2 signing is deterministic for a fixed key and message in these drivers, or its randomness does not influence validity",
	}
	cfg = types.NewChain33Config(types.GetDefaultCfgstring())
	minFee = cfg.GetMinTxFeeRate()
	maxFee = cfg.GetMaxTxFee(height)
	mkKey("secp256k1", types.SECP256K1, 0x11)
	mkKey("ed25519", types.ED25519, 0x22)
	mkKey("secp256k1", types.SECP256K1, 0x33)
	mkKey("sm2", types.SM2, 0x44)
	if raw, ok := r.Replaying(); ok {
		var c kase
		json.Unmarshal(raw, &c)
		w, f := mkWorld(c.N, c.Variant)
		if f == "" {
			f = w.run(c)
		}
		if f != "" {
			fmt.Println("replay: FAIL", f)
			r.Violate("replay", f, c, nil)
		} else {
			fmt.Println("replay: ok")
		}
		r.Finish()
	}
	sizes := []int{2, 3, 4, 20}
	if !r.Quick() {
		sizes = sizes[:0]
		for n := 2; n <= 20; n++ {
			sizes = append(sizes, n)
		}
	}
	for _, n := range sizes {
		for vi := range variants {
			if r.Expired(fmt.Sprintf("size %d", n)) {
				break
			}
			explore(n, vi)
		}
	}
	r.SampleN(2, kase{N: 20, Variant: 1, Kind: "swap", I: 3, J: 17})
	r.SampleN(4, kase{N: 3, Variant: 0, Kind: "field-rebuild", I: 1, Field: "next", FKind: "flip-first-low"})
	r.SampleN(6, kase{N: 4, Variant: 2, Kind: "signed-head-fee-below-required"})
	fmt.Println() // the sm2 driver prints to stdout without a newline
	r.Floors["distinct"] = 40
	r.Floors["fields"] = 13
	r.Floors["mechanisms"] = 8
	r.Finish()
}
