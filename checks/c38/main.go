// C38 — the wallet never appears unlocked without a successful unlock.
// The wallet package is source-instrumented (mutex, atomics, time.AfterFunc, go, channels) and run
// under the controlled scheduler: actor threads (unlock right/wrong, lock, password change with
// right/wrong old password, unlock with timeout) against observer threads (GetWalletStatus,
// IsWalletLocked, ProcDumpPrivkey, ProcSignRawTx, GetSeed) under every schedule within a deviation
// bound. The oracle is evaluated on the recorded call/return log of each execution.
package main

import (
	"crypto/sha256"
	"encoding/json"
	"fmt"
	"strings"

	"github.com/33cn/chain33/client/mocks"
	"github.com/33cn/chain33/common"
	"github.com/33cn/chain33/common/address"
	"github.com/33cn/chain33/common/crypto"
	clog "github.com/33cn/chain33/common/log"
	"github.com/33cn/chain33/queue"
	_ "github.com/33cn/chain33/system"
	"github.com/33cn/chain33/types"
	"github.com/33cn/chain33/wallet"
	"github.com/stretchr/testify/mock"
	"verif/vrt"
	"verif/vrt/vtime"
	"verif/vx"
)

const (
	pwRight = "pass12345"
	pwWrong = "nope12345"
	pwNew   = "fresh6789"
)

type event struct {
	seq    int
	thread string
	call   string // unlock-right, unlock-wrong, lock, setpw-right, setpw-wrong, obs-status, obs-islocked, obs-dump, obs-sign, obs-seed
	phase  string // start / end
	ok     bool   // call succeeded / observation saw "unlocked"
	clock  int64
	tmo    int64 // unlock timeout seconds
}

type world struct {
	w    *wallet.Wallet
	log  []event
	addr string
}

func (wd *world) ev(thread, call, phase string, ok bool, tmo int64) int {
	var n int
	vrt.Own(func() {
		wd.log = append(wd.log, event{len(wd.log), thread, call, phase, ok, vrt.Clock(), tmo})
		n = len(wd.log) - 1
	})
	return n
}

type env struct {
	cfg   *types.Chain33Config
	kvs   [][2][]byte
	addr  string
	txhex string
	q     queue.Queue
	api   *mocks.QueueProtocolAPI
}

func setup() *env {
	cfg := types.NewChain33Config(types.GetDefaultCfgstring())
	cfg.GetModuleConfig().Wallet.Driver = "memdb"
	e := &env{cfg: cfg}
	w0 := wallet.New(cfg)
	wallet.InitSeedLibrary()
	seed, err := wallet.CreateSeed("", 1)
	if err != nil {
		panic(err)
	}
	if ok, err := w0.SaveSeed(pwRight, seed); !ok {
		panic(fmt.Sprint("SaveSeed: ", err))
	}
	cr, err := crypto.Load("secp256k1", -1)
	if err != nil {
		panic(err)
	}
	for i := 0; i < 2; i++ {
		h := sha256.Sum256([]byte(fmt.Sprint("c38-key-", i)))
		priv, err := cr.PrivKeyFromBytes(h[:])
		if err != nil {
			panic(err)
		}
		addr := address.PubKeyToAddr(address.DefaultID, priv.PubKey().Bytes())
		if err := w0.VerifAddAccount(pwRight, addr, fmt.Sprint("label", i), h[:]); err != nil {
			panic(err)
		}
		if i == 0 {
			e.addr = addr
		}
	}
	it := w0.GetDBStore().Iterator(nil, types.EmptyValue, false)
	for ok := it.Rewind(); ok; ok = it.Next() {
		e.kvs = append(e.kvs, [2][]byte{append([]byte{}, it.Key()...), append([]byte{}, it.Value()...)})
	}
	it.Close()
	tx := &types.Transaction{Execer: []byte("coins"), Payload: []byte("x"), To: e.addr, Fee: 1000000, Nonce: 1}
	e.txhex = common.ToHex(types.Encode(tx))
	e.q = queue.New("c38")
	e.q.SetConfig(cfg)
	e.api = &mocks.QueueProtocolAPI{}
	e.api.On("GetProperFee", mock.Anything).Return(&types.ReplyProperFee{ProperFee: 1000000}, nil)
	return e
}

func (e *env) fresh() *world {
	w := wallet.New(e.cfg)
	db := w.GetDBStore()
	for _, kv := range e.kvs {
		db.Set(kv[0], kv[1])
	}
	w.VerifSetState("", 1, true) // as after a restart: password only on disk, locked
	w.VerifSetClient(e.q.Client(), e.api)
	ticket.locked = true
	if err := w.RegisterMineStatusReporter(ticket); err != nil {
		panic(err)
	}
	return &world{w: w, addr: e.addr}
}

// steps
type step func(wd *world, th string)

func unlock(pw string, tmo int64) step {
	name := "unlock-wrong"
	if pw == pwRight || pw == pwNew {
		name = "unlock-right"
	}
	return func(wd *world, th string) {
		wd.ev(th, name, "start", false, tmo)
		err := wd.w.ProcWalletUnLock(&types.WalletUnLock{Passwd: pw, Timeout: tmo})
		wd.ev(th, name, "end", err == nil, tmo)
	}
}

func lock() step {
	return func(wd *world, th string) {
		wd.ev(th, "lock", "start", false, 0)
		err := wd.w.ProcWalletLock()
		wd.ev(th, "lock", "end", err == nil, 0)
	}
}

func setpw(old, nw string) step {
	name := "setpw-wrong"
	if old == pwRight {
		name = "setpw-right"
	}
	return func(wd *world, th string) {
		wd.ev(th, name, "start", false, 0)
		err := wd.w.ProcWalletSetPasswd(&types.ReqWalletSetPasswd{OldPass: old, NewPass: nw})
		wd.ev(th, name, "end", err == nil, 0)
	}
}

func obsStatus() step {
	return func(wd *world, th string) {
		wd.ev(th, "obs-status", "start", false, 0)
		s := wd.w.GetWalletStatus()
		wd.ev(th, "obs-status", "end", !s.IsWalletLock, 0)
	}
}

func obsIsLocked() step {
	return func(wd *world, th string) {
		wd.ev(th, "obs-islocked", "start", false, 0)
		l := wd.w.IsWalletLocked()
		wd.ev(th, "obs-islocked", "end", !l, 0)
	}
}

func obsDump() step {
	return func(wd *world, th string) {
		wd.ev(th, "obs-dump", "start", false, 0)
		k, err := wd.w.ProcDumpPrivkey(wd.addr)
		wd.ev(th, "obs-dump", "end", err == nil && k != "", 0)
	}
}

func obsSign(e *env) step {
	return func(wd *world, th string) {
		wd.ev(th, "obs-sign", "start", false, 0)
		s, err := wd.w.ProcSignRawTx(&types.ReqSignRawTx{Addr: wd.addr, TxHex: e.txhex, Expire: "300s"})
		wd.ev(th, "obs-sign", "end", err == nil && s != "", 0)
	}
}

func obsSeed(pw string) step {
	return func(wd *world, th string) {
		wd.ev(th, "obs-seed", "start", false, 0)
		s, err := wd.w.GetSeed(pw)
		wd.ev(th, "obs-seed", "end", err == nil && s != "", 0)
	}
}

func sleep(sec int64) step {
	return func(wd *world, th string) { vtime.Sleep(vtime.Duration(sec) * vtime.Second) }
}

type scenario struct {
	name    string
	threads [][]step
	// ticketOpen: the node mines; the wallet is locked but its ticket lock is open when the scenario starts
	ticketOpen bool
}

func ticketRelock() step {
	return func(wd *world, th string) { ticket.relock() }
}

// oracle: every observation that saw the wallet unlocked (or obtained a secret / a signature) must
// overlap a legitimate-unlock interval: from the START of an unlock call that succeeded with the
// right password until the END of the first lock call that started after that unlock had returned,
// or until virtual time passes the unlock's timeout.
func verdict(log []event) (string, string) {
	type iv struct{ a, b int }
	var legit []iv
	startOf := func(endIdx int) int {
		e := log[endIdx]
		for i := endIdx - 1; i >= 0; i-- {
			if log[i].thread == e.thread && log[i].call == e.call && log[i].phase == "start" {
				return i
			}
		}
		return endIdx
	}
	inf := len(log) + 1
	for i, e := range log {
		if e.call == "unlock-right" && e.phase == "end" && e.ok {
			a := startOf(i)
			b := inf
			for j := i + 1; j < len(log); j++ {
				if log[j].call == "lock" && log[j].phase == "end" {
					if s := startOf(j); s > i {
						b = j
						break
					}
				}
			}
			if e.tmo > 0 {
				deadline := e.clock + e.tmo*int64(vtime.Second)
				for j := i + 1; j < len(log); j++ {
					if log[j].clock > deadline {
						if j < b {
							b = j
						}
						break
					}
				}
			}
			legit = append(legit, iv{a, b})
		}
	}
	for i, e := range log {
		if !strings.HasPrefix(e.call, "obs-") || e.phase != "end" || !e.ok {
			continue
		}
		s := startOf(i)
		okv := false
		for _, l := range legit {
			if s <= l.b && i >= l.a {
				okv = true
			}
		}
		if okv {
			continue
		}
		// classify: which password-change call overlaps the observation?
		during := ""
		for j, f := range log {
			if strings.HasPrefix(f.call, "setpw-") && f.phase == "start" && j <= i {
				end := inf
				for k := j + 1; k < len(log); k++ {
					if log[k].thread == f.thread && log[k].call == f.call && log[k].phase == "end" {
						end = k
						break
					}
				}
				if end >= s {
					during = f.call
				}
			}
		}
		what := fmt.Sprintf("%s by %s saw the wallet unlocked/obtained a secret with no successful unlock in effect", e.call, e.thread)
		fp := "appears-unlocked:" + e.call
		if during != "" {
			what += " (while a " + during + " password change was in progress)"
			fp = "appears-unlocked-during-password-change:" + e.call
		}
		return fp, what
	}
	return "", ""
}

func logText(log []event) []string {
	var out []string
	for _, e := range log {
		out = append(out, fmt.Sprintf("%d %s %s %s ok=%v t=%ds", e.seq, e.thread, e.call, e.phase, e.ok, e.clock/int64(vtime.Second)))
	}
	return out
}

func main() {
	r := vx.Start("C38", "model_checking")
	clog.SetLogLevel("crit")
	r.Rule = "controlled-scheduler exploration of the instrumented wallet package (mutex, atomics, time.AfterFunc): scenarios of actor threads {unlock right/wrong, lock, password change with right/wrong old password, unlock with timeout} against observer threads {GetWalletStatus, IsWalletLocked, ProcDumpPrivkey, ProcSignRawTx, GetSeed}; every schedule within the deviation bound; oracle on the call/return log. distinct = (scenario, observation kind, result) classes"
	r.Assume = []string{"an observation is legitimate if its call interval overlaps [start of a successful right-password unlock, end of the first lock call started after that unlock returned / virtual time past the unlock timeout]", "data races below the synchronisation operations are not modelled"}
	r.StateCounter = "tree_nodes"
	r.DistinctSet = "outcomes"
	e := setup()
	scs := []scenario{
		{"W1-setpw-wrong-locked", [][]step{{setpw(pwWrong, pwNew)}, {obsStatus(), obsIsLocked()}, {obsDump()}}, false},
		{"W2-setpw-right-locked", [][]step{{setpw(pwRight, pwNew)}, {obsStatus(), obsStatus()}, {obsDump(), obsSeed(pwRight)}}, false},
		{"W3-unlock-lock", [][]step{{unlock(pwRight, 0), lock()}, {obsStatus(), obsDump()}, {obsSign(e)}}, false},
		{"W4-wrong-unlock+wrong-setpw", [][]step{{unlock(pwWrong, 0)}, {setpw(pwWrong, pwNew)}, {obsStatus(), obsDump()}}, false},
		{"W5-timeout", [][]step{{unlock(pwRight, 1)}, {obsStatus(), sleep(2), obsStatus(), obsDump()}}, false},
		{"W6-unlock/setpw-wrong/lock", [][]step{{unlock(pwRight, 0)}, {setpw(pwWrong, pwNew)}, {lock()}, {obsStatus(), obsStatus()}}, false},
		{"W7-unlock-setpw-lock", [][]step{{unlock(pwRight, 0), setpw(pwRight, pwNew), lock()}, {obsDump(), obsStatus()}, {obsSeed(pwNew)}}, false},
		{"W9-second-timed-unlock-after-expiry", [][]step{{unlock(pwRight, 1), sleep(2), unlock(pwRight, 1), sleep(3)}, {sleep(4), obsStatus(), obsDump()}, {sleep(4), obsSeed(pwRight)}}, false},
		{"W10-timed-unlock-rearmed-while-pending", [][]step{{unlock(pwRight, 3), sleep(1), unlock(pwRight, 1)}, {sleep(5), obsStatus(), obsSign(e)}}, false},
		{"W11-locked-wallet-ticket-relocked", [][]step{{ticketRelock()}, {obsDump(), obsSeed(pwRight)}, {obsSign(e)}}, true},
		{"W12-lock-request-while-ticket-open", [][]step{{lock(), ticketRelock()}, {obsDump(), obsStatus()}, {obsSign(e)}}, true},
		{"W13-failed-unlock-during-timed-unlock", [][]step{{unlock(pwRight, 2), sleep(1), unlock(pwWrong, 0), sleep(3)}, {sleep(4), obsStatus(), obsDump()}, {sleep(4), obsSeed(pwRight)}}, false},
		{"W14-failed-timed-unlock-during-timed-unlock", [][]step{{unlock(pwRight, 2), sleep(1), unlock(pwWrong, 5), sleep(3)}, {sleep(4), obsStatus(), obsSign(e)}}, false},
		{"W8-timeout-vs-setpw", [][]step{{unlock(pwRight, 1), sleep(2), setpw(pwWrong, pwNew)}, {sleep(2), obsStatus(), obsSign(e)}}, false},
	}
	bound := r.Pick(5, 9)
	var lastWorld *world
	mk := func(sc scenario) *vx.Sched {
		var wd *world
		body := func() {
			wd = e.fresh()
			lastWorld = wd
			ticket.locked = !sc.ticketOpen
			for i, th := range sc.threads {
				th := th
				name := fmt.Sprintf("T%d", i+1)
				vrt.GoNamed(name, func() {
					for _, st := range th {
						st(wd, name)
					}
				})
			}
		}
		return &vx.Sched{Run: r, Name: sc.name, Body: body, MaxPreempt: bound, MaxSteps: 3000,
			Check: func(res *vrt.Result) string {
				if len(res.Panics) > 0 {
					return "panic: " + res.Panics[0]
				}
				if res.Deadlock {
					return "blocked forever: " + strings.Join(res.Blocked, "; ")
				}
				for _, ev := range wd.log {
					if ev.phase == "end" {
						r.Seen("outcomes", fmt.Sprintf("%s/%s/%v", sc.name, ev.call, ev.ok))
					}
				}
				_, what := verdict(wd.log)
				return what
			},
			FP: func(what string) string {
				fp, _ := verdict(wd.log)
				if fp == "" {
					fp = vx.Norm(what, 50)
				}
				return fp
			}}
	}
	if raw, ok := r.Replaying(); ok {
		var c struct {
			Harness string
			Choices []int
		}
		json.Unmarshal(raw, &c)
		for _, sc := range scs {
			if sc.name == c.Harness {
				q := mk(sc)
				w, res := q.ReplaySched(c.Choices)
				if len(c.Choices) < 0 {
					for _, l := range res.Trace {
						fmt.Println("  ", l)
					}
				}
				for _, l := range logText(lastWorld.log) {
					fmt.Println("  ", l)
				}
				if w != "" {
					fmt.Println("replay: FAIL", w)
					r.Violate("replay", w, c, nil)
				} else {
					fmt.Println("replay: ok")
				}
			}
		}
		r.Finish()
	}
	if r.Fork(16) {
		r.Floors["outcomes"] = 20
		r.Finish()
	}
	for _, sc := range scs {
		mk(sc).Explore()
	}
	r.Finish()
}
