package main

import "verif/vrt"

// A mining policy as a mining node has one: it reports the state of the "ticket lock" (a second lock
// that lets a locked wallet keep mining) and re-locks it when the wallet is locked. Every read of
// the ticket lock is a scheduling point, so a lock request can land between two reads made by one
// wallet request.
type ticketPolicy struct {
	locked bool
}

var ticket = &ticketPolicy{locked: true}

func (p *ticketPolicy) IsAutoMining() bool { return false }
func (p *ticketPolicy) IsTicketLocked() bool {
	vrt.SchedPoint("ticket lock read")
	return p.locked
}
func (p *ticketPolicy) PolicyName() string { return "solo" } // the configured consensus

// relock is the plugin's own re-locking of the ticket lock (its unlock time-out, or the wallet being locked).
func (p *ticketPolicy) relock() {
	vrt.SchedPoint("ticket re-locked")
	p.locked = true
}
