// C08 — the layered local database obeys nested-transaction semantics.
//
// Explicit-state search over histories of {Begin, Set(k,v), Set(k,""), Get(k), Commit, Rollback} on
// the real common/db LocalDB over a pre-populated memdb base, compared after every step with a
// three-map model (open transaction, committed overlay, base; empty value = tombstone): every
// Get, every List(prefix, from, count, direction, encoding) and every PrefixCount.
// Get is an operation of the history (it fills the read-through cache), not only a query.
package main

import (
	"bytes"
	"encoding/json"
	"fmt"
	"os"
	"runtime/debug"
	"sort"
	"strings"
	"sync"

	dbm "github.com/33cn/chain33/common/db"
	clog "github.com/33cn/chain33/common/log"
	"github.com/33cn/chain33/types"
	"verif/vx"
)

var keys = []string{"a", "ab", "b"}
var prefixes = []string{"a", "", "b"}

type layer map[string]string // present key -> value ("" = tombstone)

func (l layer) String() string {
	var ks []string
	for k := range l {
		ks = append(ks, k)
	}
	sort.Strings(ks)
	var sb strings.Builder
	for _, k := range ks {
		fmt.Fprintf(&sb, "%s=%q,", k, l[k])
	}
	return sb.String()
}

type sys struct {
	ldb   *dbm.LocalDB
	base  layer
	comm  layer
	tx    layer
	intx  bool
	canon string
}

// get: newest write visible from the open transaction, then the committed overlay, then the base.
func (s *sys) get(k string) (string, bool) {
	if s.intx {
		if v, ok := s.tx[k]; ok {
			return v, v != ""
		}
	}
	if v, ok := s.comm[k]; ok {
		return v, v != ""
	}
	if v, ok := s.base[k]; ok {
		return v, v != ""
	}
	return "", false
}

// list: live entries under prefix strictly after from in the direction, at most n (0 = all).
func (s *sys) list(prefix, from string, n int, asc bool) []string {
	var ks []string
	for _, k := range keys {
		if _, live := s.get(k); live && strings.HasPrefix(k, prefix) {
			ks = append(ks, k)
		}
	}
	sort.Strings(ks)
	if !asc {
		for i, j := 0, len(ks)-1; i < j; i, j = i+1, j-1 {
			ks[i], ks[j] = ks[j], ks[i]
		}
	}
	var out []string
	for _, k := range ks {
		if from != "" && ((asc && k <= from) || (!asc && k >= from)) {
			continue
		}
		out = append(out, k)
		if n > 0 && len(out) == n {
			break
		}
	}
	return out
}

type op struct {
	kind string
	k, v string
}

func (o op) String() string {
	switch o.kind {
	case "set":
		return fmt.Sprintf("Set(%q,%q)", o.k, o.v)
	case "get":
		return fmt.Sprintf("Get(%q)", o.k)
	}
	return o.kind
}

func mkOps() []op {
	ops := []op{{kind: "Begin"}, {kind: "Commit"}, {kind: "Rollback"}}
	for _, k := range keys {
		for _, v := range []string{"x", "y", ""} {
			ops = append(ops, op{"set", k, v})
		}
		ops = append(ops, op{"get", k, ""})
	}
	return ops
}

func dump(db dbm.DB) string {
	if db == nil {
		return "<nil>"
	}
	var sb strings.Builder
	it := db.Iterator(nil, types.EmptyValue, false)
	for ok := it.Rewind(); ok; ok = it.Next() {
		fmt.Fprintf(&sb, "%q=%q,", it.Key(), it.Value())
	}
	it.Close()
	return sb.String()
}

func (s *sys) realCanon() string {
	intx, tx, cache, main := s.ldb.VerifLayers()
	return fmt.Sprintf("intx=%v tx[%s] cache[%s] main[%s]", intx, dump(tx), dump(cache), dump(main))
}

var outcomesSeen sync.Map

func outcome(r *vx.Run, class string) {
	if _, ok := outcomesSeen.Load(class); ok {
		return
	}
	outcomesSeen.Store(class, true)
	r.Seen("outcomes", class)
}

func checkGet(r *vx.Run, s *sys, k string) string {
	v, err := s.ldb.Get([]byte(k))
	mv, live := s.get(k)
	if live {
		if err != nil || string(v) != mv {
			return fmt.Sprintf("Get(%q) = %q,%v; model %q", k, v, err, mv)
		}
		return ""
	}
	if err != types.ErrNotFound || v != nil {
		return fmt.Sprintf("Get(%q) = %q,%v; model not found", k, v, err)
	}
	return ""
}

// source names the layer a key's visible value comes from (for outcome classes only).
func (s *sys) source(k string) string {
	if s.intx {
		if v, ok := s.tx[k]; ok {
			if v == "" {
				return "tx-tombstone"
			}
			return "tx"
		}
	}
	if v, ok := s.comm[k]; ok {
		if v == "" {
			return "committed-tombstone"
		}
		return "committed"
	}
	if v, ok := s.base[k]; ok {
		if v == "" {
			return "base-tombstone"
		}
		return "base"
	}
	return "absent"
}

func (s *sys) hides(k string) string {
	// which lower layers hold a different entry for k than the visible one
	n := 0
	if s.intx {
		if _, ok := s.tx[k]; ok {
			n++
		}
	}
	if _, ok := s.comm[k]; ok {
		n++
	}
	if _, ok := s.base[k]; ok {
		n++
	}
	return fmt.Sprintf("%d-layers", n)
}

// queries compares every List / PrefixCount (which do not change the state) and then every Get.
func queries(r *vx.Run, s *sys) string {
	froms := append([]string{""}, keys...)
	for _, p := range prefixes {
		cnt := s.ldb.PrefixCount([]byte(p))
		want := len(s.list(p, "", 0, true))
		if int(cnt) != want {
			return fmt.Sprintf("PrefixCount(%q) = %d; model %d live entries", p, cnt, want)
		}
		for _, from := range froms {
			for _, n := range []int{0, 1, 2} {
				for _, asc := range []bool{true, false} {
					for _, enc := range []int32{0, dbm.ListWithKey, dbm.ListKeyOnly} {
						if enc != 0 && n == 1 {
							continue
						}
						dir := enc
						if asc {
							dir |= dbm.ListASC
						}
						var fk []byte
						if from != "" {
							fk = []byte(from)
						}
						got, err := s.ldb.List([]byte(p), fk, int32(n), dir)
						if err != nil {
							return fmt.Sprintf("List(%q,%q,%d,%d) error %v", p, from, n, dir, err)
						}
						wantK := s.list(p, from, n, asc)
						if len(got) != len(wantK) {
							return fmt.Sprintf("List(prefix %q, from %q, count %d, direction %d) returns %d entries %q; model %q", p, from, n, dir, len(got), got, wantK)
						}
						for i, k := range wantK {
							mv, _ := s.get(k)
							var w []byte
							switch enc {
							case 0:
								w = []byte(mv)
							case dbm.ListKeyOnly:
								w = []byte(k)
							default:
								w = types.Encode(&types.KeyValue{Key: []byte(k), Value: []byte(mv)})
							}
							if !bytes.Equal(got[i], w) {
								return fmt.Sprintf("List(prefix %q, from %q, count %d, direction %d) entry %d = %q; model key %q value %q", p, from, n, dir, i, got[i], k, mv)
							}
						}
					}
				}
			}
		}
	}
	for _, k := range keys {
		outcome(r, "read:"+s.source(k)+"/"+s.hides(k))
		if f := checkGet(r, s, k); f != "" {
			return f
		}
	}
	return ""
}

type base struct {
	name string
	kv   layer
}

var bases = []base{
	{"base-all", layer{"a": "A0", "ab": "B0", "b": "C0"}},
	{"base-a", layer{"a": "A0"}},
	{"base-ab-empty", layer{"ab": "", "b": "C0"}},
	{"base-none", layer{}},
}

func mk(r *vx.Run, b base, depth int) *vx.Seq[*sys] {
	ops := mkOps()
	q := &vx.Seq[*sys]{Run: r, Name: b.name, NumOps: len(ops), MaxDepth: depth, Workers: 8}
	q.New = func() *sys {
		mem, _ := dbm.NewGoMemDB("c08", "", 0)
		for k, v := range b.kv {
			mem.Set([]byte(k), []byte(v))
		}
		return &sys{ldb: dbm.NewLocalDB(mem, false).(*dbm.LocalDB), base: b.kv, comm: layer{}, tx: layer{}}
	}
	q.OpName = func(i int) string { return ops[i].String() }
	q.Apply = func(s *sys, i int) string {
		o := ops[i]
		fail := ""
		switch o.kind {
		case "Begin":
			if s.intx {
				return "" // a nested Begin is unspecified: not issued
			}
			s.ldb.Begin()
			s.intx, s.tx = true, layer{}
		case "Commit":
			if !s.intx {
				return "" // Commit without an open transaction is unspecified: not issued
			}
			if err := s.ldb.Commit(); err != nil {
				fail = fmt.Sprintf("Commit error %v", err)
			}
			for k, v := range s.tx {
				s.comm[k] = v
			}
			s.intx, s.tx = false, layer{}
			outcome(r, "commit")
		case "Rollback":
			if !s.intx {
				return ""
			}
			s.ldb.Rollback()
			s.intx, s.tx = false, layer{}
			outcome(r, "rollback")
		case "set":
			var v []byte
			if o.v != "" {
				v = []byte(o.v)
			}
			if err := s.ldb.Set([]byte(o.k), v); err != nil {
				fail = fmt.Sprintf("Set error %v", err)
			}
			if s.intx {
				s.tx[o.k] = o.v
			} else {
				s.comm[o.k] = o.v
			}
		case "get":
			fail = checkGet(r, s, o.k)
		}
		return fail
	}
	// the real state is dumped before the oracle's Gets (they fill the read-through cache)
	q.Check = func(s *sys) string { s.canon = s.realCanon(); return queries(r, s) }
	// the model is part of the state so that equal real states with different expectations are both expanded
	q.Canon = func(s *sys) string {
		if s.canon == "" {
			s.canon = s.realCanon()
		}
		return vx.H(s.canon, fmt.Sprint(s.intx), s.tx.String(), s.comm.String())
	}
	q.FP = func(what string, h []int) string { return "localdb:" + vx.Norm(what, 40) }
	return q
}

func main() {
	r := vx.Start("C08", "model_checking")
	clog.SetLogLevel("crit")
	r.QuietStderr()
	debug.SetGCPercent(1000)
	r.Rule = "per pre-populated base (all three keys / one key / a base entry with an empty value / empty): BFS over all histories of {Begin (only when none is open), Commit, Rollback (only when one is open), Set(k,\"x\"|\"y\"|\"\"), Get(k)} over keys {a, ab, b} on the real LocalDB; after every transition every Get(k), every List(prefix in {a, empty, b}, from in {nil}+keys, count in {0,1,2}, ASC/DESC, value/key+value/key-only encoding) and every PrefixCount is compared with a three-map model. state = (intx, txcache, cache incl. read-through entries, maindb) of the real object. distinct = (layer that supplies the visible value or tombstone) x (number of layers holding the key) classes, commit, rollback"
	r.Assume = []string{
		"Begin is issued only when no transaction is open; Commit/Rollback only when one is open (the property does not specify the other cases)",
		"List with a start key returns the live entries strictly beyond it in the direction, also when the start key itself is absent or deleted",
		"the base database does not change underneath the LocalDB during a history",
		"only common/db LocalDB is driven; the blockchain EventLocal* message path on top of it is not",
	}
	r.DistinctSet = "outcomes"
	depth := r.Pick(5, 8)
	if raw, ok := r.Replaying(); ok {
		var c struct {
			Harness string
			Hist    []int
		}
		json.Unmarshal(raw, &c)
		for _, b := range bases {
			if b.name == c.Harness {
				if f := mk(r, b, depth).ReplayHist(c.Hist); f != "" {
					fmt.Println("replay: FAIL", f)
					r.Violate("replay", f, c, nil)
				} else {
					fmt.Println("replay: ok")
				}
			}
		}
		r.Finish()
	}
	for _, b := range bases {
		if o := os.Getenv("C08_ONLY"); o != "" && o != b.name {
			continue
		}
		mk(r, b, depth).Explore()
	}
	r.Floors["outcomes"] = 12
	r.Floors["states"] = 1000
	r.Finish()
}
