#!/bin/bash
# usage: checks/c22/mutx.sh <ID> <file> <regex> <repl> [<file> <regex> <repl> ...]   (like tools/mut.sh, several edits, verbose filter)
ID=$1; shift
export GOFLAGS=-mod=mod GOPROXY=off GOSUMDB=off GOTOOLCHAIN=local
WT=/tmp/vmut-$$
git -C /repo worktree add -q --detach $WT HEAD || exit 9
trap 'git -C /repo worktree remove --force $WT; rm -rf /verif/.work/*/mut_tmp_vmut-$$' EXIT
while [ $# -ge 3 ]; do
python3 - "$WT/$1" "$2" "$3" <<'PY'
import re,sys
f,p,r=sys.argv[1:4]
s=open(f).read()
n=len(re.findall(p,s,flags=re.S))
if n!=1: print("pattern matches",n,"times"); sys.exit(3)
open(f,'w').write(re.sub(p,r,s,count=1,flags=re.S))
PY
[ $? -eq 0 ] || exit 3
shift 3
done
git -C $WT diff > /verif/.work/$(echo $ID | tr A-Z a-z)/last-mut.diff
git -C $WT diff --stat | tail -1
if [ -n "${MUT_TEST:-}" ]; then (cd $WT && go test -count=1 -vet=off $MUT_TEST 2>&1 | tail -${MUT_TEST_LINES:-3}); fi
cd /verif && VERIF_REPO=$WT ./run.sh $ID ${MUT_TIER:-quick} | grep -E "what:|counters|tier=|VACUOUS|HARNESS|vacuous" | cut -c1-330 | tail -${MUT_LINES:-12}; rc=${PIPESTATUS[0]}
rm -f /verif/bin/*-mut_tmp_vmut-$$
echo "mutant exit=$rc"
