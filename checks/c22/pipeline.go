package main

import (
	"fmt"
	"sort"
	"strings"

	"github.com/33cn/chain33/queue"
	"github.com/33cn/chain33/system/mempool"
	"github.com/33cn/chain33/types"
	"verif/vx"
)

// Pipeline part of C22. The module admits a submission in three stages that run in different
// goroutines (basic checks in the event loop, signature workers, remote workers that finally push),
// so other pool events land between the stages of one submission and between the stages of two
// submissions. The stages are driven one at a time on a real Mempool module (shim V22Stage0/1/2) and
// every interleaving of the stages of two submissions with {RemoveTxs(T), AddBlock{T}} is enumerated
// (explicit-state BFS over stage histories). After every step every transaction in the pool must
// verify, be unique and not be on the chain; a forged copy may never be answered ok.
type pipeSub struct {
	name   string
	tx     *types.Transaction
	forged bool
	stage  int // 0 = not submitted .. 3 = finished
	msg    *queue.Message
	ok     bool
}

type pipeSys struct {
	n       *node
	onchain map[string]bool
	subs    []*pipeSub
	T       *types.Transaction
	hist    []string
}

func pipeSeq(r *vx.Run, pair string, depth int) *vx.Seq[*pipeSys] {
	q := &vx.Seq[*pipeSys]{Run: r, Name: "pipeline/" + pair, NumOps: 4, MaxDepth: depth, Workers: 1}
	q.New = func() *pipeSys {
		s := &pipeSys{onchain: map[string]bool{}}
		s.n = newNode(&kase{}, s.onchain)
		s.T = filler(5, 700, false)
		forged := types.Clone(s.T).(*types.Transaction)
		spoil(forged)
		other := filler(6, 701, false)
		if strings.HasPrefix(pair, "S1+S2") {
			// the sender of S1 and S2 already holds one transaction less than the per-sender limit
			for i := 0; i < perSender-1; i++ {
				if err := s.n.mem.PushTx(filler(7, 300+int64(i), false)); err != nil {
					panic(fmt.Sprintf("pre-state push failed: %v", err))
				}
			}
		}
		mk := func(name string) *pipeSub {
			switch name {
			case "S1":
				return &pipeSub{name: "S1", tx: filler(7, 711, false)}
			case "S2@sender-one-below-limit":
				return &pipeSub{name: "S2", tx: filler(7, 712, false)}
			case "T":
				return &pipeSub{name: "T", tx: s.T}
			case "forged-copy-of-T":
				return &pipeSub{name: name, tx: forged, forged: true}
			}
			return &pipeSub{name: "U", tx: other}
		}
		for _, nm := range strings.Split(pair, "+") {
			s.subs = append(s.subs, mk(nm))
		}
		return s
	}
	q.Close = func(s *pipeSys) { s.n.close() }
	q.OpName = func(i int) string {
		return []string{"advance(first)", "advance(second)", "RemoveTxs(T)", "AddBlock{T}"}[i]
	}
	q.Apply = func(s *pipeSys, i int) string {
		switch i {
		case 0, 1:
			sb := s.subs[i]
			switch sb.stage {
			case 0:
				sb.msg = mempool.V22Stage0(s.n.mem, types.Clone(sb.tx).(*types.Transaction))
			case 1:
				sb.msg = mempool.V22Stage1(s.n.mem, sb.msg)
			case 2:
				sb.msg = mempool.V22Stage2(s.n.mem, sb.msg)
				sb.ok = sb.msg.Err() == nil
			default:
				return ""
			}
			sb.stage++
			s.hist = append(s.hist, fmt.Sprintf("%s:stage%d", sb.name, sb.stage))
			if sb.stage == 3 {
				r.Seen("outcomes", fmt.Sprintf("pipeline:%s:answered-ok=%v", sb.name, sb.ok))
				if sb.forged && sb.ok {
					return fmt.Sprintf("pipeline:forged-signature-admitted| the copy of T with an altered signature is answered ok after %v", s.hist)
				}
			}
		case 2:
			s.n.mem.RemoveTxs(&types.TxHashList{Hashes: [][]byte{s.T.Hash()}})
			s.hist = append(s.hist, "RemoveTxs(T)")
		case 3:
			if s.onchain[string(s.T.Hash())] {
				return ""
			}
			s.onchain[string(s.T.Hash())] = true
			mempool.V21EventAddBlock(s.n.mem, &types.Block{Height: hdrHeight + 1, BlockTime: hdrTime + 1, Txs: []*types.Transaction{s.T}})
			s.hist = append(s.hist, "AddBlock{T}")
		}
		return ""
	}
	q.Check = func(s *pipeSys) string {
		seen := map[string]bool{}
		perFrom := map[string]int{}
		for _, tx := range mempool.V22Contents(s.n.mem) {
			h := string(tx.Hash())
			perFrom[tx.From()]++
			if perFrom[tx.From()] > perSender {
				return fmt.Sprintf("pipeline:sender-above-limit| the pool holds %d transactions of one sender (limit %d) after %v", perFrom[tx.From()], perSender, s.hist)
			}
			if seen[h] {
				return fmt.Sprintf("pipeline:duplicate-in-pool| the pool holds one transaction twice after %v", s.hist)
			}
			seen[h] = true
			if !tx.CheckSign(hdrHeight + 2) {
				return fmt.Sprintf("pipeline:unverifiable-transaction-in-pool| the pool holds a transaction whose signature does not verify after %v", s.hist)
			}
		}
		for _, sb := range s.subs {
			if sb.stage == 3 && !sb.ok && !sb.forged && seen[string(sb.tx.Hash())] {
				// (a forged copy shares its hash with the genuine transaction, which may rightly be in the pool)
				dup := false
				for _, o := range s.subs {
					if o != sb && o.stage == 3 && o.ok && string(o.tx.Hash()) == string(sb.tx.Hash()) {
						dup = true // the same transaction submitted twice: the refused copy is the duplicate
					}
				}
				if !dup {
					return fmt.Sprintf("pipeline:refused-submission-in-pool| submission %s was refused (%v) but the transaction is in the pool after %v", sb.name, sb.msg.Err(), s.hist)
				}
			}
		}
		return ""
	}
	q.Canon = func(s *pipeSys) string {
		var parts []string
		for _, sb := range s.subs {
			e := ""
			if sb.msg != nil && sb.msg.Err() != nil {
				e = sb.msg.Err().Error()
			}
			parts = append(parts, fmt.Sprintf("%s@%d:%s", sb.name, sb.stage, e))
		}
		var pool []string
		for _, tx := range mempool.V22Contents(s.n.mem) {
			pool = append(pool, fmt.Sprintf("%x/%v", tx.Hash()[:4], tx.CheckSign(hdrHeight+2)))
		}
		sort.Strings(pool)
		return vx.H(parts, pool, s.onchain[string(s.T.Hash())])
	}
	q.FP = func(what string, hist []int) string {
		if i := strings.Index(what, "|"); i > 0 {
			return what[:i]
		}
		return "pipeline:" + vx.Norm(what, 50)
	}
	return q
}

func pipelinePart(r *vx.Run) {
	for _, pair := range []string{"T+forged-copy-of-T", "forged-copy-of-T+T", "forged-copy-of-T+U", "T+T", "S1+S2@sender-one-below-limit"} {
		pipeSeq(r, pair, r.Pick(7, 8)).Explore()
	}
}
