// C22 — mempool admits only acceptable transactions.
// Depth-1 exhaustive exploration: a real Mempool module (NewMempool + SimpleQueue + SetQueueClient:
// the real event loop, the real check/sign/remote pipeline) on a real queue, with scripted
// "blockchain" (last header, sync state, on-chain hash set), "execs" (accepts), "rpc" (current eth
// nonce per address) and "p2p" (sink) responders. For a valid single transaction and valid groups
// of 2 and 3 members, every admission clause of the statement is violated in turn at every member
// position (with the just-valid edge twin next to it), against several pool pre-states. The
// submission goes in as an EventTx message; the oracle is an independent predicate over the
// generated case: the submission may be found in the pool afterwards only if no clause is violated,
// and nothing else may have entered.
package main

import (
	"bytes"
	"encoding/json"
	"fmt"
	"os"
	"runtime"
	"sort"
	"strings"
	"sync"

	"github.com/33cn/chain33/common"
	"github.com/33cn/chain33/common/address"
	"github.com/33cn/chain33/common/crypto"
	clog "github.com/33cn/chain33/common/log"
	"github.com/33cn/chain33/queue"
	_ "github.com/33cn/chain33/system/address"
	"github.com/33cn/chain33/system/address/eth"
	_ "github.com/33cn/chain33/system/crypto/init"
	"github.com/33cn/chain33/system/crypto/secp256k1eth"
	cty "github.com/33cn/chain33/system/dapp/coins/types"
	"github.com/33cn/chain33/system/mempool"
	"github.com/33cn/chain33/types"
	"verif/vx"
)

const (
	hdrHeight = int64(10)
	hdrTime   = int64(4102444800) // header block time (2100-01-01): time expiries sit around it, far from the wall clock
	rate      = int64(100000)
	poolCap   = 8
	perSender = 2
	curNonce  = int64(5) // scripted current nonce of the eth-signed sender
)

var (
	cfg      *types.Chain33Config
	plain    []crypto.PrivKey // 0..2 member keys, 3 blacklisted sender, 4 recipient, 5.. filler senders
	ethKey   crypto.PrivKey
	ethSign  = types.EncodeSignID(secp256k1eth.ID, eth.ID)
	ethAddr  string
	rcpt     string
	blTo     string // blacklisted recipient / evm target
	blToRaw  []byte // its 20 raw bytes
	rcptRaw  []byte
	bigBytes = bytes.Repeat([]byte{7}, 90000)
)

func loadKey(name string, seed byte) crypto.PrivKey {
	c, err := crypto.Load(name, -1)
	if err != nil {
		panic(err)
	}
	b := bytes.Repeat([]byte{seed}, 32)
	b[0] = 1
	p, err := c.PrivKeyFromBytes(b)
	if err != nil {
		panic(err)
	}
	return p
}

func addrOf(p crypto.PrivKey) string {
	return address.PubKeyToAddr(address.DefaultID, p.PubKey().Bytes())
}

func raw20(a string) []byte {
	b, err := address.NewBtcAddress(a)
	if err != nil {
		panic(err)
	}
	return b.Hash160[:]
}

func setup() {
	clog.SetLogLevel("crit")
	queue.DisableLog()
	cfg = types.NewChain33Config(types.GetDefaultCfgstring())
	for i := 0; i < 16; i++ {
		plain = append(plain, loadKey(types.GetSignName("", types.SECP256K1), byte(0x11+i)))
	}
	ethKey = loadKey(secp256k1eth.Name, 0x77)
	ethAddr = address.PubKeyToAddr(eth.ID, ethKey.PubKey().Bytes())
	rcpt = addrOf(plain[4])
	rcptRaw = raw20(rcpt)
	blTo = addrOf(loadKey(types.GetSignName("", types.SECP256K1), 0x66))
	blToRaw = raw20(blTo)
	// the blacklist is process-global; it is set once and never changes
	types.SetBlockedAccountsForTest([]string{addrOf(plain[3]), blTo})
}

// ---- case description -------------------------------------------------------------------------

type member struct {
	Key    int    `json:"key"` // index into plain; -1 = the eth-signed key
	To     string `json:"to"`
	Expire int64  `json:"expire"`
	Nonce  int64  `json:"nonce"`
	Kind   string `json:"kind"` // "coins" | "big" (1500-byte payload) | "evm-contract:<addr>" | "evm-para:<hex>"
	BadSig bool   `json:"badSig,omitempty"`
}

type kase struct {
	Name      string   `json:"name"`
	Shape     int      `json:"shape"`
	Pos       int      `json:"pos"`
	Members   []member `json:"members"`
	FeeDelta  int64    `json:"feeDelta"`                          // fee = minimum at FeeRate + FeeDelta
	FeeRate   int64    `json:"feeRate"`                           // rate the fee is computed for
	LevelFee  bool     `json:"levelFee"`                          // tiered fee enabled
	BigFill   int      `json:"bigFill"`                           // 90 kB filler transactions in the pool (tier thresholds are 200 kB / 1 MB)
	Fill      int      `json:"fill"`                              // small filler transactions in the pool
	SameSnd   int      `json:"sameSender"`                        // transactions of member Pos' sender already in the pool
	Pending   int64    `json:"pending"`                           // eth-signed transaction of the eth key with this nonce already in the pool (-1 none)
	InPool    bool     `json:"inPool"`                            // the submission itself is already in the pool
	OnChain   int      `json:"onChain"`                           // member index whose hash the chain reports as present (-1 none)
	HdrParses bool     `json:"headerHashParsesAsGroup,omitempty"` // member 0's nonce is chosen so that the group header (a 32-byte hash) decodes as a types.Transactions message
	Want      string   `json:"violates"`                          // clause the generator violated ("" = none: just-valid twin or base)
}

func payload(kind string) (execer string, pl []byte, to string) {
	tr := &cty.CoinsAction{Value: &cty.CoinsAction_Transfer{Transfer: &types.AssetsTransfer{Amount: 1e8}}, Ty: cty.CoinsActionTransfer}
	switch {
	case kind == "coins":
		return "coins", types.Encode(tr), ""
	case kind == "big":
		tr.Value.(*cty.CoinsAction_Transfer).Transfer.Note = bytes.Repeat([]byte{9}, 1500)
		return "coins", types.Encode(tr), ""
	case strings.HasPrefix(kind, "evm-contract:"):
		a := &types.EVMContractAction4Chain33{Amount: 1, GasLimit: 10000, GasPrice: 1, ContractAddr: strings.TrimPrefix(kind, "evm-contract:")}
		return "evm", types.Encode(a), address.ExecAddress("evm")
	case strings.HasPrefix(kind, "evm-para:"):
		p, _ := common.FromHex(strings.TrimPrefix(kind, "evm-para:"))
		a := &types.EVMContractAction4Chain33{Amount: 1, GasLimit: 10000, GasPrice: 1, Para: p, ContractAddr: address.ExecAddress("evm")}
		return "evm", types.Encode(a), address.ExecAddress("evm")
	}
	panic(kind)
}

func signM(tx *types.Transaction, m member) {
	if m.Key < 0 {
		tx.Sign(ethSign, ethKey)
	} else {
		tx.Sign(types.SECP256K1, plain[m.Key])
	}
}

func minFee(txs []*types.Transaction, r int64) (sum int64) {
	for _, t := range txs {
		sum += int64(types.Size(t)/1000+1) * r
	}
	return sum
}

// build makes the signed submission of a case: (the transaction to submit, its members).
func build(k *kase) (*types.Transaction, []*types.Transaction) {
	var txs []*types.Transaction
	for _, m := range k.Members {
		ex, pl, execTo := payload(m.Kind)
		to := m.To
		if execTo != "" && m.To == rcpt {
			to = execTo // contract calls go to the executor address
		}
		txs = append(txs, &types.Transaction{Execer: []byte(ex), Payload: pl, Expire: m.Expire, Nonce: m.Nonce, To: to, ChainID: cfg.GetChainID()})
	}
	if len(txs) == 1 {
		t := txs[0]
		t.Fee = k.FeeRate
		for i := 0; i < 3; i++ {
			signM(t, k.Members[0])
			t.Fee = minFee(txs, k.FeeRate) + k.FeeDelta
		}
		signM(t, k.Members[0])
		if k.Members[0].BadSig {
			spoil(t)
		}
		return t, txs
	}
	g, err := types.CreateTxGroup(txs, k.FeeRate)
	if err != nil {
		panic(err)
	}
	if k.HdrParses {
		// settle the fee first (it is part of the head's hash), then walk member 0's nonce (2-byte
		// varints only, so that sizes do not move) until the group header parses as a message
		for j, m := range k.Members {
			signM(g.Txs[j], m)
		}
		g.Txs[0].Fee = minFee(g.Txs, k.FeeRate) + k.FeeDelta
		found := false
		for n := int64(1000); n < 16000 && !found; n++ {
			g.Txs[0].Nonce = n
			found = types.Decode(g.Txs[0].Hash(), &types.Transactions{}) == nil
		}
		if !found {
			panic("no nonce makes the group header parse")
		}
		g.RebuiltGroup()
	}
	for i := 0; i < 3; i++ {
		for j, m := range k.Members {
			signM(g.Txs[j], m)
		}
		g.Txs[0].Fee = minFee(g.Txs, k.FeeRate) + k.FeeDelta
		g.RebuiltGroup()
	}
	for j, m := range k.Members {
		signM(g.Txs[j], m)
	}
	for j, m := range k.Members {
		if m.BadSig {
			spoil(g.Txs[j])
		}
	}
	if k.HdrParses && types.Decode(g.Txs[1].Header, &types.Transactions{}) != nil {
		panic("group header does not parse although it was searched for")
	}
	if os.Getenv("VERIF_DEBUG") != "" {
		for j, t := range g.Txs {
			fmt.Printf("debug %s member %d: nonce=%d expire=%d fee=%d sigty=%d from=%s header=%x\n", k.Name, j, t.Nonce, t.Expire, t.Fee, t.Signature.Ty, t.From(), t.Header)
		}
	}
	return g.Tx(), g.Txs
}

func spoil(t *types.Transaction) {
	s := t.Signature.Clone()
	s.Signature[len(s.Signature)/2] ^= 0x01
	t.Signature = s
}

func filler(key int, nonce int64, big bool) *types.Transaction {
	_, pl, _ := payload("coins")
	t := &types.Transaction{Execer: []byte("coins"), Payload: pl, Fee: 10 * rate, Nonce: nonce, To: rcpt, ChainID: cfg.GetChainID()}
	if big {
		t.Execer, t.Payload, t.Fee = []byte("user.write"), bigBytes, 1e9
	}
	t.Sign(types.SECP256K1, plain[key])
	return t
}

// ---- independent admission predicate (written from the statement) -------------------------------

func senderOf(m member) string {
	if m.Key < 0 {
		return ethAddr
	}
	return addrOf(plain[m.Key])
}

// violated lists the clauses of the statement the case breaks, from the case description and the
// scripted environment only.
type vio struct {
	Clause string
	Pos    int // member the clause is about (0 for clauses about the submission as a whole)
}

func clauses(v []vio) []string {
	var l []string
	for _, x := range v {
		l = append(l, x.Clause)
	}
	sort.Strings(l)
	return l
}

func violated(k *kase, sub *types.Transaction, parts []*types.Transaction, pre []*types.Transaction) []vio {
	var v []vio
	at := 0
	add := func(s string) { v = append(v, vio{s, at}) }
	blocked := map[string]bool{addrOf(plain[3]): true, blTo: true}
	preBytes := int64(0)
	for _, p := range pre {
		preBytes += int64(types.Size(p))
		if bytes.Equal(p.Hash(), sub.Hash()) {
			add("in-pool")
		}
	}
	for i, m := range k.Members {
		at = i
		if m.BadSig {
			add("signature")
		}
		if k.OnChain == i {
			add("on-chain")
		}
		if m.Expire != 0 {
			if m.Expire <= types.ExpireBound && m.Expire <= hdrHeight+1 {
				add("expired-height")
			}
			if m.Expire > types.ExpireBound && m.Expire <= hdrTime {
				add("expired-time")
			}
		}
		if parts[i].To != rcpt && parts[i].To != blTo && parts[i].To != address.ExecAddress("evm") {
			add("recipient")
		}
		n := 0
		for _, p := range pre {
			if p.From() == senderOf(m) {
				n++
			}
		}
		if n >= perSender {
			add("sender-limit")
		}
		if blocked[senderOf(m)] {
			add("blacklist-from")
		}
		if blocked[parts[i].To] {
			add("blacklist-to")
		}
		if strings.HasPrefix(m.Kind, "evm-contract:") && blocked[strings.TrimPrefix(m.Kind, "evm-contract:")] {
			add("blacklist-evm-contract")
		}
		if strings.HasPrefix(m.Kind, "evm-para:") && strings.TrimPrefix(m.Kind, "evm-para:") == common.ToHex(blToRaw) {
			add("blacklist-evm-para")
		}
		if m.Key < 0 {
			if m.Nonce < curNonce {
				add("eth-nonce-low")
			}
			for _, p := range pre {
				if types.IsEthSignID(p.GetSignature().GetTy()) && p.From() == ethAddr && p.Nonce == m.Nonce {
					add("eth-nonce-pending")
				}
			}
		}
	}
	// fee: the minimum is one rate unit per started 1000 bytes of every member, at the base rate,
	// or at the tier rate when tiered fees are on (x10 from 1% of the maximal block size or 10% of
	// the maximal block transaction count in the pool, x100 from 5% / 50%)
	r := rate
	if k.LevelFee {
		maxTx := cfg.GetP(hdrHeight).MaxTxNumber
		switch {
		case preBytes >= int64(types.MaxBlockSize/20) || int64(len(pre)) >= maxTx/2:
			r = 100 * rate
		case preBytes >= int64(types.MaxBlockSize/100) || int64(len(pre)) >= maxTx/10:
			r = 10 * rate
		}
	}
	at = 0
	fee := parts[0].Fee
	if fee < minFee(parts, rate) {
		add("fee")
	} else if fee < minFee(parts, r) {
		add("fee-tier")
	}
	return v
}

// ---- environment ------------------------------------------------------------------------------

type node struct {
	q   queue.Queue
	mem *mempool.Mempool
	cli queue.Client
	srv []queue.Client
}

func serve(q queue.Queue, topic string, f func(c queue.Client, m *queue.Message)) queue.Client {
	c := q.Client()
	c.Sub(topic)
	go func() {
		for m := range c.Recv() {
			f(c, m)
		}
	}()
	return c
}

func newNode(k *kase, onchain map[string]bool) *node {
	n := &node{q: queue.New("channel")}
	n.q.SetConfig(cfg)
	n.srv = append(n.srv, serve(n.q, "blockchain", func(c queue.Client, m *queue.Message) {
		switch m.Ty {
		case types.EventGetLastHeader:
			m.Reply(c.NewMessage("", types.EventHeader, &types.Header{Height: hdrHeight, BlockTime: hdrTime}))
		case types.EventIsSync:
			m.Reply(c.NewMessage("", types.EventReplyIsSync, &types.IsCaughtUp{Iscaughtup: true}))
		case types.EventTxHashList:
			var dup [][]byte
			for _, h := range m.Data.(*types.TxHashList).Hashes {
				if onchain[string(h)] {
					dup = append(dup, h)
				}
			}
			m.Reply(c.NewMessage("", types.EventTxHashListReply, &types.TxHashList{Hashes: dup}))
		}
	}))
	n.srv = append(n.srv, serve(n.q, "execs", func(c queue.Client, m *queue.Message) {
		if m.Ty == types.EventCheckTx {
			res := &types.ReceiptCheckTxList{}
			for range m.GetData().(*types.ExecTxList).Txs {
				res.Errs = append(res.Errs, "")
			}
			m.Reply(c.NewMessage("", types.EventReceiptCheckTx, res))
		}
	}))
	n.srv = append(n.srv, serve(n.q, "rpc", func(c queue.Client, m *queue.Message) {
		if m.Ty == types.EventGetEvmNonce {
			a := m.GetData().(*types.ReqEvmAccountNonce).Addr
			nn := int64(0)
			if a == ethAddr {
				nn = curNonce
			}
			m.Reply(c.NewMessage("", types.EventGetEvmNonce, &types.EvmAccountNonce{Nonce: nn, Addr: a}))
		}
	}))
	n.srv = append(n.srv, serve(n.q, "p2p", func(c queue.Client, m *queue.Message) {}))
	mc := *cfg.GetModuleConfig().Mempool
	mc.PoolCacheSize, mc.MaxTxNumPerAccount, mc.MaxTxLast, mc.MinTxFeeRate, mc.IsLevelFee = poolCap, perSender, 4, rate, k.LevelFee
	n.mem = mempool.NewMempool(&mc)
	n.mem.SetQueueCache(mempool.NewSimpleQueue(mempool.SubConfig{PoolCacheSize: poolCap, ProperFee: rate}))
	n.mem.SetQueueClient(n.q.Client())
	n.mem.Wait()
	n.cli = n.q.Client()
	return n
}

func (n *node) close() {
	n.mem.Close()
	for _, c := range n.srv {
		c.Close()
	}
	n.q.Close()
}

type outcome struct {
	Ok      bool
	Msg     string
	Entered bool
	Others  int // hashes in the pool afterwards that were neither there before nor the submission
	Lost    int // hashes that left the pool
	// HdrParses: the submission is a group whose 32-byte header hash decodes as a types.Transactions
	// message (by search when the case asks for it, by accident for about 1 group in 500)
	HdrParses bool
}

// run executes one case on a fresh node.
func run(k *kase) (outcome, []vio) {
	sub, parts := build(k)
	onchain := map[string]bool{}
	if k.OnChain >= 0 {
		onchain[string(parts[k.OnChain].Hash())] = true
	}
	n := newNode(k, onchain)
	defer n.close()
	var pre []*types.Transaction
	push := func(t *types.Transaction) {
		if err := n.mem.PushTx(t); err != nil {
			panic(fmt.Sprintf("pre-state push failed: %v (%s)", err, k.Name))
		}
		pre = append(pre, t)
	}
	for i := 0; i < k.BigFill; i++ {
		push(filler(5+i, 100+int64(i), true))
	}
	for i := 0; i < k.Fill; i++ {
		push(filler(9+i/2, 200+int64(i), false))
	}
	for i := 0; i < k.SameSnd; i++ {
		m := k.Members[k.Pos]
		t := filler(5, 300+int64(i), false)
		signM(t, m)
		push(t)
	}
	if k.Pending >= 0 {
		t := filler(5, k.Pending, false)
		t.Nonce = k.Pending
		t.Sign(ethSign, ethKey)
		push(t)
	}
	if k.InPool {
		push(sub)
	}
	viol := violated(k, sub, parts, pre)
	before := map[string]bool{}
	for _, t := range mempool.V22Contents(n.mem) {
		before[string(t.Hash())] = true
	}
	msg := n.cli.NewMessage("mempool", types.EventTx, sub)
	n.cli.Send(msg, true)
	resp, err := n.cli.Wait(msg)
	var o outcome
	o.HdrParses = len(parts) > 1 && types.Decode(parts[1].Header, &types.Transactions{}) == nil
	if err != nil {
		o.Msg = "wait: " + err.Error()
	} else if rp, ok := resp.GetData().(*types.Reply); ok {
		o.Ok, o.Msg = rp.IsOk, string(rp.Msg)
	} else {
		o.Msg = fmt.Sprintf("reply %T", resp.GetData())
	}
	after := map[string]bool{}
	for _, t := range mempool.V22Contents(n.mem) {
		h := string(t.Hash())
		after[h] = true
		if bytes.Equal(t.Hash(), sub.Hash()) {
			if !before[h] {
				o.Entered = true
			}
		} else if !before[h] {
			o.Others++
		}
	}
	for h := range before {
		if !after[h] {
			o.Lost++
		}
	}
	return o, viol
}

// ---- case generation --------------------------------------------------------------------------

func baseCase(shape int) kase {
	k := kase{Shape: shape, FeeRate: rate, Pending: -1, OnChain: -1}
	for i := 0; i < shape; i++ {
		k.Members = append(k.Members, member{Key: i, To: rcpt, Nonce: 1000 + int64(i), Kind: "coins"})
	}
	return k
}

func clone(k kase) kase {
	k.Members = append([]member{}, k.Members...)
	return k
}

type modf struct {
	name, want string
	f          func(k *kase, m *member)
}

// mods lists the single-clause modifications (and their just-valid twins) applied to member pos.
func mods(pos int) []modf {
	return []modf{
		{"bad-signature", "signature", func(k *kase, m *member) { m.BadSig = true }},
		{"on-chain", "on-chain", func(k *kase, m *member) { k.OnChain = pos }},
		{"expire-height-next", "expired-height", func(k *kase, m *member) { m.Expire = hdrHeight + 1 }},
		{"expire-height-current", "expired-height", func(k *kase, m *member) { m.Expire = hdrHeight }},
		{"expire-height-after-next", "", func(k *kase, m *member) { m.Expire = hdrHeight + 2 }},
		{"expire-time-equal", "expired-time", func(k *kase, m *member) { m.Expire = hdrTime }},
		{"expire-time-before", "expired-time", func(k *kase, m *member) { m.Expire = hdrTime - 1 }},
		{"expire-time-after", "", func(k *kase, m *member) { m.Expire = hdrTime + 1 }},
		{"recipient-not-an-address", "recipient", func(k *kase, m *member) { m.To = "notaddress" }},
		{"recipient-bad-checksum", "recipient", func(k *kase, m *member) { m.To = rcpt[:len(rcpt)-1] + string(rune(rcpt[len(rcpt)-1]^1)) }},
		{"sender-at-limit", "sender-limit", func(k *kase, m *member) { k.SameSnd = perSender }},
		{"sender-one-below-limit", "", func(k *kase, m *member) { k.SameSnd = perSender - 1 }},
		{"blacklisted-sender", "blacklist-from", func(k *kase, m *member) { m.Key = 3 }},
		{"blacklisted-recipient", "blacklist-to", func(k *kase, m *member) { m.To = blTo }},
		{"blacklisted-evm-contract", "blacklist-evm-contract", func(k *kase, m *member) { m.Kind = "evm-contract:" + blTo }},
		{"evm-contract-ok", "", func(k *kase, m *member) { m.Kind = "evm-contract:" + rcpt }},
		{"blacklisted-evm-transfer-target", "blacklist-evm-para", func(k *kase, m *member) { m.Kind = "evm-para:" + common.ToHex(blToRaw) }},
		{"evm-transfer-target-ok", "", func(k *kase, m *member) { m.Kind = "evm-para:" + common.ToHex(rcptRaw) }},
		{"large-member-fee-one-below", "fee", func(k *kase, m *member) { m.Kind = "big"; k.FeeDelta = -1 }},
		{"large-member-fee-exact", "", func(k *kase, m *member) { m.Kind = "big" }},
		{"eth-nonce-current", "", func(k *kase, m *member) { m.Key = -1; m.Nonce = curNonce }},
		{"eth-nonce-ahead", "", func(k *kase, m *member) { m.Key = -1; m.Nonce = curNonce + 2 }},
		{"eth-nonce-below-current", "eth-nonce-low", func(k *kase, m *member) { m.Key = -1; m.Nonce = curNonce - 1 }},
		{"eth-nonce-zero", "eth-nonce-low", func(k *kase, m *member) { m.Key = -1; m.Nonce = 0 }},
		{"eth-nonce-already-pending", "eth-nonce-pending", func(k *kase, m *member) { m.Key = -1; m.Nonce = curNonce + 1; k.Pending = curNonce + 1 }},
		{"eth-other-nonce-pending", "", func(k *kase, m *member) { m.Key = -1; m.Nonce = curNonce + 1; k.Pending = curNonce }},
	}
}

func gen(quick bool) []kase {
	var out []kase
	emit := func(k kase, name, want string) {
		k.Name, k.Want = name, want
		out = append(out, k)
	}
	for _, shape := range []int{1, 2, 3} {
		for _, fill := range []int{0, poolCap - 1} {
			pre := fmt.Sprintf("n%d/fill%d/", shape, fill)
			withFill := func(k kase) kase {
				used := k.SameSnd
				if k.Pending >= 0 {
					used++
				}
				if k.InPool {
					used++
				}
				k.Fill = fill - used
				if k.Fill < 0 {
					k.Fill = 0
				}
				return k
			}
			b := baseCase(shape)
			emit(withFill(b), pre+"base", "")
			k := clone(b)
			k.InPool = true
			emit(withFill(k), pre+"already-in-pool", "in-pool")
			k = clone(b)
			k.FeeDelta = -1
			emit(withFill(k), pre+"fee-one-below-minimum", "fee")
			for pos := 0; pos < shape; pos++ {
				p := fmt.Sprintf("%spos%d/", pre, pos)
				mod := func(f func(k *kase, m *member)) kase {
					k := clone(b)
					k.Pos = pos
					f(&k, &k.Members[pos])
					return withFill(k)
				}
				for _, md := range mods(pos) {
					emit(mod(md.f), p+md.name, md.want)
				}
				if shape > 1 && fill == 0 {
					// the same expiry edges on a group whose 32-byte header hash happens to be a
					// well-formed protobuf message (about 1 hash in 500 is; the harness picks the nonce)
					for _, md := range mods(pos) {
						if strings.HasPrefix(md.name, "expire-") {
							k := mod(md.f)
							k.HdrParses = true
							emit(k, p+"header-hash-parses/"+md.name, md.want)
						}
					}
				}
				if !quick && shape > 1 {
					// thorough: every pair of violating modifications at every pair of positions
					for q := 0; q < shape; q++ {
						for _, m1 := range mods(pos) {
							for _, m2 := range mods(q) {
								if m1.want == "" || m2.want == "" || m1.name >= m2.name {
									continue
								}
								k := clone(b)
								k.Pos = pos
								m1.f(&k, &k.Members[pos])
								k.Pos = q
								m2.f(&k, &k.Members[q])
								if k.SameSnd > 0 && k.Members[q].Key != q {
									continue // the pre-state of the limit clause is tied to the member's own key
								}
								emit(withFill(k), fmt.Sprintf("%s%s+pos%d/%s", p, m1.name, q, m2.name), "*")
							}
						}
					}
				}
			}
		}
		// tiered fee: thresholds by pool bytes (2 x 90 kB below 1% of the block size, 3 x 90 kB above, 12 x 90 kB above 5%)
		pre := fmt.Sprintf("n%d/tier/", shape)
		b := baseCase(shape)
		b.LevelFee = true
		for _, t := range []struct {
			big  int
			mult int64
		}{{0, 1}, {2, 1}, {3, 10}} {
			for _, paid := range []int64{1, 10} {
				for _, d := range []int64{-1, 0} {
					k := clone(b)
					k.BigFill, k.FeeRate, k.FeeDelta = t.big, paid*rate, d
					want := ""
					if paid < t.mult || (paid == t.mult && d < 0) {
						want = "fee-tier"
					}
					if paid == 1 && d < 0 {
						want = "fee"
					}
					emit(k, fmt.Sprintf("%sbig%d/paid-x%d%+d", pre, t.big, paid, d), want)
				}
			}
		}
	}
	return out
}

func posClass(k *kase) string {
	switch {
	case k.Shape == 1:
		return "single"
	case k.Pos == 0:
		return "group-head"
	}
	return "group-member"
}

func main() {
	r := vx.Start("C22", "model_checking")
	r.QuietStderr()
	setup()
	r.Rule = "pipeline part: every interleaving (BFS over stage histories, depth 7/8) of the three admission stages (basic checks, signature stage, remote stage with the final push) of two submissions from {T, a copy of T with an altered signature, another transaction U} with RemoveTxs(T) and AddBlock{T} on a real module; after every step the pool holds only verifiable, unique, off-chain transactions and a forged copy is never answered ok. Flat part: every case = (shape: single / group of 2 / group of 3) x (member position) x (one admission clause violated, or its just-valid twin: signature, already in pool, on chain, height/time expiry edges, fee one unit below the minimum incl. a >1000-byte member and the tiered rate at the pool-size thresholds, two kinds of invalid recipient, sender at / one below the per-sender limit, blacklisted sender / recipient / EVM contract / EVM transfer target, eth-signed nonce below current / current / ahead / already pending; the expiry edges once more on groups whose 32-byte header hash is a well-formed protobuf message, the nonce of member 0 being searched for that) x (pool empty / one below capacity); thorough tier: additionally every pair of violating modifications at every pair of positions; one fresh mempool module per case, submission by EventTx. distinct = distinct (clause, position class, reply) outcome classes"
	r.Assume = []string{
		"blockchain (duplicate-on-chain query, last header), execs (CheckTx) and rpc (current eth nonce) are scripted responders on the real queue; what the real modules answer is outside this property",
		"only the direction stated by the property is a violation (entered the pool although a clause is violated, or something else entered); a valid submission that is refused is reported as a vacuous twin (exit 2), not as a violation",
		"'already in the pool' is read for the submission as a whole (its hash is in the pool); a group sharing non-head members with a pooled group is not generated",
		"blacklisted 'real recipient' (para-chain payload recipient) is not generated: it only exists on a para-chain configuration",
		"eth-native payloads (EVM plugin) are not generated; eth-signed means signature type secp256k1eth on a chain33-format transaction",
		"header block time is 2100-01-01 so that the extra wall-clock rule in checkExpireValid (time expiry within the next minute) never decides",
	}
	r.DistinctSet = "outcomes"
	cases := gen(r.Quick())
	type finding struct{ fp, what string }
	class := func(k *kase, pos int) string {
		switch {
		case k.Shape == 1:
			return "single"
		case pos == 0:
			return "group-head"
		}
		return "group-member"
	}
	one := func(k *kase) ([]finding, outcome, []vio) {
		o, viol := run(k)
		var fs []finding
		if o.Entered {
			// every violated clause was not enforced: one finding per clause, classed by the kind of member it sits on
			for _, v := range viol {
				fp := "admit:" + v.Clause + ":" + class(k, v.Pos)
				if o.HdrParses && strings.HasPrefix(v.Clause, "expired") {
					fp = "admit:expired:group-whose-header-hash-parses-as-a-group"
				}
				fs = append(fs, finding{fp, fmt.Sprintf("case %s: the submission entered the pool (reply ok=%v %q) although it violates: %s (member %d)", k.Name, o.Ok, o.Msg, v.Clause, v.Pos)})
			}
		}
		if o.Others > 0 {
			fs = append(fs, finding{"admit:foreign-transaction-entered", fmt.Sprintf("case %s: %d transactions other than the submission entered the pool", k.Name, o.Others)})
		}
		return fs, o, viol
	}
	if raw, ok := r.Replaying(); ok {
		var k kase
		json.Unmarshal(raw, &k)
		fs, o, _ := one(&k)
		for _, f := range fs {
			fmt.Println("replay: FAIL", f.what)
			r.Violate(f.fp, f.what, k, nil)
		}
		if len(fs) == 0 {
			fmt.Printf("replay: ok (%+v)\n", o)
		}
		r.Finish()
	}
	// the cases are executed in parallel (each on its own node) and judged afterwards in generation
	// order, so that what is reported does not depend on scheduling
	type result struct {
		fs   []finding
		o    outcome
		viol []vio
		done bool
	}
	res := make([]result, len(cases))
	var wg sync.WaitGroup
	ch := make(chan int, 16)
	for w := 0; w < runtime.NumCPU()/2+1; w++ {
		wg.Add(1)
		go func() {
			defer wg.Done()
			for i := range ch {
				if r.Expired("cases") {
					continue
				}
				fs, o, viol := one(&cases[i])
				res[i] = result{fs, o, viol, true}
			}
		}()
	}
	for i := range cases {
		ch <- i
	}
	close(ch)
	wg.Wait()
	var vacuous []string
	for i := range cases {
		k, o, viol := &cases[i], res[i].o, res[i].viol
		if !res[i].done {
			continue
		}
		if k.Want == "*" && len(viol) < 2 {
			continue // a generated pair whose two modifications overwrite each other: not a case
		}
		r.Count("evaluations", 1)
		if got := strings.Join(clauses(viol), "+"); got != k.Want && k.Want != "*" {
			vacuous = append(vacuous, fmt.Sprintf("%s: generator meant to violate %q, predicate says %q", k.Name, k.Want, got))
		}
		cl := k.Want
		if cl == "" {
			cl = "valid"
		}
		if cl != "*" {
			r.Seen("outcomes", cl+"|"+posClass(k)+"|"+fmt.Sprint(o.Entered)+"|"+vx.Norm(o.Msg, 40))
			r.Seen("clauses", cl+"|"+posClass(k))
		} else {
			r.Count("pair_cases", 1)
		}
		if o.Entered {
			r.Count("entered", 1)
		} else {
			r.Count("refused", 1)
		}
		if len(viol) == 0 && !o.Entered {
			vacuous = append(vacuous, fmt.Sprintf("%s: violates nothing but was refused: %s", k.Name, o.Msg))
		}
		if o.Ok != o.Entered || o.Lost > 0 {
			r.Note("reply and pool disagree in %s: ok=%v entered=%v lost=%d", k.Name, o.Ok, o.Entered, o.Lost)
			r.Count("reply_pool_disagree", 1)
		}
		if k.Want != "" && k.Want != "*" && k.Pos == k.Shape-1 && k.Fill == 0 {
			r.Sample(map[string]interface{}{"case": k.Name, "violates": clauses(viol), "reply_ok": o.Ok, "reply": o.Msg, "entered": o.Entered})
		}
		for _, f := range res[i].fs {
			kk, ff := *k, f
			r.Violate(f.fp, f.what, kk, func() string {
				fs2, _, _ := one(&kk)
				for _, f2 := range fs2 {
					if f2.fp == ff.fp {
						return f2.fp + f2.what
					}
				}
				return ""
			})
		}
	}
	if len(vacuous) > 0 {
		sort.Strings(vacuous)
		for i, v := range vacuous {
			if i < 12 {
				fmt.Println("  vacuous:", v)
			}
		}
		r.Count("vacuous_cases", int64(len(vacuous)))
		r.Floors["no_vacuous_cases"] = 1
	}
	r.Floors["outcomes"] = 30
	r.Floors["clauses"] = 30
	r.Floors["entered"] = 60
	r.Floors["refused"] = 150
	pipelinePart(r)
	r.Finish()
}
