// C23 — the mempool hands block producers only packable transactions.
// Pool contents = every ordered selection (<=4 quick, <=5 thorough) of 8 transactions: plain a, b;
// one expiring by height, one by block time; eth-signed sender X with nonces 0,1,3 and sender Y
// with nonces 5 and 1; optionally the first one or two entries older than the pool-age limit. Every such
// pool (a real Mempool, filled through PushTx) is queried through the real EventTxList handler with
// every count, every exclusion subset of its hashes, four (height,time) header edges, four scripted
// (current nonce X, current nonce Y) answers of a fake "rpc" module and both iteration orders of
// the per-sender map (owned through source instrumentation). Oracle = the predicates of the
// statement, evaluated on every reply.
package main

import (
	"time"
	"bytes"
	"encoding/json"
	"fmt"
	"math/bits"
	"runtime"
	"sort"
	"sync"
	"sync/atomic"

	"github.com/33cn/chain33/common/address"
	"github.com/33cn/chain33/common/crypto"
	clog "github.com/33cn/chain33/common/log"
	"github.com/33cn/chain33/queue"
	_ "github.com/33cn/chain33/system/address"
	"github.com/33cn/chain33/system/address/eth"
	_ "github.com/33cn/chain33/system/crypto/init"
	"github.com/33cn/chain33/system/crypto/secp256k1eth"
	cty "github.com/33cn/chain33/system/dapp/coins/types"
	"github.com/33cn/chain33/system/mempool"
	"github.com/33cn/chain33/types"
	"verif/vrt"
	"verif/vx"
)

const (
	tExp = int64(4102444800) // block-time expiry of "et"
	hExp = int64(5)          // height expiry of "eh": expired for the next block when header height >= 4
)

type utx struct {
	name   string
	tx     *types.Transaction
	hash   string
	sender string // eth sender ("" for non-eth)
	nonce  int64
}

var (
	cfg     *types.Chain33Config
	uni     []*utx
	addrX   string
	addrY   string
	headers = [][2]int64{{3, tExp - 1}, {4, tExp - 1}, {3, tExp}, {4, tExp}}
	nonces  = [][2]int64{{0, 5}, {1, 4}, {2, 5}, {3, 6}, {1, 0}, {0, 1}}
	ethSign = types.EncodeSignID(secp256k1eth.ID, eth.ID)
)

func loadKey(name string, seed byte) crypto.PrivKey {
	c, err := crypto.Load(name, -1)
	if err != nil {
		panic(err)
	}
	b := bytes.Repeat([]byte{seed}, 32)
	b[0] = 1
	p, err := c.PrivKeyFromBytes(b)
	if err != nil {
		panic(err)
	}
	return p
}

func setup() {
	clog.SetLogLevel("crit")
	queue.DisableLog()
	cfg = types.NewChain33Config(types.GetDefaultCfgstring())
	if !cfg.IsFork(1, "ForkCheckEthTxSort") {
		panic("ForkCheckEthTxSort is not active in the default configuration")
	}
	pa, pb := loadKey(types.GetSignName("", types.SECP256K1), 0x21), loadKey(types.GetSignName("", types.SECP256K1), 0x22)
	kx, ky := loadKey(secp256k1eth.Name, 0x31), loadKey(secp256k1eth.Name, 0x32)
	addrX = address.PubKeyToAddr(eth.ID, kx.PubKey().Bytes())
	addrY = address.PubKeyToAddr(eth.ID, ky.PubKey().Bytes())
	to := address.PubKeyToAddr(address.DefaultID, pb.PubKey().Bytes())
	pl := types.Encode(&cty.CoinsAction{Value: &cty.CoinsAction_Transfer{Transfer: &types.AssetsTransfer{Amount: 1e8}}, Ty: cty.CoinsActionTransfer})
	mk := func(name string, nonce, expire int64, ty int32, k crypto.PrivKey, snd string) {
		t := &types.Transaction{Execer: []byte("coins"), Payload: pl, Fee: 100000, Expire: expire, Nonce: nonce, To: to, ChainID: cfg.GetChainID()}
		if name == "Y1" {
			t.Fee++ // the hash does not cover the signer: without this Y1 would BE X1
		}
		t.Sign(ty, k)
		u := &utx{name: name, tx: t, hash: string(t.Hash()), nonce: nonce}
		if types.IsEthSignID(t.Signature.Ty) {
			u.sender = t.From()
			if u.sender != snd {
				panic("eth sender address mismatch")
			}
		}
		uni = append(uni, u)
	}
	mk("a", 101, 0, types.SECP256K1, pa, "")
	mk("b", 102, 0, types.SECP256K1, pb, "")
	mk("eh", 103, hExp, types.SECP256K1, pa, "")
	mk("et", 104, tExp, types.SECP256K1, pb, "")
	mk("X0", 0, 0, ethSign, kx, addrX)
	mk("X1", 1, 0, ethSign, kx, addrX)
	mk("X3", 3, 0, ethSign, kx, addrX)
	mk("Y5", 5, 0, ethSign, ky, addrY)
	mk("Y1", 1, 0, ethSign, ky, addrY) // a nonce that is also pooled for X (and that is X's current nonce in one of the answers)
}

// env: a queue with a fake "rpc" module that answers the current-nonce query from a script.
type env struct {
	q   queue.Queue
	cli queue.Client
	mu  sync.Mutex
	cur map[string]int64
	nq  int64
}

func newEnv() *env {
	e := &env{q: queue.New("channel"), cur: map[string]int64{}}
	e.q.SetConfig(cfg)
	e.cli = e.q.Client()
	srv := e.q.Client()
	srv.Sub("rpc")
	go func() {
		for m := range srv.Recv() {
			if m.Ty == types.EventGetEvmNonce {
				a := m.GetData().(*types.ReqEvmAccountNonce).Addr
				e.mu.Lock()
				n := e.cur[a]
				e.nq++
				e.mu.Unlock()
				m.Reply(srv.NewMessage("", types.EventGetEvmNonce, &types.EvmAccountNonce{Nonce: n, Addr: a}))
			}
		}
	}()
	return e
}

// kase is one query against one pool.
type kase struct {
	Pool    []int    `json:"pool"` // indices into the universe, in arrival order
	Names   []string `json:"names"`
	Aged    int      `json:"aged"` // the first Aged entries are older than the pool-age limit
	Header  [2]int64 `json:"header"`
	Nonce   [2]int64 `json:"currentNonceXY"`
	Count   int64    `json:"count"`
	Exclude uint32   `json:"excludeMask"` // bit i = hash of Pool[i] is in the exclusion list
	Reverse bool     `json:"reverseSenderOrder"`
}

func (e *env) pool(k *kase) *mempool.Mempool {
	mc := *cfg.GetModuleConfig().Mempool
	mc.PoolCacheSize, mc.MaxTxNumPerAccount, mc.MaxTxLast, mc.MinTxFeeRate = 16, 16, 4, 100000
	mem := mempool.NewMempool(&mc)
	mem.SetQueueCache(mempool.NewSimpleQueue(mempool.SubConfig{PoolCacheSize: 16, ProperFee: 100000}))
	mempool.V23Attach(mem, e.cli)
	mempool.V23SetHeader(mem, k.Header[0], k.Header[1])
	for i, u := range k.Pool {
		if i == k.Aged && i > 0 {
			mempool.V23ShiftClock(mem, 600)
		}
		if err := mem.PushTx(uni[u].tx); err != nil {
			panic(err)
		}
	}
	if k.Aged >= len(k.Pool) && k.Aged > 0 {
		mempool.V23ShiftClock(mem, 600)
	}
	return mem
}

func (e *env) query(mem *mempool.Mempool, k *kase) ([]*types.Transaction, string) {
	mempool.V23SetHeader(mem, k.Header[0], k.Header[1])
	e.mu.Lock()
	e.cur[addrX], e.cur[addrY] = k.Nonce[0], k.Nonce[1]
	e.mu.Unlock()
	req := &types.TxHashList{Count: k.Count}
	for i, u := range k.Pool {
		if k.Exclude&(1<<uint(i)) != 0 {
			req.Hashes = append(req.Hashes, []byte(uni[u].hash))
		}
	}
	msg := e.cli.NewMessage("mempool", types.EventTxList, req)
	mempool.V23EventTxList(mem, msg)
	resp, err := e.cli.Wait(msg)
	if err != nil {
		return nil, "EventTxList: " + err.Error()
	}
	l, ok := resp.GetData().(*types.ReplyTxList)
	if !ok {
		return nil, fmt.Sprintf("EventTxList reply is %T", resp.GetData())
	}
	return l.Txs, ""
}

// judge evaluates the statement's predicates on one reply; returns (fingerprint, description).
func judge(k *kase, got []*types.Transaction) (string, string, string) {
	pos := map[string]int{}
	for i, u := range k.Pool {
		pos[uni[u].hash] = i
	}
	names := ""
	for _, t := range got {
		if p, ok := pos[string(t.Hash())]; ok {
			names += uni[k.Pool[p]].name + " "
		} else {
			names += "? "
		}
	}
	bad := func(fp, what string) (string, string, string) {
		return "list:" + fp, what + "; reply = [ " + names + "]", names
	}
	if int64(len(got)) > k.Count {
		return bad("more-than-requested", fmt.Sprintf("%d transactions returned, %d requested", len(got), k.Count))
	}
	seen := map[string]bool{}
	lastPlain := -1
	next := map[string]int64{addrX: k.Nonce[0], addrY: k.Nonce[1]}
	for _, t := range got {
		h := string(t.Hash())
		p, ok := pos[h]
		if !ok {
			return bad("not-from-the-pool", "a returned transaction is not in the pool")
		}
		u := uni[k.Pool[p]]
		if seen[h] {
			return bad("duplicate", u.name+" is returned twice")
		}
		seen[h] = true
		if k.Exclude&(1<<uint(p)) != 0 {
			return bad("excluded-hash-returned", u.name+" is returned although its hash is in the caller's exclusion list")
		}
		e := u.tx.Expire
		if e != 0 && e <= types.ExpireBound && e <= k.Header[0]+1 {
			return bad("expired-by-height-returned", fmt.Sprintf("%s (expire height %d) is returned for next block %d", u.name, e, k.Header[0]+1))
		}
		if e > types.ExpireBound && e <= k.Header[1] {
			return bad("expired-by-time-returned", fmt.Sprintf("%s (expire time T) is returned at block time T%+d", u.name, k.Header[1]-tExp))
		}
		if p < k.Aged {
			return bad("expired-by-age-returned", u.name+" has been in the pool for 600 s and is returned")
		}
		if u.sender == "" {
			if p < lastPlain {
				return bad("arrival-order-broken", u.name+" (not eth-signed) is returned before an earlier arrival")
			}
			lastPlain = p
		} else {
			if u.nonce != next[u.sender] {
				return bad("eth-nonce-order-broken", fmt.Sprintf("%s is returned where nonce %d of that sender is due (current nonce %d)", u.name, next[u.sender], map[string]int64{addrX: k.Nonce[0], addrY: k.Nonce[1]}[u.sender]))
			}
			next[u.sender]++
		}
	}
	return "", "", names
}

func has(pool []int, idx ...int) bool {
	for _, u := range pool {
		for _, i := range idx {
			if u == i {
				return true
			}
		}
	}
	return false
}

func ethSenders(pool []int) int {
	x, y := 0, 0
	for _, u := range pool {
		switch uni[u].sender {
		case addrX:
			x = 1
		case addrY:
			y = 1
		}
	}
	return x + y
}

var nsample int32

func main() {
	r := vx.Start("C23", "model_checking")
	r.QuietStderr()
	setup()
	if !r.Quick() {
		r.SetBudget(45 * time.Minute) // pools of five over nine transactions: about 15-25 minutes on 16 quiet cores
	}
	maxPool := r.Pick(4, 5)
	maxAged := r.Pick(1, 2)
	thinMasks := r.Quick()
	r.Rule = fmt.Sprintf("pool = every ordered selection of <=%d of {a, b, eh(expires at height 5), et(expires at block time T), X0, X1, X3, Y5, Y1} pushed into a real Mempool, first 0..%d entries aged 600 s; queries = EventTxList with every count 1..n+1 x every exclusion subset of the pool's hashes (quick tier: pools of the largest size get the empty, singleton and full lists only) x headers {(3,T-1),(4,T-1),(3,T),(4,T)} x current nonces (X,Y) in {(0,5),(1,4),(2,5),(3,6),(1,0),(0,1)} x both iteration orders of the per-sender map when two eth senders are present. states = distinct (ordered pool, aged prefix); transitions = pushes; distinct = distinct reply shapes (how many plain / eth entries, cut by count, nonce gap...)", maxPool, maxAged)
	r.Assume = []string{
		"the current-nonce query is answered by a scripted \"rpc\" module on the real queue",
		"per-sender nonce order is required within a sender; the relative order of different eth senders is free (both orders of the map iteration are forced and both must satisfy the predicates)",
		"only what the statement says is checked: the reply may be shorter than possible (e.g. nothing of a sender whose current nonce is missing) without being a violation",
		"pool age is owned by shifting EnterTime of the held items by 600 s (the pool uses the clock only as Now-EnterTime); header block times sit at 2100-01-01 so the wall clock never decides",
		"groups and para-chain eth-signed transactions are not in the universe",
	}
	r.DistinctSet = "outcomes"

	run1 := func(e *env, k *kase) (string, string) {
		mem := e.pool(k)
		vrt.MapOrderHook = nil
		if k.Reverse {
			vrt.MapOrderHook = reverse
		}
		got, err := e.query(mem, k)
		if err != "" {
			return "list:handler-error", err
		}
		fp, what, _ := judge(k, got)
		return fp, what
	}
	if raw, ok := r.Replaying(); ok {
		var k kase
		json.Unmarshal(raw, &k)
		fp, what := run1(newEnv(), &k)
		if fp != "" {
			fmt.Println("replay: FAIL", what)
			r.Violate(fp, what, k, nil)
		} else {
			fmt.Println("replay: ok")
		}
		r.Finish()
	}

	// all ordered selections
	var pools [][]int
	var rec func(cur []int, used uint)
	rec = func(cur []int, used uint) {
		if len(cur) > 0 {
			pools = append(pools, append([]int{}, cur...))
		}
		if len(cur) == maxPool {
			return
		}
		for i := range uni {
			if used&(1<<uint(i)) == 0 {
				rec(append(cur, i), used|1<<uint(i))
			}
		}
	}
	rec(nil, 0)
	sort.SliceStable(pools, func(i, j int) bool { return len(pools[i]) < len(pools[j]) }) // small pools first

	type fail struct {
		fp, what string
		k        kase
	}
	// the per-sender map order is a process-wide hook: one pass per order
	for pass := 0; pass < 2; pass++ {
		vrt.MapOrderHook = nil
		if pass == 1 {
			vrt.MapOrderHook = reverse
		}
		var wg sync.WaitGroup
		ch := make(chan []int, 64)
		fails := make([][]fail, runtime.NumCPU())
		for w := 0; w < runtime.NumCPU(); w++ {
			wg.Add(1)
			go func(w int) {
				defer wg.Done()
				e := newEnv()
				for pool := range ch {
					if r.Expired("pools") {
						continue
					}
					if pass == 1 && ethSenders(pool) < 2 {
						continue
					}
					k := kase{Pool: pool, Reverse: pass == 1}
					for _, u := range pool {
						k.Names = append(k.Names, uni[u].name)
					}
					for k.Aged = 0; k.Aged <= maxAged && k.Aged <= len(pool); k.Aged++ {
						k.Header = headers[0]
						mem := e.pool(&k)
						if pass == 0 && !r.Seen("states", fmt.Sprint(pool, k.Aged)) {
							r.Count("transitions", int64(len(pool)))
						}
						var nq int64
						hs, ns := headers, nonces
						if !has(pool, 2, 3) {
							hs = [][2]int64{headers[0], headers[3]} // nothing in the pool has an expiry: the header cannot matter to the predicates
						}
						if ethSenders(pool) == 0 {
							ns = nonces[:1]
						}
						for _, k.Header = range hs {
							for _, k.Nonce = range ns {
								for k.Count = 1; k.Count <= int64(len(pool))+1; k.Count++ {
									for k.Exclude = 0; k.Exclude < 1<<uint(len(pool)); k.Exclude++ {
										if thinMasks && len(pool) == maxPool && bits.OnesCount32(k.Exclude) > 1 && k.Exclude != 1<<uint(len(pool))-1 {
											continue // quick tier: largest pools get the empty, singleton and full exclusion lists only
										}
										got, err := e.query(mem, &k)
										nq++
										if err != "" {
											fails[w] = append(fails[w], fail{"list:handler-error", err, k})
											continue
										}
										fp, what, names := judge(&k, got)
										if fp != "" {
											r.Count("violating_queries", 1)
											if len(fails[w]) > 2000 {
												continue
											}
											kk := k
											kk.Pool = append([]int{}, k.Pool...)
											fails[w] = append(fails[w], fail{fp, what, kk})
											continue
										}
										ne, np := 0, 0
										for _, t := range got {
											if types.IsEthSignID(t.Signature.Ty) {
												ne++
											} else {
												np++
											}
										}
										r.Seen("outcomes", fmt.Sprintf("plain%d eth%d full=%v", np, ne, int64(len(got)) == k.Count))
										if len(got) > 0 {
											if !r.Seen("replies", names) && ne > 0 && np > 0 && len(pool) >= 3 && atomic.AddInt32(&nsample, 1) <= 8 {
												r.Sample(map[string]interface{}{"pool": k.Names, "aged": k.Aged, "header": fmt.Sprintf("(h%d,T%+d)", k.Header[0], k.Header[1]-tExp), "current_nonce_X_Y": k.Nonce, "count": k.Count, "exclude_mask": k.Exclude, "reply": names})
											}
										}
									}
								}
							}
						}
						r.Count("executions", nq)
						if len(mempool.V23Contents(mem)) != len(pool) {
							fails[w] = append(fails[w], fail{"list:query-changed-the-pool", "the pool's contents changed while it was only queried", k})
						}
					}
				}
			}(w)
		}
		for _, p := range pools {
			ch <- p
		}
		close(ch)
		wg.Wait()
		// report in a scheduling-independent order: smallest pool, then lexicographic
		var all []fail
		for _, f := range fails {
			all = append(all, f...)
		}
		best := map[string]fail{}
		for _, f := range all {
			b, ok := best[f.fp]
			if !ok || less(&f.k, &b.k) {
				best[f.fp] = f
			}
		}
		for _, f := range best {
			f := f
			r.Violate(f.fp, fmt.Sprintf("%s; pool (arrival order) = %v, first %d aged, header (h%d,T%+d), current nonces X=%d Y=%d, count %d, excluded mask %b, reverse sender order %v", f.what, f.k.Names, f.k.Aged, f.k.Header[0], f.k.Header[1]-tExp, f.k.Nonce[0], f.k.Nonce[1], f.k.Count, f.k.Exclude, f.k.Reverse), f.k, func() string {
				e := newEnv()
				defer e.q.Close()
				fp, what := run1(e, &f.k)
				vrt.MapOrderHook = nil
				if pass == 1 {
					vrt.MapOrderHook = reverse
				}
				return fp + what
			})
		}
	}
	vrt.MapOrderHook = nil
	r.Floors["outcomes"] = 12
	r.Floors["replies"] = 100
	r.Floors["states"] = 1000
	r.Finish()
}

func reverse(n int) []int {
	p := make([]int, n)
	for i := range p {
		p[i] = n - 1 - i
	}
	return p
}

func less(a, b *kase) bool {
	if len(a.Pool) != len(b.Pool) {
		return len(a.Pool) < len(b.Pool)
	}
	for i := range a.Pool {
		if a.Pool[i] != b.Pool[i] {
			return a.Pool[i] < b.Pool[i]
		}
	}
	ka := fmt.Sprint(a.Aged, a.Header, a.Nonce, a.Count, a.Exclude)
	kb := fmt.Sprint(b.Aged, b.Header, b.Nonce, b.Count, b.Exclude)
	return ka < kb
}
