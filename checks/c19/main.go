// C19 — validity checks are independent of process history.
// Explicit-state search over all query histories (vx.Seq) on the real process-global caches, with
// the iteration order of the address driver table owned by the explorer (vinstr rule maprange on
// common/address): every answer, including the exact error, must equal the answer the same single
// query gets on fresh state under the canonical driver order.
package main

import (
	"encoding/json"
	"fmt"
	"os"
	"strings"

	"github.com/33cn/chain33/client/mocks"
	"github.com/33cn/chain33/common/address"
	"github.com/33cn/chain33/common/crypto"
	cclient "github.com/33cn/chain33/common/crypto/client"
	clog "github.com/33cn/chain33/common/log"
	"github.com/33cn/chain33/system/address/btc"
	"github.com/33cn/chain33/system/address/eth"
	_ "github.com/33cn/chain33/system/crypto/init"
	"github.com/33cn/chain33/system/dapp"
	"github.com/33cn/chain33/types"
	"github.com/decred/base58"
	ecommon "github.com/ethereum/go-ethereum/common"
	ecrypto "github.com/ethereum/go-ethereum/crypto"
	"verif/vrt"
	"verif/vx"
)

const (
	ethEnable     = 10 // address.enableHeight.eth
	forkMultiSign = 20 // ForkMultiSignAddress
	forkBase58    = 30 // ForkBase58AddressCheck
	forkFormat    = 40 // ForkFormatAddressKey
	edEnable      = 5  // crypto.enableHeight.ed25519
)

var (
	r   *vx.Run
	cfg *types.Chain33Config
)

type addrCase struct{ Name, Addr string }

var (
	addrs    []addrCase
	pubs     [][]byte
	txs      []*types.Transaction
	txName   []string
	orders   [][]int // permutations of the sorted driver ids; orders[0] = identity
	nDrivers int
)

type op struct {
	Kind  string // address.CheckAddress | dapp.CheckAddress | PubKeyToAddr | tx.From | tx.CheckSign
	Addr  int
	H     int64
	Order int
	ID    int32
	Pub   int
	Tx    int
}

var ops []op
var fresh []string

func (o op) String() string {
	switch o.Kind {
	case "address.CheckAddress", "dapp.CheckAddress":
		return fmt.Sprintf("%s(%s,h=%d)[driver order %v]", o.Kind, addrs[o.Addr].Name, o.H, orders[o.Order])
	case "PubKeyToAddr":
		return fmt.Sprintf("PubKeyToAddr(id=%d,pub%d)@ctxheight=%d", o.ID, o.Pub, o.H)
	case "tx.From":
		return fmt.Sprintf("%s.From()@ctxheight=%d", txName[o.Tx], o.H)
	}
	return fmt.Sprintf("%s.CheckSign(h=%d)", txName[o.Tx], o.H)
}

func errStr(e error) string {
	if e == nil {
		return "ok"
	}
	return "error: " + e.Error()
}

// run executes one query on the current process state.
func run(o op) (ans string) {
	if p := vx.Catch(func() {
		switch o.Kind {
		case "address.CheckAddress":
			vrt.MapOrderHook = func(n int) []int { return orders[o.Order] }
			ans = errStr(address.CheckAddress(addrs[o.Addr].Addr, o.H))
		case "dapp.CheckAddress":
			vrt.MapOrderHook = func(n int) []int { return orders[o.Order] }
			ans = errStr(dapp.CheckAddress(cfg, addrs[o.Addr].Addr, o.H))
		case "PubKeyToAddr":
			cclient.SetCurrentBlock(o.H, 0)
			ans = address.PubKeyToAddr(o.ID, pubs[o.Pub])
		case "tx.From":
			cclient.SetCurrentBlock(o.H, 0)
			ans = txs[o.Tx].From()
		case "tx.CheckSign":
			ans = fmt.Sprint(txs[o.Tx].CheckSign(o.H))
		}
	}); p != "" {
		ans = p
	}
	vrt.MapOrderHook = nil
	return ans
}

func reset() {
	address.VerifC19Reset()
	eth.VerifC19Reset()
	btc.VerifC19Reset()
	cclient.SetCurrentBlock(0, 0)
	vrt.MapOrderHook = nil
}

func canon() string {
	return address.VerifC19Dump() + "|" + eth.VerifC19Dump() + "|" + btc.VerifC19Dump() + "|" + fmt.Sprint(cclient.GetCryptoContext().CurrBlockHeight)
}

func b58(ver byte, body []byte, goodSum bool, extra int) string {
	raw := append([]byte{ver}, body...)
	raw = append(raw, make([]byte, extra)...)
	sum := doubleSha(raw)[:4]
	if !goodSum {
		sum = []byte{sum[0] ^ 0x55, sum[1], sum[2], sum[3]}
	}
	return base58.Encode(append(raw, sum...))
}

func doubleSha(b []byte) []byte {
	h := crypto.Sha256(b)
	return crypto.Sha256(h)
}

func perms(n int) [][]int {
	var out [][]int
	var rec func(p []int, used []bool)
	rec = func(p []int, used []bool) {
		if len(p) == n {
			out = append(out, append([]int{}, p...))
			return
		}
		for i := 0; i < n; i++ {
			if !used[i] {
				used[i] = true
				rec(append(p, i), used)
				used[i] = false
			}
		}
	}
	rec(nil, make([]bool, n))
	return out
}

// ethAt is the configured enable height of the eth driver in the configuration being explored
// (ethEnable, or -1: driver switched off, consulted only by queries without a height context).
var ethAt int64 = ethEnable

// utxoAt is the enable height of the utxo driver (0 by default: always on; with a positive height the
// base58 drivers' errors are no longer masked at low heights and the pre-fork compatibility rules decide).
var utxoAt int64

const utxoName = "utxo"

func setup() {
	ops, fresh, txs, txName, addrs = nil, nil, nil, nil, nil
	cfg = types.NewChain33Config(types.GetDefaultCfgstring())
	cfg.SetFork("ForkMultiSignAddress", forkMultiSign)
	cfg.SetFork("ForkBase58AddressCheck", forkBase58)
	cfg.SetFork(address.ForkFormatAddressKey, forkFormat)
	address.Init(&address.Config{DefaultDriver: "btc", EnableHeight: map[string]int64{"eth": ethAt, utxoName: utxoAt}})
	crypto.Init(&crypto.Config{EnableHeight: map[string]int64{"ed25519": edEnable}}, cfg.GetSubConfig().Crypto)
	api := &mocks.QueueProtocolAPI{}
	api.On("GetConfig").Return(cfg)
	cclient.SetQueueAPI(api)

	ids, en := address.VerifC19DriverIDs()
	if len(ids) < 3 || len(ids) > 5 || ids[2] != eth.ID || en[2] != ethAt {
		fmt.Println("HARNESS-ERROR expected address drivers btc/btcMultiSign/eth(/utxo) with eth enabled at", ethEnable, "got", ids, en)
		os.Exit(2)
	}
	nDrivers = len(ids)
	if r.Quick() {
		// identity first, then one order per other "last visited driver" (the loop returns the last error)
		id := make([]int, nDrivers)
		for i := range id {
			id[i] = i
		}
		orders = [][]int{id}
		for d := 0; d < nDrivers-1; d++ {
			o := append(append([]int{}, id[:d]...), id[d+1:]...)
			orders = append(orders, append(o, d))
		}
	} else {
		orders = perms(nDrivers)
	}

	c, _ := crypto.Load("secp256k1", -1)
	k1, _ := c.PrivKeyFromBytes(append([]byte{1}, make([]byte, 31)...))
	k2, _ := c.PrivKeyFromBytes(append([]byte{2}, make([]byte, 31)...))
	pubs = [][]byte{k1.PubKey().Bytes(), k2.PubKey().Bytes()}
	hash160 := base58.Decode(address.PubKeyToAddr(btc.NormalAddressID, pubs[0]))[1:21]
	ethLower := strings.ToLower(address.PubKeyToAddr(eth.ID, pubs[0]))
	addrs = []addrCase{
		{"valid-btc", address.PubKeyToAddr(btc.NormalAddressID, pubs[0])},
		{"valid-btcMultiSign", address.PubKeyToAddr(btc.MultiSignAddressID, pubs[0])},
		{"valid-eth-lower", ethLower},
		{"valid-eth-mixed", ecommon.HexToAddress(ethLower).Hex()},
		{"btc-bad-checksum-25bytes", b58(0, hash160, false, 0)},
		{"btc-bad-checksum-26bytes", b58(0, hash160, false, 1)},
		{"bad-version-7", b58(7, hash160, true, 0)},
		{"garbage", "not-an-address"},
		{"valid-utxo-outpoint", strings.Repeat("ab", 32) + ":1"},
	}
	ed, _ := crypto.Load("ed25519", -1)
	ek, _ := ed.PrivKeyFromBytes(append([]byte{3}, make([]byte, 31)...))
	mk := func(name string, ty int32, k crypto.PrivKey) {
		tx := &types.Transaction{Execer: []byte("coins"), Payload: []byte("p"), Fee: 1e6, Nonce: 7, To: addrs[0].Addr, ChainID: cfg.GetChainID()}
		tx.Sign(ty, k)
		txs = append(txs, tx)
		txName = append(txName, name)
	}
	mk("tx[secp256k1,eth-address]", types.EncodeSignID(types.SECP256K1, eth.ID), k1)
	mk("tx[ed25519,btc-address]", types.EncodeSignID(types.ED25519, btc.NormalAddressID), ek)

	heights := []int64{-1, 0, ethEnable - 1, ethEnable, forkMultiSign - 1, forkMultiSign, forkBase58 - 1, forkBase58}
	if !r.Quick() {
		heights = append(heights, ethEnable+1, forkMultiSign+1, forkBase58+1)
	}
	for _, kind := range []string{"address.CheckAddress", "dapp.CheckAddress"} {
		for a := range addrs {
			for _, h := range heights {
				for o := range orders {
					ops = append(ops, op{Kind: kind, Addr: a, H: h, Order: o})
				}
			}
		}
	}
	// public keys the eth driver cannot decompress as secp256k1 points (it then formats the hash of the raw
	// bytes): a 33-byte key whose x is not on the curve and a 32-byte key of another curve; eth driver only
	for x := byte(1); ; x++ {
		cand := append([]byte{2}, append(make([]byte, 31), x)...)
		if _, err := ecrypto.DecompressPubkey(cand); err != nil {
			pubs = append(pubs, cand)
			break
		}
	}
	pubs = append(pubs, ek.PubKey().Bytes())
	for _, id := range []int32{btc.NormalAddressID, btc.MultiSignAddressID, eth.ID} {
		for p := range pubs {
			if p >= 2 && id != eth.ID {
				continue
			}
			for _, h := range []int64{forkFormat - 1, forkFormat} {
				ops = append(ops, op{Kind: "PubKeyToAddr", ID: id, Pub: p, H: h})
			}
		}
	}
	for _, h := range []int64{forkFormat - 1, forkFormat} {
		ops = append(ops, op{Kind: "tx.From", Tx: 0, H: h})
	}
	for t := range txs {
		for _, h := range []int64{edEnable - 1, edEnable} {
			ops = append(ops, op{Kind: "tx.CheckSign", Tx: t, H: h})
		}
	}
	// fresh-state answer of every single query under the canonical driver order
	fresh = make([]string, len(ops))
	for i, o := range ops {
		reset()
		o.Order = 0
		fresh[i] = run(o)
		r.Seen("answers", o.Kind+":"+fresh[i])
	}
	reset()
}

// subject identifies what a query is about (for naming the cause of a divergence).
func subject(o op) string {
	switch o.Kind {
	case "address.CheckAddress", "dapp.CheckAddress":
		return "addr" + fmt.Sprint(o.Addr)
	case "PubKeyToAddr": // one cache per driver, keyed by public key
		return fmt.Sprintf("pub%d/id%d", o.Pub, o.ID)
	case "tx.From":
		return fmt.Sprintf("pub0/id%d", eth.ID)
	}
	return "tx" + fmt.Sprint(o.Tx)
}

func classify(what string, hist []int) string {
	last := ops[hist[len(hist)-1]]
	effect := "exact-answer-differs"
	if strings.HasPrefix(what, "validity flips") {
		effect = "validity-flips"
	}
	cause := "driver-order"
	if len(hist) > 1 && (last.Order == 0 || (last.Kind != "address.CheckAddress" && last.Kind != "dapp.CheckAddress")) {
		cause = "state-left-by-earlier-query-about-another-input"
	}
	for k := len(hist) - 2; k >= 0; k-- {
		p := ops[hist[k]]
		if subject(p) != subject(last) {
			continue
		}
		switch {
		case p.Kind == "PubKeyToAddr" || p.Kind == "tx.From":
			cause = "pubkey-addr-cache-keeps-answer-of-earlier-query"
			if p.H != last.H && (p.ID == eth.ID || p.Kind == "tx.From") {
				cause = "eth-addr-cache-keeps-format-of-earlier-context-height"
			}
		case p.H != last.H:
			cause = "validity-cache-keeps-answer-of-other-height"
		case p.Order != last.Order:
			cause = "validity-cache-keeps-answer-of-other-driver-order"
		default:
			cause = "validity-cache-changes-answer-of-repeated-query"
		}
		break
	}
	return fmt.Sprintf("%s:%s:%s", last.Kind, cause, effect)
}

func mkSeq() *vx.Seq[*struct{}] {
	q := &vx.Seq[*struct{}]{Run: r, Name: "history", NumOps: len(ops), MaxDepth: r.Pick(3, 4), Workers: 1}
	q.New = func() *struct{} { reset(); return &struct{}{} }
	q.OpName = func(i int) string { return ops[i].String() }
	q.Apply = func(_ *struct{}, i int) string {
		got := run(ops[i])
		r.Count("evaluations", 1)
		if got == fresh[i] {
			return ""
		}
		if (got == "ok") != (fresh[i] == "ok") && (ops[i].Kind == "address.CheckAddress" || ops[i].Kind == "dapp.CheckAddress") {
			return fmt.Sprintf("validity flips: %s answers %q, the fresh-state answer is %q", ops[i], got, fresh[i])
		}
		return fmt.Sprintf("answer differs: %s answers %q, the fresh-state answer is %q", ops[i], got, fresh[i])
	}
	q.Canon = func(*struct{}) string { return canon() }
	q.FP = classify
	return q
}

func main() {
	clog.SetLogLevel("crit")
	r = vx.Start("C19", "model_checking")
	r.Rule = "BFS over all histories (depth 3 quick / 4 thorough) of queries {address.CheckAddress, dapp.CheckAddress} x 9 addresses (valid btc / multisig / eth lower / eth mixed / utxo outpoint, bad checksum 25 and 26 bytes, bad version, garbage) x heights around the eth enable height and the two address forks x driver-table iteration orders (quick: one per last-visited driver; thorough: all 24), PubKeyToAddr (two secp256k1 keys for every driver; for the eth driver also a 33-byte key that is not a curve point and a 32-byte ed25519 key) / tx.From at context heights around ForkFormatAddressKey, tx.CheckSign around a crypto enable height; process-global caches kept between queries; state = content of the validity cache and of the btc/multisig/eth public-key caches. Every answer is compared with the answer of the same single query on fresh state under the canonical driver order. distinct = distinct fresh answers"
	r.Assume = []string{
		"three configurations: address.enableHeight.eth=10; eth=-1 (driver switched off); eth=10 with the utxo driver gated at 10 as well; ForkMultiSignAddress=20, ForkBase58AddressCheck=30, ForkFormatAddressKey=40, crypto.enableHeight.ed25519=5 (set through address.Init / crypto.Init / cfg.SetFork)",
		"fresh-process state is emulated by purging the package caches through add-only overlay shims; the iteration order of address.drivers is owned by vinstr rule maprange (vrt.MapOrder)",
		"the crypto context height (SetCurrentBlock) is treated as the h of PubKeyToAddr / tx.From queries",
		"no executor is registered, so dapp.IsDriverAddress is always false",
	}
	r.DistinctSet = "answers"
	// two configurations: eth driver enabled from height 10; eth driver switched off (negative height)
	for ci, at := range []int64{ethEnable, -1, ethEnable} {
		ethAt, utxoAt = at, 0
		if ci == 2 {
			utxoAt = ethEnable // third configuration: utxo gated like eth
		}
		setup()
		q := mkSeq()
		q.Name = fmt.Sprintf("history[eth@%d,utxo@%d]", at, utxoAt)
		if raw, ok := r.Replaying(); ok {
			var c struct{ Hist []int }
			json.Unmarshal(raw, &c)
			if f := q.ReplayHist(c.Hist); f != "" {
				fmt.Println("replay: FAIL", q.Name, f)
				r.Violate("replay", f, c, nil)
			} else {
				fmt.Println("replay: ok", q.Name)
			}
			continue
		}
		q.Explore()
	}
	r.Floors["answers"] = 8
	r.Floors["states"] = 50
	r.Finish()
}
