package mvx

import (
	"bytes"
	"sort"

	dbm "github.com/33cn/chain33/common/db"
	"verif/vrt"
)

// SchedDB makes every database operation a scheduling point of the controlled scheduler (outside an
// exploration it is transparent), so that interleavings of a background pruning run with commits and
// reads are explored at the granularity of single reads, batch writes and scans. An iterator is a
// snapshot taken when it is created, which is what goleveldb (the production backend) gives; the
// in-memory backend's live iterator would add interleavings production cannot have.
type SchedDB struct{ dbm.DB }

func (d SchedDB) Get(k []byte) ([]byte, error) {
	vrt.SchedPoint("db.Get")
	return d.DB.Get(k)
}

func (d SchedDB) Set(k, v []byte) error {
	vrt.SchedPoint("db.Set")
	return d.DB.Set(k, v)
}

func (d SchedDB) SetSync(k, v []byte) error {
	vrt.SchedPoint("db.Set")
	return d.DB.SetSync(k, v)
}

func (d SchedDB) Delete(k []byte) error {
	vrt.SchedPoint("db.Delete")
	return d.DB.Delete(k)
}

func (d SchedDB) DeleteSync(k []byte) error {
	vrt.SchedPoint("db.Delete")
	return d.DB.DeleteSync(k)
}

type schedBatch struct{ dbm.Batch }

func (d SchedDB) NewBatch(sync bool) dbm.Batch { return schedBatch{d.DB.NewBatch(sync)} }

func (b schedBatch) Write() error {
	vrt.SchedPoint("db.BatchWrite")
	return b.Batch.Write()
}

type snapIt struct {
	k, v    [][]byte
	i       int
	prefix  []byte
	reverse bool
}

func (d SchedDB) Iterator(start, end []byte, reverse bool) dbm.Iterator {
	vrt.SchedPoint("db.Iterator")
	it := d.DB.Iterator(start, end, reverse)
	s := &snapIt{prefix: it.Prefix(), reverse: reverse, i: -1}
	for ok := it.Rewind(); ok; ok = it.Next() {
		s.k = append(s.k, append([]byte{}, it.Key()...))
		s.v = append(s.v, append([]byte{}, it.Value()...))
	}
	it.Close()
	return s
}

func (s *snapIt) Rewind() bool { s.i = 0; return s.Valid() }
func (s *snapIt) Next() bool   { s.i++; return s.Valid() }
func (s *snapIt) Seek(key []byte) bool {
	if s.reverse {
		s.i = sort.Search(len(s.k), func(j int) bool { return bytes.Compare(s.k[j], key) <= 0 })
	} else {
		s.i = sort.Search(len(s.k), func(j int) bool { return bytes.Compare(s.k[j], key) >= 0 })
	}
	return s.Valid()
}
func (s *snapIt) Valid() bool       { return s.i >= 0 && s.i < len(s.k) }
func (s *snapIt) Key() []byte       { return s.k[s.i] }
func (s *snapIt) Value() []byte     { return s.v[s.i] }
func (s *snapIt) ValueCopy() []byte { return append([]byte{}, s.v[s.i]...) }
func (s *snapIt) Error() error      { return nil }
func (s *snapIt) Prefix() []byte    { return s.prefix }
func (s *snapIt) IsReverse() bool   { return s.reverse }
func (s *snapIt) Close()            {}
