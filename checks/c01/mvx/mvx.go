// Package mvx is the plumbing shared by the state-tree checks C01..C05: building a real mavl
// Store over a chosen backend and sub-configuration, restarting it, dumping the raw database,
// reading through the Store API, the sorted-map reference for range reads and the structural
// (AVL) invariants evaluated on a raw copy of a committed tree.
package mvx

import (
	"bytes"
	"encoding/json"
	"fmt"
	"sort"
	"strings"

	dbm "github.com/33cn/chain33/common/db"
	"github.com/33cn/chain33/system/store/mavl"
	mavldb "github.com/33cn/chain33/system/store/mavl/db"
	"github.com/33cn/chain33/types"
)

// Cfg is one sub-configuration of the mavl store.
type Cfg struct {
	Name        string
	Prefix      bool
	MVCC        bool
	Prune       bool
	PruneHeight int32
	MemTree     bool
	MemVal      bool
}

// Sub renders the sub-configuration the way the node's config file hands it to mavl.New.
func (c Cfg) Sub() []byte {
	b, _ := json.Marshal(map[string]interface{}{
		"enableMavlPrefix": c.Prefix, "enableMVCC": c.MVCC, "enableMavlPrune": c.Prune,
		"pruneHeight": c.PruneHeight, "enableMemTree": c.MemTree, "enableMemVal": c.MemVal, "tkCloseCacheLen": 100,
	})
	return b
}

// ResetGlobals gives the mavl/db package the global state of a fresh process.
func ResetGlobals(c Cfg) { mavldb.VerifResetGlobals(c.MemTree, 100) }

// Open builds a real Store through the registered constructor. driver "memdb" gives a fresh
// in-memory database per call; "leveldb" opens (or reopens) the directory.
func Open(c Cfg, driver, dir string) *mavl.Store {
	st := mavl.New(&types.Store{Name: "mavl", Driver: driver, DbPath: dir, DbCache: 16}, c.Sub(), nil).(*mavl.Store)
	if driver == "memdb" {
		mavl.VerifSetDB(st, lenientDB{st.GetDB()})
	}
	return st
}

// lenientDB removes the one difference between the in-memory backend and goleveldb that the state
// store can run into: GoMemDB's Batch.Write returns "not found" when its last operation deletes an
// absent key (after having applied every operation; recorded by C06), goleveldb returns nil. The
// pruning bookkeeping deletes index keys that may already be gone and wraps the write in MustWrite.
type lenientDB struct{ dbm.DB }

type lenientBatch struct{ dbm.Batch }

func (d lenientDB) NewBatch(sync bool) dbm.Batch { return lenientBatch{d.DB.NewBatch(sync)} }

func (b lenientBatch) Write() error {
	if err := b.Batch.Write(); err != nil && !strings.Contains(err.Error(), "not found") {
		return err
	}
	return nil
}

// DropCaches empties the node cache that lives in the database object.
func DropCaches(st *mavl.Store) {
	if c := st.GetDB().GetCache(); c != nil {
		c.Purge()
	}
}

// RestartMem is a process restart for a store on the in-memory backend: same database content,
// new Store object (no pending trees), empty node cache, fresh package globals.
func RestartMem(st *mavl.Store, c Cfg) *mavl.Store {
	DropCaches(st)
	ResetGlobals(c)
	return mavl.VerifRestart(st)
}

// Dump returns every record of the raw database in key order.
func Dump(db dbm.DB) []string {
	it := db.Iterator(nil, types.EmptyValue, false)
	defer it.Close()
	var out []string
	for ok := it.Rewind(); ok; ok = it.Next() {
		out = append(out, string(it.Key())+"\x00=\x00"+string(it.Value()))
	}
	return out
}

// DumpKey is a canonical string of the raw database content.
func DumpKey(db dbm.DB) string { return strings.Join(Dump(db), "\x01") }

// KV builds a write list from k,v,k,v...
func KV(kv ...string) []*types.KeyValue {
	var l []*types.KeyValue
	for i := 0; i+1 < len(kv); i += 2 {
		l = append(l, &types.KeyValue{Key: []byte(kv[i]), Value: []byte(kv[i+1])})
	}
	return l
}

// Scribble overwrites the key and value buffers of a write list in place: the caller of the store
// owns them again once the call has returned (requests arrive in recycled messages), so a store
// that kept references instead of copies reads garbage afterwards.
func Scribble(kv []*types.KeyValue) {
	for _, p := range kv {
		for i := range p.Key {
			p.Key[i] = 0xEE
		}
		for i := range p.Value {
			p.Value[i] = 0xEE
		}
	}
}

// Get reads keys at a root through Store.Get.
func Get(st *mavl.Store, root []byte, keys []string) [][]byte {
	var ks [][]byte
	for _, k := range keys {
		ks = append(ks, []byte(k))
	}
	return st.Get(&types.StoreGet{StateHash: root, Keys: ks})
}

// CompareGets checks Store.Get of every key against the model content; "" if equal.
func CompareGets(st *mavl.Store, root []byte, keys []string, model map[string]string) string {
	vals := Get(st, root, keys)
	if len(vals) != len(keys) {
		return fmt.Sprintf("Get returned %d values for %d keys", len(vals), len(keys))
	}
	for i, k := range keys {
		want, ok := model[k]
		switch {
		case ok && want == "" && len(vals[i]) == 0:
			// an empty value is the state's "deleted" marker: it reads as empty or as nothing
		case ok && vals[i] == nil:
			return fmt.Sprintf("get: key %q written in this state reads as nothing", k)
		case ok && string(vals[i]) != want:
			return fmt.Sprintf("get: key %q reads %q, most recent write is %q", k, vals[i], want)
		case !ok && vals[i] != nil:
			return fmt.Sprintf("get: key %q never written in this state reads %q", k, vals[i])
		}
	}
	return ""
}

// Bound is a range bound; Nil = unbounded.
type Bound struct {
	Nil bool
	K   string
}

func (b Bound) Bytes() []byte {
	if b.Nil {
		return nil
	}
	return []byte(b.K)
}

func (b Bound) String() string {
	if b.Nil {
		return "nil"
	}
	return fmt.Sprintf("%q", b.K)
}

// Bounds returns nil plus every key of the alphabet as a bound.
func Bounds(keys []string) []Bound {
	bs := []Bound{{Nil: true}}
	for _, k := range keys {
		bs = append(bs, Bound{K: k})
	}
	return bs
}

// RangeModel lists the model's keys in [start,end) in the requested order.
func RangeModel(model map[string]string, start, end Bound, asc bool) []string {
	var ks []string
	for k := range model {
		if !start.Nil && k < start.K {
			continue
		}
		if !end.Nil && k >= end.K {
			continue
		}
		ks = append(ks, k)
	}
	sort.Strings(ks)
	if !asc {
		for i, j := 0, len(ks)-1; i < j; i, j = i+1, j-1 {
			ks[i], ks[j] = ks[j], ks[i]
		}
	}
	return ks
}

// CompareRange runs Store.IterateRangeByStateHash over [start,end) and compares the visited
// (key,value) sequence with the model; "" if equal.
func CompareRange(st *mavl.Store, root []byte, model map[string]string, start, end Bound, asc bool) string {
	var gotK []string
	var gotV [][]byte
	st.IterateRangeByStateHash(root, start.Bytes(), end.Bytes(), asc, func(k, v []byte) bool {
		gotK = append(gotK, string(k))
		gotV = append(gotV, append([]byte{}, v...))
		return false
	})
	want := RangeModel(model, start, end, asc)
	dir := "asc"
	if !asc {
		dir = "desc"
	}
	if len(gotK) != len(want) {
		return fmt.Sprintf("iterate[%v,%v) %s: visited %q, state has %q in bounds", start, end, dir, gotK, want)
	}
	for i := range want {
		if gotK[i] != want[i] {
			return fmt.Sprintf("iterate[%v,%v) %s: visited %q, state has %q in bounds", start, end, dir, gotK, want)
		}
		if string(gotV[i]) != model[want[i]] {
			return fmt.Sprintf("iterate[%v,%v) %s: key %q visited with value %q, state has %q", start, end, dir, want[i], gotV[i], model[want[i]])
		}
	}
	return ""
}

// CompareRangeInclusive loads the root into a fresh Tree and runs Tree.IterateRangeInclusive over
// [start,end] (the end key itself belongs to the range) and compares with the model; "" if equal.
func CompareRangeInclusive(st *mavl.Store, root []byte, model map[string]string, start, end Bound, asc bool) string {
	t := mavldb.NewTree(st.GetDB(), true, st.VerifTreeCfg())
	if err := t.Load(root); err != nil {
		return fmt.Sprintf("Tree.Load: %v", err)
	}
	var gotK []string
	var gotV [][]byte
	t.IterateRangeInclusive(start.Bytes(), end.Bytes(), asc, func(k, v []byte) bool {
		gotK = append(gotK, string(k))
		gotV = append(gotV, append([]byte{}, v...))
		return false
	})
	want := RangeModel(model, start, end, true)
	if !end.Nil {
		if _, ok := model[end.K]; ok && (start.Nil || end.K >= start.K) {
			want = append(want, end.K)
		}
	}
	if !asc {
		for i, j := 0, len(want)-1; i < j; i, j = i+1, j-1 {
			want[i], want[j] = want[j], want[i]
		}
	}
	dir := "asc"
	if !asc {
		dir = "desc"
	}
	if len(gotK) != len(want) {
		return fmt.Sprintf("iterate-inclusive[%v,%v] %s: visited %q, state has %q in bounds", start, end, dir, gotK, want)
	}
	for i := range want {
		if gotK[i] != want[i] {
			return fmt.Sprintf("iterate-inclusive[%v,%v] %s: visited %q, state has %q in bounds", start, end, dir, gotK, want)
		}
		if string(gotV[i]) != model[want[i]] {
			return fmt.Sprintf("iterate-inclusive[%v,%v] %s: key %q visited with value %q, state has %q", start, end, dir, want[i], gotV[i], model[want[i]])
		}
	}
	return ""
}

// Shape checks the structural invariants of a raw tree copy and renders its shape.
// bad == "" when: leaves have height 0/size 1; inner nodes have height = max(children)+1,
// size = sum, |balance| <= 1, key = smallest key of the right subtree, left keys < key <= right keys.
func Shape(n *mavldb.VerifNode) (shape string, leaves int, bad string) {
	if n == nil {
		return "-", 0, ""
	}
	var sb strings.Builder
	_, leaves = walkWithMin(n, &sb, &bad)
	if bad == "" {
		var prev []byte
		first := true
		var inorder func(n *mavldb.VerifNode)
		inorder = func(n *mavldb.VerifNode) {
			if n.Height == 0 {
				if !first && bytes.Compare(prev, n.Key) >= 0 && bad == "" {
					bad = fmt.Sprintf("leaves not strictly ascending: %q before %q", prev, n.Key)
				}
				prev, first = n.Key, false
				return
			}
			inorder(n.L)
			inorder(n.R)
		}
		inorder(n)
	}
	return sb.String(), leaves, bad
}

func walkWithMin(n *mavldb.VerifNode, sb *strings.Builder, bad *string) (minKey []byte, cnt int) {
	set := func(f string, a ...interface{}) {
		if *bad == "" {
			*bad = fmt.Sprintf(f, a...)
		}
	}
	if n.Height == 0 {
		if n.Size != 1 {
			set("leaf %q has size %d", n.Key, n.Size)
		}
		sb.WriteByte('.')
		return n.Key, 1
	}
	if n.L == nil || n.R == nil {
		set("inner node without two children")
		return n.Key, 0
	}
	sb.WriteByte('(')
	lmin, lc := walkWithMin(n.L, sb, bad)
	rmin, rc := walkWithMin(n.R, sb, bad)
	sb.WriteByte(')')
	h := n.L.Height
	if n.R.Height > h {
		h = n.R.Height
	}
	d := int(n.L.Height) - int(n.R.Height)
	lmax := maxKey(n.L)
	switch {
	case n.Height != h+1:
		set("inner node %q has height %d, children %d/%d", n.Key, n.Height, n.L.Height, n.R.Height)
	case n.Size != n.L.Size+n.R.Size:
		set("inner node %q has size %d, children %d+%d", n.Key, n.Size, n.L.Size, n.R.Size)
	case int(n.Size) != lc+rc:
		set("inner node %q has size %d but %d leaves below", n.Key, n.Size, lc+rc)
	case d > 1 || d < -1:
		set("inner node %q unbalanced: child heights %d/%d", n.Key, n.L.Height, n.R.Height)
	case !bytes.Equal(n.Key, rmin):
		set("inner node key %q is not the smallest key %q of its right subtree", n.Key, rmin)
	case bytes.Compare(lmax, n.Key) >= 0:
		set("left subtree of %q holds key %q", n.Key, lmax)
	}
	return lmin, lc + rc
}

func maxKey(n *mavldb.VerifNode) []byte {
	for n.Height > 0 && n.R != nil {
		n = n.R
	}
	return n.Key
}

// NewMemDB returns a fresh in-memory database with the batch leniency of goleveldb (see lenientDB).
func NewMemDB() dbm.DB {
	db, err := dbm.NewGoMemDB("mvx", "", 16)
	if err != nil {
		panic(err)
	}
	return lenientDB{db}
}
