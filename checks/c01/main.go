// C01 — the state tree behaves as a persistent versioned map.
//
// (a) Explicit-state search (vx.Seq) over histories of write batches on the real mavl Store
// (Store.Set -> SetKVPair -> Tree.Set/Save) over a fresh in-memory database per execution, and over
// real goleveldb with close+reopen. After every batch, for EVERY root committed so far: Store.Get of
// every alphabet key and Store.IterateRangeByStateHash for every (start,end,direction) are compared
// with a per-version map; Tree.Size after Load and the structural AVL invariants are read through an
// export shim. The battery is run on the live store and again after a restart (node cache dropped /
// database closed and reopened).
// (b) A deterministic family of large batches (hundreds of keys, four insertion orders, three batch
// sizes, then overwritten in another order) with the same oracle.
package main

import (
	"encoding/json"
	"fmt"
	"os"
	"path/filepath"
	"runtime/debug"
	"sort"
	"strings"
	"sync/atomic"

	clog "github.com/33cn/chain33/common/log"
	drivers "github.com/33cn/chain33/system/store"
	"github.com/33cn/chain33/system/store/mavl"
	mavldb "github.com/33cn/chain33/system/store/mavl/db"
	"github.com/33cn/chain33/types"
	"verif/checks/c01/mvx"
	"verif/vx"
)

var (
	cfgPlain  = mvx.Cfg{Name: "plain"}
	cfgPrefix = mvx.Cfg{Name: "prefix", Prefix: true}
	dirSeq    int64
	workRoot  string
)

type write struct{ k, v string }

type sys struct {
	cfg    mvx.Cfg
	driver string
	dir    string
	reopen bool // restart before every batch ("reopen" mode) in addition to the restart inside the oracle
	st     *mavl.Store
	roots  [][]byte
	models []map[string]string
	fail   string
}

func (s *sys) close() {
	if s.st != nil && s.driver != "memdb" {
		s.st.Close()
	}
	s.st = nil
	if s.dir != "" {
		os.RemoveAll(s.dir)
	}
}

func (s *sys) restart() {
	if s.driver == "memdb" {
		s.st = mvx.RestartMem(s.st, s.cfg)
		return
	}
	s.st.Close()
	s.st = mvx.Open(s.cfg, s.driver, s.dir)
}

func newSys(cfg mvx.Cfg, driver string, reopen bool) *sys {
	s := &sys{cfg: cfg, driver: driver, reopen: reopen}
	if driver != "memdb" {
		s.dir = filepath.Join(workRoot, fmt.Sprintf("db-%d", atomic.AddInt64(&dirSeq, 1)))
		os.RemoveAll(s.dir)
	}
	s.st = mvx.Open(cfg, driver, s.dir)
	return s
}

func (s *sys) parent() []byte {
	if len(s.roots) == 0 {
		return drivers.EmptyRoot[:]
	}
	return s.roots[len(s.roots)-1]
}

func (s *sys) cur() map[string]string {
	if len(s.models) == 0 {
		return map[string]string{}
	}
	return s.models[len(s.models)-1]
}

// commit applies one batch to the real store and the model.
func (s *sys) commit(ws []write) string {
	var kv []*types.KeyValue
	for _, w := range ws {
		kv = append(kv, &types.KeyValue{Key: []byte(w.k), Value: []byte(w.v)})
	}
	root, err := s.st.Set(&types.StoreSet{StateHash: s.parent(), KV: kv, Height: int64(len(s.roots) + 1)}, true)
	mvx.Scribble(kv) // the caller reuses its buffers after the call
	if err != nil || len(root) == 0 {
		return fmt.Sprintf("set-error| Store.Set failed: %v (root %x)", err, root)
	}
	m := map[string]string{}
	for k, v := range s.cur() {
		m[k] = v
	}
	for _, w := range ws {
		m[w.k] = w.v
	}
	s.roots = append(s.roots, root)
	s.models = append(s.models, m)
	return ""
}

// battery compares every read of the alphabet at root i with the model of version i.
func (s *sys) battery(i int, keys []string, bounds []mvx.Bound, shape bool) string {
	root, m := s.roots[i], s.models[i]
	where := "@latest-root"
	if i < len(s.roots)-1 {
		where = "@older-root"
	}
	if f := mvx.CompareGets(s.st, root, keys, m); f != "" {
		return "get" + where + "| " + fmt.Sprintf("root #%d of %d: ", i+1, len(s.roots)) + f
	}
	for _, st := range bounds {
		for _, en := range bounds {
			for _, asc := range []bool{true, false} {
				if f := mvx.CompareRange(s.st, root, m, st, en, asc); f != "" {
					return "iterate" + where + "| " + fmt.Sprintf("root #%d of %d: ", i+1, len(s.roots)) + f
				}
				if f := mvx.CompareRangeInclusive(s.st, root, m, st, en, asc); f != "" {
					return "iterate" + where + "| " + fmt.Sprintf("root #%d of %d: ", i+1, len(s.roots)) + f
				}
			}
		}
	}
	if shape {
		size, _, err := mavldb.VerifTreeRootInfo(s.st.GetDB(), root, s.st.VerifTreeCfg())
		if err != nil {
			return "load" + where + "| " + fmt.Sprintf("root #%d: Tree.Load: %v", i+1, err)
		}
		if int(size) != len(m) {
			return "size" + where + "| " + fmt.Sprintf("root #%d: Tree.Size=%d, state has %d keys", i+1, size, len(m))
		}
		n, err := mavldb.VerifLoadTree(s.st.GetDB(), root)
		if err != nil {
			return "shape" + where + "| " + err.Error()
		}
		_, leaves, bad := mvx.Shape(n)
		if bad != "" {
			return "shape" + where + "| " + fmt.Sprintf("root #%d: %s", i+1, bad)
		}
		if leaves != len(m) {
			return "shape" + where + "| " + fmt.Sprintf("root #%d: %d leaves, state has %d keys", i+1, leaves, len(m))
		}
	}
	return ""
}

// rotationClass says which rebalancing case inserting key k into the tree below n triggers
// ("none", "LL", "LR", "RR", "RL", or "overwrite@depthN"); classification only, never an oracle.
func rotationClass(n *mavldb.VerifNode, k string) string {
	if n == nil {
		return "first"
	}
	type step struct {
		n    *mavldb.VerifNode
		left bool
	}
	var path []step
	for n.Height > 0 {
		left := k < string(n.Key)
		path = append(path, step{n, left})
		if left {
			n = n.L
		} else {
			n = n.R
		}
	}
	if string(n.Key) == k {
		return fmt.Sprintf("overwrite@depth%d", len(path))
	}
	// new subtree replacing the leaf has height 1
	h := int32(1)
	for i := len(path) - 1; i >= 0; i-- {
		p := path[i]
		var lh, rh int32
		if p.left {
			lh, rh = h, p.n.R.Height
		} else {
			lh, rh = p.n.L.Height, h
		}
		if lh-rh > 1 || rh-lh > 1 {
			// direction of the two steps below the unbalanced node
			second := false
			if i+1 < len(path) {
				second = path[i+1].left
			} else {
				second = k < string(n.Key) // position relative to the replaced leaf
			}
			switch {
			case p.left && second:
				return "LL"
			case p.left && !second:
				return "LR"
			case !p.left && !second:
				return "RR"
			default:
				return "RL"
			}
		}
		h = lh
		if rh > h {
			h = rh
		}
		h++
		if h == p.n.Height {
			return "none"
		}
	}
	return "none"
}

func fp(what string) string {
	if i := strings.Index(what, "|"); i > 0 {
		return "tree:" + what[:i]
	}
	return "tree:" + vx.Norm(what, 40)
}

type harness struct {
	name   string
	cfg    mvx.Cfg
	driver string
	reopen bool
	keys   []string
	ops    [][]write
	depth  int
}

func (h harness) seq(r *vx.Run, workers int) *vx.Seq[*sys] {
	bounds := mvx.Bounds(h.keys)
	q := &vx.Seq[*sys]{Run: r, Name: h.name, NumOps: len(h.ops), MaxDepth: h.depth, Workers: workers}
	q.New = func() *sys { return newSys(h.cfg, h.driver, h.reopen) }
	q.Close = func(s *sys) { s.close() }
	q.OpName = func(i int) string {
		var p []string
		for _, w := range h.ops[i] {
			p = append(p, fmt.Sprintf("%q=%s", w.k, w.v))
		}
		return "Batch[" + strings.Join(p, ",") + "]"
	}
	q.Apply = func(s *sys, i int) string {
		if s.reopen && len(s.roots) > 0 {
			s.restart()
		}
		ws := h.ops[i]
		var pre *mavldb.VerifNode
		if len(ws) == 1 {
			pre, _ = mavldb.VerifLoadTree(s.st.GetDB(), s.parent())
		}
		prevRoot := s.parent()
		if f := s.commit(ws); f != "" {
			return f
		}
		if len(ws) == 1 {
			r.Seen("outcomes", "insert:"+rotationClass(pre, ws[0].k))
		} else {
			r.Seen("outcomes", fmt.Sprintf("batch%d", len(ws)))
		}
		if string(prevRoot) == string(s.parent()) {
			r.Seen("outcomes", "root-unchanged-by-batch")
		}
		return ""
	}
	q.Check = func(s *sys) string {
		for pass := 0; pass < 2; pass++ {
			bs := bounds
			if pass == 1 && s.driver == "memdb" {
				// an in-memory "restart" only drops the node cache and the Store object; the range
				// battery after it is reduced to the unbounded scans (the full one ran before it)
				bs = bounds[:1]
			}
			for i := range s.roots {
				b := bs
				if i < len(s.roots)-1 {
					// older roots: every point read and both unbounded scans (every key and value of the
					// version is visited); the full (start,end) battery ran when the root was the newest
					b = bounds[:1]
				}
				if f := s.battery(i, h.keys, b, true); f != "" {
					if pass == 1 {
						f = strings.Replace(f, "|", "-after-restart|", 1)
					}
					return f
				}
			}
			if pass == 0 {
				s.restart()
			}
		}
		// vacuity: did a read at an older root differ from the same read at the latest root?
		if n := len(s.models); n >= 2 {
			last := s.models[n-1]
			for _, m := range s.models[:n-1] {
				for k, v := range last {
					if ov, ok := m[k]; !ok {
						r.Seen("outcomes", "old-root-lacks-later-key")
					} else if ov != v {
						r.Seen("outcomes", "old-root-has-older-value")
					}
				}
			}
		}
		return ""
	}
	q.Canon = func(s *sys) string {
		parts := []interface{}{}
		for _, rt := range s.roots {
			parts = append(parts, rt)
		}
		parts = append(parts, mvx.DumpKey(s.st.GetDB()))
		return vx.H(parts...)
	}
	q.FP = func(what string, hist []int) string { return fp(what) }
	return q
}

func singles(keys []string) (ops [][]write) {
	for _, k := range keys {
		for _, v := range []string{"v1", "v2"} {
			ops = append(ops, []write{{k, v}})
		}
	}
	return
}

func upTo(keys []string, n int) (ops [][]write) {
	base := singles(keys)
	var rec func(cur []write)
	rec = func(cur []write) {
		if len(cur) >= 1 {
			ops = append(ops, append([]write{}, cur...))
		}
		if len(cur) == n {
			return
		}
		for _, b := range base {
			rec(append(cur, b[0]))
		}
	}
	rec(nil)
	return
}

// ---------------------------------------------------------------------------------------------
// large deterministic family

func largeKeys(n int) []string {
	set := map[string]bool{"": true, "\x00": true, "\xff": true, "k": true, "k\xff": true, "k\x00": true}
	for i := 0; len(set) < n; i++ {
		switch i % 4 {
		case 0:
			set[fmt.Sprintf("k%03d", i)] = true
		case 1:
			set[fmt.Sprintf("k%d", i)] = true // variable length, shares prefixes with case 0
		case 2:
			set[fmt.Sprintf("k%03d\xff", i-2)] = true // extends a key of case 0
		case 3:
			set[string([]byte{byte(i), byte(i >> 3)})] = true // binary
		}
	}
	var l []string
	for k := range set {
		l = append(l, k)
	}
	sort.Strings(l)
	return l
}

func orders(n int) map[string][]int {
	asc, desc, zig, rev := make([]int, n), make([]int, n), make([]int, 0, n), make([]int, 0, n)
	for i := 0; i < n; i++ {
		asc[i], desc[i] = i, n-1-i
	}
	for i, j := 0, n-1; i <= j; i, j = i+1, j-1 {
		zig = append(zig, i)
		if i != j {
			zig = append(zig, j)
		}
	}
	bits := 0
	for 1<<bits < n {
		bits++
	}
	for i := 0; i < 1<<bits; i++ {
		x := 0
		for b := 0; b < bits; b++ {
			if i&(1<<b) != 0 {
				x |= 1 << (bits - 1 - b)
			}
		}
		if x < n {
			rev = append(rev, x)
		}
	}
	return map[string][]int{"ascending": asc, "descending": desc, "zigzag": zig, "bitreversed": rev}
}

type largeCase struct {
	Driver string `json:"driver"`
	Cfg    string `json:"cfg"`
	N      int    `json:"n"`
	Order  string `json:"order"`
	Over   string `json:"overwrite_order"`
	Batch  int    `json:"batch"`
}

func runLarge(r *vx.Run, c largeCase) (fail string) {
	cfg := cfgPlain
	if c.Cfg == "prefix" {
		cfg = cfgPrefix
	}
	keys := largeKeys(c.N)
	ord := orders(len(keys))
	s := newSys(cfg, c.Driver, false)
	defer s.close()
	// bounds: nil, present keys at both ends and in the middle, absent keys between/outside
	mid := keys[len(keys)/2]
	bounds := []mvx.Bound{{Nil: true}, {K: ""}, {K: mid}, {K: mid + "\x00"}, {K: "l"}, {K: "\xff\xff"}}
	few := []mvx.Bound{{Nil: true}, {K: mid}, {K: mid + "\x00"}}
	full := func(i int) string { return s.battery(i, keys, bounds, true) }
	light := func(i int) string { return s.battery(i, keys, few, true) }
	scan := func(i int) string { return s.battery(i, keys, few[:1], true) }
	gets := func(i int) string { return s.battery(i, keys, nil, false) }
	phase := func(order []int, val string) string {
		for at := 0; at < len(order); at += c.Batch {
			end := at + c.Batch
			if end > len(order) {
				end = len(order)
			}
			var ws []write
			for _, ix := range order[at:end] {
				ws = append(ws, write{keys[ix], val + keys[ix]})
			}
			if f := s.commit(ws); f != "" {
				return f
			}
			r.Count("transitions", 1)
			// newest root: full range battery while batches are few, otherwise a 3-bound battery after
			// every batch and the full one every 32nd batch
			chk := full
			if c.Batch == 1 && len(s.roots)%32 != 0 {
				chk = light
				if len(s.roots)%8 != 0 {
					chk = scan
				}
			}
			if f := chk(len(s.roots) - 1); f != "" {
				return f
			}
			// every older root: point reads after every batch while there are few roots, otherwise
			// at checkpoints (every 64th batch); the full battery on all roots at the end of a phase
			if len(s.roots) <= 40 || len(s.roots)%64 == 0 {
				for i := 0; i < len(s.roots)-1; i++ {
					if f := gets(i); f != "" {
						return f
					}
				}
			}
		}
		step := 1
		if len(s.roots) > 40 {
			step = 16
		}
		for i := 0; i < len(s.roots); i += step {
			if f := full(i); f != "" {
				return f
			}
		}
		return ""
	}
	perr := vx.Catch(func() {
		if fail = phase(ord[c.Order], "v1-"); fail != "" {
			return
		}
		if fail = phase(ord[c.Over], "v2-"); fail != "" {
			return
		}
		s.restart()
		for i := range s.roots {
			if f := gets(i); f != "" {
				fail = strings.Replace(f, "|", "-after-restart|", 1)
				return
			}
		}
		for i := 0; i < len(s.roots); i += 1 + len(s.roots)/24 {
			if f := full(i); f != "" {
				fail = strings.Replace(f, "|", "-after-restart|", 1)
				return
			}
		}
		if f := full(len(s.roots) - 1); f != "" {
			fail = strings.Replace(f, "|", "-after-restart|", 1)
		}
	})
	if perr != "" {
		return "panic| " + perr
	}
	if fail == "" {
		n, _ := mavldb.VerifLoadTree(s.st.GetDB(), s.parent())
		if n != nil {
			r.Seen("outcomes", fmt.Sprintf("large:height%d", n.Height))
		}
		r.Seen("states", vx.H("large", c, s.parent()))
	}
	return fail
}

func main() {
	r := vx.Start("C01", "model_checking")
	clog.SetLogLevel("crit")
	r.QuietStderr()
	debug.SetGCPercent(400)
	workRoot = filepath.Join(vx.Root(), ".work", "c01", fmt.Sprintf("run-%d", os.Getpid()))
	os.MkdirAll(workRoot, 0o755)
	r.DistinctSet = "outcomes"
	r.Rule = "(c) working tree: BFS over all histories of {Set(k,v), Hash(), Proof(a), Get(b), Save} on one real mavl Tree (3-4 keys x 2 values, depth 5/6, plain / prefix / memTree+memVal; the operations of the unsaved batch are part of the state because queries memoise data in the tree): after every Save every saved root is loaded afresh and read, Save's root == Hash() just before it. (a) BFS over all histories of write batches (non-empty values v1/v2 over a colliding key alphabet with the empty key, binary keys and shared prefixes; batch sizes 1..3) chained root to root on the real mavl Store; a state = (list of committed roots, raw database content). After every batch and for every root committed so far: Store.Get of every alphabet key, both unbounded scans, Tree.Size, AVL invariants, and for the newest root Store.IterateRangeByStateHash and Tree.IterateRangeInclusive (end key included) for every start,end in alphabet+nil in both directions; all repeated after a restart (memdb: new Store object + caches dropped; goleveldb: close and reopen). Plus the deterministic large-batch family (N keys x 4 insertion orders x batch sizes {2N keys at once, 16, 1}, then overwritten in another order). distinct = rebalancing cases (LL/LR/RR/RL/none/overwrite depth), batch sizes, old-root-differs classes, large-tree heights observed"
	r.Assume = []string{"values are non-empty (an empty value and 'nothing' are both nil through Store.Get)", "histories contain writes only (the store API has no delete)", "sha256 collisions do not occur", "large family: older roots are re-read in full at checkpoints (every root by point reads while <=40 roots, every 64th batch beyond), not after every single batch"}

	k5 := []string{"", "a", "ab", "a\xff", "b"}
	k4 := []string{"", "a", "ab", "b"}
	k3 := []string{"a", "ab", "b"}
	k8 := []string{"", "a", "ab", "abc", "b", "\x00", "\xff", "a\xff"}
	var hs []harness
	if r.Quick() {
		hs = []harness{
			{"mem-live-1", cfgPlain, "memdb", false, k5, singles(k5), 4},
			{"mem-reopen-1", cfgPlain, "memdb", true, k5, singles(k5), 3},
			{"mem-live-3", cfgPlain, "memdb", false, k3, upTo(k3, 3), 2},
			{"mem-live-2", cfgPlain, "memdb", false, k4, upTo(k4, 2), 2},
			{"mem-prefix-1", cfgPrefix, "memdb", false, k5, singles(k5), 3},
			{"ldb-reopen-1", cfgPlain, "leveldb", true, k5, singles(k5), 2},
		}
	} else {
		hs = []harness{
			{"mem-live-1", cfgPlain, "memdb", false, k8, singles(k8), 5},
			{"mem-reopen-1", cfgPlain, "memdb", true, k8, singles(k8), 4},
			{"mem-live-3", cfgPlain, "memdb", false, k4, upTo(k4, 3), 2},
			{"mem-live-2", cfgPlain, "memdb", false, k5, upTo(k5, 2), 3},
			{"mem-prefix-1", cfgPrefix, "memdb", false, k8, singles(k8), 4},
			{"mem-prefix-2", cfgPrefix, "memdb", true, k4, upTo(k4, 2), 2},
			{"ldb-reopen-1", cfgPlain, "leveldb", true, k5, singles(k5), 3},
			{"ldb-reopen-2", cfgPrefix, "leveldb", true, k4, upTo(k4, 2), 2},
			{"mem-live-1-deep", cfgPlain, "memdb", false, k5, singles(k5), 6},
		}
	}
	var larges []largeCase
	nLarge := r.Pick(128, 512)
	ordNames := []string{"ascending", "descending", "zigzag", "bitreversed"}
	for i, o := range ordNames {
		over := ordNames[(i+1)%4]
		larges = append(larges, largeCase{"memdb", "plain", 2 * nLarge, o, over, 2 * nLarge})
		for _, b := range []int{16, 1} {
			larges = append(larges, largeCase{"memdb", "plain", nLarge, o, over, b})
		}
		larges = append(larges, largeCase{"memdb", "prefix", nLarge, o, over, 16})
		if !r.Quick() || i == 3 {
			larges = append(larges, largeCase{"leveldb", "plain", nLarge, o, over, 16})
		}
	}

	if raw, ok := r.Replaying(); ok {
		var c struct {
			Harness string
			Hist    []int
			Large   *largeCase
		}
		json.Unmarshal(raw, &c)
		f := "unknown case"
		if c.Large != nil {
			f = runLarge(r, *c.Large)
		} else {
			for _, h := range hs {
				if h.name == c.Harness {
					f = h.seq(r, 1).ReplayHist(c.Hist)
				}
			}
			for _, cf := range []mvx.Cfg{cfgPlain, cfgPrefix, {Name: "memTree+memVal", MemTree: true, MemVal: true}} {
				if "worktree-"+cf.Name == c.Harness {
					f = wtHarness(r, cf, 6).ReplayHist(c.Hist)
				}
			}
		}
		if f != "" {
			fmt.Println("replay: FAIL", f)
			r.Violate("replay", f, c, nil)
		} else {
			fmt.Println("replay: ok")
		}
		os.RemoveAll(workRoot)
		r.Finish()
	}

	for _, h := range hs {
		if o := os.Getenv("C01_ONLY"); o != "" && !strings.HasPrefix(h.name, o) {
			continue
		}
		h.seq(r, 8).Explore()
	}
	for _, c := range []mvx.Cfg{cfgPlain, cfgPrefix, {Name: "memTree+memVal", MemTree: true, MemVal: true}} {
		if o := os.Getenv("C01_ONLY"); (o != "" && o != "worktree") || (r.Quick() && c.MemTree) {
			continue
		}
		wtHarness(r, c, r.Pick(5, 6)).Explore()
	}
	for _, c := range larges {
		if o := os.Getenv("C01_ONLY"); o != "" && o != "large" {
			continue
		}
		if r.Expired("large family") {
			break
		}
		c := c
		if f := runLarge(r, c); f != "" {
			r.Violate(fp(f)+":large", fmt.Sprintf("%s in large family %s", f, vx.J(c)), map[string]interface{}{"large": c}, func() string { return runLarge(r, c) })
		}
		r.Count("executions", 1)
	}
	if os.Getenv("C01_ONLY") == "" && r.Counter("violating_cases") == 0 {
		r.Floors["outcomes"] = 12
		r.Floors["states"] = 500
		for _, need := range []string{"insert:LL", "insert:LR", "insert:RR", "insert:RL", "old-root-has-older-value", "old-root-lacks-later-key"} {
			if !r.Seen("outcomes", need) {
				// Seen added it: the class was NOT observed -> vacuous
				fmt.Printf("VACUOUS C01: outcome class %s never observed\n", need)
				os.Exit(2)
			}
		}
	}
	os.RemoveAll(workRoot)
	r.Finish()
}
