package main

import (
	"fmt"
	"sort"
	"strings"

	dbm "github.com/33cn/chain33/common/db"
	mavldb "github.com/33cn/chain33/system/store/mavl/db"
	"verif/checks/c01/mvx"
	"verif/vx"
)

// Part (c): one batch is built on a working tree, and the tree's read-only queries (root hash,
// proof, point read) may be called at any time while the batch is being written - they promise no
// side effect. Histories of {Set(k,v), Hash(), Proof(k), Get(k), Save} on the real mavl Tree over a
// fresh in-memory database: after every Save every root saved so far must read (after a fresh
// Load) with exactly the writes of its batches, the saved root must equal what Hash() returns at
// that moment, and nothing may panic.
type wtSys struct {
	db     dbm.DB
	cfg    *mavldb.TreeConfig
	t      *mavldb.Tree
	height int64
	cur    map[string]string   // content of the working tree
	roots  [][]byte            // saved roots
	models []map[string]string // their content
	dirty  bool                // writes since the last Save
	asked  bool                // a query was made since the last write
	batch  []int               // the operations of the current batch: a query may leave memoised data in the working tree, so two batches with equal content are not the same state
}

func wtCopy(m map[string]string) map[string]string {
	n := make(map[string]string, len(m))
	for k, v := range m {
		n[k] = v
	}
	return n
}

func wtHarness(r *vx.Run, c mvx.Cfg, depth int) *vx.Seq[*wtSys] {
	keys := []string{"a", "ab", "b", "c"}
	if r.Quick() {
		keys = keys[:3]
	}
	vals := []string{"v1", "v2"}
	nSet := len(keys) * len(vals)
	tc := &mavldb.TreeConfig{EnableMavlPrefix: c.Prefix, EnableMemTree: c.MemTree, EnableMemVal: c.MemVal, TkCloseCacheLen: 100}
	q := &vx.Seq[*wtSys]{Run: r, Name: "worktree-" + c.Name, NumOps: nSet + 4, MaxDepth: depth, Workers: 1}
	q.New = func() *wtSys {
		mvx.ResetGlobals(c)
		s := &wtSys{db: mvx.NewMemDB(), cfg: tc, cur: map[string]string{}}
		s.t = mavldb.NewTree(s.db, true, tc)
		s.height = 1
		s.t.SetBlockHeight(s.height)
		return s
	}
	q.OpName = func(i int) string {
		if i < nSet {
			return fmt.Sprintf("Set(%s,%s)", keys[i/len(vals)], vals[i%len(vals)])
		}
		return []string{"Hash()", "Proof(a)", "Get(b)", "Save"}[i-nSet]
	}
	q.Apply = func(s *wtSys, i int) string {
		s.batch = append(s.batch, i)
		switch {
		case i < nSet:
			k, v := keys[i/len(vals)], vals[i%len(vals)]
			s.t.Set([]byte(k), []byte(v))
			s.cur[k] = v
			s.dirty, s.asked = true, false
		case i == nSet:
			s.t.Hash()
			s.asked = true
		case i == nSet+1:
			if len(s.cur) > 0 {
				v, _, ok := s.t.Proof([]byte("a"))
				if want, has := s.cur["a"]; has != ok || (ok && string(v) != want) {
					return fmt.Sprintf("worktree:proof-answer| Proof(a) on the working tree answers %q,%v; the batch so far has %q,%v", v, ok, want, has)
				}
			}
			s.asked = true
		case i == nSet+2:
			_, v, ok := s.t.Get([]byte("b"))
			if want, has := s.cur["b"]; has != ok || (ok && string(v) != want) {
				return fmt.Sprintf("worktree:get-answer| Get(b) on the working tree answers %q,%v; the batch so far has %q,%v", v, ok, want, has)
			}
			s.asked = true
		default:
			if len(s.cur) == 0 {
				return ""
			}
			h := append([]byte{}, s.t.Hash()...)
			root := s.t.Save()
			if string(root) != string(h) {
				return fmt.Sprintf("worktree:save-root-differs-from-hash| Save returned %x, Hash() just before it %x", root, h)
			}
			r.Seen("outcomes", fmt.Sprintf("worktree:save:dirty=%v:queried-after-last-write=%v", s.dirty, s.asked))
			s.roots = append(s.roots, root)
			s.models = append(s.models, wtCopy(s.cur))
			s.height++
			s.t = mavldb.NewTree(s.db, true, s.cfg)
			s.t.SetBlockHeight(s.height)
			if err := s.t.Load(root); err != nil {
				return fmt.Sprintf("worktree:saved-root-does-not-load| Load(%x): %v", root, err)
			}
			s.dirty, s.asked = false, false
			s.batch = nil
		}
		return ""
	}
	q.Check = func(s *wtSys) string {
		for i, root := range s.roots {
			t := mavldb.NewTree(s.db, true, s.cfg)
			if err := t.Load(root); err != nil {
				return fmt.Sprintf("worktree:saved-root-does-not-load| root #%d: %v", i, err)
			}
			for _, k := range keys {
				_, v, ok := t.Get([]byte(k))
				want, has := s.models[i][k]
				if ok != has || (ok && string(v) != want) {
					return fmt.Sprintf("worktree:saved-root-reads-differ| root #%d of %d: key %q reads %q,%v; its batches wrote %q,%v", i, len(s.roots), k, v, ok, want, has)
				}
			}
			if int(t.Size()) != len(s.models[i]) {
				return fmt.Sprintf("worktree:saved-root-size| root #%d has size %d, its batches wrote %d keys", i, t.Size(), len(s.models[i]))
			}
		}
		return ""
	}
	q.Canon = func(s *wtSys) string {
		var ks []string
		for k, v := range s.cur {
			ks = append(ks, k+"="+v)
		}
		sort.Strings(ks)
		return vx.H(strings.Join(ks, ","), s.roots, s.dirty, s.asked, s.batch, mvx.DumpKey(s.db))
	}
	q.FP = func(what string, hist []int) string {
		if i := strings.Index(what, "|"); i > 0 {
			return what[:i] + ":" + c.Name
		}
		return "worktree:" + c.Name + ":" + vx.Norm(what, 50)
	}
	return q
}
