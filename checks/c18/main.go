// C18 — transaction root is consistent, provable and binding.
// Flat exhaustive enumeration: every leaf count 1..N x every worker count that yields a distinct
// chunk step (runtime.NumCPU in merkle.go is behind a seam): parallel root == sequential root ==
// Computation root == reference root; every index's branch verifies; multi-layer roots for all
// main/para mixes; injectivity over ALL lists over a 3-hash alphabet up to a length bound.
package main

import (
	"bytes"
	"crypto/sha256"
	"encoding/binary"
	"encoding/json"
	"fmt"
	"os"
	"sync"

	clog "github.com/33cn/chain33/common/log"
	"github.com/33cn/chain33/common/merkle"
	"github.com/33cn/chain33/types"
	"verif/vrt"
	"verif/vx"
)

var r *vx.Run
var cfg *types.Chain33Config

// ---- boring reference model -------------------------------------------------------------------

func h2(l, rr []byte) []byte {
	a := sha256.Sum256(append(append(make([]byte, 0, 64), l...), rr...))
	b := sha256.Sum256(a[:]) // chain33's node hash is double sha256 of left||right
	return b[:]
}

// refRoot: pairwise double-sha256 tree, an odd level duplicates its last node; one leaf is its own root.
func refRoot(leaves [][]byte) []byte {
	if len(leaves) == 0 {
		return nil
	}
	lv := append([][]byte{}, leaves...)
	for len(lv) > 1 {
		if len(lv)&1 == 1 {
			lv = append(lv, lv[len(lv)-1])
		}
		nx := make([][]byte, 0, len(lv)/2)
		for i := 0; i < len(lv); i += 2 {
			nx = append(nx, h2(lv[i], lv[i+1]))
		}
		lv = nx
	}
	return lv[0]
}

// expand: the leaf sequence of the padded full tree (every duplication written out). Two lists are
// "duplicated-tail related" iff their expansions are equal while the lists differ.
func expand(l []byte) string {
	type node []byte
	lv := make([]node, len(l))
	for i, c := range l {
		lv[i] = node{c}
	}
	for len(lv) > 1 {
		if len(lv)&1 == 1 {
			lv = append(lv, lv[len(lv)-1])
		}
		nx := make([]node, 0, len(lv)/2)
		for i := 0; i < len(lv); i += 2 {
			nx = append(nx, append(append(node{}, lv[i]...), lv[i+1]...))
		}
		lv = nx
	}
	return string(lv[0])
}

func leaf(i int) []byte {
	var b [8]byte
	binary.BigEndian.PutUint64(b[:], uint64(i)+0x5eed)
	h := sha256.Sum256(b[:])
	return h[:]
}

var leafTab [][]byte

// leaves returns a fresh slice header over n distinct pre-computed leaf hashes (the hashes
// themselves are never written by the code under test; the slice is).
func leaves(n int) [][]byte {
	for len(leafTab) < n {
		leafTab = append(leafTab, leaf(len(leafTab)))
	}
	return append(make([][]byte, 0, n), leafTab[:n]...)
}

func cp(l [][]byte) [][]byte { return append(make([][]byte, 0, len(l)), l...) } // the real code overwrites its input

// mirror of the chunk-step formula, used ONLY to choose representative worker counts and to label
// cases (never as an oracle).
func stepOf(n, w int) int {
	if n <= 80 || w <= 1 {
		return 0
	}
	q := n / w
	lg := 0
	if q > 0 {
		lg = 1
		for d := q; ; lg++ {
			d /= 2
			if d <= 1 {
				break
			}
		}
	}
	if lg < 1 {
		lg = 1
	}
	s := 1 << lg
	if s > 256 {
		s = 256
	}
	return s
}

var fixedW = []int{2, 3, 4, 5, 6, 7, 8, 12, 16, 24, 32, 48, 64, 96, 128, 192, 256, 1024}

func workerCounts(n, allBelow int) []int {
	set := map[int]bool{1: true}
	if n <= allBelow {
		for w := 1; w <= n+1; w++ {
			set[w] = true
		}
	} else {
		first, last := map[int]int{}, map[int]int{}
		for w := 2; w <= n+1; w++ {
			s := stepOf(n, w)
			if _, ok := first[s]; !ok {
				first[s] = w
			}
			last[s] = w
		}
		for s := range first {
			set[first[s]], set[last[s]] = true, true
		}
		for _, w := range fixedW {
			set[w] = true
		}
	}
	out := make([]int, 0, len(set))
	for w := 1; w <= n+1 || w <= 1024; w++ {
		if set[w] {
			out = append(out, w)
		}
	}
	return out
}

func withWorkers(w int, f func()) {
	vrt.NumCPUHook = func() int { return w }
	defer func() { vrt.NumCPUHook = nil }()
	f()
}

func remClass(n, step int) string {
	if step == 0 {
		return "seq"
	}
	rem := n % step
	switch {
	case rem == 0:
		return "full"
	case rem == 1:
		return "rem1"
	case rem&1 == 1:
		return "remodd"
	}
	return "remeven"
}

// ---- part A: roots ----------------------------------------------------------------------------

// rootCase checks one (n, w); returns failure text ("" = ok).
func rootCase(n, w int) string {
	lv := leaves(n)
	var seq, par []byte
	withWorkers(1, func() { seq = merkle.GetMerkleRoot(cp(lv)) })
	if p := vx.Catch(func() { withWorkers(w, func() { par = merkle.GetMerkleRoot(cp(lv)) }) }); p != "" {
		return "parallel root computation: " + p
	}
	if !bytes.Equal(seq, par) {
		return "parallel root differs from sequential root"
	}
	return ""
}

func seqCase(n int) string {
	lv := leaves(n)
	var seq []byte
	withWorkers(1, func() { seq = merkle.GetMerkleRoot(cp(lv)) })
	comp, _, _ := merkle.Computation(cp(lv), 1, 0)
	if !bytes.Equal(seq, comp) {
		return "Computation root differs from sequential GetMerkleRoot"
	}
	if !bytes.Equal(seq, refRoot(lv)) {
		return "sequential root differs from the reference merkle root"
	}
	return ""
}

func branchIdx(n, allBelow int) []int {
	if n <= allBelow {
		out := make([]int, n)
		for i := range out {
			out[i] = i
		}
		return out
	}
	set := map[int]bool{}
	add := func(i int) {
		if i >= 0 && i < n {
			set[i] = true
		}
	}
	for _, d := range []int{0, 1, 2, 3} {
		add(d)
		add(n - 1 - d)
		add(n/2 + d - 1)
	}
	for p := 1; p < n; p <<= 1 {
		add(p - 1)
		add(p)
		add(p + 1)
		add(n - p)
		add(n - p - 1)
		add((n - 1) &^ (p - 1)) // first index of the last (possibly partial) block of size p
		add((n-1)&^(p-1) - 1)
	}
	out := []int{}
	for i := 0; i < n; i++ {
		if set[i] {
			out = append(out, i)
		}
	}
	return out
}

func isBoundary(n, i int) bool {
	for _, j := range branchIdx(n, 0) {
		if j == i {
			return true
		}
	}
	return false
}

func branchCase(n, i int, root []byte) string {
	lv := leaves(n)
	br := merkle.GetMerkleBranch(cp(lv), uint32(i))
	got := merkle.GetMerkleRootFromBranch(br, lv[i], uint32(i))
	if !bytes.Equal(got, root) {
		return "branch does not verify against the root"
	}
	if n > 64 && !isBoundary(n, i) { // the combined entry point shares Computation: boundary indices only above 64 leaves
		return ""
	}
	r2, br2 := merkle.GetMerkleRootAndBranch(cp(lv), uint32(i))
	if !bytes.Equal(r2, root) {
		return "GetMerkleRootAndBranch root differs from GetMerkleRoot"
	}
	if !bytes.Equal(merkle.GetMerkleRootFromBranch(br2, lv[i], uint32(i)), root) {
		return "branch of GetMerkleRootAndBranch does not verify against the root"
	}
	return ""
}

type kase struct {
	Kind    string `json:"kind"`
	N       int    `json:"n,omitempty"`
	W       int    `json:"w,omitempty"`
	I       int    `json:"i,omitempty"`
	Pattern string `json:"pattern,omitempty"`
	A       []byte `json:"a,omitempty"`
	B       []byte `json:"b,omitempty"`
}

func runCase(c kase) string {
	switch c.Kind {
	case "root":
		return rootCase(c.N, c.W)
	case "seq":
		return seqCase(c.N)
	case "branch":
		return branchCase(c.N, c.I, refRoot(leaves(c.N))) // seqCase ties the reference root to GetMerkleRoot
	case "multi":
		return multiCase(c.Pattern, c.W)
	case "txroot":
		return txRootCase(c.N, c.W)
	case "inj":
		return injPair(c.A, c.B)
	case "duptail":
		return dupTailCase(c.N, c.I)
	}
	return "unknown case kind"
}

func violate(fp, what string, c kase) {
	r.Violate(fp, fmt.Sprintf("%s (case %s)", what, vx.J(c)), c, func() string { return runCase(c) })
}

func partRoots(N, allW, allIdx int) {
	r.SampleN(2, kase{Kind: "root", N: N, W: 16})
	// branches: independent of the worker count; run in the background while the root loop runs
	var wg sync.WaitGroup
	ch := make(chan int, 64)
	for g := 0; g < 8; g++ {
		wg.Add(1)
		go func() {
			defer wg.Done()
			for n := range ch {
				if r.Expired("branches") {
					continue
				}
				root := refRoot(leaves(n))
				for _, i := range branchIdx(n, allIdx) {
					r.Count("evaluations", 1)
					r.Count("branch_cases", 1)
					if f := branchCase(n, i, root); f != "" {
						pos := "mid"
						if i == n-1 {
							pos = "last"
						} else if i == 0 {
							pos = "first"
						}
						odd := "even"
						if n&1 == 1 {
							odd = "odd"
						}
						violate(fmt.Sprintf("branch:%s:%s-n:%s", vx.Norm(f, 50), odd, pos), f, kase{Kind: "branch", N: n, I: i})
					}
				}
			}
		}()
	}
	go func() {
		for n := 1; n <= N; n++ {
			ch <- n
		}
		close(ch)
	}()
	// roots: the worker-count hook is process-global, so this loop is sequential (the branch workers never read the hook)
	for n := 1; n <= N; n++ {
		if r.Expired("roots") {
			break
		}
		r.Count("evaluations", 1)
		if f := seqCase(n); f != "" {
			violate("root:"+vx.Norm(f, 60), f, kase{Kind: "seq", N: n})
		}
		for _, w := range workerCounts(n, allW) {
			st := stepOf(n, w)
			r.Count("evaluations", 1)
			r.Count("root_cases", 1)
			if st > 0 {
				r.Seen("distinct", fmt.Sprintf("n%d/step%d", n, st))
				r.Seen("chunkings", fmt.Sprintf("step%d/%s", st, remClass(n, st)))
			}
			if f := rootCase(n, w); f != "" {
				violate(fmt.Sprintf("root:%s:step%d:%s", vx.Norm(f, 50), st, remClass(n, st)), f, kase{Kind: "root", N: n, W: w})
			}
		}
	}
	// large lists: leaf counts per worker beyond the 256-leaf chunk cap (both tiers), around every
	// power of two up to 16384 and a few in between, few workers
	for _, base := range []int{1024, 2048, 4096, 8192, 16384} {
		for _, d := range []int{-255, -1, 0, 1, 100, 255, 256, 257} {
			n := base + d
			if n <= N || r.Expired("large roots") {
				continue
			}
			if f := seqCase(n); f != "" {
				violate("root:"+vx.Norm(f, 60), f, kase{Kind: "seq", N: n})
			}
			for _, w := range []int{2, 3, 4, 7, 8, 16, 31} {
				st := stepOf(n, w)
				r.Count("evaluations", 1)
				r.Count("root_cases", 1)
				r.Count("large_root_cases", 1)
				r.Seen("chunkings", fmt.Sprintf("large/per-worker>=%d/%s", 256*(n/w/256), remClass(n, st)))
				if f := rootCase(n, w); f != "" {
					violate(fmt.Sprintf("root:%s:large:step%d:%s", vx.Norm(f, 50), st, remClass(n, st)), f, kase{Kind: "root", N: n, W: w})
				}
			}
		}
	}
	wg.Wait()
	r.SampleN(3, kase{Kind: "branch", N: 301, I: 300})
}

// ---- part B: transaction lists, multi-layer ----------------------------------------------------

var execOf = map[byte]string{'M': "coins", 'A': "user.p.aa.coins", 'B': "user.p.bb.token", 'N': "none"}

func mkTxs(pattern string) []*types.Transaction {
	txs := make([]*types.Transaction, len(pattern))
	for i := range pattern {
		txs[i] = &types.Transaction{Execer: []byte(execOf[pattern[i]]), Payload: []byte(fmt.Sprintf("p%d", i)), Nonce: int64(i + 1), Fee: 100000,
			To: "1CbEVT9RnM5oZhWMj4fxUrJX94VtRotzvs", Signature: &types.Signature{Ty: 1, Pubkey: []byte{2, byte(i)}, Signature: []byte{byte(i), 9}}}
	}
	return txs
}

func txRootCase(n, w int) string {
	pat := bytes.Repeat([]byte{'M'}, n)
	txs := mkTxs(string(pat))
	var hashes [][]byte
	var caches []*types.TransactionCache
	for _, tx := range txs {
		hashes = append(hashes, tx.Hash())
		caches = append(caches, types.NewTransactionCache(tx))
	}
	want := refRoot(hashes)
	var got, gotc []byte
	withWorkers(w, func() {
		got = merkle.CalcMerkleRoot(cfg, 0, txs)
		gotc = merkle.CalcMerkleRootCache(caches)
	})
	if !bytes.Equal(got, want) {
		return "CalcMerkleRoot (before ForkRootHash) differs from the reference root of the tx hashes"
	}
	if !bytes.Equal(gotc, want) {
		return "CalcMerkleRootCache differs from the reference root of the tx hashes"
	}
	return ""
}

func multiCase(pattern string, w int) (fail string) {
	txs := mkTxs(pattern)
	var root, root2 []byte
	var childs []*types.ChildChain
	if p := vx.Catch(func() {
		withWorkers(w, func() {
			root, childs = merkle.CalcMultiLayerMerkleInfo(cfg, 1, txs)
			root2 = merkle.CalcMerkleRoot(cfg, 1, txs)
		})
	}); p != "" {
		return "multi-layer computation: " + p
	}
	if !bytes.Equal(root, root2) {
		return "CalcMerkleRoot differs from CalcMultiLayerMerkleInfo root"
	}
	if len(childs) == 0 {
		return "no child chains reported for a non-empty list"
	}
	// child ranges tile the list
	next := 0
	var chashes [][]byte
	for _, c := range childs {
		if int(c.StartIndex) != next || c.TxCount <= 0 {
			return "child-chain ranges do not tile the transaction list"
		}
		next += int(c.TxCount)
		chashes = append(chashes, c.ChildHash)
	}
	if next != len(txs) {
		return "child-chain ranges do not tile the transaction list"
	}
	for ci, c := range childs {
		var fh [][]byte
		for _, tx := range txs[c.StartIndex : c.StartIndex+c.TxCount] {
			fh = append(fh, tx.FullHash())
		}
		if !bytes.Equal(c.ChildHash, refRoot(fh)) {
			return "child-chain root is not the merkle root of the full hashes of its transactions"
		}
		for i := range fh {
			if len(fh) > 64 && !isBoundary(len(fh), i) {
				continue
			}
			br := merkle.GetMerkleBranch(cp(fh), uint32(i))
			if !bytes.Equal(merkle.GetMerkleRootFromBranch(br, fh[i], uint32(i)), c.ChildHash) {
				return "transaction branch does not verify against its child-chain root"
			}
			r.Count("evaluations", 1)
		}
		if len(childs) == 1 {
			if !bytes.Equal(c.ChildHash, root) {
				return "single child-chain root differs from the block root"
			}
			continue
		}
		br := merkle.GetMerkleBranch(cp(chashes), uint32(ci))
		if !bytes.Equal(merkle.GetMerkleRootFromBranch(br, c.ChildHash, uint32(ci)), root) {
			return "child-chain proof does not verify against the block root"
		}
	}
	if len(childs) > 1 && !bytes.Equal(root, refRoot(chashes)) {
		return "block root is not the merkle root of the child-chain roots"
	}
	r.Seen("multi_shapes", fmt.Sprintf("chains%d", len(childs)))
	return ""
}

func partMulti(L int) {
	// all sequences over {Main, paraA, paraB} up to length L
	var rec func(p []byte)
	rec = func(p []byte) {
		if len(p) > 0 {
			r.Count("evaluations", 1)
			r.Count("multi_cases", 1)
			if f := multiCase(string(p), 4); f != "" {
				violate("multi:"+vx.Norm(f, 60), f, kase{Kind: "multi", Pattern: string(p), W: 4})
			}
		}
		if len(p) == L || r.Expired("multi-layer patterns") {
			return
		}
		for _, c := range []byte("MAB") {
			rec(append(p, c))
		}
	}
	rec(nil)
	// long runs: child roots above the parallel threshold, odd/even/power-of-two sizes
	sizes := []int{0, 1, 2, 81, 128, 257}
	for _, a := range sizes {
		for _, b := range sizes {
			for _, c := range sizes {
				if a+b+c == 0 || r.Expired("multi-layer long runs") {
					continue
				}
				pat := string(bytes.Repeat([]byte{'M'}, a)) + string(bytes.Repeat([]byte{'A'}, b)) + string(bytes.Repeat([]byte{'B'}, c))
				for _, w := range []int{2, 16} {
					r.Count("evaluations", 1)
					r.Count("multi_cases", 1)
					if f := multiCase(pat, w); f != "" {
						violate("multi:"+vx.Norm(f, 60), f, kase{Kind: "multi", Pattern: pat, W: w})
					}
				}
			}
		}
	}
	r.SampleN(5, kase{Kind: "multi", Pattern: "MMABBA", W: 4})
	for _, n := range []int{1, 2, 3, 80, 81, 100, 255, 256, 257} {
		for _, w := range []int{1, 2, 3, 16} {
			r.Count("evaluations", 1)
			if f := txRootCase(n, w); f != "" {
				violate("txroot:"+vx.Norm(f, 60), f, kase{Kind: "txroot", N: n, W: w})
			}
		}
	}
}

// ---- part C: injectivity -----------------------------------------------------------------------

var alpha = [][]byte{leaf(1000), leaf(1001), leaf(1002)}

func toLeaves(l []byte) [][]byte {
	out := make([][]byte, len(l))
	for i, c := range l {
		out[i] = alpha[c]
	}
	return out
}

// injPair: a,b have equal roots; they must be identical or duplicated-tail related, and the longer
// one must be flagged mutated by Computation.
func injPair(a, b []byte) string {
	ra := merkle.GetMerkleRoot(toLeaves(a))
	rb := merkle.GetMerkleRoot(toLeaves(b))
	if !bytes.Equal(ra, rb) {
		return ""
	}
	if bytes.Equal(a, b) {
		return ""
	}
	if expand(a) != expand(b) {
		return "two lists that are not duplicated-tail related have the same root"
	}
	long := a
	if len(b) > len(a) {
		long = b
	}
	if len(a) == len(b) {
		return "two different lists of equal length have the same root"
	}
	_, mut, _ := merkle.Computation(toLeaves(long), 1, 0)
	if !mut {
		return "the longer of two lists with the same root is not flagged mutated"
	}
	return ""
}

// dupTailCase: n distinct leaves followed by a copy of the last t of them.
func dupTailCase(n, t int) string {
	l := make([][]byte, 0, n+t)
	for i := 0; i < n; i++ {
		l = append(l, leaf(2000+i))
	}
	long := append(append([][]byte{}, l...), l[n-t:]...)
	if !bytes.Equal(merkle.GetMerkleRoot(cp(l)), merkle.GetMerkleRoot(cp(long))) {
		return ""
	}
	r.Count("dup_tail_collisions", 1)
	r.Seen("dup_tail_lengths", fmt.Sprint(t))
	if _, mut, _ := merkle.Computation(cp(long), 1, 0); !mut {
		return fmt.Sprintf("%d distinct leaves followed by a copy of the last %d have the root of the %d leaves and are not flagged mutated", n, t, n)
	}
	return ""
}

func partInj(maxLen int) {
	byRoot := map[string][][]byte{}
	var rec func(p []byte)
	rec = func(p []byte) {
		if len(p) > 0 {
			l := append([]byte{}, p...)
			root := merkle.GetMerkleRoot(toLeaves(l))
			croot, _, _ := merkle.Computation(toLeaves(l), 1, 0)
			r.Count("evaluations", 1)
			r.Count("inj_lists", 1)
			if !bytes.Equal(root, croot) {
				violate("inj:computation-root-differs", "Computation root differs from GetMerkleRoot", kase{Kind: "inj", A: l, B: l})
			}
			byRoot[string(root)] = append(byRoot[string(root)], l)
		}
		if len(p) == maxLen {
			return
		}
		for c := byte(0); c < 3; c++ {
			rec(append(p, c))
		}
	}
	rec(nil)
	for _, ls := range byRoot {
		r.Seen("inj_roots", vx.H(expand(ls[0])))
		if len(ls) < 2 {
			continue
		}
		r.Count("inj_collision_classes", 1)
		for i := 0; i < len(ls); i++ {
			for j := i + 1; j < len(ls); j++ {
				r.Count("inj_collision_pairs", 1)
				r.Count("evaluations", 1)
				if f := injPair(ls[i], ls[j]); f != "" {
					violate("inj:"+vx.Norm(f, 70), f, kase{Kind: "inj", A: ls[i], B: ls[j]})
				}
			}
		}
	}
	// duplicated tails of every power-of-two length on lists of distinct leaves: whenever appending the last
	// 2^k leaves again leaves the root unchanged, the longer list must be flagged mutated
	for n := 1; n <= 200; n++ {
		for t := 1; t <= n; t *= 2 {
			r.Count("evaluations", 1)
			r.Count("dup_tail_cases", 1)
			if f := dupTailCase(n, t); f != "" {
				violate(fmt.Sprintf("inj:duplicated-tail-of-%d-leaves-not-flagged-mutated", t), f, kase{Kind: "duptail", N: n, I: t})
			}
		}
	}
	r.SampleN(7, kase{Kind: "inj", A: []byte{0, 1, 2}, B: []byte{0, 1, 2, 2}})
}

func main() {
	clog.SetLogLevel("crit")
	r = vx.Start("C18", "exploration")
	leaves(4200)
	r.Rule = "every leaf count 1..N (quick 600, thorough 4096) x worker counts (every w in 1..n+1 for small n; above that the first and last w of every distinct chunk step plus a fixed ladder 2..1024): parallel == sequential == Computation == reference root; every index's branch (all indices for small n, boundary indices above) verifies; all main/paraA/paraB sequences up to length L plus long-run mixes for the multi-layer root; all lists over a 3-hash alphabet up to a length bound for injectivity. distinct = distinct (leaf count, chunk step) pairs that took the parallel path"
	r.Assume = []string{"sha256 collisions are assumed away", "the worker-count seam (vinstr rule numcpu on common/merkle/merkle.go) replaces runtime.NumCPU() only", "blockchain.getMultiLayerProofs (needs a block store) is represented by the same two GetMerkleBranch calls it makes"}
	cfg = types.NewChain33Config(types.GetDefaultCfgstring())
	if !cfg.IsFork(1, "ForkRootHash") || cfg.IsFork(0, "ForkRootHash") {
		fmt.Println("HARNESS-ERROR default config no longer has ForkRootHash=1")
		os.Exit(2)
	}
	if raw, ok := r.Replaying(); ok {
		var c kase
		json.Unmarshal(raw, &c)
		if f := runCase(c); f != "" {
			fmt.Println("replay: FAIL", f)
			r.Violate("replay", f, c, nil)
		} else {
			fmt.Println("replay: ok")
		}
		r.Finish()
	}
	// the seam must be live, otherwise every worker count is the machine's
	probe := 0
	vrt.NumCPUHook = func() int { probe++; return 1 }
	merkle.GetMerkleRoot(leaves(100))
	vrt.NumCPUHook = nil
	if probe == 0 {
		fmt.Println("HARNESS-ERROR worker-count seam not reached by GetMerkleRoot")
		os.Exit(2)
	}
	partRoots(r.Pick(600, 4096), r.Pick(130, 300), r.Pick(300, 600))
	partMulti(r.Pick(6, 8))
	partInj(r.Pick(7, 10))
	r.Floors["distinct"] = int64(r.Pick(2000, 20000))
	r.Floors["chunkings"] = 20
	r.Floors["inj_collision_pairs"] = 100
	r.Floors["multi_shapes"] = 4
	r.Finish()
}
