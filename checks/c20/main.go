// C20 — difficulty compact encoding round-trips and orders work.
// Flat exhaustive enumeration: thorough = all 2^32 compact values; quick = a deterministic
// sub-lattice (every exponent x sign x {mantissas with <=2 set bits, every value of the top 12
// mantissa bits, boundary mantissas}). Plus integers of every byte length 0..34 with boundary bit
// patterns, and monotonicity of CalcWork along the canonical compacts in target order.
package main

import (
	"fmt"
	"math/big"
	"runtime"
	"sync"
	"time"

	"github.com/33cn/chain33/common/difficulty"
	"verif/vx"
)

var one = big.NewInt(1)

// refDecode is the specification of the compact format, written independently of the code:
// N = (-1^sign) * mantissa * 256^(exponent-3) with truncation toward zero for exponent<3.
func refDecode(c uint32) *big.Int {
	m := int64(c & 0x007fffff)
	e := int(c >> 24)
	n := big.NewInt(m)
	if e >= 3 {
		n.Lsh(n, uint(8*(e-3)))
	} else {
		n.Rsh(n, uint(8*(3-e)))
	}
	if c&0x00800000 != 0 {
		n.Neg(n)
	}
	return n
}

// refTrunc gives what survives of |n| under a 23-bit mantissa with a base-256 exponent.
func refTrunc(n *big.Int) *big.Int {
	a := new(big.Int).Abs(n)
	s := uint(0)
	for new(big.Int).Rsh(a, s).Cmp(big.NewInt(0x7fffff)) > 0 {
		s += 8
	}
	a.Rsh(a, s)
	a.Lsh(a, s)
	if n.Sign() < 0 {
		a.Neg(a)
	}
	return a
}

type fail struct {
	fp, what string
	c        uint32
}

func checkCompact(c uint32) *fail {
	b := difficulty.CompactToBig(c)
	if b.Cmp(refDecode(c)) != 0 {
		return &fail{"decode-differs-from-spec", fmt.Sprintf("CompactToBig(%#08x)=%s, format says %s", c, b, refDecode(c)), c}
	}
	c2 := difficulty.BigToCompact(b)
	b2 := difficulty.CompactToBig(c2)
	if b2.Cmp(b) != 0 {
		return &fail{"reencode-changes-value", fmt.Sprintf("compact %#08x decodes to %s, re-encodes to %#08x which decodes to %s", c, b, c2, b2), c}
	}
	if c3 := difficulty.BigToCompact(b2); c3 != c2 {
		return &fail{"canonical-form-not-idempotent", fmt.Sprintf("compact %#08x -> %#08x -> %#08x", c, c2, c3), c}
	}
	// canonical form: zero is 0; otherwise the mantissa's top byte is non-zero unless that would set the sign bit
	if b.Sign() == 0 && c2 != 0 {
		return &fail{"zero-not-canonical", fmt.Sprintf("compact %#08x (value 0) re-encodes to %#08x", c, c2), c}
	}
	if b.Sign() != 0 {
		m := c2 & 0x007fffff
		if m < 0x008000 {
			return &fail{"canonical-mantissa-not-normalised", fmt.Sprintf("compact %#08x re-encodes to %#08x", c, c2), c}
		}
		if (c2&0x00800000 != 0) != (b.Sign() < 0) {
			return &fail{"canonical-sign-wrong", fmt.Sprintf("compact %#08x re-encodes to %#08x", c, c2), c}
		}
	}
	w := difficulty.CalcWork(c)
	if b.Sign() <= 0 {
		if w.Sign() != 0 {
			return &fail{"work-of-nonpositive-target-nonzero", fmt.Sprintf("CalcWork(%#08x)=%s", c, w), c}
		}
	} else {
		if w2 := difficulty.CalcWork(c2); w2.Cmp(w) != 0 {
			return &fail{"work-differs-between-equal-targets", fmt.Sprintf("CalcWork(%#08x)=%s CalcWork(%#08x)=%s", c, w, c2, w2), c}
		}
		// spec: floor(2^256/(target+1))
		den := new(big.Int).Add(b, one)
		ref := new(big.Int).Div(new(big.Int).Lsh(one, 256), den)
		if ref.Cmp(w) != 0 {
			return &fail{"work-differs-from-spec", fmt.Sprintf("CalcWork(%#08x)=%s want %s", c, w, ref), c}
		}
	}
	return nil
}

func mantissas(quick bool, emit func(m uint32)) {
	if !quick {
		for m := uint32(0); m <= 0xffffff; m++ {
			emit(m)
		}
		return
	}
	seen := map[uint32]bool{}
	e := func(m uint32) {
		m &= 0xffffff
		if !seen[m] {
			seen[m] = true
			emit(m)
		}
	}
	e(0)
	for i := 0; i < 24; i++ {
		e(1 << i)
		e((1 << i) - 1)
		e(^uint32(1 << i))
		for j := 0; j < i; j++ {
			e(1<<i | 1<<j)
		}
	}
	for t := uint32(0); t < 1<<12; t++ { // every value of the top 12 bits (incl. sign bit), low bits 0 / all ones / 1
		e(t << 12)
		e(t<<12 | 0xfff)
		e(t<<12 | 1)
	}
	for _, b := range []uint32{0x7fffff, 0x800000, 0x008000, 0x007fff, 0x00ffff, 0x010000, 0x0000ff, 0x000100, 0xffffff} {
		e(b)
	}
}

func main() {
	r := vx.Start("C20", "exploration")
	r.Rule = "flat enumeration of compact values (thorough: all 2^32; quick: every exponent x sign x {mantissas with <=2 set bits, complements, all values of the top 12 mantissa bits, boundaries}); integers of byte length 0..34 with boundary patterns; CalcWork monotone along all canonical compacts of the enumerated set in target order. distinct = (exponent, sign, mantissa normalised?) classes seen"
	r.Assume = []string{"math/big is correct", "the compact format is the one documented above CompactToBig"}
	if raw, ok := r.Replaying(); ok {
		var c uint32
		fmt.Sscanf(string(raw), "%d", &c)
		if f := checkCompact(c); f != nil {
			fmt.Println("replay: FAIL", f.what)
			r.Violate(f.fp, f.what, c, nil)
		} else {
			fmt.Println("replay: ok")
		}
		r.Finish()
	}
	if !r.Quick() {
		r.SetBudget(90 * time.Minute) // all 2^32 compact values take about 40 minutes on 16 quiet cores
	}
	var ms []uint32
	mantissas(r.Quick(), func(m uint32) { ms = append(ms, m) })
	// part 1: every enumerated compact value
	var wg sync.WaitGroup
	nw := runtime.NumCPU()
	for w := 0; w < nw; w++ {
		wg.Add(1)
		go func(w int) {
			defer wg.Done()
			for e := w; e < 256; e += nw {
				var n int64
				classes := map[uint32]bool{}
				for _, m := range ms {
					c := uint32(e)<<24 | m
					n++
					if f := checkCompact(c); f != nil {
						cc := c
						r.Violate(f.fp, f.what, cc, func() string {
							if g := checkCompact(cc); g != nil {
								return g.what
							}
							return ""
						})
					}
					cl := uint32(e)<<2 | (m>>23)<<1
					if m&0x7fffff >= 0x008000 {
						cl |= 1
					}
					classes[cl] = true
				}
				r.Count("evaluations", n)
				for cl := range classes {
					r.Seen("distinct", fmt.Sprint(cl))
				}
				// part 3: monotone work along canonical positive compacts of this exponent, ascending target
				var prevW, prevT *big.Int
				var prevC uint32
				for _, m := range ms {
					if m&0x800000 != 0 || m < 0x008000 && e > 3 {
						continue
					}
					c := uint32(e)<<24 | m
					t := difficulty.CompactToBig(c)
					if t.Sign() <= 0 {
						continue // zero is not a target (CalcWork defines its work as 0, an invalid block); scoped out, see DESIGN 3.0
					}
					wk := difficulty.CalcWork(c)
					if prevT != nil {
						// ms ascending is only guaranteed in the thorough tier; compare both ways
						lo, hi, wlo, whi := prevT, t, prevW, wk
						if lo.Cmp(hi) > 0 {
							lo, hi, wlo, whi = hi, lo, whi, wlo
						}
						_ = lo
						_ = hi
						if whi.Cmp(wlo) > 0 {
							r.Violate("work-increases-with-target", fmt.Sprintf("targets %#08x,%#08x: larger target has more work", prevC, c), c, nil)
						}
						r.Count("monotone_pairs", 1)
					}
					prevW, prevT, prevC = wk, t, c
				}
				if r.Expired("compact enumeration") {
					return
				}
			}
		}(w)
	}
	wg.Wait()
	// monotone across exponents: last canonical of e vs first canonical of e+1
	for e := 3; e < 255; e++ {
		a := uint32(e)<<24 | 0x7fffff
		b := uint32(e+1)<<24 | 0x008000
		if difficulty.CompactToBig(a).Cmp(difficulty.CompactToBig(b)) >= 0 {
			r.Violate("exponent-order", fmt.Sprintf("%#08x !< %#08x", a, b), a, nil)
		}
		if difficulty.CalcWork(b).Cmp(difficulty.CalcWork(a)) > 0 {
			r.Violate("work-increases-with-target", fmt.Sprintf("targets %#08x < %#08x but work increases", a, b), b, nil)
		}
		r.Count("monotone_pairs", 1)
	}
	// part 2: integers of every byte length
	for bl := 0; bl <= 34; bl++ {
		var pats []*big.Int
		if bl == 0 {
			pats = append(pats, big.NewInt(0))
		} else {
			top := uint(8 * (bl - 1))
			for _, first := range []int64{1, 0x7f, 0x80, 0xff, 0x55} {
				base := new(big.Int).Lsh(big.NewInt(first), top)
				pats = append(pats, base)
				allones := new(big.Int).Sub(new(big.Int).Lsh(one, top), one)
				pats = append(pats, new(big.Int).Add(base, allones))
				for bit := uint(0); bit < top; bit++ {
					pats = append(pats, new(big.Int).Add(base, new(big.Int).Lsh(one, bit)))
					pats = append(pats, new(big.Int).Sub(new(big.Int).Add(base, allones), new(big.Int).Lsh(one, bit)))
				}
			}
		}
		for _, n := range pats {
			for _, sgn := range []int{1, -1} {
				v := new(big.Int).Set(n)
				if sgn < 0 {
					v.Neg(v)
				}
				keep := new(big.Int).Set(v)
				c := difficulty.BigToCompact(v)
				if v.Cmp(keep) != 0 {
					r.Violate("encode-mutates-argument", fmt.Sprintf("BigToCompact changed its argument %s", keep), keep.String(), nil)
				}
				d := difficulty.CompactToBig(c)
				want := refTrunc(keep)
				if sgn < 0 {
					// the statement speaks of non-negative integers only; for negatives just require sign and no crash
					if keep.Sign() != 0 && d.Sign() > 0 {
						r.Violate("negative-integer-changes-sign", fmt.Sprintf("n=%s -> %#08x -> %s", keep, c, d), keep.String(), nil)
					}
				} else if d.Cmp(want) != 0 {
					r.Violate("integer-roundtrip-loses-more-than-mantissa", fmt.Sprintf("n=%s (%d bytes) -> %#08x -> %s, want %s", keep, bl, c, d, want), keep.String(), nil)
				}
				r.Count("integers", 1)
				r.Seen("distinct", fmt.Sprintf("int-%d-%d", bl, sgn))
			}
		}
	}
	r.Count("evaluations", r.Counter("integers"))
	r.Sample(map[string]interface{}{"compact": "0x1d00ffff", "decoded": difficulty.CompactToBig(0x1d00ffff).String(), "reencoded": fmt.Sprintf("%#08x", difficulty.BigToCompact(difficulty.CompactToBig(0x1d00ffff)))})
	r.Sample(map[string]interface{}{"compact": "0x01803456", "decoded": difficulty.CompactToBig(0x01803456).String(), "reencoded": fmt.Sprintf("%#08x", difficulty.BigToCompact(difficulty.CompactToBig(0x01803456)))})
	r.Floors["distinct"] = 500
	r.Finish()
}
