package main

import (
	"bytes"
	"fmt"
	"strings"

	"github.com/33cn/chain33/system/store/mavl"
	"github.com/33cn/chain33/types"
	"verif/checks/c01/mvx"
	"verif/vrt"
	"verif/vx"
)

// Concurrent part of C04: the store module handles every request in its own goroutine
// (BaseStore.processMessage), so MemSet / Commit / Rollback / Set / Get run concurrently on one
// Store. Here three threads issue those calls directly on a real Store whose sync.Map, mutexes and
// atomics (system/store/mavl/mavl.go and the whole mavl/db package) are scheduling points; every
// schedule with at most k deviations from the default scheduler is executed. Oracle: every read a
// thread makes at a committed root returns that root's content (committed roots are immutable, so no
// linearisation search is needed); at quiescence every committed root reads its content, the
// rolled-back root is not pending any more, and the database holds no more than what the committed
// updates wrote when run alone.
func applyW(content map[string]string, w []string) map[string]string {
	m := map[string]string{}
	for k, v := range content {
		m[k] = v
	}
	for i := 0; i+1 < len(w); i += 2 {
		m[w[i]] = w[i+1]
	}
	return m
}

func readAll(st *mavl.Store, root []byte, content map[string]string) string {
	keys := []string{"a", "ab", "b", "c", "zz"}
	return mvx.CompareGets(st, root, keys, content)
}

func concurrentPart(r *vx.Run, c mvx.Cfg) {
	for _, q := range concScheds(r, c, false) {
		q.ExploreUnsharded()
		r.Count("concurrent_scenarios", 1)
	}
}

// concScheds builds the concurrent scenarios of one configuration (all of them when all is set: replay).
func concScheds(r *vx.Run, c mvx.Cfg, all bool) []*vx.Sched {
	var out []*vx.Sched
	bound := r.Pick(2, 3)
	type scen struct {
		name     string
		wa, wb   int  // write lists of the two competing pending updates
		bCommits bool // the second fork is committed too instead of rolled back
		readers  bool // no writers: two readers read the two committed roots in opposite orders
	}
	scens := []scen{{"fork-commit-vs-rollback", 1, 3, false, false}, {"fork-both-commit", 1, 4, true, false}, {"same-content-fork", 1, 1, false, false}, {"two-readers-two-roots", 0, 0, false, true}}
	if !r.Quick() || all {
		scens = append(scens, scen{"fork-commit-vs-rollback-2", 4, 2, false, false}, scen{"restore-parent-content", 0, 2, true, false}, scen{"same-new-root-both-commit", 1, 1, true, false})
	}
	for _, sc := range scens {
		sc := sc
		name := "conc/" + c.Name + "/" + sc.name
		type world struct {
			st     *mavl.Store
			r0, r1 []byte
			c0, c1 map[string]string
			ra, rb []byte
			aOK    bool
			errA   string // answer of A's Commit when it failed
			errB   string // answer of B's Commit / Rollback when it failed
			bad    []string
		}
		var cur *world
		q := &vx.Sched{Run: r, Name: name, MaxPreempt: bound, MaxSteps: 20000,
			Body: func() {
				mvx.ResetGlobals(c)
				w := &world{}
				cur = w
				w.st = mvx.Open(c, "memdb", "")
				set := func(parent []byte, wl []string, h int64) []byte {
					root, err := w.st.Set(&types.StoreSet{StateHash: parent, KV: mvx.KV(wl...), Height: h}, true)
					if err != nil {
						vrt.Own(func() { w.bad = append(w.bad, "setup Set: "+err.Error()) })
					}
					return root
				}
				w.c0 = applyW(nil, wlists[2])
				w.r0 = set(make([]byte, 32), wlists[2], 1)
				w.c1 = applyW(w.c0, wlists[0])
				w.r1 = set(w.r0, wlists[0], 2)
				if sc.readers {
					// two committed roots with different content, read concurrently in opposite orders
					w.c1 = applyW(w.c0, wlists[1])
					w.r1 = set(w.r0, wlists[1], 2)
					for i, name := range []string{"reader1", "reader2"} {
						i := i
						vrt.GoNamed(name, func() {
							roots, cont, what := [][]byte{w.r0, w.r1}, []map[string]string{w.c0, w.c1}, []string{"first", "second"}
							for k := 0; k < 2; k++ {
								j := (k + i) % 2
								if f := readAll(w.st, roots[j], cont[j]); f != "" {
									vrt.Own(func() { w.bad = append(w.bad, "concurrent read at the "+what[j]+" committed root: "+f) })
								}
							}
						})
					}
					return
				}
				vrt.GoNamed("A", func() {
					root, err := w.st.MemSet(&types.StoreSet{StateHash: w.r1, KV: mvx.KV(wlists[sc.wa]...), Height: 3}, true)
					if err != nil {
						vrt.Own(func() { w.bad = append(w.bad, "MemSet A: "+err.Error()) })
						return
					}
					w.ra = root
					if _, err := w.st.Commit(&types.ReqHash{Hash: root}); err == nil {
						w.aOK = true
					} else {
						w.errA = "Commit A: " + err.Error()
					}
				})
				vrt.GoNamed("B", func() {
					root, err := w.st.MemSet(&types.StoreSet{StateHash: w.r1, KV: mvx.KV(wlists[sc.wb]...), Height: 3}, true)
					if err != nil {
						vrt.Own(func() { w.bad = append(w.bad, "MemSet B: "+err.Error()) })
						return
					}
					w.rb = root
					if sc.bCommits {
						if _, err := w.st.Commit(&types.ReqHash{Hash: root}); err != nil {
							w.errB = "Commit B: " + err.Error()
						}
					} else if _, err := w.st.Rollback(&types.ReqHash{Hash: root}); err != nil {
						w.errB = "Rollback B: " + err.Error()
					}
				})
				vrt.GoNamed("reader", func() {
					if f := readAll(w.st, w.r0, w.c0); f != "" {
						vrt.Own(func() { w.bad = append(w.bad, "concurrent read at the first committed root: "+f) })
					}
					if f := readAll(w.st, w.r1, w.c1); f != "" {
						vrt.Own(func() { w.bad = append(w.bad, "concurrent read at the second committed root: "+f) })
					}
				})
			},
			Check: func(res *vrt.Result) string {
				w := cur
				if len(res.Panics) > 0 {
					return "panic: " + strings.SplitN(res.Panics[0], "\n", 2)[0]
				}
				if res.Deadlock {
					return "deadlock: " + strings.Join(res.Blocked, "; ")
				}
				if len(w.bad) > 0 {
					return w.bad[0]
				}
				// two pending updates with one resulting root are ONE pending tree (the store keys them by
				// root): whichever request comes second legitimately finds nothing. Anything else that
				// fails, and both failing, is reported.
				sameRoot := w.ra != nil && bytes.Equal(w.ra, w.rb)
				if !sameRoot || !strings.HasSuffix(w.errA+w.errB, types.ErrHashNotFound.Error()) || (w.errA != "" && w.errB != "") {
					if w.errA != "" {
						return w.errA
					}
					if w.errB != "" {
						return w.errB
					}
				}
				if sameRoot {
					r.Count("same_root_pending_pairs", 1)
					// the committed content must be readable whoever won
					if sc.bCommits && w.errB == "" {
						w.aOK = true
					}
				}
				var f string
				if p := vx.Catch(func() {
					if f = readAll(w.st, w.r0, w.c0); f != "" {
						f = "first committed root after all requests: " + f
						return
					}
					if f = readAll(w.st, w.r1, w.c1); f != "" {
						f = "second committed root after all requests: " + f
						return
					}
					if w.ra != nil && w.aOK {
						if f = readAll(w.st, w.ra, applyW(w.c1, wlists[sc.wa])); f != "" {
							f = "committed fork A: " + f
							return
						}
					}
					if sc.bCommits && w.rb != nil {
						if f = readAll(w.st, w.rb, applyW(w.c1, wlists[sc.wb])); f != "" {
							f = "committed fork B: " + f
							return
						}
					}
				}); p != "" {
					return "reading committed roots at quiescence: " + p
				}
				if f != "" {
					return f
				}
				if pend := w.st.VerifPending(); len(pend) != 0 {
					return fmt.Sprintf("%d pending update(s) left after every request was answered", len(pend))
				}
				r.Seen("outcomes", fmt.Sprintf("conc %s ok", sc.name))
				return ""
			},
			FP: func(what string) string { return "conc:" + c.Name + ":" + vx.Norm(what, 50) },
		}
		out = append(out, q)
	}
	return out
}
