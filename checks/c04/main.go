// C04 — pending state updates never leak into committed state (sequential part).
//
// Explicit-state search over histories of {MemSet(parent,W), Commit(r), Rollback(r), Set(parent,W),
// restart} on the real mavl Store (several sub-configurations, fresh in-memory database per
// execution, process-global caches kept across a history). Model = set of committed roots with
// their contents + the pending updates. After EVERY operation every committed root must read
// exactly its content (point reads of every alphabet key and a full scan); MemSet, Rollback and
// restart must leave the raw database byte-identical; Commit(r) must make exactly r's content
// readable at r; forks from the same parent at the same height are in the alphabet.
package main

import (
	"bytes"
	"encoding/json"
	"fmt"
	"os"
	"runtime/debug"
	"sort"
	"strings"

	clog "github.com/33cn/chain33/common/log"
	drivers "github.com/33cn/chain33/system/store"
	"github.com/33cn/chain33/system/store/mavl"
	mavldb "github.com/33cn/chain33/system/store/mavl/db"
	"github.com/33cn/chain33/types"
	"verif/checks/c01/mvx"
	"verif/vrt"
	"verif/vx"
)

var keys = []string{"a", "ab", "b", "c"}

var wlists = [][]string{
	{"a", "1"},
	{"a", "2", "c", "1"},
	{"b", "1", "a", "1"},
	{"ab", "2"},
	{"c", "1", "b", "2", "a", "1"},
	{"a", ""}, // an empty value (the state's "deleted" marker): a persisted leaf that a later update replaces
	{},        // 6: no writes at all (a block without state changes): the pending "update" is the parent's root itself
}

func wname(i int) string {
	var p []string
	for j := 0; j+1 < len(wlists[i]); j += 2 {
		p = append(p, wlists[i][j]+"="+wlists[i][j+1])
	}
	return "[" + strings.Join(p, ",") + "]"
}

type ver struct {
	root    []byte
	depth   int64
	content map[string]string
	id      string // which update produced it: parent root, write list, height
}

type sys struct {
	cfg       mvx.Cfg
	st        *mavl.Store
	committed []ver
	pending   []ver
	// aliased: some pending update computed earlier in this process has not been committed (it is
	// still pending, was rolled back, or died in a restart); its nodes were published to the global
	// memTree by Tree.Hash although they were never persisted
	aliased     bool
	poisoned    bool
	everPending []ver
	allCommits  []ver
	canon       string
	lastOp      string
}

func find(l []ver, root []byte) int {
	for i, v := range l {
		if bytes.Equal(v.root, root) {
			return i
		}
	}
	return -1
}

func (s *sys) markAlias() {
	s.aliased = false
	for _, p := range s.everPending {
		committed := false
		for _, c := range s.allCommits {
			committed = committed || p.id == c.id
		}
		if !committed {
			s.aliased = true
		}
	}
}

func (s *sys) parent(p int) (ver, bool) {
	switch {
	case p == 0:
		return ver{root: drivers.EmptyRoot[:], content: map[string]string{}}, true
	case p == 1 && len(s.committed) >= 1:
		return s.committed[len(s.committed)-1], true
	case p == 2 && len(s.committed) >= 2:
		return s.committed[len(s.committed)-2], true
	}
	return ver{}, false
}

func apply(content map[string]string, w int) map[string]string {
	m := map[string]string{}
	for k, v := range content {
		m[k] = v
	}
	for j := 0; j+1 < len(wlists[w]); j += 2 {
		m[wlists[w][j]] = wlists[w][j+1]
	}
	return m
}

func (s *sys) mkCanon() {
	parts := []interface{}{"c"}
	var cs, ps []string
	for _, v := range s.committed {
		cs = append(cs, string(v.root))
	}
	for _, v := range s.pending {
		ps = append(ps, fmt.Sprintf("%x@%d", v.root, v.depth))
	}
	sort.Strings(cs)
	sort.Strings(ps)
	parts = append(parts, strings.Join(cs, ""), strings.Join(ps, ","), mvx.DumpKey(s.st.GetDB()), mavldb.VerifGlobalCacheKey())
	s.canon = vx.H(parts...)
}

// classify turns a failure into a fingerprint class; the one known defect class gets its own.
func (s *sys) classify(class, detail string) string {
	if s.cfg.MemTree && s.cfg.Prefix && s.aliased && strings.Contains(detail, "ErrNodeNotExist") {
		return "node-missing:memTree+prefix:node-of-uncommitted-pending-update-served-from-memTree| " + class + ": " + vx.Norm(detail, 100)
	}
	return class + ":" + s.cfg.Name + "| " + detail
}

type harness struct {
	cfg      mvx.Cfg
	nParents int
	nW       int
	depth    int
	ws       []int // the write lists used (indices into wlists); len(ws) == nW
}

func (h harness) opName(i int) string {
	n := h.nParents * h.nW
	pn := []string{"empty-root", "newest-committed", "previous-committed"}
	switch {
	case i < n:
		return fmt.Sprintf("MemSet(%s,%s)", pn[i/h.nW], wname(h.ws[i%h.nW]))
	case i < 2*n:
		i -= n
		return fmt.Sprintf("Set(%s,%s)", pn[i/h.nW], wname(h.ws[i%h.nW]))
	}
	return []string{"Commit(oldest-pending)", "Commit(newest-pending)", "Rollback(oldest-pending)", "Rollback(newest-pending)", "Restart"}[i-2*n]
}

func (h harness) seq(r *vx.Run) *vx.Seq[*sys] {
	n := h.nParents * h.nW
	q := &vx.Seq[*sys]{Run: r, Name: h.cfg.Name, NumOps: 2*n + 5, MaxDepth: h.depth, Workers: 1}
	q.New = func() *sys {
		mvx.ResetGlobals(h.cfg)
		s := &sys{cfg: h.cfg, st: mvx.Open(h.cfg, "memdb", "")}
		s.mkCanon()
		return s
	}
	q.OpName = h.opName
	suppress := func(s *sys, f string) string {
		if sup := os.Getenv("VERIF_SUPPRESS"); sup != "" && f != "" && containsAny(f, sup) {
			// mutation demonstrations only: a failure class already reported is counted, not raised,
			// and the history is not extended
			r.Count("suppressed_cases", 1)
			s.poisoned = true
			s.canon = "poisoned"
			return ""
		}
		return f
	}
	inner := func(s *sys, i int) string { return "" }
	q.Apply = func(s *sys, i int) string {
		if s.poisoned {
			return ""
		}
		return suppress(s, inner(s, i))
	}
	inner = func(s *sys, i int) (fail string) {
		defer func() {
			if fail == "" {
				s.mkCanon()
			}
		}()
		s.lastOp = h.opName(i)
		db := s.st.GetDB()
		if i < 2*n {
			pendingOp := i < n
			j := i % n
			p, ok := s.parent(j / h.nW)
			if !ok {
				return ""
			}
			w := h.ws[j%h.nW]
			if len(wlists[w]) == 0 && p.depth == 0 {
				return "" // no writes on the empty state: there is no root to speak of
			}
			set := &types.StoreSet{StateHash: p.root, KV: mvx.KV(wlists[w]...), Height: p.depth + 1}
			v := ver{depth: p.depth + 1, content: apply(p.content, w), id: fmt.Sprintf("%x|%d|%d", p.root, w, p.depth+1)}
			var err error
			if pendingOp {
				before := mvx.DumpKey(db)
				if perr := vx.Catch(func() { v.root, err = s.st.MemSet(set, true); mvx.Scribble(set.KV) }); perr != "" {
					return s.classify("memset-panics", perr)
				}
				if err != nil || len(v.root) == 0 {
					return s.classify("memset-fails", fmt.Sprintf("MemSet on a committed parent: %v", err))
				}
				if mvx.DumpKey(db) != before {
					return s.classify("pending-update-writes-database", "the raw database changed during "+s.lastOp)
				}
				s.everPending = append(s.everPending, v)
				s.markAlias()
				if k := find(s.pending, v.root); k >= 0 {
					s.pending[k] = v
				} else {
					s.pending = append(s.pending, v)
				}
				r.Seen("outcomes", fmt.Sprintf("memset:pending%d:committed%d", min(len(s.pending), 2), min(len(s.committed), 2)))
				if len(s.pending) >= 2 && s.pending[len(s.pending)-1].depth == s.pending[len(s.pending)-2].depth {
					r.Seen("outcomes", "fork:two-pending-at-equal-height")
				}
				return ""
			}
			if perr := vx.Catch(func() { v.root, err = s.st.Set(set, true); mvx.Scribble(set.KV) }); perr != "" {
				return s.classify("set-panics", perr)
			}
			if err != nil || len(v.root) == 0 {
				return s.classify("set-fails", fmt.Sprintf("Set on a committed parent: %v", err))
			}
			if find(s.committed, v.root) < 0 {
				s.committed = append(s.committed, v)
			}
			s.allCommits = append(s.allCommits, v)
			s.markAlias()
			r.Seen("outcomes", fmt.Sprintf("set:pending%d", min(len(s.pending), 2)))
			return ""
		}
		op := i - 2*n
		if op == 4 { // restart: pending updates die with the process, the database survives
			before := mvx.DumpKey(db)
			s.st = mvx.RestartMem(s.st, s.cfg)
			s.pending = nil
			if mvx.DumpKey(s.st.GetDB()) != before {
				return s.classify("restart-changes-database", "raw database differs after restart")
			}
			r.Seen("outcomes", "restart")
			return ""
		}
		if len(s.pending) == 0 {
			return ""
		}
		k := 0
		if op%2 == 1 {
			k = len(s.pending) - 1
		}
		v := s.pending[k]
		s.pending = append(s.pending[:k:k], s.pending[k+1:]...)
		if op < 2 {
			var got []byte
			var err error
			if perr := vx.Catch(func() { got, err = s.st.Commit(&types.ReqHash{Hash: v.root}) }); perr != "" {
				return s.classify("commit-panics", perr)
			}
			if err != nil || !bytes.Equal(got, v.root) {
				return s.classify("commit-fails", fmt.Sprintf("Commit(%x) returned %x, %v", v.root, got, err))
			}
			if find(s.committed, v.root) < 0 {
				s.committed = append(s.committed, v)
			}
			s.allCommits = append(s.allCommits, v)
			s.markAlias()
			r.Seen("outcomes", fmt.Sprintf("commit:other-pending%d", min(len(s.pending), 2)))
			return ""
		}
		before := mvx.DumpKey(db)
		var err error
		if perr := vx.Catch(func() { _, err = s.st.Rollback(&types.ReqHash{Hash: v.root}) }); perr != "" {
			return s.classify("rollback-panics", perr)
		}
		if err != nil {
			return s.classify("rollback-fails", err.Error())
		}
		if mvx.DumpKey(db) != before {
			return s.classify("rollback-writes-database", "the raw database changed during "+s.lastOp)
		}
		r.Seen("outcomes", fmt.Sprintf("rollback:other-pending%d", min(len(s.pending), 2)))
		return ""
	}
	full := []mvx.Bound{{Nil: true}}
	check := func(s *sys) string { return "" }
	q.Check = func(s *sys) string {
		if s.poisoned {
			return ""
		}
		return suppress(s, check(s))
	}
	check = func(s *sys) string {
		for i, v := range s.committed {
			var f string
			perr := vx.Catch(func() {
				if f = mvx.CompareGets(s.st, v.root, keys, v.content); f == "" {
					f = mvx.CompareRange(s.st, v.root, v.content, full[0], full[0], true)
				}
			})
			if perr != "" {
				return s.classify("committed-root-unreadable", fmt.Sprintf("reading committed root #%d of %d after %s: %s", i+1, len(s.committed), s.lastOp, perr))
			}
			if f != "" {
				return s.classify("committed-root-reads-differ", fmt.Sprintf("committed root #%d of %d after %s: %s", i+1, len(s.committed), s.lastOp, f))
			}
		}
		// the store's pending set is what the history implies (commit and rollback forget the update)
		var want []string
		for _, p := range s.pending {
			want = append(want, string(p.root))
		}
		sort.Strings(want)
		if got := s.st.VerifPending(); fmt.Sprint(got) != fmt.Sprint(want) {
			return s.classify("pending-set-differs", fmt.Sprintf("store holds %d pending trees, history implies %d after %s", len(got), len(want), s.lastOp))
		}
		return ""
	}
	q.Canon = func(s *sys) string { return s.canon }
	q.FP = func(what string, hist []int) string {
		if i := strings.Index(what, "|"); i > 0 {
			return "pending:" + what[:i]
		}
		return "pending:" + vx.Norm(what, 40)
	}
	return q
}

func min(a, b int) int {
	if a < b {
		return a
	}
	return b
}

func main() {
	r := vx.Start("C04", "model_checking")
	clog.SetLogLevel("crit")
	r.QuietStderr()
	debug.SetGCPercent(400)
	r.DistinctSet = "outcomes"
	r.Rule = "per sub-configuration (plain, prefix, prune, prefix+memTree, prefix+memTree+memVal, plain+memTree+memVal): BFS over all histories of {MemSet(parent,W), Set(parent,W), Commit(oldest|newest pending), Rollback(oldest|newest pending), Restart} with parent in {empty root, newest committed(, previous committed)}, W from ordered write lists over prefix-sharing keys (including lists that restore the parent's content, a list with an empty value and the EMPTY list: a block without state changes, whose pending update is the parent's root itself), block height = number of updates from the empty root (two updates from one parent are a fork at equal height). state = (committed roots, pending roots+heights, raw database, global caches). After every operation: every committed root read in full against its content; MemSet/Rollback/Restart leave the raw database byte-identical; the store's pending set equals the model's. distinct = (operation, number of other pending/committed updates) situations observed"
	r.Assume = []string{"concurrent part (conc.go): per configuration, MemSet+Commit / MemSet+Rollback-or-Commit / reads from three threads on the instrumented store under every schedule within the deviation bound", "values are non-empty; parents are committed roots", "restart on the in-memory backend = new Store object on the same database, node cache and package globals dropped", "pruning does not run (interval 10000)"}
	cfgs := []mvx.Cfg{
		{Name: "plain"},
		{Name: "prefix", Prefix: true},
		{Name: "prune", Prefix: true, Prune: true, PruneHeight: 10000},
		{Name: "prefix+memTree", Prefix: true, MemTree: true},
		{Name: "prefix+memTree+memVal", Prefix: true, MemTree: true, MemVal: true},
		{Name: "plain+memTree+memVal", MemTree: true, MemVal: true},
	}
	mk := func(c mvx.Cfg) harness {
		if r.Quick() {
			return harness{c, 2, 6, 4, []int{0, 5, 6, 1, 2, 3}}
		}
		return harness{c, 3, 7, 5, []int{0, 5, 6, 1, 2, 3, 4}}
	}
	if raw, ok := r.Replaying(); ok {
		var c struct {
			Harness string
			Hist    []int
			Choices []int
		}
		json.Unmarshal(raw, &c)
		f := "unknown harness " + c.Harness
		for _, cfg := range cfgs {
			if cfg.Name == c.Harness {
				f = mk(cfg).seq(r).ReplayHist(c.Hist)
			}
			for _, q := range concScheds(r, cfg, true) {
				if q.Name == c.Harness {
					var res *vrt.Result
					f, res = q.ReplaySched(c.Choices)
					for _, l := range res.Trace {
						fmt.Println("  ", l)
					}
				}
			}
		}
		if f != "" {
			fmt.Println("replay: FAIL", f)
			r.Violate("replay", f, c, nil)
		} else {
			fmt.Println("replay: ok")
		}
		r.Finish()
	}
	if r.Fork(6) {
		if r.Counter("violating_cases") == 0 {
			r.Floors["states"] = 2000
			r.Floors["outcomes"] = 10
		}
		r.Finish()
	}
	for i, c := range cfgs {
		if !r.Mine(i) {
			continue
		}
		if o := os.Getenv("C04_ONLY"); o != "" && o != c.Name {
			continue
		}
		mk(c).seq(r).Explore()
		concurrentPart(r, c)
	}
	r.Finish()
}

// containsAny reports whether f contains one of the comma-separated substrings.
func containsAny(f, list string) bool {
	for _, s := range strings.Split(list, ",") {
		if s != "" && strings.Contains(f, s) {
			return true
		}
	}
	return false
}
