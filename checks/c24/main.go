// C24 — score-ordered queue keeps order and capacity.
// Explicit-state search over Push/Remove histories on the real skiplist.Queue with the skip-list
// level of every inserted node an explorer choice (math/rand is behind a seam), compared after
// every step with a stable sorted-list model and with structural invariants of the real list.
package main

import (
	"math"
	"encoding/json"
	"fmt"

	"github.com/33cn/chain33/common/skiplist"
	"github.com/33cn/chain33/types"
	"verif/vrt/vrand"
	"verif/vx"
)

type item struct {
	id    byte
	score int64
	prio  int // tie-break used by Compare (higher = Big)
	size  int64
}

func (i *item) GetScore() int64 { return i.score }
func (i *item) Hash() []byte    { return []byte{i.id} }
func (i *item) ByteSize() int64 { return i.size }
func (i *item) Compare(o skiplist.Scorer) int {
	p := o.(*item).prio
	switch {
	case i.prio > p:
		return skiplist.Big
	case i.prio < p:
		return skiplist.Small
	}
	return skiplist.Equal
}

var items = []*item{
	{1, 1, 0, 10}, {2, 1, 1, 20}, {3, 2, 0, 30}, {4, -1, 0, 40}, {5, -2, 0, 50}, {6, 0, 0, 60},
	// the ends of the score range: their difference to any other score does not fit an int64
	{9, math.MaxInt64, 0, 90}, {10, math.MinInt64 + 1, 0, 100},
	{7, 1, 0, 70}, {8, -1, 2, 80},
}

type sys struct {
	q      *skiplist.Queue
	cap    int
	model  []*item // descending score, ties in arrival order
	levels []int   // pending level choices for the next insert
}

func (s *sys) mfind(id byte) int {
	for i, m := range s.model {
		if m.id == id {
			return i
		}
	}
	return -1
}

func (s *sys) minsert(it *item) {
	pos := len(s.model)
	for i, m := range s.model {
		if m.score < it.score {
			pos = i
			break
		}
	}
	s.model = append(s.model, nil)
	copy(s.model[pos+1:], s.model[pos:])
	s.model[pos] = it
}

func main() {
	r := vx.Start("C24", "model_checking")
	r.Rule = "BFS over all histories of {Push(item,level), Remove(item)} on the real skiplist.Queue for capacities 1..3; items have tied, negative and zero scores and the two ends of the int64 score range; the skip-list level of each new node is an explorer choice in {1,2,3}; state = real linked structure (all level chains + buckets). distinct = distinct failure/eviction/rejection outcome classes observed"
	r.Assume = []string{"container/list is correct", "levels above 3 behave like level 3 (same code path: loops over sl.level)"}
	r.DistinctSet = "outcomes"
	nItems := r.Pick(8, 10)
	maxDepth := r.Pick(7, 9)
	nLevels := 3
	mk := func(capn int) *vx.Seq[*sys] {
		nPush := nItems * nLevels
		q := &vx.Seq[*sys]{Run: r, Name: fmt.Sprintf("cap%d", capn), NumOps: nPush + nItems, MaxDepth: maxDepth, Workers: 1}
		q.New = func() *sys { return &sys{q: skiplist.NewQueue(int64(capn)), cap: capn} }
		q.OpName = func(i int) string {
			if i < nPush {
				it := items[i/nLevels]
				return fmt.Sprintf("Push(id%d,score%d,prio%d,level%d)", it.id, it.score, it.prio, i%nLevels+1)
			}
			return fmt.Sprintf("Remove(id%d)", items[i-nPush].id)
		}
		q.Apply = func(s *sys, i int) string {
			if i < nPush {
				it := items[i/nLevels]
				lvl := i%nLevels + 1
				// randomLevel loops while rand.Int()&0xFFFF < t: answer lvl-1 times "continue", then "stop"
				k := 0
				vrand.IntHook = func() int {
					k++
					if k < lvl {
						return 0
					}
					return 0xFFFF
				}
				err := s.q.Push(it)
				vrand.IntHook = nil
				// model
				var want error
				if s.mfind(it.id) >= 0 {
					want = types.ErrTxExist
				} else {
					if len(s.model) >= s.cap {
						tail := s.model[len(s.model)-1]
						if it.score > tail.score || (it.score == tail.score && it.prio > tail.prio) {
							s.model = s.model[:len(s.model)-1]
							r.Seen("outcomes", "evict")
						} else {
							want = types.ErrMemFull
						}
					}
					if want == nil {
						s.minsert(it)
					}
				}
				if err != want {
					return fmt.Sprintf("Push returned %v, model says %v", err, want)
				}
				r.Seen("outcomes", fmt.Sprint("push:", want))
				return ""
			}
			it := items[i-nPush]
			err := s.q.Remove(string(it.Hash()))
			var want error
			if p := s.mfind(it.id); p >= 0 {
				s.model = append(s.model[:p:p], s.model[p+1:]...)
			} else {
				want = types.ErrNotFound
			}
			if err != want {
				return fmt.Sprintf("Remove returned %v, model says %v", err, want)
			}
			r.Seen("outcomes", fmt.Sprint("remove:", want))
			return ""
		}
		q.Check = func(s *sys) string {
			if _, bad := s.q.VerifShape(); bad != "" {
				return "structure: " + bad
			}
			if s.q.Size() != len(s.model) {
				return fmt.Sprintf("Size=%d model %d", s.q.Size(), len(s.model))
			}
			if s.q.Size() > s.cap {
				return fmt.Sprintf("Size=%d exceeds capacity %d", s.q.Size(), s.cap)
			}
			var bytes int64
			for _, m := range s.model {
				bytes += m.size
			}
			if s.q.GetCacheBytes() != bytes {
				return fmt.Sprintf("GetCacheBytes=%d, contents sum to %d", s.q.GetCacheBytes(), bytes)
			}
			for count := 0; count <= len(s.model)+1; count++ {
				var got []byte
				s.q.Walk(count, func(v skiplist.Scorer) bool { got = append(got, v.(*item).id); return true })
				want := len(s.model)
				if count > 0 && count < want {
					want = count
				}
				if len(got) != want {
					return fmt.Sprintf("Walk(%d) yields %d items, model %d", count, len(got), want)
				}
				for i := range got {
					if got[i] != s.model[i].id {
						return fmt.Sprintf("Walk(%d) order %v differs from model at %d", count, got, i)
					}
				}
			}
			// Walk with early stop
			if len(s.model) > 0 {
				n := 0
				s.q.Walk(0, func(v skiplist.Scorer) bool { n++; return false })
				if n != 1 {
					return "Walk does not stop when the callback returns false"
				}
			}
			f, l := s.q.First(), s.q.Last()
			if len(s.model) == 0 {
				if f != nil || l != nil {
					return "First/Last non-nil on empty queue"
				}
			} else {
				if f == nil || f.(*item).id != s.model[0].id {
					return "First is not the highest-ranked item"
				}
				if l == nil || l.(*item).id != s.model[len(s.model)-1].id {
					return "Last is not the lowest-ranked item"
				}
			}
			for _, it := range items[:nItems] {
				in := s.mfind(it.id) >= 0
				if s.q.Exist(string(it.Hash())) != in {
					return fmt.Sprintf("Exist(id%d)=%v, model %v", it.id, !in, in)
				}
				g, err := s.q.GetItem(string(it.Hash()))
				if in && (err != nil || g.(*item) != it) {
					return fmt.Sprintf("GetItem(id%d) wrong", it.id)
				}
				if !in && err != types.ErrNotFound {
					return fmt.Sprintf("GetItem(id%d) of absent item: %v", it.id, err)
				}
			}
			return ""
		}
		q.Canon = func(s *sys) string { sh, _ := s.q.VerifShape(); return sh }
		q.FP = func(what string, h []int) string {
			return "queue:" + vx.Norm(what, 48)
		}
		return q
	}
	if raw, ok := r.Replaying(); ok {
		var c struct {
			Harness string
			Hist    []int
		}
		json.Unmarshal(raw, &c)
		var capn int
		fmt.Sscanf(c.Harness, "cap%d", &capn)
		q := mk(capn)
		if f := q.ReplayHist(c.Hist); f != "" {
			fmt.Println("replay: FAIL", f)
			r.Violate("replay", f, c, nil)
		} else {
			fmt.Println("replay: ok")
		}
		r.Finish()
	}
	for capn := 1; capn <= r.Pick(3, 4); capn++ {
		mk(capn).Explore()
	}
	r.Floors["outcomes"] = 6
	r.Floors["states"] = 200
	r.Finish()
}
