// C07 — paged listing returns every live entry exactly once.
//
// Flat exhaustive enumeration. For each prefix P in {"a", "a\xff", "\xff"} a universe of 7 keys is
// laid around P (just below P, P itself, P+0x00, P+"b", P+0xff, P+0xff 0xff, and the key equal to
// the prefix upper bound — a second key below P when the bound does not exist); every key is
// independently absent / live / tombstone (empty value): 3^7 contents. Every content is listed page
// by page with every page size 1..n+1, in both directions, in all three result encodings, each
// request continuing from the last returned key, through ListHelper over the real memdb (thorough:
// also goleveldb on disk), through KVDB, and through the merged iterator over a single layer.
// The merged view proper is enumerated over 2 and 3 layers (3 layers = a real LocalDB with an open
// transaction: transaction cache over committed cache over base): every in-prefix key takes every
// combination of absent/live/tombstone per layer, the two neighbours outside the prefix a reduced set.
// Oracle: concatenated pages == live entries under P in key order (no duplicate, nothing missing,
// nothing outside P, no tombstone, right value), PrefixCount == number of live entries.
package main

import (
	"encoding/hex"
	"encoding/json"
	"fmt"
	"os"
	"path/filepath"
	"runtime/debug"
	"sort"
	"strings"
	"sync"
	"sync/atomic"

	dbm "github.com/33cn/chain33/common/db"
	clog "github.com/33cn/chain33/common/log"
	"github.com/33cn/chain33/types"
	"verif/vkv"
	"verif/vx"
)

// universe lays 7 keys around prefix p; in[i] tells whether key i has the prefix.
func universe(p string) (ks []string) {
	below := p[:len(p)-1] + string([]byte{p[len(p)-1] - 1}) + "\xff"
	ks = []string{below, p, p + "\x00", p + "b", p + "\xff", p + "\xff\xff"}
	if e := vkv.PrefixEnd([]byte(p)); e != nil {
		ks = append(ks, string(e))
	} else {
		ks = append(ks, p[:len(p)-1]+string([]byte{p[len(p)-1] - 1}))
	}
	sort.Strings(ks)
	return ks
}

// cell: state of one key in one layer.
const (
	absent = 0
	live   = 1
	tomb   = 2
)

// content: layers[l][key] = value ("" = tombstone). Layer 0 has the highest priority.
type content []map[string]string

func value(k string, layer int) string { return fmt.Sprintf("v%d:%s", layer, k) }

// liveUnder computes the model: visible live entries under prefix, ascending.
func (c content) liveUnder(p string, ks []string) (keys []string, vals map[string]string, tombs, shadows int) {
	vals = map[string]string{}
	for _, k := range ks {
		if !strings.HasPrefix(k, p) {
			continue
		}
		seen := false
		for _, l := range c {
			v, ok := l[k]
			if !ok {
				continue
			}
			if seen {
				shadows++
				continue
			}
			seen = true
			if v == "" {
				tombs++
			} else {
				keys = append(keys, k)
				vals[k] = v
			}
		}
	}
	sort.Strings(keys)
	return
}

type lister struct {
	list  func(prefix, key []byte, count, dir int32) [][]byte
	count func(prefix []byte) int64
	close func()
}

type kase struct {
	Kind   string              `json:"kind"`
	Prefix string              `json:"prefix_hex"`
	Layers []map[string]string `json:"layers_hex"` // hex(key) -> value
	Dir    string              `json:"dir"`
	Enc    int32               `json:"enc"`
	Size   int                 `json:"page_size"`
}

func hexContent(c content) []map[string]string {
	var out []map[string]string
	for _, l := range c {
		m := map[string]string{}
		for k, v := range l {
			m[hex.EncodeToString([]byte(k))] = v
		}
		out = append(out, m)
	}
	return out
}

func unhexContent(h []map[string]string) content {
	var c content
	for _, l := range h {
		m := map[string]string{}
		for k, v := range l {
			b, _ := hex.DecodeString(k)
			m[string(b)] = v
		}
		c = append(c, m)
	}
	return c
}

func fill(db dbm.DB, m map[string]string) {
	for k, v := range m {
		db.Set([]byte(k), []byte(v))
	}
}

var lvlDir string
var lvlMu sync.Mutex
var lvlSeq int64

// build makes the real object for a content.
func build(kind string, c content) lister {
	mem := func(m map[string]string) dbm.DB {
		d, _ := dbm.NewGoMemDB("c07", "", 0)
		fill(d, m)
		return d
	}
	switch kind {
	case "memdb":
		h := dbm.NewListHelper(mem(c[0]))
		return lister{list: h.List, count: h.PrefixCount}
	case "kvdb":
		kv := dbm.NewKVDB(mem(c[0]))
		return lister{list: func(p, k []byte, n, d int32) [][]byte { v, _ := kv.List(p, k, n, d); return v }, count: kv.PrefixCount}
	case "goleveldb":
		dir := filepath.Join(lvlDir, fmt.Sprintf("l%d", atomic.AddInt64(&lvlSeq, 1)))
		d := dbm.NewDB("c07", "goleveldb", dir, 4)
		fill(d, c[0])
		h := dbm.NewListHelper(d)
		return lister{list: h.List, count: h.PrefixCount, close: func() { d.Close(); os.RemoveAll(dir) }}
	case "merged", "merged3":
		var ls []dbm.IteratorDB
		for _, l := range c {
			ls = append(ls, mem(l))
		}
		h := dbm.NewListHelper(dbm.NewMergedIteratorDB(ls))
		return lister{list: h.List, count: h.PrefixCount}
	case "localdb":
		// 3 layers: base, committed cache, open transaction
		ldb := dbm.NewLocalDB(mem(c[2]), false)
		for k, v := range c[1] {
			ldb.Set([]byte(k), []byte(v))
		}
		ldb.Begin()
		for k, v := range c[0] {
			ldb.Set([]byte(k), []byte(v))
		}
		return lister{list: func(p, k []byte, n, d int32) [][]byte { v, _ := ldb.List(p, k, n, d); return v }, count: ldb.PrefixCount}
	}
	panic(kind)
}

// paged lists prefix page by page and compares with the model; returns "" or (class, text).
func paged(r *vx.Run, l lister, p string, keys []string, vals map[string]string, asc bool, enc int32, size int) (string, string) {
	want := append([]string{}, keys...)
	if !asc {
		for i, j := 0, len(want)-1; i < j; i, j = i+1, j-1 {
			want[i], want[j] = want[j], want[i]
		}
	}
	dir := enc
	if asc {
		dir |= dbm.ListASC
	}
	var got []string
	var from []byte
	for pages := 0; ; pages++ {
		if pages > len(keys)+3 {
			return "does-not-terminate", fmt.Sprintf("listing does not end after %d pages: %q", pages, got)
		}
		page := l.list([]byte(p), from, int32(size), dir)
		r.Count("evaluations", 1)
		if len(page) == 0 {
			break
		}
		if len(page) > size {
			return "page-larger-than-count", fmt.Sprintf("page of %d entries for count %d", len(page), size)
		}
		for _, e := range page {
			var k string
			switch {
			case enc == dbm.ListKeyOnly:
				k = string(e)
			case enc == dbm.ListWithKey:
				var kv types.KeyValue
				if err := types.Decode(e, &kv); err != nil {
					return "undecodable-entry", fmt.Sprintf("entry %q does not decode: %v", e, err)
				}
				k = string(kv.Key)
				if len(kv.Value) == 0 {
					return "returns-deleted-entry", fmt.Sprintf("entry for key %q has an empty value (deleted)", k)
				}
				if string(kv.Value) != vals[k] && vals[k] != "" {
					return "wrong-value", fmt.Sprintf("key %q listed with value %q, visible value is %q", k, kv.Value, vals[k])
				}
			default:
				if len(e) == 0 {
					return "returns-deleted-entry", "an empty value (deleted entry) was returned"
				}
				// values embed their key: "v<layer>:<key>"
				s := string(e)
				k = s[strings.IndexByte(s, ':')+1:]
				if vals[k] != "" && vals[k] != s {
					return "wrong-value", fmt.Sprintf("key %q listed with value %q, visible value is %q", k, s, vals[k])
				}
			}
			got = append(got, k)
		}
		from = []byte(got[len(got)-1])
		if len(page) < size {
			break
		}
	}
	if fmt.Sprintf("%q", got) == fmt.Sprintf("%q", want) {
		return "", ""
	}
	// classify
	cnt := map[string]int{}
	for _, k := range got {
		cnt[k]++
	}
	class := "wrong-order"
	for _, k := range got {
		switch {
		case !strings.HasPrefix(k, p):
			class = "entry-outside-prefix"
		case vals[k] == "":
			if class != "entry-outside-prefix" {
				class = "returns-deleted-or-absent-entry"
			}
		case cnt[k] > 1:
			if class == "wrong-order" {
				class = "duplicate-entry"
			}
		}
	}
	if class == "wrong-order" {
		for _, k := range want {
			if cnt[k] == 0 {
				class = "missing-entry"
			}
		}
	}
	return class, fmt.Sprintf("pages concatenate to %q, live entries are %q", got, want)
}

func dirName(asc bool) string {
	if asc {
		return "ASC"
	}
	return "DESC"
}

// checkContent runs every paged listing + PrefixCount on one content.
func checkContent(r *vx.Run, kind, p string, ks []string, c content) {
	keys, vals, tombs, shadows := c.liveUnder(p, ks)
	l := build(kind, c)
	if l.close != nil {
		defer l.close()
	}
	r.Count("contents", 1)
	fail := func(class, text string, asc bool, enc int32, size int) {
		kc := kase{kind, hex.EncodeToString([]byte(p)), hexContent(c), dirName(asc), enc, size}
		fp := fmt.Sprintf("%s:%s:%s", kind, class, dirName(asc))
		what := fmt.Sprintf("%s prefix %q layers %q page size %d %s encoding %d: %s", kind, p, []map[string]string(c), size, dirName(asc), enc, text)
		r.Violate(fp, what, kc, func() string { return replayCase(r, kc) })
	}
	if n := l.count([]byte(p)); int(n) != len(keys) {
		fail("prefix-count", fmt.Sprintf("PrefixCount = %d, live entries %q", n, keys), true, 0, 0)
	}
	for _, asc := range []bool{true, false} {
		for _, enc := range []int32{0, dbm.ListWithKey, dbm.ListKeyOnly} {
			for size := 1; size <= len(keys)+1; size++ {
				r.Count("listings", 1)
				if class, text := paged(r, l, p, keys, vals, asc, enc, size); class != "" {
					fail(class, text, asc, enc, size)
				}
			}
		}
	}
	t, s := "no-tombstone", "no-shadow"
	if tombs > 0 {
		t = "tombstones"
	}
	if shadows > 0 {
		s = "shadowed"
	}
	outcome(r, fmt.Sprintf("%s/live=%d/%s/%s", kind, len(keys), t, s))
}

var outcomesSeen sync.Map

func outcome(r *vx.Run, class string) {
	if _, ok := outcomesSeen.Load(class); ok {
		return
	}
	outcomesSeen.Store(class, true)
	r.Seen("outcomes", class)
	r.Sample(map[string]string{"outcome_class": class})
}

func replayCase(r *vx.Run, kc kase) string {
	pb, _ := hex.DecodeString(kc.Prefix)
	p := string(pb)
	c := unhexContent(kc.Layers)
	ks := universe(p)
	keys, vals, _, _ := c.liveUnder(p, ks)
	l := build(kc.Kind, c)
	if l.close != nil {
		defer l.close()
	}
	if kc.Size == 0 {
		if n := l.count(pb); int(n) != len(keys) {
			return fmt.Sprintf("PrefixCount = %d, live entries %q", n, keys)
		}
		return ""
	}
	_, text := paged(r, l, p, keys, vals, kc.Dir == "ASC", kc.Enc, kc.Size)
	return text
}

// enumerate calls f for every assignment of options to positions (options[i] = number of choices).
func enumerate(options []int, workers int, r *vx.Run, what string, f func(choice []int)) {
	total := 1
	for _, o := range options {
		total *= o
	}
	var wg sync.WaitGroup
	var next int64
	for w := 0; w < workers; w++ {
		wg.Add(1)
		go func() {
			defer wg.Done()
			choice := make([]int, len(options))
			for {
				i := int(atomic.AddInt64(&next, 1)) - 1
				if i >= total {
					return
				}
				if i%64 == 0 && r.Expired(what) {
					return
				}
				x := i
				for j := range options {
					choice[j] = x % options[j]
					x /= options[j]
				}
				f(choice)
			}
		}()
	}
	wg.Wait()
}

// option sets: each option is the state of one key in every layer (index 0 = top).
func fullCells(nl int) [][]int {
	n := 1
	for i := 0; i < nl; i++ {
		n *= 3
	}
	var out [][]int
	for o := 0; o < n; o++ {
		c := make([]int, nl)
		x := o
		for l := 0; l < nl; l++ {
			c[l] = x % 3
			x /= 3
		}
		out = append(out, c)
	}
	return out
}

// topBottomCells: every combination in the top and the bottom layer, middle layers untouched.
func topBottomCells(nl int) [][]int {
	var out [][]int
	for t := 0; t < 3; t++ {
		for b := 0; b < 3; b++ {
			c := make([]int, nl)
			c[0], c[nl-1] = t, b
			if nl == 1 {
				c[0] = t
			}
			out = append(out, c)
		}
	}
	return out
}

// neighbourCells: reduced options for the keys outside the prefix: absent, tombstone on top of a
// live bottom entry, (n4: also live on top, live at the bottom).
func neighbourCells(nl int, n4 bool) [][]int {
	mk := func(t, b int) []int { c := make([]int, nl); c[0] = t; c[nl-1] = b; return c }
	out := [][]int{mk(absent, absent), mk(tomb, live)}
	if n4 {
		out = append(out, mk(live, absent), mk(absent, live))
	}
	return out
}

func main() {
	r := vx.Start("C07", "exploration")
	clog.SetLogLevel("crit")
	r.QuietStderr()
	debug.SetGCPercent(800)
	prefixes := []string{"a", "a\xff", "\xff", strings.Repeat("k", 129) + "m"} // the last: keys longer than any fixed scratch buffer
	r.Rule = "for each prefix in {\"a\", \"a\\xff\", \"\\xff\", a 130-byte prefix}: 7 keys around it (below, equal, +0x00, +b, +0xff, +0xff0xff, equal to the upper bound / second key below); every key absent/live/tombstone (3^7 contents) on memdb via ListHelper, via KVDB and via the merged iterator over one layer (thorough: goleveldb on disk too); merged view: 5 keys (below, P, P+0xff, P+0xff0xff, bound) over 2 layers (direct merged iterator) and 3 layers (real LocalDB with an open transaction), in-prefix keys take every absent/live/tombstone combination per layer (thorough: all 5 keys in-prefix combinations incl. P+0x00), neighbours a reduced set; each content listed with every page size 1..n+1 x {ASC,DESC} x {value,key+value,key} continuing from the last returned key, plus PrefixCount. evaluations = List calls. distinct = (driver, live count, tombstones present, shadowed entries present) classes"
	r.Assume = []string{
		"values are non-empty for live entries and embed their key (needed to continue a value-only listing)",
		"a listing ends at the first page shorter than the requested count",
		"the ListSeek single-entry mode is not a paged listing (covered by C09)",
	}
	r.DistinctSet = "outcomes"
	r.EvalCounter = "evaluations"
	lvlDir = filepath.Join(vx.Root(), ".work", "c07", fmt.Sprintf("ldb-%d", os.Getpid()))
	os.RemoveAll(lvlDir)
	os.MkdirAll(lvlDir, 0o755)
	defer os.RemoveAll(lvlDir)

	if raw, ok := r.Replaying(); ok {
		var kc kase
		json.Unmarshal(raw, &kc)
		if f := replayCase(r, kc); f != "" {
			fmt.Println("replay: FAIL", f)
			r.Violate("replay", f, kc, nil)
		} else {
			fmt.Println("replay: ok")
		}
		os.RemoveAll(lvlDir)
		r.Finish()
	}
	only := os.Getenv("C07_ONLY")
	workers := 8
	for _, p := range prefixes {
		ks := universe(p)
		// flat: single database
		kinds := []string{"memdb", "kvdb", "merged"}
		if !r.Quick() {
			kinds = append(kinds, "goleveldb")
		}
		for _, kind := range kinds {
			if only != "" && only != kind {
				continue
			}
			opts := make([]int, len(ks))
			for i := range opts {
				opts[i] = 3
			}
			w := workers
			enumerate(opts, w, r, kind+" flat", func(ch []int) {
				m := map[string]string{}
				for i, k := range ks {
					switch ch[i] {
					case live:
						m[k] = value(k, 0)
					case tomb:
						m[k] = ""
					}
				}
				checkContent(r, kind, p, ks, content{m})
			})
		}
		// layered
		var in, out []string
		for _, k := range ks {
			if strings.HasPrefix(k, p) {
				in = append(in, k)
			} else {
				out = append(out, k)
			}
		}
		// in = P, P+0x00, P+b, P+0xff, P+0xff0xff
		type plan struct {
			kind string
			nl   int
			keys []string
			opts [][][]int
		}
		var plans []plan
		if r.Quick() {
			plans = []plan{
				{"merged", 2, []string{in[0], in[3], in[4], out[0], out[1]},
					[][][]int{fullCells(2), fullCells(2), fullCells(2), neighbourCells(2, true), neighbourCells(2, true)}},
				{"localdb", 3, []string{in[0], in[3], in[4], out[0], out[1]},
					[][][]int{topBottomCells(3), fullCells(3), fullCells(3), neighbourCells(3, false), neighbourCells(3, false)}},
			}
		} else {
			plans = []plan{
				{"merged", 2, []string{in[0], in[1], in[3], in[4], out[0], out[1]},
					[][][]int{fullCells(2), fullCells(2), fullCells(2), fullCells(2), neighbourCells(2, true), neighbourCells(2, true)}},
				{"localdb", 3, []string{in[0], in[3], in[4], out[0], out[1]},
					[][][]int{fullCells(3), fullCells(3), fullCells(3), neighbourCells(3, true), neighbourCells(3, true)}},
				{"merged", 3, []string{in[0], in[1], in[3], in[4], out[0], out[1]},
					[][][]int{topBottomCells(3), fullCells(3), fullCells(3), topBottomCells(3), neighbourCells(3, false), neighbourCells(3, false)}},
			}
		}
		for _, pl := range plans {
			pl := pl
			if only != "" && only != pl.kind {
				continue
			}
			var opts []int
			for _, o := range pl.opts {
				opts = append(opts, len(o))
			}
			enumerate(opts, workers, r, fmt.Sprintf("%s %d layers", pl.kind, pl.nl), func(ch []int) {
				c := make(content, pl.nl)
				for l := range c {
					c[l] = map[string]string{}
				}
				for i, k := range pl.keys {
					for l, st := range pl.opts[i][ch[i]] {
						switch st {
						case live:
							c[l][k] = value(k, l)
						case tomb:
							c[l][k] = ""
						}
					}
				}
				checkContent(r, pl.kind, p, ks, c)
			})
		}
	}
	r.Floors["outcomes"] = 30
	r.Floors["contents"] = 10000
	os.RemoveAll(lvlDir)
	r.Finish()
}
