// C29 — block connection is crash-consistent.
// For every history (small block tree x delivery order) on a real node over the in-memory "vdb"
// backend, the global order of durable write units (batch writes and point writes of the chain
// database and the state database) is recorded, and for EVERY crash point the process is stopped
// after that many units (all later writes of every database are dropped), the modules are restarted
// on what was written, and the result is judged.
package main

import (
	clog "github.com/33cn/chain33/common/log"
	"verif/vnode/treex"
	"verif/vx"
)

func main() {
	r := vx.Start("C29", "fault_enumeration")
	clog.SetLogLevel("crit")
	r.QuietStderr()
	r.Rule = "histories = every rooted block tree with <= N blocks above the 12-block trunk (difficulty assignments with at most one heavy block, ties included) x every delivery order (linear growth, one- and two-block reorganisations, orphans first); for each history every crash point c in 0..U where U = number of durable write units (atomic batch or point write, chain DB and state DB in one global order): writes after unit c are dropped in every database, the node is closed, fresh modules are started on the surviving data. evaluations = crash points. distinct = (tree size, number of write units, reorganisation?) classes"
	r.Assume = []string{"process-stop model: what was written before the stop survives as a prefix of the global write order (the statement speaks of the process stopping between durable writes); loss of unsynced suffixes (power loss) is not judged", "the in-memory backend 'vdb' stands for the production LevelDB; it is the memdb backend validated by C06 plus a write log"}
	if r.Fork(16) {
		r.Floors["crash_points"] = 100
		r.Floors["distinct"] = 5
		r.EvalCounter = "crash_points"
		r.Finish()
	}
	treex.RunCrash(r, r.Pick(3, 4))
	r.Finish()
}
