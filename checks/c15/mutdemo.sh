#!/bin/bash
# usage: checks/c15/mutdemo.sh [-fixed] <file-in-repo> <python-regex> <replacement>
# Like tools/mut.sh, but (a) prints every `what:` line so that a NEW fingerprint is visible although the
# unchanged tree already fails with the reported genuine defects, and (b) with -fixed first applies
# checks/c15/proposed-fix.patch to the scratch copy so that "baseline exit 0 -> mutant exit 1" can be shown.
# Works on a plain copy of /repo under mktemp (never in /repo); the copy is removed afterwards.
set -u
FIX=0; if [ "${1:-}" = "-fixed" ]; then FIX=1; shift; fi
F=${1:-}; PAT=${2:-}; REP=${3:-}
export GOFLAGS=-mod=mod GOPROXY=off GOSUMDB=off GOTOOLCHAIN=local
WT=$(mktemp -d /tmp/c15mut-XXXXXX)
tag=$(echo "$WT" | tr '/' '_')
trap 'rm -rf $WT /verif/.work/c15/mut$tag /verif/bin/c15-mut$tag' EXIT
cp -a /repo/. $WT/ && rm -rf $WT/.git
if [ $FIX = 1 ]; then (cd $WT && patch -s -p1 < /verif/checks/c15/proposed-fix.patch) || exit 9; fi
if [ -n "$F" ]; then
python3 - "$WT/$F" "$PAT" "$REP" <<'PY' || exit 3
import re,sys
f,p,r=sys.argv[1:4]
s=open(f).read()
n=len(re.findall(p,s,flags=re.S))
if n!=1: print("pattern matches",n,"times"); sys.exit(3)
open(f,'w').write(re.sub(p,r,s,count=1,flags=re.S))
PY
fi
if [ -n "${MUT_TEST:-}" ]; then (cd $WT && go test -count=1 -vet=off $MUT_TEST 2>&1 | tail -3); fi
cd /verif && VERIF_REPO=$WT ./run.sh C15 quick > $WT/out.txt 2>&1; rc=$?
grep -E '^C15 tier|what:|HARNESS|VACUOUS' $WT/out.txt | cut -c1-260
echo "exit=$rc"
