// C15 — assets are conserved and balances never go negative.
//
// Explicit-state search (vx.Seq, BFS by replay on fresh objects) over all sequences of the real
// account.DB operations on an in-memory KV, for two small colliding alphabets:
//
//	hex : users {A (base58), H (0x.. lower case), H' (same 20 bytes, mixed case)}, executor E,
//	      amounts {1,2}: every operation with every combination of the two spellings;
//	lim : users {A, B}, executor E, amounts {0, 1, L-1, L} (L = per-operation limit
//	      MaxCoin*precision) and genesis grants {L-1, MaxTokenBalance-1, MaxTokenBalance}.
//
// After every step the ledger is read back from the KV (every stored record, decoded) and the
// clauses of the statement are evaluated on it; nothing else is demanded.
package main

import (
	"encoding/hex"
	"encoding/json"
	"fmt"
	"math"
	"math/big"
	"sort"
	"strings"

	"github.com/33cn/chain33/account"
	"github.com/33cn/chain33/common/address"
	clog "github.com/33cn/chain33/common/log"
	_ "github.com/33cn/chain33/system/address"
	"github.com/33cn/chain33/types"
	"verif/vx"
)

// ---- environment: a plain map KV (the state DB the operations write to) ----

type memKV struct{ m map[string][]byte }

func (k *memKV) Get(key []byte) ([]byte, error) {
	v, ok := k.m[string(key)]
	if !ok {
		return nil, types.ErrNotFound
	}
	return v, nil
}
func (k *memKV) Set(key, value []byte) error {
	k.m[string(key)] = append([]byte(nil), value...)
	return nil
}
func (k *memKV) Begin()        {}
func (k *memKV) Commit() error { return nil }
func (k *memKV) Rollback()     {}

func (k *memKV) dump() string {
	keys := make([]string, 0, len(k.m))
	for s := range k.m {
		keys = append(keys, s)
	}
	sort.Strings(keys)
	var sb strings.Builder
	for _, s := range keys {
		sb.WriteString(s)
		sb.WriteByte('=')
		sb.WriteString(hex.EncodeToString(k.m[s]))
		sb.WriteByte('\n')
	}
	return sb.String()
}

// ---- addresses ----

const (
	addrA  = "14ZTV2wHG3uPHnA5cBJmNxAxxvbzS7Z5mE"
	addrB  = "1EbDHAXpoiewjPLX9uqoz38HsKqMXayZrF"
	addrH  = "0xd83b69c56834e85e023b1738e69bfa2f0dd52905"
	addrHm = "0xD83B69c56834E85e023b1738E69BFA2F0dd52905" // same 20 bytes, mixed case
)

var (
	cfg   = types.NewChain33Config(types.GetDefaultCfgstring())
	execE string // miner executor ("ticket"): ExecIssueCoins / ExecDepositFrozen are allowed
	execX string // non-miner executor: issuance must be refused
	names map[string]string
)

func nm(a string) string {
	if n, ok := names[a]; ok {
		return n
	}
	return a
}

// ---- operations ----

type op struct {
	kind string
	a, b string // user addresses (b only for two-party operations)
	e    string // executor address ("" if none)
	amt  int64
	// expectations on success (see expectations())
	dSupply int64 // change of Σ main accounts
	dExec   int64 // change of (E.balance − Σ held under E)
	run     func(db *account.DB) (*types.Receipt, error)
}

func (o *op) name() string {
	s := o.kind + "(" + nm(o.a)
	if o.b != "" {
		s += "," + nm(o.b)
	}
	if o.e != "" {
		s += "," + nm(o.e)
	}
	return s + "," + amtName(o.amt) + ")"
}

var (
	lim   int64 // per-operation limit: amounts must be < lim
	maxTB = types.MaxTokenBalance
)

func amtName(a int64) string {
	switch {
	case a == lim:
		return "L"
	case a == lim-1:
		return "L-1"
	case a == maxTB:
		return "MAXBAL"
	case a == maxTB-1:
		return "MAXBAL-1"
	case a == math.MaxInt64:
		return "MAXINT64"
	}
	return fmt.Sprint(a)
}

// canonAddr is the harness's own notion of "one address": hex addresses compare case-insensitively
// (deliberately not address.FormatAddrKey, which is part of what is being checked).
func canonAddr(a string) string {
	if strings.HasPrefix(a, "0x") && len(a) == 42 {
		return strings.ToLower(a)
	}
	return a
}

// alias: two arguments that name one account with different spellings
func (o *op) alias() bool {
	return o.b != "" && o.a != o.b && canonAddr(o.a) == canonAddr(o.b)
}

// mk builds an operation together with what the statement lets it change on success:
// supply (Σ over the main accounts, executor addresses included — the coins held under an
// executor are mirrored in the executor address's own balance, so they are counted once)
// changes only for mint/burn/issue/grant; the difference "executor's own balance − Σ(balance+
// frozen) held under it" is preserved by every complete operation. One-sided primitives
// (a bare ExecDeposit / ExecWithdraw / ExecIssueCoins, or a plain Transfer/Mint/Burn/grant on
// the executor address itself) are halves of a complete operation: they move that difference
// by exactly their amount, by construction of the ledger.
func mk(kind, a, b, e string, amt int64) *op {
	o := &op{kind: kind, a: a, b: b, e: e, amt: amt}
	isE := func(x string) bool { return x == execE }
	switch kind {
	case "Transfer":
		o.run = func(db *account.DB) (*types.Receipt, error) { return db.Transfer(a, b, amt) }
		if isE(b) {
			o.dExec += amt
		}
		if isE(a) {
			o.dExec -= amt
		}
	case "TransferToExec":
		o.run = func(db *account.DB) (*types.Receipt, error) { return db.TransferToExec(a, e, amt) }
	case "TransferWithdraw":
		o.run = func(db *account.DB) (*types.Receipt, error) { return db.TransferWithdraw(a, e, amt) }
	case "ExecFrozen":
		o.run = func(db *account.DB) (*types.Receipt, error) { return db.ExecFrozen(a, e, amt) }
	case "ExecActive":
		o.run = func(db *account.DB) (*types.Receipt, error) { return db.ExecActive(a, e, amt) }
	case "ExecTransfer":
		o.run = func(db *account.DB) (*types.Receipt, error) { return db.ExecTransfer(a, b, e, amt) }
	case "ExecTransferFrozen":
		o.run = func(db *account.DB) (*types.Receipt, error) { return db.ExecTransferFrozen(a, b, e, amt) }
	case "ExecDeposit":
		o.run = func(db *account.DB) (*types.Receipt, error) { return db.ExecDeposit(a, e, amt) }
		o.dExec = -amt
	case "ExecDepositFrozen":
		o.run = func(db *account.DB) (*types.Receipt, error) { return db.ExecDepositFrozen(a, e, amt) }
		o.dSupply = amt
	case "ExecWithdraw":
		o.run = func(db *account.DB) (*types.Receipt, error) { return db.ExecWithdraw(e, a, amt) }
		o.dExec = amt
	case "Mint":
		o.run = func(db *account.DB) (*types.Receipt, error) { return db.Mint(a, amt) }
		o.dSupply = amt
		if isE(a) {
			o.dExec = amt
		}
	case "Burn":
		o.run = func(db *account.DB) (*types.Receipt, error) { return db.Burn(a, amt) }
		o.dSupply = -amt
		if isE(a) {
			o.dExec = -amt
		}
	case "ExecIssueCoins":
		o.run = func(db *account.DB) (*types.Receipt, error) { return db.ExecIssueCoins(e, amt) }
		o.dSupply = amt
		if isE(e) {
			o.dExec = amt
		}
	case "GenesisInit":
		o.run = func(db *account.DB) (*types.Receipt, error) { return db.GenesisInit(a, amt) }
		o.dSupply = amt
		if isE(a) {
			o.dExec = amt
		}
	case "GenesisInitExec":
		o.run = func(db *account.DB) (*types.Receipt, error) { return db.GenesisInitExec(a, amt, e) }
		o.dSupply = amt
	default:
		panic(kind)
	}
	return o
}

func alphabet(which string) []*op {
	var ops []*op
	add := func(kind, a, b, e string, amts ...int64) {
		for _, m := range amts {
			ops = append(ops, mk(kind, a, b, e, m))
		}
	}
	E := execE
	switch which {
	case "hex":
		H, M, A := addrH, addrHm, addrA
		for _, x := range []string{A, H, M} {
			add("GenesisInit", x, "", "", 2)
			add("GenesisInitExec", x, "", E, 2)
			add("TransferToExec", x, "", E, 1, 2)
			add("TransferWithdraw", x, "", E, 1)
			add("ExecFrozen", x, "", E, 1)
			add("ExecActive", x, "", E, 1)
		}
		for _, p := range [][2]string{{A, H}, {H, A}, {M, A}, {A, M}, {H, M}, {M, H}} {
			add("Transfer", p[0], p[1], "", 1)
		}
		for _, p := range [][2]string{{A, H}, {H, A}, {M, A}, {H, M}, {M, H}} {
			add("ExecTransfer", p[0], p[1], E, 1)
			add("ExecTransferFrozen", p[0], p[1], E, 1)
		}
		add("ExecDeposit", A, "", E, 1)
		add("ExecDeposit", M, "", E, 1)
		add("ExecDepositFrozen", A, "", E, 1)
		add("ExecDepositFrozen", M, "", E, 1)
		add("ExecWithdraw", A, "", E, 1)
		add("ExecWithdraw", H, "", E, 1)
		add("Mint", A, "", "", 1)
		add("Mint", M, "", "", 1)
		add("Burn", A, "", "", 1)
		add("Burn", H, "", "", 1)
		add("ExecIssueCoins", "", "", E, 1)
		add("ExecIssueCoins", "", "", execX, 1)
	case "lim":
		A, B := addrA, addrB
		L := lim
		add("GenesisInit", A, "", "", L-1, maxTB-1, maxTB, math.MaxInt64)
		add("GenesisInit", B, "", "", maxTB)
		add("GenesisInitExec", A, "", E, L-1, L)
		add("Transfer", A, B, "", 0, 1, L-1, L)
		add("Transfer", B, A, "", 1, L-1)
		add("Transfer", A, A, "", 1)
		add("Transfer", A, E, "", 1)
		add("TransferToExec", A, "", E, 0, 1, L-1, L)
		add("TransferToExec", B, "", E, L-1)
		add("TransferWithdraw", A, "", E, 0, 1, L-1, L)
		add("ExecFrozen", A, "", E, 0, 1, L-1, L)
		add("ExecActive", A, "", E, 0, 1, L-1, L)
		add("ExecFrozen", E, "", E, 1)
		// the executor's own address in the place of the user (it is an account like any other)
		add("ExecDepositFrozen", E, "", E, 1)
		add("ExecDeposit", E, "", E, 1)
		add("ExecWithdraw", E, "", E, 1)
		add("ExecActive", E, "", E, 1)
		add("ExecTransfer", A, E, E, 1)
		add("ExecTransfer", E, A, E, 1)
		add("ExecTransferFrozen", A, E, E, 1)
		add("TransferToExec", E, "", E, 1)
		add("TransferWithdraw", E, "", E, 1)
		add("ExecTransfer", A, B, E, 0, 1, L-1, L)
		add("ExecTransfer", B, A, E, 1)
		add("ExecTransfer", A, A, E, 1)
		add("ExecTransferFrozen", A, B, E, 0, 1, L-1, L)
		add("ExecDeposit", A, "", E, 1, L-1)
		add("ExecDepositFrozen", A, "", E, 0, 1, L-1, L)
		add("ExecWithdraw", A, "", E, 1, L-1)
		add("Mint", A, "", "", 0, 1, L-1, L)
		add("Burn", A, "", "", 0, 1, L-1, L)
		add("ExecIssueCoins", "", "", E, 1, L-1, L)
		add("ExecIssueCoins", "", "", execX, 1)
	}
	return ops
}

// ---- the ledger as read back from the KV ----

type ledger struct {
	dump   string
	supply *big.Int // Σ balance+frozen over main accounts
	ownE   *big.Int // E's own balance
	heldE  *big.Int // Σ balance+frozen of the accounts held under E
	bad    string   // negative field / undecodable record / un-normalised hex key
}

func (l *ledger) diffE() *big.Int { return new(big.Int).Sub(l.ownE, l.heldE) }

type sys struct {
	db     *account.DB
	kv     *memKV
	prefix string
	ops    []*op
	r      *vx.Run
}

func (s *sys) read() *ledger {
	l := &ledger{dump: s.kv.dump(), supply: new(big.Int), ownE: new(big.Int), heldE: new(big.Int)}
	ep := s.prefix + "exec-"
	for k, v := range s.kv.m {
		var a types.Account
		if err := types.Decode(v, &a); err != nil {
			l.bad = "undecodable record " + k
			continue
		}
		// negative = below zero or wrapped int64; overflow = above the ledger's balance limit
		// (safeAdd refuses any credit that would exceed MaxTokenBalance)
		if a.Balance < 0 || a.Frozen < 0 || a.Balance > maxTB || a.Frozen > maxTB {
			l.bad = fmt.Sprintf("record %s has balance=%d frozen=%d (limit %d)", strings.TrimPrefix(k, s.prefix), a.Balance, a.Frozen, maxTB)
		}
		sum := new(big.Int).Add(big.NewInt(a.Balance), big.NewInt(a.Frozen))
		if strings.HasPrefix(k, ep) {
			if strings.HasPrefix(k, ep+execE+":") {
				l.heldE.Add(l.heldE, sum)
			}
			continue
		}
		l.supply.Add(l.supply, sum)
		if k == s.prefix+execE {
			l.ownE.SetInt64(a.Balance)
		}
	}
	return l
}

// same account under both spellings, main and under E
func (s *sys) spellings() string {
	a, b := s.db.LoadAccount(addrH), s.db.LoadAccount(addrHm)
	if a.Balance != b.Balance || a.Frozen != b.Frozen {
		return fmt.Sprintf("LoadAccount(H)=%d/%d but LoadAccount(H')=%d/%d", a.Balance, a.Frozen, b.Balance, b.Frozen)
	}
	a, b = s.db.LoadExecAccount(addrH, execE), s.db.LoadExecAccount(addrHm, execE)
	if a.Balance != b.Balance || a.Frozen != b.Frozen {
		return fmt.Sprintf("LoadExecAccount(H,E)=%d/%d but LoadExecAccount(H',E)=%d/%d", a.Balance, a.Frozen, b.Balance, b.Frozen)
	}
	n := 0
	for k := range s.kv.m {
		if strings.Contains(strings.ToLower(k), addrH) && !strings.HasPrefix(k, s.prefix+"exec-") {
			n++
		}
	}
	if n > 1 {
		return fmt.Sprintf("%d main records for the one hex address", n)
	}
	return ""
}

func errName(err error) string {
	if err == nil {
		return "ok"
	}
	return err.Error()
}

// apply runs one operation and evaluates the statement's clauses on the step. The returned text
// starts with a stable class (used as fingerprint) followed by " | " and the details.
func (s *sys) apply(i int) string {
	o := s.ops[i]
	pre := s.read()
	var err error
	pan := vx.Catch(func() { _, err = o.run(s.db) })
	post := s.read()
	tag := o.kind
	if o.alias() {
		tag += ":two-spellings-of-one-account"
	}
	if pan != "" {
		cls := "panic:" + tag + ":" + vx.Norm(strings.TrimPrefix(pan, "panic: "), 40)
		if post.dump != pre.dump {
			cls += ":after-partial-write"
		}
		s.r.Seen("outcomes", o.kind+":panic")
		return cls + " | " + o.name() + " panicked (" + pan + "); ledger changed: " + fmt.Sprint(post.dump != pre.dump)
	}
	s.r.Seen("outcomes", o.kind+":"+errName(err))
	if err != nil {
		if post.dump != pre.dump {
			return "error-changes-state:" + tag + ":" + errName(err) + " | " + o.name() + " returned " + errName(err) + " but the stored records changed"
		}
		return ""
	}
	if post.bad != "" {
		return "negative-or-overflow:" + tag + " | after " + o.name() + " " + post.bad
	}
	if d := new(big.Int).Sub(post.supply, pre.supply); d.Cmp(big.NewInt(o.dSupply)) != 0 {
		return "supply-changed:" + tag + " | " + o.name() + " changed total supply by " + d.String() + ", allowed " + fmt.Sprint(o.dSupply)
	}
	if d := new(big.Int).Sub(post.diffE(), pre.diffE()); d.Cmp(big.NewInt(o.dExec)) != 0 {
		return "exec-balance-vs-held:" + tag + " | " + o.name() + " moved (E's own balance − Σ held under E) by " + d.String() + ", the operation accounts for " + fmt.Sprint(o.dExec) +
			fmt.Sprintf(" (own %s held %s -> own %s held %s)", pre.ownE, pre.heldE, post.ownE, post.heldE)
	}
	return ""
}

func harness(r *vx.Run, which, ledgerKind string, depth int) *vx.Seq[*sys] {
	ops := alphabet(which)
	q := &vx.Seq[*sys]{Run: r, Name: which + "-" + ledgerKind, NumOps: len(ops), MaxDepth: depth, Workers: 8}
	q.New = func() *sys {
		kv := &memKV{m: map[string][]byte{}}
		s := &sys{kv: kv, ops: ops, r: r}
		if ledgerKind == "coins" {
			s.db = account.NewCoinsAccount(cfg)
			s.db.SetDB(kv)
			s.prefix = "mavl-" + cfg.GetCoinExec() + "-" + cfg.GetCoinSymbol() + "-"
		} else {
			db, err := account.NewAccountDB(cfg, "token", "TEST", kv)
			if err != nil {
				panic(err)
			}
			s.db = db
			s.prefix = "mavl-token-TEST-"
		}
		return s
	}
	q.OpName = func(i int) string { return ops[i].name() }
	q.Apply = func(s *sys, i int) string { return s.apply(i) }
	q.Check = func(s *sys) string {
		l := s.read()
		if l.bad != "" {
			return "negative-or-overflow:state | " + l.bad
		}
		if which == "hex" {
			if m := s.spellings(); m != "" {
				return "hex-case-splits-account | " + m
			}
		}
		return ""
	}
	q.Canon = func(s *sys) string { return vx.H(s.kv.dump()) }
	q.FP = func(what string, h []int) string {
		if i := strings.Index(what, " | "); i > 0 {
			return what[:i]
		}
		return vx.Norm(what, 60)
	}
	return q
}

func main() {
	clog.SetLogLevel("crit")
	r := vx.Start("C15", "model_checking")
	lim = types.MaxCoin * cfg.GetCoinPrecision()
	execE = address.ExecAddress(cfg.ExecName("ticket"))
	execX = address.ExecAddress(cfg.ExecName("vfx"))
	names = map[string]string{addrA: "A", addrB: "B", addrH: "H", addrHm: "H'", execE: "E", execX: "X"}
	r.Rule = "BFS over all sequences of the real account.DB operations (Transfer, TransferToExec, TransferWithdraw, ExecFrozen, ExecActive, ExecTransfer, ExecTransferFrozen, ExecDeposit, ExecDepositFrozen, ExecWithdraw, Mint, Burn, ExecIssueCoins, GenesisInit, GenesisInitExec) on a fresh in-memory KV, replayed from the empty ledger; alphabet 'hex' = users {A, H=0x..lower, H'=same bytes mixed case} x executor E x amounts {1,2} with every ordered pair of spellings; alphabet 'lim' = users {A,B} x E x amounts {0,1,L-1,L} and grants {L-1,MAXBAL-1,MAXBAL,MAXINT64}; state = sorted dump of all stored account records; after every step every stored record is decoded and the clauses are evaluated. distinct = (operation kind, result) classes observed"
	r.Assume = []string{
		"total supply is Σ(balance+frozen) over the main accounts (executor addresses included): coins held under an executor are mirrored in the executor address's own balance and counted once there",
		"a bare ExecDeposit/ExecWithdraw/ExecIssueCoins and a plain Transfer/Mint/Burn/grant on the executor address itself are one-sided halves by design: they are required to move (executor balance − Σ held) by exactly their amount; every other operation must leave it unchanged",
		"amounts are non-negative (negative grants are a genesis configuration error, not enumerated)",
		"address driver formats eth addresses with ForkFormatAddressKey active (no crypto context = current rule)",
		"a panic is reported as a failed step (the code comments call these unreachable); its class says whether records were already written",
	}
	r.DistinctSet = "outcomes"
	type hcfg struct {
		which, kind string
		depth       int
	}
	hs := []hcfg{
		{"hex", "coins", r.Pick(4, 6)},
		{"lim", "token", r.Pick(4, 6)},
	}
	if !r.Quick() {
		hs = append(hs, hcfg{"hex", "token", 5}, hcfg{"lim", "coins", 5})
	}
	if raw, ok := r.Replaying(); ok {
		var c struct {
			Harness string
			Hist    []int
		}
		json.Unmarshal(raw, &c)
		p := strings.SplitN(c.Harness, "-", 2)
		if len(p) != 2 {
			fmt.Println("REPLAY-ERROR bad harness name")
			return
		}
		q := harness(r, p[0], p[1], len(c.Hist))
		if f := q.ReplayHist(c.Hist); f != "" {
			fmt.Println("replay: FAIL", f)
			r.Violate("replay", f, c, nil)
		} else {
			fmt.Println("replay: ok")
		}
		r.Finish()
	}
	for _, h := range hs {
		harness(r, h.which, h.kind, h.depth).Explore()
	}
	r.Floors["outcomes"] = 30
	r.Floors["states"] = 1000
	r.Finish()
}
