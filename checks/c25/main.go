// C25 — best chain converges to the heaviest branch for any delivery order.
// Every small block tree x every difficulty assignment with a unique heaviest tip x EVERY delivery
// order, on real nodes (queue + executor + mavl store + blockchain + mempool + solo) over in-memory
// databases; oracle: the node equals a fresh node that received only the winning branch in order.
package main

import (
	clog "github.com/33cn/chain33/common/log"
	"verif/vnode/treex"
	"verif/vx"
)

func main() {
	r := vx.Start("C25", "model_checking")
	clog.SetLogLevel("crit")
	r.QuietStderr()
	r.Rule = "every rooted block tree with <= N blocks above a 12-block trunk x every assignment of two difficulty values with a unique heaviest tip; blocks produced once on a producer node; EVERY delivery order (n!) to a fresh node as the real EventBroadcastAddBlock / EventSyncBlock messages, each also with one duplicated delivery; refused blocks are offered again. state = (tree, order, kind). distinct = (tree size, refusals, kind, depth of the winning branch) classes"
	r.Assume = []string{"ties for the heaviest tip are not judged (the statement requires a unique heaviest branch)", "node modules run free on the real queue; observations are made after every delivery has been answered", "MainHash/MainHeight annotations of returned blocks are normalised (they equal the block's own hash/height and only tell whether the block came from the cache or the database)", "hash-addressed storage (block tables, TD) may hold extra side-branch entries; sequence records are judged by C26"}
	if r.Fork(16) {
		r.Floors["executions"] = 50
		r.Floors["distinct"] = 8
		r.Finish()
	}
	treex.RunConverge(r, "C25", r.Pick(3, 5), !r.Quick())
	r.Finish()
}
